#!/bin/sh
# MANIFEST.setup_cmd: builds the framework offline from files on disk.
set -e
cd "$(dirname "$0")"
export GOFLAGS=-mod=mod GOPROXY=off GOSUMDB=off GOTOOLCHAIN=local
mkdir -p bin work evidence replays
(cd extract && go build -o ../bin/extract .)
./bin/extract "${OAP_REPO:-/repo}" lean/OAP/Gen >/dev/null
cp "${OAP_REPO:-/repo}/go/go.sum" harness/go.sum
(cd harness && go build -tags verif -o ../bin/harness .)
(cd lean && lake build OAP oapdriver)
echo setup-ok
