"""T3 for the ConnThreads view: the connection-level hooks of a scenario run -> lines for the compiled Lean driver
(`connthreads.replay ws=<0|1> ev=…`), one line per CONNECTION (every connection hook carries the connection id as its
first argument). The translator is dumb: it keeps the seven labels, splits by connection id and encodes; which unobserved
steps happened in between is decided in Lean (OAP/Model/Client/ConnThreadsReplay.lean).

    python3 conformance_conn.py result.json [...]      # one JSON per scenario run, prints name + driver verdict
"""
import json, os, re, subprocess, sys, time

LABELS = {"conn.read": "read", "conn.addPacket:drop": "drop", "conn.write:before-enqueue": "before",
          "conn.write:enqueued": "enq", "conn.reader:exit": "rexit", "conn.writer:exit": "wexit",
          "conn.dispatcher:exit": "dexit"}

# WriteQueueSize is a dial option, not logged by any hook. Where it is known (from the scenario sources) the replay is exact
# about Writes refused with "write queue full" (model: `send` -> rejected, needs wq = wcap); elsewhere the model runs with a
# generous write queue and a refused Write is consumed without a model step (counted as queueFullNotReplayed in the verdict).
KNOWN_WCAP = {"c12/queue-1": 1, "c12/queue-1-gzip": 1, "c12/stalled-peer": 2, "c12/simultaneous-writers-stalled-peer": 2}

MAX_EVENTS = 400
PER_LOG_TIMEOUT = 8


def parse(hooks):
    """{conn id: [(seq, gid, short label, [args after the conn id])]} in log order"""
    conns = {}
    for h in hooks or []:
        m = re.match(r"(\d+) g(\d+) (\S+) ?(.*)", h)
        if not m or m.group(3) not in LABELS:
            continue
        args = [int(a) for a in m.group(4).split(",") if a != ""]
        if not args:
            continue
        conns.setdefault(args[0], []).append((int(m.group(1)), int(m.group(2)), LABELS[m.group(3)], args[1:]))
    return conns


def encode(evs):
    parts = []
    for _, gid, lab, args in evs:
        if lab == "read":
            parts.append(f"read:{args[0] if args else 0}")
        elif lab == "before":
            parts.append(f"before:{gid}")
        elif lab == "enq":
            parts.append(f"enq:{gid}:{args[0] if args else 0}")
        else:
            parts.append(lab)
    return ";".join(parts)


def conn_lines(result):
    """[(conn id, events, driver line)] of one scenario result"""
    ws = 1 if result.get("transport") == "ws" else 0
    wc = KNOWN_WCAP.get(result.get("name"))
    opt = f" wcap={wc}" if wc is not None else ""
    return [(c, evs, f"connthreads.replay ws={ws}{opt} ev={encode(evs)}") for c, evs in sorted(parse(result.get("hooks")).items())]


def driver_path(lean_dir):
    return os.path.join(lean_dir, ".lake", "build", "bin", "oapdriver")


def describe(evs, verdict):
    if verdict.startswith("ok "):
        return "conforms"
    m = re.match(r"DIVERGES at event (\d+) ", verdict)
    if m and int(m.group(1)) < len(evs):
        seq, gid = evs[int(m.group(1))][0], evs[int(m.group(1))][1]
        return verdict.split(" | ")[0] + f" [hook seq {seq}, g{gid}]"
    return verdict.split(" | ")[0]


def run_line(lean_dir, line):
    """driver verdict of one line; None on timeout; raises RuntimeError if the driver fails"""
    try:
        p = subprocess.run([driver_path(lean_dir)], input=line + "\n", capture_output=True, text=True, timeout=PER_LOG_TIMEOUT)
    except subprocess.TimeoutExpired:
        return None
    o = p.stdout.splitlines()
    if p.returncode != 0 or len(o) != 1:
        raise RuntimeError((p.stderr or p.stdout or "")[-300:])
    return o[0]


def check(results, lean_dir):
    """{'checked': n, 'mismatches': [text], 'skipped': [text]} (+ 'verdicts', 'times')"""
    skipped, mism, verdicts, times = [], [], [], []
    for r in results:
        if r.get("status") not in ("ok", "race") or not r.get("hooks"):
            continue
        for c, evs, line in conn_lines(r):
            nm = f"{r['name']}[{r['transport']},v{r['version']},seed={r['seed']}]#conn{c}"
            if len(evs) > MAX_EVENTS:
                skipped.append(f"{nm}: {len(evs)} connection events, above the replay bound of {MAX_EVENTS}")
                continue
            t0 = time.time()
            try:
                o = run_line(lean_dir, line)
            except RuntimeError as e:
                return {"checked": 0, "mismatches": [f"model driver failed on the connection replay of {nm}: {e}"], "skipped": skipped}
            times.append((time.time() - t0, len(evs), nm))
            if o is None:
                skipped.append(f"{nm}: replay not finished within {PER_LOG_TIMEOUT} s, not a verdict")
                continue
            verdicts.append((nm, o))
            if not o.startswith("ok "):
                mism.append(f"{nm}: {describe(evs, o)} || {o[:600]}")
    return {"checked": len(verdicts), "mismatches": mism, "skipped": skipped, "verdicts": verdicts, "times": times}


if __name__ == "__main__":
    lean = os.environ.get("OAP_LEAN_DIR", os.path.join(os.path.dirname(os.path.abspath(__file__)), "..", "lean"))
    verbose = "-v" in sys.argv
    rc, tot, alltimes = 0, 0, []
    for f in [a for a in sys.argv[1:] if not a.startswith("-")]:
        try:
            r = json.load(open(f))
        except Exception as e:
            print(f"{f}: unreadable ({e})")
            continue
        res = check([r], lean)
        tag = f"{r.get('name')}[{r.get('transport')},seed={r.get('seed')}]"
        tot += res["checked"]
        alltimes += res.get("times", [])
        nconf = res["checked"] - len(res["mismatches"])
        print(f"{tag}: status={r.get('status')} connections checked={res['checked']} conform={nconf} skipped={len(res['skipped'])}")
        for m in res["mismatches"]:
            print("   MISMATCH " + m)
            rc = 1
        for s in res["skipped"]:
            print("   skipped " + s)
        if verbose:
            for n, o in res.get("verdicts", []):
                print("   " + n + ": " + o[:160])
    if alltimes:
        ts = sorted(t for t, _, _ in alltimes)
        worst = max(alltimes)
        print(f"total connection logs replayed: {len(ts)}; time per log: median {ts[len(ts)//2]:.3f} s, max {ts[-1]:.3f} s ({worst[1]} events, {worst[2]})")
    sys.exit(rc)
