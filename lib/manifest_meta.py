"""Texts for MANIFEST.json (kept next to the per-property configuration)."""
BASE_OFF = "cd /repo/go && GOFLAGS=-mod=mod GOPROXY=off GOSUMDB=off go test -vet=off -count=1 -timeout 25m ./..."
HOOKS = {
    "guard": "verif",
    "enable": "go build -tags verif (the harness module in /verif/harness replaces the library by /repo/go and is always built with -tags verif)",
    "baseline_off_cmd": BASE_OFF,
    "source_commits": ["98cebac"],
    "add_only": True,
}
NOTES = ("Every check: ./check <id> [--tier quick|thorough] [--replay FILE]; honours VERIF_SEED and VERIF_TIER. "
         "Technique for every property: machine-checked proof in Lean 4 over a hand-written model, tied to the source by "
         "differential execution and regenerated facts (DESIGN.md). KNOWN_FINDINGS.txt lists recorded and repaired defects.")
CODEC_NOTE = ("Trusted: Lean kernel; axioms propext/Classical.choice/Quot.sound only (audited each run); the Go harness, the Lean driver's "
              "parsing/printing and the extractor; outside the exhaustively compared finite domains the model/code tie is sampling. ")
CHECKS = {
    "C18": {
        "text": "Theorems for all inputs (bijection on the 4-bit domain and on all byte pairs, length guard, registry acceptance) over a model whose "
                "bit-level expressions are regenerated from the Go source on every run; the model is compared with the real code on the ENTIRE "
                "finite domain (all 2^16 tuples, all 2^16 pairs, all 256 versions), so for this property the tie is exhaustive, not sampled.",
        "design_ref": "DESIGN.md section 7, C18",
        "note": CODEC_NOTE + "Registry = versions registered by importing go/v1 and go/v2.",
        "technique": "Lean 4 proof (decide +kernel over complete byte tables, lifted) + exhaustive model/code differential run + regenerated expressions",
    },
    "C09": {
        "text": "Theorems for all inputs: parser soundness (anything accepted is the canonical encoding of the pairs returned: truncated blocks, "
                "non-canonical two-byte lengths and dangling keys are rejected), completeness, totality/termination, length round trip for every "
                "representable length, budget, whole-pairs (longest fitting prefix of the valid entries in visiting order), determinism (sorted "
                "visiting order makes the block a function of the map), Set guards, and the map round trip with an arbitrary lower-casing function. "
                "The model uses the length-prefix expressions regenerated from the Go source; model and code are compared on all 2^16 two-byte "
                "prefixes, (thorough) every string length 0..32768, and tens of thousands of generated/malformed blocks and maps.",
        "design_ref": "DESIGN.md section 7, C09",
        "note": CODEC_NOTE + "strings.ToLower is an arbitrary function in the theorems (real one applied by the comparator); Go map and sort.Strings semantics modelled.",
        "technique": "Lean 4 proof (well-founded parser, loop invariants, mergeSort uniqueness) + model/code differential run (partly exhaustive) + regenerated expressions",
    },
    "C01": {
        "text": "Theorems over the frame model (both versions, gzip as an oracle with a stated soundness assumption): encoding errors for unknown types "
                "and over-limit bodies, and (growing) the one-shot round trip composed from layout conformance (C02), the metadata round trip (C09) and "
                "the oracle assumption. The model's bit-level expressions and constants are regenerated from the source; every Pack/UnpackBytes result of "
                "the real code is compared with the model over all types x verify x metadata x boundary body lengths x thresholds, and the round-trip "
                "relation itself is evaluated on the real code (one-shot and streaming decoders).",
        "design_ref": "DESIGN.md section 7, C01",
        "note": CODEC_NOTE + "compress/gzip is an oracle; DEFLATE/CRC are the standard library (trusted, checked per sample with the standard reader).",
        "technique": "Lean 4 proof over a hand-written frame model + model/code differential run with gzip oracle values + regenerated expressions",
    },
    "C02": {
        "text": "An independent arithmetic specification of the published layout (Spec.encode/Spec.decode, div/mod only) in Lean; theorems relating the "
                "model of Pack/UnpackBytes to it (rejection of unknown type nibbles for all 256 first bytes; conformance theorems growing); the real "
                "encoder is compared byte for byte with the Lean spec and with a second independent Go spec encoder, the real decoder field for field "
                "on spec frames over all 16 nibbles x flags x reserve x extremes.",
        "design_ref": "DESIGN.md section 7, C02",
        "note": CODEC_NOTE + "The layout spec is transcribed from the property text.",
        "technique": "Lean 4 proof against an independent layout spec + three-way differential run (Go code, Go spec encoder, Lean spec)",
    },
    "C03": {
        "text": "The ring buffer model (written after the dependency's source, incl. growth and the split copy) is proved to refine a byte queue for every "
                "capacity, offset and wrap position (length, peek, retrieve, write; read/peekUintN and the decoder-level geometry/chunking theorems "
                "are being added); the resumable v1/v2 decoders are modelled statement by statement over that ring. Real ring operations and real "
                "streaming decodes are compared with the model per operation/per call over every cut position, ring capacities 1..4096 and every "
                "wrap offset of every header field, and the property (chunked = whole = frame list) is evaluated on the real code.",
        "design_ref": "DESIGN.md section 7, C03",
        "note": CODEC_NOTE + "Ring buffer library modelled, not verified. TCP half: runtime (kernel segmentation, net.Conn.Read), partial.",
        "technique": "Lean 4 refinement proof (ring buffer -> byte queue) + per-operation model/code differential run over geometries and chunkings",
    },
    "C04": {
        "text": "Totality theorems (no modelled panic reachable, termination by well-founded recursion on the remaining bytes) for the handshake, metadata, "
                "gzip-glue and typed-error decoders for ALL byte strings, the gzip allocation bound independent of ISIZE, and (as the agents' proofs land: "
                "C04a one-shot frame decoder, C04b streaming decoder no-panic + progress). Every decoding entry point of the real code is run on a "
                "structure-aware malformed stream under recover, verdicts and fields compared with the model, allocation measured per call.",
        "design_ref": "DESIGN.md section 7, C04",
        "note": CODEC_NOTE + "Go's allocator/GC are runtime: allocation is measured, the bound proved is the model's ghost.",
        "technique": "Lean 4 totality proofs over models with explicit panic outcomes + malformed-input differential run + per-call allocation measurement",
    },
    "C10": {
        "text": "Theorems about the glue around compress/gzip with the library as an explicit oracle: Decompress succeeds iff the oracle read the whole "
                "stream with valid checksum and then returns the full content, error otherwise (never truncated data as success), compress-then-"
                "decompress identity under the oracle's soundness, allocation bounded by 1032*len+512, and the frame-level flag rule (gzip flag iff "
                "threshold != 0 and reached; body = compressor output) from the regenerated threshold condition. The real Decompress is compared with "
                "the standard reader's verdict on every truncation, corruptions, wrong trailers, multi-member streams.",
        "design_ref": "DESIGN.md section 7, C10",
        "note": CODEC_NOTE + "DEFLATE/CRC-32 are compress/gzip's (trusted, used as the oracle). Concurrent pool use: sampled schedules only.",
        "technique": "Lean 4 proof of the gzip glue over an oracle + differential run against the standard library reader + regenerated threshold condition",
    },
    "C11": {
        "text": "A world model with header pools holding ARBITRARY stale headers and per-connection parked headers/rings; theorems: headerPool.Get resets "
                "every field (field and reset lists regenerated from the source), every operation's result in any world equals its isolated result, "
                "one-shot operations touch no connection state, a streaming step only its own, and by induction every interleaved history over any "
                "number of connections yields the isolated results. Real histories (incl. failing and partial decodes) are compared with the "
                "stateless model and with isolated shadow connections.",
        "design_ref": "DESIGN.md section 7, C11",
        "note": CODEC_NOTE + "sync.Pool semantics trusted; goroutine interleavings sampled.",
        "technique": "Lean 4 non-interference proof by induction over histories + history-based differential run + regenerated struct/reset tables",
    },
    "C19": {
        "text": "Theorems: for every schedule of atomic add-and-fetch steps (any goroutines, any interleaving, any length below 2^32) the ids issued are "
                "exactly 1..N in issue order, hence distinct and increasing; options cannot override a request's fresh id; response/push ids come from "
                "the caller. The statement lists of the generator and the six constructors are regenerated from the source and checked by `decide`; "
                "constructor/option mixes and G x M concurrent calls are compared with the model and the property on the real code.",
        "design_ref": "DESIGN.md section 7, C19",
        "note": CODEC_NOTE + "sync/atomic trusted.",
        "technique": "Lean 4 proof by induction over schedules + regenerated source-structure facts + differential and concurrent runs",
    },
}
NOT_CLAIMED = {}
