"""Texts for MANIFEST.json (kept next to the per-property configuration)."""
BASE_OFF = "cd /repo/go && GOFLAGS=-mod=mod GOPROXY=off GOSUMDB=off go test -vet=off -count=1 -timeout 25m ./..."
HOOKS = {
    "guard": "verif",
    "enable": "go build -tags verif (the harness module in /verif/harness replaces the library by /repo/go and is always built with -tags verif)",
    "baseline_off_cmd": BASE_OFF,
    "source_commits": ["98cebac"],
    "add_only": True,
}
NOTES = ("Every check: ./check <id> [--tier quick|thorough] [--replay FILE]; honours VERIF_SEED and VERIF_TIER. "
         "Technique for every property: machine-checked proof in Lean 4 over a hand-written model, tied to the source by "
         "differential execution and regenerated facts (DESIGN.md). KNOWN_FINDINGS.txt lists recorded and repaired defects.")
CODEC_NOTE = ("Trusted: Lean kernel; axioms propext/Classical.choice/Quot.sound only (audited each run); the Go harness, the Lean driver's "
              "parsing/printing and the extractor; outside the exhaustively compared finite domains the model/code tie is sampling. ")
CHECKS = {
    "C18": {
        "text": "Theorems for all inputs (bijection on the 4-bit domain and on all byte pairs, length guard, registry acceptance) over a model whose "
                "bit-level expressions are regenerated from the Go source on every run; the model is compared with the real code on the ENTIRE "
                "finite domain (all 2^16 tuples, all 2^16 pairs, all 256 versions), so for this property the tie is exhaustive, not sampled.",
        "design_ref": "DESIGN.md section 7, C18",
        "note": CODEC_NOTE + "Registry = versions registered by importing go/v1 and go/v2.",
        "technique": "Lean 4 proof (decide +kernel over complete byte tables, lifted) + exhaustive model/code differential run + regenerated expressions",
    },
    "C09": {
        "text": "Theorems for all inputs: parser soundness (anything accepted is the canonical encoding of the pairs returned: truncated blocks, "
                "non-canonical two-byte lengths and dangling keys are rejected), completeness, totality/termination, length round trip for every "
                "representable length, budget, whole-pairs (longest fitting prefix of the valid entries in visiting order), determinism (sorted "
                "visiting order makes the block a function of the map), Set guards, and the map round trip with an arbitrary lower-casing function. "
                "The model uses the length-prefix expressions regenerated from the Go source; model and code are compared on all 2^16 two-byte "
                "prefixes, (thorough) every string length 0..32768, and tens of thousands of generated/malformed blocks and maps.",
        "design_ref": "DESIGN.md section 7, C09",
        "note": CODEC_NOTE + "strings.ToLower is an arbitrary function in the theorems (real one applied by the comparator); Go map and sort.Strings semantics modelled.",
        "technique": "Lean 4 proof (well-founded parser, loop invariants, mergeSort uniqueness) + model/code differential run (partly exhaustive) + regenerated expressions",
    },
    "C01": {
        "text": "Theorems over the frame model (both versions, gzip as an oracle with a stated soundness assumption): encoding errors for unknown types "
                "and over-limit bodies, and (growing) the one-shot round trip composed from layout conformance (C02), the metadata round trip (C09) and "
                "the oracle assumption. The model's bit-level expressions and constants are regenerated from the source; every Pack/UnpackBytes result of "
                "the real code is compared with the model over all types x verify x metadata x boundary body lengths x thresholds, and the round-trip "
                "relation itself is evaluated on the real code (one-shot and streaming decoders).",
        "design_ref": "DESIGN.md section 7, C01",
        "note": CODEC_NOTE + "compress/gzip is an oracle; DEFLATE/CRC are the standard library (trusted, checked per sample with the standard reader).",
        "technique": "Lean 4 proof over a hand-written frame model + model/code differential run with gzip oracle values + regenerated expressions",
    },
    "C02": {
        "text": "An independent arithmetic specification of the published layout (Spec.encode/Spec.decode, div/mod only) in Lean; theorems relating the "
                "model of Pack/UnpackBytes to it (rejection of unknown type nibbles for all 256 first bytes; conformance theorems growing); the real "
                "encoder is compared byte for byte with the Lean spec and with a second independent Go spec encoder, the real decoder field for field "
                "on spec frames over all 16 nibbles x flags x reserve x extremes.",
        "design_ref": "DESIGN.md section 7, C02",
        "note": CODEC_NOTE + "The layout spec is transcribed from the property text.",
        "technique": "Lean 4 proof against an independent layout spec + three-way differential run (Go code, Go spec encoder, Lean spec)",
    },
    "C03": {
        "text": "The ring buffer model (written after the dependency's source, incl. growth and the split copy) is proved to refine a byte queue for every "
                "capacity, offset and wrap position (length, peek, retrieve, write; read/peekUintN and the decoder-level geometry/chunking theorems "
                "are being added); the resumable v1/v2 decoders are modelled statement by statement over that ring. Real ring operations and real "
                "streaming decodes are compared with the model per operation/per call over every cut position, ring capacities 1..4096 and every "
                "wrap offset of every header field, and the property (chunked = whole = frame list) is evaluated on the real code.",
        "design_ref": "DESIGN.md section 7, C03",
        "note": CODEC_NOTE + "Ring buffer library modelled, not verified. TCP half: runtime (kernel segmentation, net.Conn.Read), partial.",
        "technique": "Lean 4 refinement proof (ring buffer -> byte queue) + per-operation model/code differential run over geometries and chunkings",
    },
}
NOT_CLAIMED = {}
