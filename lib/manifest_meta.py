"""Texts for MANIFEST.json (kept next to the per-property configuration)."""
BASE_OFF = "cd /repo/go && GOFLAGS=-mod=mod GOPROXY=off GOSUMDB=off go test -vet=off -count=1 -timeout 25m ./..."
HOOKS = {
    "guard": "verif",
    "enable": "go build -tags verif (the harness module in /verif/harness replaces the library by /repo/go and is always built with -tags verif)",
    "baseline_off_cmd": BASE_OFF,
    "source_commits": [],
    "add_only": True,
}
NOTES = ("Every check: ./check <id> [--tier quick|thorough] [--replay FILE]; honours VERIF_SEED and VERIF_TIER. "
         "Technique for every property: machine-checked proof in Lean 4 over a hand-written model, tied to the source by "
         "differential execution and regenerated facts (DESIGN.md). KNOWN_FINDINGS.txt lists recorded and repaired defects.")
CODEC_NOTE = ("Trusted: Lean kernel; axioms propext/Classical.choice/Quot.sound only (audited each run); the Go harness, the Lean driver's "
              "parsing/printing and the extractor; outside the exhaustively compared finite domains the model/code tie is sampling. ")
CHECKS = {
    "C18": {
        "text": "Theorems for all inputs (bijection on the 4-bit domain and on all byte pairs, length guard, registry acceptance) over a model whose "
                "bit-level expressions are regenerated from the Go source on every run; the model is compared with the real code on the ENTIRE "
                "finite domain (all 2^16 tuples, all 2^16 pairs, all 256 versions), so for this property the tie is exhaustive, not sampled.",
        "design_ref": "DESIGN.md section 7, C18",
        "note": CODEC_NOTE + "Registry = versions registered by importing go/v1 and go/v2.",
        "technique": "Lean 4 proof (decide +kernel over complete byte tables, lifted) + exhaustive model/code differential run + regenerated expressions",
    },
}
NOT_CLAIMED = {}
