"""Texts for MANIFEST.json (kept next to the per-property configuration)."""
BASE_OFF = "cd /repo/go && GOFLAGS=-mod=mod GOPROXY=off GOSUMDB=off go test -vet=off -count=1 -timeout 25m ./..."
HOOKS = {
    "guard": "verif",
    "enable": "go build -tags verif (the harness module in /verif/harness replaces the library by /repo/go and is always built with -tags verif)",
    "baseline_off_cmd": BASE_OFF,
    "source_commits": ["98cebac", "2f1e4e7", "c83bfb0", "91bc1e3", "264b974", "d83c337", "edf016c", "93ac700", "d9dddd0", "e90eabd", "f010b6c", "21317de", "5be453f", "3233ea7", "97d6920", "1d6b917"],
    "add_only": True,
}
NOTES = ("Every check: ./check <id> [--tier quick|thorough] [--replay FILE]; honours VERIF_SEED and VERIF_TIER. "
         "Technique for every property: machine-checked proof in Lean 4 over a hand-written model, tied to the source by "
         "differential execution and regenerated facts (DESIGN.md) — since round 2 twenty-three functions of the codec (both directions of the one-shot frame codec, the "
         "streaming decoders, handshake, string-length helpers) are translated from the Go source statement by statement on every run and PROVED equal to the "
         "model functions, the access tables of the client and the connection types are regenerated and decided, and the hook logs of every client run are replayed "
         "through the Waiters, Recovery and ConnThreads transition systems. KNOWN_FINDINGS.txt lists recorded and repaired defects (D1–D24, all fixed).")
CODEC_NOTE = ("Trusted: Lean kernel; axioms propext/Classical.choice/Quot.sound only (audited each run); the Go harness, the Lean driver's "
              "parsing/printing and the extractor; outside the exhaustively compared finite domains the model/code tie is sampling. ")
CLIENT_NOTE = "Trusted: Lean kernel; axioms propext/Classical.choice/Quot.sound only (audited each run); the model's atomic steps and primitive semantics (RWMutex, channels, Once, atomics) are hand-written and trusted; scenario engine, scripted peers and the hook package; "
CHECKS = {
    "C18": {
        "text": "Theorems for all inputs (bijection on the 4-bit domain and on all byte pairs, length guard, registry acceptance) over a model whose "
                "bit-level expressions are regenerated from the Go source on every run; the model is compared with the real code on the ENTIRE "
                "finite domain (all 2^16 tuples, all 2^16 pairs, all 256 versions), so for this property the tie is exhaustive, not sampled.",
        "design_ref": "DESIGN.md section 7, C18",
        "note": CODEC_NOTE + "Registry = versions registered by importing go/v1 and go/v2.",
        "technique": "Lean 4 proof (decide +kernel over complete byte tables, lifted) + exhaustive model/code differential run + regenerated expressions",
    },
    "C09": {
        "text": "Theorems for all inputs: parser soundness (anything accepted is the canonical encoding of the pairs returned: truncated blocks, "
                "non-canonical two-byte lengths and dangling keys are rejected), completeness, totality/termination, length round trip for every "
                "representable length, budget, whole-pairs (longest fitting prefix of the valid entries in visiting order), determinism (sorted "
                "visiting order makes the block a function of the map), Set guards, and the map round trip with an arbitrary lower-casing function. "
                "The model uses the length-prefix expressions regenerated from the Go source; model and code are compared on all 2^16 two-byte "
                "prefixes, (thorough) every string length 0..32768, and tens of thousands of generated/malformed blocks and maps.",
        "design_ref": "DESIGN.md section 7, C09",
        "note": CODEC_NOTE + "strings.ToLower is an arbitrary function in the theorems (real one applied by the comparator); Go map and sort.Strings semantics modelled.",
        "technique": "Lean 4 proof (well-founded parser, loop invariants, mergeSort uniqueness) + model/code differential run (partly exhaustive) + regenerated expressions",
    },
    "C01": {
        "text": "Theorems over the frame model (both versions, gzip as an oracle with a stated soundness assumption): encoding errors for unknown types "
                "and over-limit bodies, the one-shot round trip (roundtrip_oneshot) composed from layout conformance (C02), the metadata round trip (C09) and "
                "the oracle assumption, and the streaming round trip (roundtrip_stream: every chunking of the concatenated frames of any packet list, "
                "also through the ring model with any initial capacity). The model's bit-level expressions and constants are regenerated from the source; every Pack/UnpackBytes result of "
                "the real code is compared with the model over all types x verify x metadata x boundary body lengths x thresholds, and the round-trip "
                "relation itself is evaluated on the real code (one-shot and streaming decoders)."
                " Round 2: protocolV1/V2.Pack, headerFromMetadata, UnpackBytes and Header.Metadata are translated from the Go source statement by statement on every run and proved equal to the model (pack_is_generated, unpackBytes_is_generated): both directions of the one-shot frame codec are regenerated, not only sampled.",
        "design_ref": "DESIGN.md section 7, C01",
        "note": CODEC_NOTE + "compress/gzip is an oracle; DEFLATE/CRC are the standard library (trusted, checked per sample with the standard reader).",
        "technique": "Lean 4 proof over a hand-written frame model + model/code differential run with gzip oracle values + regenerated expressions",
    },
    "C02": {
        "text": "An independent arithmetic specification of the published layout (Spec.encode/Spec.decode, div/mod only) in Lean; theorems relating the "
                "model of Pack/UnpackBytes to it (rejection of unknown type nibbles for all 256 first bytes; conformance theorems growing); the real "
                "encoder is compared byte for byte with the Lean spec and with a second independent Go spec encoder, the real decoder field for field "
                "on spec frames over all 16 nibbles x flags x reserve x extremes.",
        "design_ref": "DESIGN.md section 7, C02",
        "note": CODEC_NOTE + "The layout spec is transcribed from the property text.",
        "technique": "Lean 4 proof against an independent layout spec + three-way differential run (Go code, Go spec encoder, Lean spec)",
    },
    "C03": {
        "text": "The ring buffer model (written after the dependency's source, incl. growth and the split copy) is proved to refine a byte queue for every "
                "capacity, offset and wrap position (length, peek, retrieve, write, read, peekUintN; decoder-level geometry, chunking independence incl. errors, and completeness: "
                "stream_yields_each_frame — back-to-back valid frames in any chunking yield exactly the one-shot decoder's packets); the resumable "
                "v1/v2 decoders are modelled statement by statement over that ring. Real ring operations and real "
                "streaming decodes are compared with the model per operation/per call over every cut position, ring capacities 1..4096 and every "
                "wrap offset of every header field, and the property (chunked = whole = frame list) is evaluated on the real code.",
        "design_ref": "DESIGN.md section 7, C03",
        "note": CODEC_NOTE + "Ring buffer library modelled, not verified. TCP half: runtime (kernel segmentation, net.Conn.Read), partial.",
        "technique": "Lean 4 refinement proof (ring buffer -> byte queue) + per-operation model/code differential run over geometries and chunkings",
    },
    "C04": {
        "text": "Totality theorems (no modelled panic reachable, termination by well-founded recursion on the remaining bytes) for the handshake, metadata, "
                "gzip-glue and typed-error decoders for ALL byte strings, the gzip allocation bound independent of ISIZE, and (as the agents' proofs land: "
                "C04a one-shot frame decoder, C04b streaming decoder no-panic + progress). Every decoding entry point of the real code is run on a "
                "structure-aware malformed stream under recover, verdicts and fields compared with the model, allocation measured per call.",
        "design_ref": "DESIGN.md section 7, C04",
        "note": CODEC_NOTE + "Go's allocator/GC are runtime: allocation is measured, the bound proved is the model's ghost.",
        "technique": "Lean 4 totality proofs over models with explicit panic outcomes + malformed-input differential run + per-call allocation measurement",
    },
    "C10": {
        "text": "Theorems about the glue around compress/gzip with the library as an explicit oracle: Decompress succeeds iff the oracle read the whole "
                "stream with valid checksum and then returns the full content, error otherwise (never truncated data as success), compress-then-"
                "decompress identity under the oracle's soundness, allocation bounded by 1032*len+512, and the frame-level flag rule (gzip flag iff "
                "threshold != 0 and reached; body = compressor output) from the regenerated threshold condition, for every packet whatever flag it "
                "carried into Pack (relayed packets: defect D22, repaired). The real Decompress is compared with "
                "the standard reader's verdict on every truncation, corruptions, wrong trailers, multi-member streams; relayed packets, SetLevel and "
                "compressed client traffic are exercised too.",
        "design_ref": "DESIGN.md section 7, C10",
        "note": CODEC_NOTE + "DEFLATE/CRC-32 are compress/gzip's (trusted, used as the oracle). Concurrent pool use: sampled schedules only.",
        "technique": "Lean 4 proof of the gzip glue over an oracle + differential run against the standard library reader + regenerated threshold condition",
    },
    "C11": {
        "text": "A world model with header pools holding ARBITRARY stale headers and per-connection parked headers/rings; theorems: headerPool.Get resets "
                "every field (field and reset lists regenerated from the source), every operation's result in any world equals its isolated result, "
                "one-shot operations touch no connection state, a streaming step only its own, and by induction every interleaved history over any "
                "number of connections yields the isolated results. Real histories (incl. failing and partial decodes) are compared with the "
                "stateless model and with isolated shadow connections.",
        "design_ref": "DESIGN.md section 7, C11",
        "note": CODEC_NOTE + "sync.Pool semantics trusted; goroutine interleavings sampled.",
        "technique": "Lean 4 non-interference proof by induction over histories + history-based differential run + regenerated struct/reset tables",
    },
    "C19": {
        "text": "Theorems: for every schedule of atomic add-and-fetch steps (any goroutines, any interleaving, any length below 2^32) the ids issued are "
                "exactly 1..N in issue order, hence distinct and increasing; options cannot override a request's fresh id; response/push ids come from "
                "the caller. The statement lists of the generator and the six constructors are regenerated from the source and checked by `decide`; "
                "constructor/option mixes and G x M concurrent calls are compared with the model and the property on the real code.",
        "design_ref": "DESIGN.md section 7, C19",
        "note": CODEC_NOTE + "sync/atomic trusted.",
        "technique": "Lean 4 proof by induction over schedules + regenerated source-structure facts + differential and concurrent runs",
    },
    'C05': {"text": 'For every interleaving of any number of calls, dispatchers of any connection, fail-alls and reconnects (Waiters LTS, 12-clause invariant, one grind lemma per action): a call returns only a response with its own id that arrived on its own connection; first response wins; a dispatch touches one slot; the error mapping of Packet.Err. Scenarios: permuted/duplicated/late/unknown answers for 1..32 callers, all 256 status codes x body kinds, stale answers across a reconnect, both transports.', "design_ref": 'DESIGN.md section 7, C05', "note": CLIENT_NOTE + "Go scheduler, sockets, wall-clock: runtime (partial).", "technique": 'Lean 4 invariant proof over a labelled transition system + scenario monitors against scripted peers'},
    'C06': {"text": 'Safety core proved for every interleaving: no read->write lock upgrade, no state of the Close/reader/retry-goroutine quartet in which all unfinished threads are blocked (RWMutex + Once + rendez-vous, 17-clause invariant, 36 actions), single-flight recovery, every wait of a call has a deadline alternative, a failed waiter returns an error. Scenarios: every peer fault incl. drop after k bytes for k=0..12, under a watchdog. Round 2: LockWait view (do_returns_after_close: once the close signal is set every call returns without any deadline firing).', "design_ref": 'DESIGN.md section 7, C06 and Appendix B', "note": CLIENT_NOTE + "Go scheduler, sockets, wall-clock: runtime (partial).", "technique": 'Lean 4 no-deadlock/invariant proofs over the lifecycle LTS + fault scenarios with watchdog'},
    'C07': {"text": "In every reachable state a call whose request was handed to the transport is registered (order-sensitive invariant), so the matching response dispatched at any such moment lands in its slot, stays there, and the call's next step returns it; the pinned order is refuted by a decided 3-action trace. The window is forced with a gate after the hand-over on the real client.", "design_ref": 'DESIGN.md section 7, C07', "note": CLIENT_NOTE + "Go scheduler, sockets, wall-clock: runtime (partial).", "technique": 'Lean 4 invariant proof + forced schedule through a build-tag-guarded gate'},
    'C08': {"text": 'Decision logic as a pure function, theorems for ALL outcome sequences and configurations (session used iff unexpired, unauthenticated -> auth in the same attempt, hit-max iff count reached, old closed before dial, callback only on success and last); single-flight and one recovery per loss for every interleaving of notifiers. Scenarios: outcome sequences x expired/unexpired x token x MaxReconnect, observed at the peer; model-scripted runs: random scripts from the quantifier domain (several losses in a row) played attempt by attempt through a gate, the Lean function Reconnect.recover evaluated on the same script by the compiled driver, observable action sequences must be equal (16 scripts quick, 768 thorough). Round 2: the recovery/close hook log of every client in every run is replayed through the Recovery LTS as a weak trace (T3; an ok is certified by a genuine run of the proved LTS).', "design_ref": 'DESIGN.md section 7, C08', "note": CLIENT_NOTE + "Go scheduler, sockets, wall-clock: runtime (partial).", "technique": 'Lean 4 proofs (pure decision function + LTS invariant) + model-as-oracle scenarios'},
    'C12': {"text": "For any number of writers and any pattern of partial socket writes: socket bytes are a prefix of handshake ++ accepted frames in acceptance order, equal once drained; enqueue never blocks. Scenarios: 1-48 writers, 1 B..2.5 MB frames, queue sizes 1..64, stalled peer; the peer's raw byte log is cut by an independent layout parser.", "design_ref": 'DESIGN.md section 7, C12', "note": CLIENT_NOTE + "Go scheduler, sockets, wall-clock: runtime (partial).", "technique": 'Lean 4 invariant proof over the write-path LTS + raw byte log analysis at scripted peers'},
    'C13': {"text": 'For every interleaving of reader and dispatcher: handler log = routing of accepted packets in arrival order (each push once per handler in subscription order), losses = counted overflow drops; control and non-push packets never reach subscribers; control bound regenerated from the source. Scenarios: bursts, slow handlers, overflow, reconnect, early pushes; model-scripted runs: random subscription tables and frame streams, the Lean Dispatch model evaluated on the same script, handler logs must be equal.', "design_ref": 'DESIGN.md section 7, C13', "note": CLIENT_NOTE + "Go scheduler, sockets, wall-clock: runtime (partial).", "technique": 'Lean 4 invariant proof over the dispatch queue LTS + invocation-log monitors'},
    'C14': {"text": 'For every interleaving of any number of Close callers and dial entries: the close callback runs at most once and no dial starts after a Close returned (signal-before-lock / check-under-lock); Close never re-enters recovery. Scenarios: Close in every named client state, second Close, hit-max, writer parked between closed() check and queue send. Round 2: the LockWait view (RWMutex with writer preference, Do holding the read lock while waiting, notifiers, retry goroutine, Close) proves close_returns_promptly for every interleaving and that D24\'s and D20\'s guards are each necessary (Close can still wait for a dial in progress, at most the dial timeout: close_waits_for_dial_in_progress); the ConnThreads view proves conn.Close idempotent and never blocking; recovery/close hook logs of every run are replayed through the Recovery LTS (T3).', "design_ref": 'DESIGN.md section 7, C14', "note": CLIENT_NOTE + "Go scheduler, sockets, wall-clock: runtime (partial).", "technique": 'Lean 4 invariant proofs over lifecycle slices + directed/gated close scenarios'},
    'C15': {"text": 'Timed model: with timeout >= interval a peer answering every heartbeat is never recycled, including after any kind of recovery; a silent peer is recycled at the first tick past lastPong+timeout; heartbeat ids fresh. Scenarios with real protobuf-decoded heartbeats on both transports; every decision of the real check() logged by a hook (last ping id, ms since last pong, timeout) is re-decided by the Lean checkFails through the driver.', "design_ref": 'DESIGN.md section 7, C15', "note": CLIENT_NOTE + "Go scheduler, sockets, wall-clock: runtime (partial).", "technique": 'Lean 4 proofs over a timed sequential model + timed scenarios'},
    'C16': {"text": 'At most one retry goroutine and one recovery per loss (any interleaving), every exit path of a call unregisters its waiter; goroutine-profile and open-socket counts flat over dial/drop/close cycles on the real client. Round 2: the ConnThreads view proves for every interleaving that after Close the reader, writer and dispatcher of a connection each have an enabled step until they exit, within a bound that depends on the configuration only (conn_threads_exit, conn_exit_bound), and that each of the four guards is necessary; recovery hook logs are replayed through the Recovery LTS (T3).', "design_ref": 'DESIGN.md section 7, C16', "note": CLIENT_NOTE + "Go scheduler, sockets, wall-clock: runtime (partial).", "technique": 'Lean 4 invariant proofs + goroutine/socket accounting over cycles'},
    'C17': {"text": 'Lockset soundness proved over an abstract trace model with readers-writer locks (common lock, one side in write mode => happens-before); witness search by re-running ~90 scenarios under the race detector. Weakest claim: the access table is not yet regenerated from the source.', "design_ref": 'DESIGN.md section 7, C17', "note": CLIENT_NOTE + "Go scheduler, sockets, wall-clock: runtime (partial).", "technique": 'Lean 4 proof of lockset soundness + race-detector witness search over the scenario suites'},
    'C20': {"text": 'Outbound/inbound WebSocket control-frame mappings field by field and transport equivalence of the application trace for every script expressible on both transports (induction over the script, codec and gorilla as parameters); the same peer script is run on real TCP and real gorilla peers and the canonical traces compared. Round 2: the WebSocket reader goroutine is modelled (WsReading) and proved to deliver, for valid frames one per message, exactly what the TCP reader delivers for their concatenation under any segmentation; control frames are proved to denote exactly the packets of the corresponding heartbeat/close frames.', "design_ref": 'DESIGN.md section 7, C20', "note": CLIENT_NOTE + "Go scheduler, sockets, wall-clock: runtime (partial).", "technique": 'Lean 4 proof of trace equivalence over scripts + paired TCP/WebSocket scenario runs'},
}
NOT_CLAIMED = {}
