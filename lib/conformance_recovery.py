"""T3 for the Recovery view: the hook log of a scenario run -> lines for the compiled Lean driver (`recovery.replay …`).

The translator is deliberately dumb: it keeps the eight labels of the recovery machinery, splits the log per CLIENT (a
process may create several clients one after the other; the model describes one), and encodes (goroutine id, label,
connection id). Everything else - which model thread a goroutine is, which unobserved steps happened in between, the
connection numbering - is decided in Lean (OAP/Model/Client/RecoveryReplay.lean).

    python3 conformance_recovery.py result.json [...]      # one JSON per scenario run, prints name + driver verdict
"""
import json, os, re, subprocess, sys

LABELS = {"reconnecting:enter": "enter", "reconnecting:start": "start", "reconnecting:done": "done",
          "reconnect:attempt": "attempt", "reconnect:failall": "failall", "client.dial:done": "dial",
          "client.Close:enter": "center", "client.Close:return": "creturn"}
FULL = {v: k for k, v in LABELS.items()}

# MaxReconnect is a dial option, not logged by any hook. Known values (from the scenario sources) make the replay exact;
# for every other scenario the driver tries 0..6 and reports the values for which the log is a trace.
KNOWN_MAX = {"c14/hit-max-gives-up": 2, "c14/hit-max-about-to-fire": 1, "c08/hitmax-1-refuse": 1, "c08/hitmax-2": 2,
             "c08/max3-succeeds-at-2": 3}


def parse(hooks):
    """[(seq, gid, short label, [args])] for the recovery labels, in log order"""
    out = []
    for h in hooks or []:
        m = re.match(r"(\d+) g(\d+) (\S+) ?(.*)", h)
        if not m or m.group(3) not in LABELS:
            continue
        out.append((int(m.group(1)), int(m.group(2)), LABELS[m.group(3)], [int(a) for a in m.group(4).split(",") if a != ""]))
    return out


def split_clients(evs):
    """attribute every event to a client (= epoch: a `client.dial:done` by a goroutine that is not a retry goroutine starts
    one). enter(conn): the client that owns conn; start/done: the client of the goroutine's last enter; a retry goroutine:
    the client of the latest `reconnecting:start`; Close: the goroutine's own client if it is a retry goroutine, else the
    latest client. Returns a list of event lists."""
    clients, conn_owner, gid_client, retry_client = [], {}, {}, {}
    last_start_client = None
    close_client = {}
    for e in evs:
        seq, gid, lab, args = e
        k = None
        if lab == "dial":
            if gid in retry_client:
                k = retry_client[gid]
            else:
                clients.append([])
                k = len(clients) - 1
            if args and args[0] != 0:
                conn_owner.setdefault(args[0], k)
        elif lab == "enter":
            k = conn_owner.get(args[0] if args else 0)
            if k is None:
                k = retry_client.get(gid, len(clients) - 1)
            gid_client[gid] = k
        elif lab in ("start", "done"):
            k = gid_client.get(gid, len(clients) - 1)
            if lab == "start":
                last_start_client = k
        elif lab in ("attempt", "failall"):
            if gid not in retry_client:
                retry_client[gid] = last_start_client if last_start_client is not None else len(clients) - 1
            k = retry_client[gid]
        elif lab == "center":
            k = retry_client.get(gid, len(clients) - 1)
            close_client[gid] = k
        elif lab == "creturn":
            k = close_client.get(gid, retry_client.get(gid, len(clients) - 1))
        if k is None or k < 0:
            continue          # before any client exists
        clients[k].append(e)
    return clients


def encode(evs):
    parts = []
    for _, gid, lab, args in evs:
        if lab in ("enter", "dial"):
            parts.append(f"{gid}:{lab}:{args[0] if args else 0}")
        else:
            parts.append(f"{gid}:{lab}")
    return ";".join(parts)


def concurrent_clients(evs):
    """True if a client is created (initial `client.dial:done`) while an earlier one has not returned from Close: the hooks
    carry no client identity, so the goroutines of two live clients cannot be told apart (the Waiters replay skips the
    same scenarios, c16/cycles-*)"""
    retry, open_clients, closers = set(), 0, {}
    for _, gid, lab, args in evs:
        if lab == "attempt":
            retry.add(gid)
        elif lab == "dial" and gid not in retry:
            if open_clients > 0:
                return True
            open_clients += 1
        elif lab == "creturn" and gid not in retry and open_clients > 0:
            open_clients -= 1
    return False


def recovery_lines(result):
    """driver lines of one scenario result (one per client) with a description of each"""
    evs = parse(result.get("hooks"))
    if concurrent_clients(evs):
        return []
    mx = KNOWN_MAX.get(result.get("name"), "?")
    out = []
    for i, cl in enumerate(split_clients(evs)):
        if not cl:
            continue
        if cl[0][2] == "dial" and cl[0][3] and cl[0][3][0] == 0:
            continue          # the initial dial failed: no client to speak of (the model starts with connection 1)
        out.append((i, cl, f"recovery.replay max={mx} ev={encode(cl)}"))
    return out


def driver_path(lean_dir):
    return os.path.join(lean_dir, ".lake", "build", "bin", "oapdriver")


def describe(cl, verdict):
    """`conforms` or `DIVERGES at event k (label, thread, model pc)`, with the original sequence number of the event"""
    if verdict.startswith("ok "):
        return "conforms"
    m = re.match(r"DIVERGES at event (\d+) ", verdict)
    if m and int(m.group(1)) < len(cl):
        seq = cl[int(m.group(1))][0]
        return verdict.split(" | ")[0] + f" [hook seq {seq}]"
    return verdict.split(" | ")[0]


MAX_EVENTS = 160
PER_LOG_TIMEOUT = 8


def check(results, lean_dir):
    """the analogue of conformance.check for the Recovery view: {'checked': n, 'mismatches': [text], 'summary': [...]}"""
    lines, names, cls, skipped = [], [], [], []
    for r in results:
        if r.get("status") not in ("ok", "race") or not r.get("hooks"):
            continue
        if concurrent_clients(parse(r["hooks"])):
            skipped.append(f"{r['name']}[{r['transport']},v{r['version']},seed={r['seed']}]: several clients alive at once, hooks carry no client identity")
            continue
        for i, cl, line in recovery_lines(r):
            nm = f"{r['name']}[{r['transport']},v{r['version']},seed={r['seed']}]#client{i}"
            if line.count(";") > MAX_EVENTS:
                # storm scenarios (hundreds of events of dozens of racing notifiers): the subset construction is exponential in the number of
                # simultaneously undecided notifiers; such a log is not replayed (not a verdict either way)
                skipped.append(f"{nm}: {line.count(';') + 1} recovery events, above the replay bound of {MAX_EVENTS}")
                continue
            lines.append(line)
            cls.append(cl)
            names.append(nm)
    if not lines:
        return {"checked": 0, "mismatches": [], "skipped": skipped}
    out = []
    kept_names, kept_cls = [], []
    for nm, cl, line in zip(names, cls, lines):  # one driver run per log, so that one pathological log cannot take the others with it
        try:
            p = subprocess.run([driver_path(lean_dir)], input=line + "\n", capture_output=True, text=True, timeout=PER_LOG_TIMEOUT)
        except subprocess.TimeoutExpired:
            skipped.append(f"{nm}: replay not finished within {PER_LOG_TIMEOUT} s (frontier too large), not a verdict")
            continue
        o = p.stdout.splitlines()
        if p.returncode != 0 or len(o) != 1:
            return {"checked": 0, "mismatches": [f"model driver failed on the recovery replay of {nm}: " + (p.stderr or "")[-300:]], "skipped": skipped}
        out.append(o[0])
        kept_names.append(nm)
        kept_cls.append(cl)
    names, cls, lines = kept_names, kept_cls, out
    mism = [f"{n}: {describe(cl, o)} || {o[:600]}" for n, cl, o in zip(names, cls, out) if not o.startswith("ok ")]
    return {"checked": len(lines), "mismatches": mism, "summary": out[:5], "verdicts": list(zip(names, out)), "skipped": skipped}


if __name__ == "__main__":
    lean = os.environ.get("OAP_LEAN_DIR", os.path.join(os.path.dirname(os.path.abspath(__file__)), "..", "lean"))
    verbose = "-v" in sys.argv
    rc = 0
    for f in [a for a in sys.argv[1:] if not a.startswith("-")]:
        try:
            r = json.load(open(f))
        except Exception as e:
            print(f"{f}: unreadable ({e})")
            rc = 2
            continue
        res = check([r], lean)
        tag = f"{r.get('name')}[{r.get('transport')},seed={r.get('seed')}]"
        if res["checked"] == 0 and not res["mismatches"]:
            print(f"{tag}: " + ("skipped (several clients alive at once)" if res.get("skipped") else "no recovery events"))
            continue
        if res["mismatches"] and "verdicts" not in res:
            print(f"{tag}: {res['mismatches'][0]}")
            rc = 2
            continue
        for (n, o), (_, cl, _) in zip(res["verdicts"], recovery_lines(r)):
            print(f"{n}: {describe(cl, o)}" + (f"\n    {o}" if verbose or not o.startswith('ok ') else ""))
            if not o.startswith("ok "):
                rc = 1
    sys.exit(rc)
