"""Per-property configuration and the generic decision procedure (DESIGN.md sections 4 and 7)."""
import os, sys, json, time
import oaplib as L

CODEC_ASSUME = [
    "model and code are compared on generated inputs (exhaustively on the finite domains named in 'rule'); outside them the tie is sampling",
]

PROPS = {
    "C18": {
        "kind": "codec", "modules": ["OAP.Props.C18"], "gens": ["C18"],
        "client_batch": ["dial_registered_only"],
        "rule": "exhaustive: all 16^4 field tuples through Handshake.Pack, all 2^16 byte pairs through Unpack, lengths 0..5/8/64, all 256 versions "
                "through GetProtocol and Context.Handshake; each compared with the Lean model and checked against the property directly on the Go "
                "code. Distinct = distinct operation lines; every one exercises the codec (non-trivial).",
        "assumptions": CODEC_ASSUME + ["the registry contains exactly the versions registered by importing go/v1 and go/v2"],
    },
    "C09": {
        "kind": "codec", "search_thorough": False, "modules": ["OAP.Props.C09"], "gens": ["C09"],
        "rule": "marshalString on the boundary lengths + 500 random lengths (thorough: EVERY length 0..32768); unmarshalStringLength on ALL 2^16 "
                "two-byte prefixes and all one-byte inputs; UnmarshalValues on canonical encodings of generated maps, every truncation point of them, "
                "two-byte prefix classes with enough / not enough payload, dangling keys, random and mutated blocks; MarshalValues on generated maps "
                "(0..40 entries, string lengths from the boundary set, empty and over-long keys/values, invalid UTF-8, mixed case) x budgets around "
                "every cumulative pair boundary, each map encoded 9 times in different insertion orders; Set guards. Every result is compared with "
                "the Lean model and the property predicates (round trip, budget, whole pairs, determinism, canonical rejection) are evaluated on the "
                "real code. Distinct = distinct operation lines with non-empty input.",
        "assumptions": CODEC_ASSUME + ["strings.ToLower is a parameter of the model (arbitrary function in every theorem); the comparator applies the real one",
                                       "Go map semantics (unique keys, later insertion wins) and sort.Strings (bytewise order) are modelled, not verified"],
    },
    "C01": {
        "kind": "codec", "modules": ["OAP.Props.C01"], "gens": ["C01"],
        "rule": "packets over version {1,2} x type {request,response,push} x verify x metadata absent/present (v2) x body lengths "
                "{0,1,2,255,256,1000,1023,1024,1025,65535,65536} (thorough: also 2^24-1, 2^24 and beyond) x thresholds {0,1,len-1,len,len+1,1024,-1}, "
                "near-budget metadata with verify, unknown types, and out-of-domain packets (cmd>255, signature != 16 bytes, gzip preset: model/code "
                "agreement only). Each packet goes through the real Pack, then the real UnpackBytes and streaming Unpack; the round-trip relation of the "
                "property, pack_error_iff and the gzip flag rule are evaluated on the real code, and every Pack/UnpackBytes result is compared with the "
                "Lean model (compressed bytes and the standard reader's verdict are passed as the gzip oracle's values). Distinct = distinct operation lines.",
        "assumptions": CODEC_ASSUME + ["compress/gzip is an oracle (GzOracle): its soundness (reading what Compress produced yields the body) is checked with the standard reader on every compressed case",
                                       "the in-domain conditions of the property: cmd <= 255, 16-byte signature when verify, gzip flag initially clear, metadata map valid and within budget"],
    },
    "C02": {
        "kind": "codec", "modules": ["OAP.Props.C02"], "gens": ["C02"],
        "rule": "encoder direction: generated packets (body lengths incl. >=256 and >=65536, metadata blocks >=256 bytes, extreme field values) through "
                "the real Pack, compared byte for byte with an independent spec-derived encoder in Go AND with Spec.encode evaluated by the Lean driver; "
                "decoder direction: spec frames over ALL 16 type nibbles x verify x gzip x 4 reserve values x field extremes x (valid | malformed) gzip "
                "bodies and metadata blocks, decoded by the real UnpackBytes and compared field for field with the layout's values and with the model; "
                "strict prefixes of valid frames must be rejected. Distinct = distinct operation lines.",
        "assumptions": CODEC_ASSUME + ["OAP/Spec/Layout.lean is written from the layout quoted in the property (the online protocol document is not reachable offline)"],
    },
    "C03": {
        "kind": "codec", "search_thorough": False, "modules": ["OAP.Props.C03"], "gens": ["C03"],
        "rule": "(a) random operation sequences (write, read, peek, retrieve, peekUintN, peekAll; capacities 1..16, NewWithData) on the real ring buffer "
                "vs the Lean ring model, comparing returned bytes and the observable geometry (length, capacity, emptiness, lengths of PeekAll's two "
                "slices) after every operation, with a shadow byte queue as the direct statement of the property; (b) sequences of 1-4 valid frames "
                "(+ an optional strict prefix of a further frame) built with an independent spec encoder, fed to the real streaming decoder under: "
                "every two-chunk cut of the first and last frame, whole, all-1-byte and random partitions, ring capacities {1,2,3,5,8,13,16,64,4096}, "
                "read/write offsets moved to 0..cap, and every wrap offset of every header field for each type and version; per call the "
                "(packet|more|err) result and ring length are compared with the model, and the delivered packets with the isolated one-shot decode of "
                "each frame. Distinct = distinct operation lines.",
        "client_batch": ["tcp_reading_spec"],
        "assumptions": CODEC_ASSUME + ["the ring buffer (github.com/Allenxuxu/ringbuffer v0.0.11) is a dependency: modelled after its source and compared operation by operation",
                                       "connection-level part (TCP read segmentation) is exercised by the client scenario checks, not proved"],
    },
    "C10": {
        "kind": "codec", "modules": ["OAP.Props.C10"], "gens": ["C10"],
        "client_batch": ["stream_shape", "exactly_once_in_order"],
        "rule": "Compress/Decompress of the real code on generated byte strings (empty, repeated, random, compressible text; 0 B .. 100 kB, thorough: "
                "MBs); EVERY truncation point and single-bit/byte corruptions of small valid streams incl. CRC and ISIZE; trailers understating / "
                "overstating the size; trailing garbage; multi-member streams; hostile tiny streams claiming 2^24..2^31 bytes; random bytes with and "
                "without the gzip magic. For each the standard library reader gives the oracle's value; verdict and content are compared with the model "
                "and `success iff complete and valid, then full content` is evaluated on the real code; allocation (TotalAlloc delta, GC off) must "
                "stay under 4*(1032*len(in)+512)+64KiB. Frame level: threshold x body-length grid around the threshold (both versions, negative "
                "thresholds) through Pack/UnpackBytes/Unpack. N goroutines over the shared pools vs sequential results (supporting).",
        "assumptions": CODEC_ASSUME + ["DEFLATE/CRC-32 and the gzip container are compress/gzip's (trusted); the theorems are about the glue, with the library as an explicit oracle",
                                       "sync.Pool hands an object to one goroutine at a time (trusted); the concurrent run only samples schedules"],
    },
    "C04": {
        "kind": "codec", "modules": ["OAP.Props.C04", "OAP.Props.C04a", "OAP.Props.C04b"], "gens": ["C04"],
        "rule": "malformed-input stream over every decoding entry point, both versions: valid frames with each length field set to 0 / max / actual+-1, "
                "headers claiming 2^24-1 body bytes or 65535 metadata bytes with nothing behind, flag/type-nibble flips, random byte mutations, every "
                "truncation point, random bytes; each through the real one-shot decoder and through the real streaming decoder whole, 1 byte at a time "
                "and under random partitions on rings of capacity 1..4096 with moved offsets; random bytes through UnmarshalValues and Handshake.Unpack; "
                "hostile gzip trailers and random streams through gzip.Decompress; Packet.Err on all 256 status codes x {valid error body, garbage, "
                "empty} x codecs x types. Verdicts (ok/err/more/panic, recover around each call) and all fields are compared with the model; a panic, "
                "a packet reported without consuming a byte, or TotalAlloc of one decode call above 4*(1032*len+512)+64KiB is a failing input.",
        "assumptions": CODEC_ASSUME + ["allocation is measured with runtime.MemStats.TotalAlloc around single calls (GC off); Go's allocator is runtime",
                                       "protobuf/JSON decoding of the error body is an oracle (the real decoders' verdict is passed to the model)"],
    },
    "C11": {
        "kind": "codec", "modules": ["OAP.Props.C11"], "gens": ["C11"],
        "rule": "histories of 20-80 operations over 3 connection contexts (v1, v2, mixed codecs) on one goroutine mixing: Pack, one-shot decodes of "
                "valid / truncated / mutated frames, streaming steps with whole frames, partial frames (header parked), their tails, and garbage "
                "(failed decodes), so that pooled headers are recycled with every kind of stale content; every result is compared with the Lean "
                "model (which has no shared state) and, on the real code, with the same operation on a fresh context / with an isolated shadow "
                "connection that only sees that connection's stream. Plus N goroutines with private contexts vs sequential results (supporting).",
        "assumptions": CODEC_ASSUME + ["sync.Pool hands an object to one goroutine at a time (trusted)"],
    },
    "C19": {
        "kind": "codec", "modules": ["OAP.Props.C19"], "gens": ["C19"],
        "client_batch": ["ids_from_one"],
        "rule": "random mixes of NewRequest/MustNewRequest/NewResponse/MustNewResponse/NewPush/MustNewPush with random WithVerify/WithRequestId/"
                "WithStatusCode options on a context (an independent context stepped in between), ids/status/verify compared with the model and with "
                "the property (k-th request id = k whatever the options; response/push id = the caller's); G goroutines x M calls on one context "
                "(2x1000, 8x2000, 64x500; thorough x5): the multiset of ids must be exactly 1..G*M and increasing per goroutine.",
        "assumptions": CODEC_ASSUME + ["sync/atomic.AddUint32 is atomic (trusted); the statement-list facts of the constructors are regenerated from the source"],
    },
    "C05": {
        "kind": "client", "conformance": True, "modules": ["OAP.Props.C05"], "keys": ["do_returns_own_id", "first_wins", "err_mapping", "own_connection", "do_returns"],
        "rule": "scenarios against scripted TCP and WebSocket peers (independent layout parser): k in {1,2,4,8,(32)} concurrent callers whose k requests "
                "are answered in a seed-chosen permutation with unknown-id, duplicate and late responses in between; all 256 status codes x {valid "
                "error body, garbage, empty}; stale answers across a reconnect; the C07 gate scenarios. Monitors: every Do returns the response "
                "carrying the id the peer saw on that call's own request frame (bodies carry a caller tag), errors carry the predicted status/code/message.",
        "partial": "socket delivery order and the Go scheduler are runtime",
    },
    "C07": {
        "kind": "client", "conformance": True, "modules": ["OAP.Props.C07"], "keys": ["no_lost_wakeup"],
        "rule": "directed schedule through the yield point after the hand-over to the transport (gate conn.write:enqueued): 1 and 3 concurrent callers "
                "are parked there, the peer's immediate answers are read and dispatched (resp:lookup events awaited), then the callers are released: "
                "each must return that response; plus 8 callers x 100 immediately answered requests without gates; both transports.",
        "partial": "'before the deadline' is wall-clock; if the caller is not scheduled before its deadline Go's select may take the deadline branch",
    },
    "C06": {
        "kind": "client", "conformance": True, "modules": ["OAP.Props.C06"], "keys": ["do_terminates", "no_panic", "timing"],
        "rule": "fault scenarios on TCP and WebSocket: peer silent, drop, drop with authentication, server close packet / close frame, garbage, refused "
                "dials (with and without auth), 'drop after k bytes of the response' for k = 0..12, keepalive-triggered recycling with requests in flight; "
                "calls issued before, during and after the fault; every scenario in a subprocess under a watchdog with goroutine dump. Monitors: every "
                "Do returned, within 2*(request+dial+auth timeout)+slack, no panic, the process exits normally.",
        "partial": "liveness needs scheduler fairness; the real-time bound is measured with slack, not proved",
    },
    "C08": {
        "kind": "client", "conformance_recovery": True, "modules": ["OAP.Props.C08"],
        "keys": ["uses_session_iff_unexpired", "fallback_on_unauthenticated", "after_cb_only_on_success", "hitmax_reported", "one_connection", "serves_again", "one_recovery_per_loss", "recovery_matches_model", "recovery_ends"],
        "rule": "the peer plays per-attempt outcome sequences over {refuse, drop before answer, unauthenticated, other status, silence, ok} after a loss, "
                "with expired / unexpired session, with / without token getter, MaxReconnect in {0,1,2,3}; observed: first request kind and session/"
                "token on every connection, callbacks, open connections, later requests; loss causes EOF, close packet, garbage, refused dials (C06's "
                "fault scenarios also run here). Compared with the decision logic's prediction. Model-scripted scenarios (c08/model-script-NN): random "
                "scripts from that domain incl. several losses in a row, played attempt by attempt through the gate at `reconnect:attempt`; the Lean "
                "model `Reconnect.recover` is evaluated on the same script by the driver and its observable action sequence must equal the observed one.",
        "partial": "loss detection by the OS and wall-clock back-off are runtime",
    },
    "C12": {
        "kind": "client", "conformance_conn": True, "modules": ["OAP.Props.C12"],
        "keys": ["handshake_first", "stream_shape", "exactly_once_in_order", "enqueue_nonblocking", "ws_url_announces_version", "ws_one_message_per_frame", "ws_binary_message", "timing"],
        "rule": "1-48 concurrent writers, frame sizes 1 B .. 2.5 MB, write-queue sizes 1..64, gzip thresholds, a stalled peer; the peer's raw byte log is cut "
                "into frames by an independent layout parser: first two bytes = handshake, whole frames only, every accepted write exactly once and in "
                "per-writer order, 'write queue full' returned within milliseconds instead of blocking; WebSocket: version in the URL, one binary message per frame.",
        "partial": "net.Conn.Write and gorilla/websocket are runtime",
    },
    "C13": {
        "kind": "client", "conformance_conn": True, "modules": ["OAP.Props.C13"], "keys": ["dispatch_spec", "loss_accounting", "control_never_to_subscribers", "dispatch_matches_model"],
        "rule": "pushes of 4 commands with 0-3 handlers each, interleaved with control pushes and unsolicited responses, bursts of 12..300 frames in one "
                "TCP write, slow handlers, queue overflow, across a reconnect, pushes sent the moment the connection is accepted; the handler invocation "
                "log is compared with the routing spec applied to the frames the peer sent (minus logged drops).",
        "partial": "socket delivery is runtime",
    },
    "C14": {
        "kind": "client", "conformance_conn": True, "conformance_recovery": True, "modules": ["OAP.Props.C14"], "keys": ["close_final", "on_close_once", "close_no_panic", "close_prompt", "hitmax_reported", "no_panic"],
        "rule": "Close in every client state of the quantifier: idle, requests in flight, incoming burst (reader/dispatcher busy), right after a peer drop, "
                "between failing reconnect attempts, right after the first failed attempt, with hit-max about to fire, the client giving up on its own, "
                "and a writer parked by a gate between the transport's closed() check and the queue send while the connection is closed; followed by a "
                "second Close. Monitors: no connection attempt / frame / after-reconnect callback after Close returned, exactly one close callback, no panic.",
        "partial": "known residue: the retry goroutine may invoke the after-reconnect callback just after Close returned if descheduled between its check and the call",
    },
    "C15": {
        "kind": "client", "conformance": True, "modules": ["OAP.Props.C15"], "keys": ["heartbeat_shape", "detects_dead", "no_false_positive", "echo", "ping_callback", "timing"],
        "rule": "timed scenarios (interval 2 units, timeout 4): peer answers always / never / stops after 3, with and without token, after a recovery slower "
                "than the keepalive timeout (resume path and no-auth path), TCP and WebSocket; heartbeat frames decoded with the real protobuf: fresh ids, "
                "body id = request id; healthy peer: zero keepalive-caused reconnects over 30 intervals; dead peer: recycled and pinged again; TCP echo of "
                "peer heartbeats.",
        "partial": "ticker jitter: real-time bounds with slack",
    },
    "C16": {
        "kind": "client", "conformance_conn": True, "conformance_recovery": True, "conformance": True, "modules": ["OAP.Props.C16"], "keys": ["client_threads_exit", "sockets_released", "bounded_live"],
        "rule": "cycle scenarios over {dial+close, dial+peer drop+recover+close, dial+server close packet+recover+close, failed dial}: library goroutines "
                "(goroutine profile filtered to the client package) and sockets open at the peers after 2 cycles and after 10 more must not grow; plus "
                "the C14 scenarios' end-state checks (no library goroutine, no open socket after Close).",
        "partial": "GC and OS socket teardown are runtime",
    },
    "C17": {
        "kind": "client", "modules": ["OAP.Props.C17"], "keys": [], "race": True, "owns_crashes": False,
        "rule": "witness search: the scenario suites of C05-C08, C12-C15 (concurrent Do, responses/pushes/pings, keepalive ticks, loss and reconnect, "
                "Close, gates) and the codec's concurrent runs re-executed with a race-detector build of the harness (unit doubled); a report whose "
                "stacks are inside the library is a concrete racy schedule (replay = scenario + the report).",
        "partial": "the theorem is about an abstract memory model; -race only samples schedules",
    },
    "C20": {
        "kind": "client", "modules": ["OAP.Props.C20"], "keys": ["ws_control_mapping", "trace_equiv", "echo", "ping_callback"], "cross_transport": True,
        "rule": "one peer script (success, error status, pushes, peer heartbeat, undecodable frame, peer-initiated close with reason, abrupt drop, requests "
                "after each recovery) run against the real TCP peer and the real gorilla WebSocket peer; the two canonical application traces "
                "(responses, typed errors, pushes, callbacks counts, connections used) must be equal; WebSocket heartbeat mapping checked field by field.",
        "partial": "gorilla/websocket is modelled as a parameter",
    },
}


def run(prop, tier, seed, replay):
    cfg = PROPS[prop]
    if cfg["kind"] == "codec":
        return run_codec_prop(prop, cfg, tier, seed, replay)
    import client_checks
    return client_checks.run(prop, cfg, tier, seed, replay)


def run_codec_prop(prop, cfg, tier, seed, replay):
    t0 = time.time()
    if replay:
        return replay_codec(prop, cfg, replay)
    known, fixed = L.known_findings(prop)
    problems = []      # broken obligations / correspondences (names)
    ex = L.extract()
    if not ex.get("ok"):
        problems.append("extract: " + ex.get("error", "?"))
    pr = L.prove(prop, cfg["modules"], tier)
    if pr["failed"]:
        problems.append("proof: " + pr.get("failed_reason", "") + " [" + ", ".join(pr["failed"][:8]) + "]")
    ok, out = L.build_go_tool("harness", tags="verif")
    runs = []
    if not ok:
        problems.append("harness does not build against /repo (API changed?): " + out[-600:])
    else:
        for g in cfg["gens"]:
            runs.append((g, tier, L.run_codec(prop, tier, seed, g)))
    client_fails = []
    if ok and cfg.get("client_batch"):
        import client_checks
        b = client_checks.run_batch(prop, tier, seed)
        if "error" in b:
            problems.append("scenario batch: " + b["error"])
        cf, setups = client_checks.failures_of(prop, b["results"], {"keys": cfg["client_batch"]})
        if setups:
            b2 = client_checks.run_batch(prop, tier, seed + 17, {"OAP_PARALLEL": "4"})
            cf2, s2 = client_checks.failures_of(prop, b2["results"], {"keys": cfg["client_batch"]})
            cf += cf2
            if s2:
                problems.append("connection-level scenario could not establish its preconditions twice: " + s2[0]["detail"][:200])
        client_fails = [{"index": -1, "key": f["key"], "detail": f["detail"], "op": f["scenario"], "code": "", "gen": "scenario", "tier": tier} for f in cf]
        import shutil as _sh
        _sh.rmtree(b["dir"], ignore_errors=True)
    fails, mism = list(client_fails), []
    for g, t, r in runs:
        if "error" in r:
            problems.append(f"correspondence batch {g}: {r['error']}")
        fails += [dict(f, gen=g, tier=t) for f in r["fails"]]
        mism += [dict(m, gen=g, tier=t) for m in r["mismatches"]]
    if mism:
        problems.append(f"correspondence: model and code disagree on {len(mism)}+ operation(s), first: {mism[0]['op'][:200]} code={mism[0]['code'][:120]} model={mism[0]['model'][:120]}")
    # search: when something broke and no failing input is known yet, widen the exploration of the real code
    # (bounded: three further quick seeds, then ONE thorough batch unless the property's thorough batch takes many minutes — a broken
    # obligation is reported either way, the search only tries to attach a failing input to it)
    if problems and not fails and tier == "quick" and ok:
        plan = [("quick", seed + 101), ("quick", seed + 202), ("quick", seed + 303)]
        if cfg.get("search_thorough", True):
            plan.append(("thorough", seed))
        for g in cfg["gens"]:
            for t2, s in plan:
                r = L.run_codec(prop, t2, s, g)
                runs.append((g, t2, r))
                fails += [dict(f, gen=g, tier=t2, seed=s) for f in r["fails"]]
                if not r["fails"] and "error" not in r:
                    import shutil as _sh2
                    _sh2.rmtree(r["dir"], ignore_errors=True)
                if fails:
                    break
            if fails:
                break
    known_keys = {k["key"] for k in known}
    new_fails = [f for f in fails if f["key"] not in known_keys]
    for k in known:
        if any(f["key"] == k["key"] for f in fails):
            print(f"KNOWN-FINDING: property={prop} {k['text']}")
    rc = 0
    if new_fails:
        payload = {"property": prop, "kind": "failing-input", "tier": new_fails[0].get("tier", tier), "seed": new_fails[0].get("seed", seed),
                   "gen": new_fails[0]["gen"], "failures": new_fails[:20], "broken": problems,
                   "how_to_replay": f"./check {prop} --replay <this file>"}
        path = L.write_replay(prop, seed, payload)
        print(f"VIOLATION property={prop} replay={path}")
        print(f"  {new_fails[0]['key']}: {new_fails[0]['detail'][:300]}")
        rc = 1
    elif problems:
        payload = {"property": prop, "kind": "no-failing-input-found", "tier": tier, "seed": seed, "broken": problems,
                   "mismatches": mism[:20], "proof": {k: pr.get(k) for k in ("failed", "failed_reason", "build_errors")}}
        path = L.write_replay(prop, seed, payload)
        print(f"VIOLATION property={prop} replay={path} no-failing-input-found")
        for p in problems[:5]:
            print("  " + p[:400])
        rc = 1
    # evidence
    first = [r for g, t, r in runs if t == tier]
    evals = sum(r.get("ops", 0) for r in first)
    distinct = sum(r.get("meta", {}).get("distinct_nontrivial", 0) for r in first)
    classes = {}
    samples = []
    for r in first:
        for k, v in r.get("meta", {}).get("classes", {}).items():
            classes[k] = classes.get(k, 0) + v
        samples += r.get("meta", {}).get("samples", [])[:8]
    exhaustive = all(r.get("meta", {}).get("exhaustive", False) for r in first) and bool(first)
    cov = {
        "obligations": pr["obligations"] + len(cfg["gens"]),
        "discharged": pr["discharged"] + sum(1 for g, t, r in runs if t == tier and not r["mismatches"] and "error" not in r),
        "checker_cmd": "cd /verif/lean && lake build " + " ".join(cfg["modules"]) + " && lake env lean <#print axioms of every theorem>"
                       + (" && lake env leanchecker " + " ".join(cfg["modules"]) if tier == "thorough" else ""),
        "trusted_base": L.TRUSTED_BASE,
        "theorems": sorted(pr["axioms"].keys()) if pr["axioms"] else [],
        "axioms_used": sorted({a for v in pr["axioms"].values() for a in v}),
        "proof_failed": pr["failed"],
        "evaluations": evals, "distinct_nontrivial": distinct, "rule": cfg["rule"],
        "samples": samples[:12] or ["(no correspondence batch ran)"],
        "input_distribution": classes, "exhaustive": exhaustive,
        "model_code_mismatches": len(mism), "direct_property_failures": len(fails),
        "extract": {k: ex.get(k) for k in ("changed", "anchors_lost", "error") if k in ex},
        "known_findings_matched": [k["key"] for k in known if any(f["key"] == k["key"] for f in fails)],
        "fixed_findings": [f["commit"] + " " + f["text"] for f in fixed],
        "timing": {"lake_build_s": pr.get("build_s"), "harness_s": sum(r.get("harness_s", 0) for r in first),
                   "driver_s": sum(r.get("driver_s", 0) for r in first)},
    }
    if "leanchecker" in pr:
        cov["leanchecker"] = pr["leanchecker"]
    L.write_evidence(prop, tier, seed, cov, cfg["assumptions"], time.time() - t0, 1 if rc else 0)
    for g, t, r in runs:
        if rc == 0 and "dir" in r:
            import shutil
            shutil.rmtree(r["dir"], ignore_errors=True)
    if rc == 0:
        print(f"OK property={prop} tier={tier} seed={seed} theorems={pr['discharged']}/{pr['obligations']} ops={evals} wall={time.time()-t0:.1f}s")
    return rc


def replay_codec(prop, cfg, path):
    p = json.load(open(path))
    ok, out = L.build_go_tool("harness", tags="verif")
    if not ok:
        print("harness does not build:", out[-500:])
        return 1
    L.extract()
    L.lake_build(cfg["modules"] + ["oapdriver"])
    if p.get("kind") != "failing-input":
        print("replay file names broken obligations, not an input:")
        for b in p.get("broken", []):
            print("  " + b)
        rc = run_codec_prop(prop, cfg, p.get("tier", "quick"), p.get("seed", 1), None)
        return rc
    r = L.run_codec(prop, p["tier"], p["seed"], p["gen"])
    want = {(f["index"], f["key"]) for f in p["failures"]}
    got = {(f["index"], f["key"]) for f in r["fails"]}
    still = want & got
    for f in r["fails"]:
        if (f["index"], f["key"]) in want:
            print(f"REPRODUCED {f['key']} op#{f['index']}: {f['op'][:300]}\n   code: {f['code'][:300]}\n   {f['detail'][:300]}")
    if still:
        print(f"VIOLATION property={prop} replay={path}")
        return 1
    print("not reproduced: the recorded inputs no longer fail")
    return 0
