#!/usr/bin/env python3
import json, sys, glob
import jsonschema
jsonschema.validate(json.load(open('/verif/MANIFEST.json')), json.load(open('/root/.vp/MANIFEST.schema.json')))
es = json.load(open('/root/.vp/EVIDENCE.schema.json'))
n = 0
for p in sorted(glob.glob('/verif/evidence/*.json')):
    jsonschema.validate(json.load(open(p)), es); n += 1
print("MANIFEST valid;", n, "evidence files valid")
