#!/usr/bin/env python3
"""validate MANIFEST.json and every evidence file; an evidence file left behind by a run against a seeded change (obligations not all
discharged, violations recorded) must never be committed: re-run the check on the clean tree first"""
import json, sys, glob
import jsonschema
jsonschema.validate(json.load(open('/verif/MANIFEST.json')), json.load(open('/root/.vp/MANIFEST.schema.json')))
es = json.load(open('/root/.vp/EVIDENCE.schema.json'))
n, bad = 0, []
for p in sorted(glob.glob('/verif/evidence/*.json')):
    d = json.load(open(p))
    jsonschema.validate(d, es); n += 1
    c = d.get('coverage', {})
    if c.get('obligations') != c.get('discharged') or d.get('violations'):
        bad.append(f"{p}: obligations={c.get('obligations')} discharged={c.get('discharged')} violations={len(d.get('violations') or [])}")
if bad:
    print("EVIDENCE NOT FROM A CLEAN RUN:\n  " + "\n  ".join(bad))
    sys.exit(1)
print("MANIFEST valid;", n, "evidence files valid and clean")
