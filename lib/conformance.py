"""T3: hook logs of real scenario runs replayed through the Lean view models by the compiled driver."""
import os, subprocess, re
import oaplib as L

LABELS = {"waiter:register": "reg", "waiter:unregister": "unreg", "resp:lookup": "look", "conn.write:enqueued": "enq",
          "reconnect:failall": "failall", "client.dial:done": "newconn"}


def waiters_line(hooks):
    evs = []
    for h in hooks or []:
        m = re.match(r"(\d+) g(\d+) (\S+) ?(.*)", h)
        if not m:
            continue
        gid, label, args = m.group(2), m.group(3), [a for a in m.group(4).split(",") if a != ""]
        k = LABELS.get(label)
        if k == "reg" and len(args) >= 2:
            evs.append(f"reg:{gid}:{args[0]}:{args[1]}")
        elif k == "unreg" and args:
            evs.append(f"unreg:{gid}:{args[0]}")
        elif k == "look" and len(args) >= 3:
            evs.append(f"look:{args[0]}:{args[1]}:{args[2]}")
        elif k == "enq":
            evs.append(f"enq:{gid}")
        elif k == "failall":
            evs.append("failall")
        elif k == "newconn" and args and args[0] != "0":
            evs.append(f"newconn:{args[0]}")
    return "waiters.replay ev=" + ";".join(evs)


def keepalive_decisions(hooks):
    """every logged decision of keepalive's check(): (last id, elapsed ms, timeout ms) and whether the same goroutine's next
    keepalive event is the timeout"""
    per = {}
    for h in hooks or []:
        m = re.match(r"(\d+) g(\d+) (keepalive:\S+) ?(.*)", h)
        if m:
            per.setdefault(m.group(2), []).append((m.group(3), [a for a in m.group(4).split(",") if a != ""]))
    out = []
    for g, evs in per.items():
        for i, (label, args) in enumerate(evs):
            if label == "keepalive:check" and len(args) >= 3:
                nxt = evs[i + 1][0] if i + 1 < len(evs) else None
                if nxt is None:
                    continue          # the log ends here: outcome unknown
                out.append((int(args[0]), int(args[1]), int(args[2]), "fail" if nxt == "keepalive:timeout" else "ok"))
    return out


def check(prop, cfg, results):
    """returns {'checked': n, 'mismatches': [text]}"""
    lines, names = [], []
    kdec = []
    for r in results:
        if r.get("status") not in ("ok", "race") or not r.get("hooks"):
            continue
        for d in keepalive_decisions(r["hooks"]):
            # the hook reads the clock BEFORE the decision does (normally microseconds, under load possibly milliseconds: the hook
            # itself takes the log's mutex). So the real elapsed time is >= the logged one: "logged elapsed > timeout and the code
            # said ok" is a definite disagreement; "logged elapsed <= timeout and the code said fail" is one only when the gap to
            # the bound is far beyond any plausible descheduling.
            last, el, to, outcome = d
            if last != 0 and el > to and outcome == "ok":
                kdec.append((r, d))
            elif outcome == "fail" and (last == 0 or to - el > 50):
                kdec.append((r, d))
            elif outcome == "ok" and (last == 0 or to - el > 2):
                kdec.append((r, d))
        # several clients in one process (cycle scenarios) interleave their logs: conformance needs one client
        if r["name"].startswith("c16/cycles") or r["name"] == "c13/early-push":
            continue
        if len(r["hooks"]) > 30000:   # the replay state is list-based (quadratic): very long logs are not replayed
            continue
        lines.append(waiters_line(r["hooks"]))
        names.append(f"{r['name']}[{r['transport']},v{r['version']},seed={r['seed']}]")
    kmism, kchecked = [], 0
    if kdec:
        uniq = sorted({d for _, d in kdec})
        pk = subprocess.run([os.path.join(L.LEAN, ".lake", "build", "bin", "oapdriver")],
                            input="".join(f"keepalive.check last={a} elapsed={b} timeout={c}\n" for a, b, c, _ in uniq), capture_output=True, text=True, timeout=300)
        outk = pk.stdout.splitlines()
        if pk.returncode != 0 or len(outk) != len(uniq):
            kmism.append("model driver failed on the keepalive decisions: " + (pk.stderr or "")[-300:])
        else:
            kchecked = len(kdec)
            model = {d[:3]: o.strip() for d, o in zip(uniq, outk)}
            for r, d in kdec:
                if model[d[:3]] != d[3]:
                    kmism.append(f"{r['name']}[{r['transport']},v{r['version']},seed={r['seed']}]: keepalive check with last ping id {d[0]}, {d[1]} ms since the last pong, "
                                 f"timeout {d[2]} ms: the code decided `{d[3]}`, the model's checkFails says `{model[d[:3]]}`")
                    if len(kmism) > 5:
                        break
    if not lines:
        return {"checked": kchecked, "mismatches": kmism, "keepalive_decisions": kchecked}
    p = subprocess.run([os.path.join(L.LEAN, ".lake", "build", "bin", "oapdriver")], input="\n".join(lines) + "\n",
                       capture_output=True, text=True, timeout=600)
    out = p.stdout.splitlines()
    mism = []
    if p.returncode != 0 or len(out) != len(lines):
        return {"checked": 0, "mismatches": ["model driver failed on the conformance replay: " + (p.stderr or "")[-300:]]}
    for n, o in zip(names, out):
        if not o.startswith("ok "):
            mism.append(f"{n}: {o}")
    return {"checked": len(lines) + kchecked, "mismatches": mism + kmism, "summary": out[:5], "keepalive_decisions": kchecked}


def model_oracle(results):
    """T1 for decision-logic views: scenarios emit `model.*` events carrying a driver line (the script they played) and
    what the real client was observed to do; the Lean model is evaluated on the same script by the compiled driver.
    Returns (fails, stats): one failing verdict per script on which model and implementation differ."""
    items = []
    for r in results:
        if r.get("status") not in ("ok", "race"):
            continue
        for e in r.get("events") or []:
            if str(e.get("k", "")).startswith("model.") and "line" in (e.get("f") or {}):
                items.append((r, e["k"], e["f"]))
    stats = {"scripts": len(items), "ambiguous": 0, "compared": 0}
    if not items:
        return [], stats
    p = subprocess.run([os.path.join(L.LEAN, ".lake", "build", "bin", "oapdriver")],
                       input="\n".join(f["line"] for _, _, f in items) + "\n", capture_output=True, text=True, timeout=300)
    out = p.stdout.splitlines()
    fails = []
    if p.returncode != 0 or len(out) != len(items):
        r = items[0][0]
        return [{"key": f"model_driver@{r['name']}:{r['transport']}", "scenario": f"{r['name']}[{r['transport']},v{r['version']},seed={r['seed']}]",
                 "detail": "the model driver failed on the scripts: " + (p.stderr or "")[-300:], "result": r}], stats
    for (r, k, f), o in zip(items, out):
        if f.get("ambiguous"):
            stats["ambiguous"] += 1
            continue
        stats["compared"] += 1
        want = o.split(" ; ")[0].strip()
        if want != str(f.get("observed", "")).strip():
            key = {"model.reconnect": "recovery_matches_model", "model.keepalive": "keepalive_matches_model",
                   "model.dispatch": "dispatch_matches_model"}.get(k, k)
            fails.append({"key": f"{key}@{r['name']}:{r['transport']}", "scenario": f"{r['name']}[{r['transport']},v{r['version']},seed={r['seed']}]",
                          "detail": f"script `{f['line'][:700]}`: the model (Lean, proved against the property's clauses) does [{want}], the real client did [{f.get('observed')}]",
                          "result": r})
    return fails, stats
