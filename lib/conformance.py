"""T3: hook logs of real scenario runs replayed through the Lean view models by the compiled driver."""
import os, subprocess, re
import oaplib as L

LABELS = {"waiter:register": "reg", "waiter:unregister": "unreg", "resp:lookup": "look", "conn.write:enqueued": "enq",
          "reconnect:failall": "failall", "client.dial:done": "newconn"}


def waiters_line(hooks):
    evs = []
    for h in hooks or []:
        m = re.match(r"(\d+) g(\d+) (\S+) ?(.*)", h)
        if not m:
            continue
        gid, label, args = m.group(2), m.group(3), [a for a in m.group(4).split(",") if a != ""]
        k = LABELS.get(label)
        if k == "reg" and len(args) >= 2:
            evs.append(f"reg:{gid}:{args[0]}:{args[1]}")
        elif k == "unreg" and args:
            evs.append(f"unreg:{gid}:{args[0]}")
        elif k == "look" and len(args) >= 3:
            evs.append(f"look:{args[0]}:{args[1]}:{args[2]}")
        elif k == "enq":
            evs.append(f"enq:{gid}")
        elif k == "failall":
            evs.append("failall")
        elif k == "newconn" and args and args[0] != "0":
            evs.append(f"newconn:{args[0]}")
    return "waiters.replay ev=" + ";".join(evs)


def check(prop, cfg, results):
    """returns {'checked': n, 'mismatches': [text]}"""
    lines, names = [], []
    for r in results:
        if r.get("status") not in ("ok", "race") or not r.get("hooks"):
            continue
        # several clients in one process (cycle scenarios) interleave their logs: conformance needs one client
        if r["name"].startswith("c16/cycles") or r["name"] == "c13/early-push":
            continue
        if len(r["hooks"]) > 30000:   # the replay state is list-based (quadratic): very long logs are not replayed
            continue
        lines.append(waiters_line(r["hooks"]))
        names.append(f"{r['name']}[{r['transport']},v{r['version']},seed={r['seed']}]")
    if not lines:
        return {"checked": 0, "mismatches": []}
    p = subprocess.run([os.path.join(L.LEAN, ".lake", "build", "bin", "oapdriver")], input="\n".join(lines) + "\n",
                       capture_output=True, text=True, timeout=600)
    out = p.stdout.splitlines()
    mism = []
    if p.returncode != 0 or len(out) != len(lines):
        return {"checked": 0, "mismatches": ["model driver failed on the conformance replay: " + (p.stderr or "")[-300:]]}
    for n, o in zip(names, out):
        if not o.startswith("ok "):
            mism.append(f"{n}: {o}")
    return {"checked": len(lines), "mismatches": mism, "summary": out[:5]}
