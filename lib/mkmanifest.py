#!/usr/bin/env python3
"""Regenerates /verif/MANIFEST.json from lib/props.py and lib/manifest_meta.py."""
import json, os, sys
sys.path.insert(0, os.path.dirname(os.path.abspath(__file__)))
import props, manifest_meta as M

VERIF = os.path.dirname(os.path.dirname(os.path.abspath(__file__)))
ids = [json.loads(l)["id"] for l in open(os.path.join(VERIF, "properties.jsonl"))]
checks, na = [], []
for pid in ids:
    if pid in props.PROPS and pid in M.CHECKS:
        c = M.CHECKS[pid]
        checks.append({
            "property_id": pid,
            "quick_cmd": f"./check {pid} --tier quick",
            "thorough_cmd": f"./check {pid} --tier thorough",
            "evidence_file": f"/verif/evidence/{pid}.json",
            "replay_cmd_template": f"./check {pid} --replay {{path}}",
            "engine": "lean4-proof+correspondence",
            "level_claimed": {"category": "proof", "text": c["text"], "design_ref": c["design_ref"]},
            "level_note": c["note"],
            "technique": c["technique"],
        })
    else:
        na.append({"property_id": pid, "reason": M.NOT_CLAIMED.get(pid, "check not built yet in this round; the design (DESIGN.md section 7) applies the same technique — not a statement that proof cannot apply")})
man = {
    "version": 1,
    "setup_cmd": "./setup.sh",
    "hooks": M.HOOKS,
    "engines": [{"name": "lean4-proof+correspondence", "path": "/verif/check",
                 "serves_properties": [c["property_id"] for c in checks],
                 "kind_free_text": "Lean 4 theorems over a hand-written executable model (lake build + #print axioms audit + leanchecker), tied to /repo by a Go harness / compiled Lean driver differential run on every check and by facts regenerated from the Go source"}],
    "checks": checks,
    "notes": M.NOTES,
    "not_applicable": na,
}
json.dump(man, open(os.path.join(VERIF, "MANIFEST.json"), "w"), indent=1)
print("MANIFEST.json:", len(checks), "checks,", len(na), "not claimed")
