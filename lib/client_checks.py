"""Checks of the client properties: proofs over the view's LTS + scenario batches against scripted peers
(monitors on the real traces, hook-log conformance replay through the Lean model)."""
import os, json, time, shutil, subprocess
import oaplib as L

CLIENT_ASSUME = [
    "the theorems quantify over every schedule OF THE MODEL; that the model's atomic steps and primitives (RWMutex, channels, Once, atomics) match Go's runtime is trusted and sampled by scenario traces",
    "Go scheduler, real sockets, wall-clock timers are outside any model: real-time bounds are checked on scenarios with slack (partial)",
]


def run_batch(prop, tier, seed, extra_env=None):
    d = os.path.join(L.WORK, f"{prop}-client-{tier}-{seed}-{os.getpid()}")
    shutil.rmtree(d, ignore_errors=True)
    os.makedirs(d)
    env = dict(L.GOENV)
    if extra_env:
        env.update(extra_env)
    t0 = time.time()
    rc, out = L.sh([os.path.join(L.BIN, "harness"), "client", prop, tier, str(seed), d], env=env, timeout=3400)
    r = {"dir": d, "wall_s": round(time.time() - t0, 1), "results": []}
    if rc != 0:
        r["error"] = "scenario runner failed: " + out[-1500:]
        return r
    for line in open(os.path.join(d, "results.jsonl"), encoding="utf-8", errors="replace"):
        try:
            r["results"].append(json.loads(line))
        except Exception:
            pass
    try:
        r["meta"] = json.load(open(os.path.join(d, "meta.json")))
    except Exception as e:
        r["error"] = "meta.json unreadable: " + str(e)
    return r


def failures_of(prop, results, cfg):
    """failing histories: failed monitor verdicts that belong to this property, panics, hangs, crashes"""
    fails, setup = [], []
    keys = cfg.get("keys")  # verdict keys this property owns (None = all)
    for r in results:
        scn = f"{r['name']}[{r['transport']},v{r['version']},seed={r['seed']}]"
        if r.get("status") != "ok":
            if r.get("status") == "race":
                if cfg.get("race"):
                    import re as _re
                    m = _re.findall(r"openapi-protocol/go/([A-Za-z0-9_/]+\.\(?\*?[A-Za-z0-9_]*\)?\.?[A-Za-z0-9_.]*)\(\)", r.get("detail") or "")
                    where = "+".join(sorted(set(x.split("/")[-1] for x in m[:2]))) or "library"
                    fails.append({"key": f"race:{where}", "scenario": scn, "detail": (r.get("detail") or "")[:3000], "result": r})
                    continue
                # a race report does not invalidate the scenario's own verdicts for the other properties
            else:
                key = {"panic": "panic", "watchdog": "hang", "crashed": "crash"}.get(r.get("status"), "crash")
                owns = cfg.get("owns_crashes", True)
                if owns:
                    fails.append({"key": f"{key}:{r['name']}:{r['transport']}", "scenario": scn, "detail": (r.get("detail") or "")[:3000], "result": r})
                continue
        for v in r.get("verdicts") or []:
            if v["ok"]:
                continue
            base = v["key"].split(":")[0]
            if v["key"] == "setup" or base == "setup":
                setup.append({"scenario": scn, "detail": v.get("detail", "")})
                continue
            if keys is not None and base not in keys and v["key"] not in keys:
                continue
            fails.append({"key": f"{v['key']}@{r['name']}:{r['transport']}", "scenario": scn, "detail": v.get("detail", "")[:1500], "result": r})
    # scripts played against the real client and evaluated by the Lean model (decision-logic views)
    import conformance
    mf, mstats = conformance.model_oracle(results)
    for f in mf:
        base = f["key"].split("@")[0]
        if keys is None or base in keys or base == "model_driver":
            fails.append(f)
    cfg.setdefault("_model_oracle", {"scripts": 0, "ambiguous": 0, "compared": 0})
    for k, v in mstats.items():
        cfg["_model_oracle"][k] += v
    if cfg.get("cross_transport"):
        # C20: the canonical application traces of the same script over TCP and WebSocket must be equal
        canon = {}
        for r in results:
            for e in r.get("events") or []:
                if e.get("k") == "c20.trace":
                    canon.setdefault((r["name"], r["version"], r["seed"]), {})[r["transport"]] = (e["f"].get("canon"), e["f"].get("connections"), r)
        for k, d in canon.items():
            if "tcp" in d and "ws" in d and (d["tcp"][0] != d["ws"][0] or d["tcp"][1] != d["ws"][1]):
                fails.append({"key": f"trace_equiv@{k[0]}", "scenario": f"{k[0]}[v{k[1]},seed={k[2]}]",
                              "detail": f"application traces differ: TCP [{d['tcp'][1]} connections] {d['tcp'][0]}  |||  WebSocket [{d['ws'][1]} connections] {d['ws'][0]}",
                              "result": d["ws"][2]})
    return fails, setup


def slim(result):
    r = dict(result)
    ev = r.get("events") or []
    if len(ev) > 400:
        r["events"] = ev[:200] + [{"k": "…", "t": 0}] + ev[-200:]
    hk = r.get("hooks") or []
    if len(hk) > 600:
        r["hooks"] = hk[:300] + ["…"] + hk[-300:]
    return r


def run(prop, cfg, tier, seed, replay):
    t0 = time.time()
    if replay:
        return replay_client(prop, cfg, replay)
    known, fixed = L.known_findings(prop)
    problems = []
    ex = L.extract()
    if not ex.get("ok"):
        problems.append("extract: " + ex.get("error", "?"))
    pr = L.prove(prop, cfg["modules"], tier)
    if pr["failed"]:
        problems.append("proof: " + pr.get("failed_reason", "") + " [" + ", ".join(pr["failed"][:8]) + "]")
    ok, out = L.build_go_tool("harness", tags="verif")
    batches = []
    extra_env = None
    if ok and cfg.get("race"):
        ok, out = L.build_go_tool("harness", tags="verif", race=True)
        extra_env = {"OAP_SCN_BIN": os.path.join(L.BIN, "harness-race"), "OAP_UNIT_MS": "100", "OAP_PARALLEL": "8", "OAP_HOOK_LOG": "0"}
    if not ok:
        problems.append("harness does not build against /repo (API changed?): " + out[-600:])
    else:
        batches.append(run_batch(prop, tier, seed, extra_env))
    fails, setups = [], []
    for b in batches:
        if "error" in b:
            problems.append("scenario batch: " + b["error"])
        f, s = failures_of(prop, b["results"], cfg)
        fails += f
        setups += s
    # a scenario that could not establish its preconditions is retried once in a second batch before it counts
    if setups and ok:
        b2 = run_batch(prop, tier, seed + 17, {"OAP_PARALLEL": "4"})
        batches.append(b2)
        f2, s2 = failures_of(prop, b2["results"], cfg)
        fails += f2
        if s2:
            problems.append(f"{len(s2)} scenario(s) could not establish their preconditions twice, first: {s2[0]['scenario']}: {s2[0]['detail'][:200]}")
    # model-code conformance of the hook logs (T3) through the Lean driver
    conf = {"checked": 0, "mismatches": []}
    if ok and cfg.get("conformance"):
        import conformance
        for b in batches[:1]:
            conf = conformance.check(prop, cfg, b["results"])
        if conf["mismatches"]:
            problems.append(f"trace conformance: {len(conf['mismatches'])} trace(s) of the real client are not traces of the model, first: {conf['mismatches'][0][:300]}")
    # the same for the Recovery view (T3, round 2): every client's recovery/close hook log must be a weak trace of the proved Recovery LTS
    if ok and cfg.get("conformance_recovery") and batches:
        import conformance_recovery
        try:
            rconf = conformance_recovery.check(batches[0]["results"], L.LEAN)
        except Exception as e:  # the driver could not be run: a broken tie, not a pass
            rconf = {"checked": 0, "mismatches": ["recovery replay could not be run: " + str(e)[:300]]}
        conf["recovery"] = {"checked": rconf.get("checked", 0), "mismatches": len(rconf.get("mismatches", [])), "skipped": len(rconf.get("skipped", []))}
        if rconf.get("mismatches"):
            problems.append(f"recovery trace conformance: {len(rconf['mismatches'])} hook log(s) of the real client are not traces of the Recovery LTS, first: {rconf['mismatches'][0][:400]}")
    # and for the ConnThreads view (T3, round 2): every connection's hook log (reads, enqueues, drops, the three goroutine exits) must be a
    # weak trace of the proved ConnThreads LTS
    if ok and cfg.get("conformance_conn") and batches:
        import conformance_conn
        try:
            cconf = conformance_conn.check(batches[0]["results"], L.LEAN)
        except Exception as e:
            cconf = {"checked": 0, "mismatches": ["connection replay could not be run: " + str(e)[:300]]}
        conf["conn"] = {"checked": cconf.get("checked", 0), "mismatches": len(cconf.get("mismatches", [])), "skipped": len(cconf.get("skipped", []))}
        if cconf.get("mismatches"):
            problems.append(f"connection trace conformance: {len(cconf['mismatches'])} connection log(s) of the real client are not traces of the ConnThreads LTS, first: {str(cconf['mismatches'][0])[:400]}")
    # search when something broke and no failing history is known: the thorough batch
    if problems and not fails and tier == "quick" and ok:
        b3 = run_batch(prop, "thorough", seed)
        batches.append(b3)
        f3, _ = failures_of(prop, b3["results"], cfg)
        fails += f3
    known_keys = {k["key"] for k in known}
    matched = set()
    new_fails = []
    for f in fails:
        kk = [k for k in known_keys if f["key"] == k or f["key"].startswith(k)]
        if kk:
            matched.update(kk)
        else:
            new_fails.append(f)
    for k in known:
        if k["key"] in matched:
            print(f"KNOWN-FINDING: property={prop} {k['text']}")
    rc = 0
    if new_fails:
        f0 = new_fails[0]
        payload = {"property": prop, "kind": "failing-history", "tier": tier, "seed": seed,
                   "scenario": {"name": f0["result"]["name"], "transport": f0["result"]["transport"], "version": f0["result"]["version"], "seed": f0["result"]["seed"]},
                   "failures": [{"key": f["key"], "scenario": f["scenario"], "detail": f["detail"]} for f in new_fails[:20]],
                   "trace": slim(f0["result"]), "broken": problems,
                   "how_to_replay": f"./check {prop} --replay <this file>   (re-runs that scenario: /verif/bin/harness scn <name> <transport> <version> <seed>)"}
        path = L.write_replay(prop, seed, payload)
        print(f"VIOLATION property={prop} replay={path}")
        print(f"  {f0['key']} in {f0['scenario']}: {f0['detail'][:300]}")
        rc = 1
    elif problems:
        payload = {"property": prop, "kind": "no-failing-input-found", "tier": tier, "seed": seed, "broken": problems,
                   "proof": {k: pr.get(k) for k in ("failed", "failed_reason", "build_errors")}, "conformance": conf}
        path = L.write_replay(prop, seed, payload)
        print(f"VIOLATION property={prop} replay={path} no-failing-input-found")
        for p in problems[:5]:
            print("  " + p[:400])
        rc = 1
    # evidence
    res = batches[0]["results"] if batches else []
    nver = sum(len(r.get("verdicts") or []) for r in res)
    distinct = len({(r["name"], r["transport"], r["version"], r["seed"]) for r in res})
    samples = []
    for r in res[:6]:
        evs = [f"{e['k']}{json.dumps(e.get('f', {}), sort_keys=True)}" for e in (r.get("events") or [])[:14]]
        samples.append({"scenario": f"{r['name']}[{r['transport']},v{r['version']}]", "status": r.get("status"), "verdicts": len(r.get("verdicts") or []),
                        "first_events": evs, "hook_events": len(r.get("hooks") or [])})
    dist = {}
    for r in res:
        dist[r["name"] + "/" + r["transport"]] = dist.get(r["name"] + "/" + r["transport"], 0) + 1
    cov = {
        "obligations": pr["obligations"] + 1,
        "discharged": pr["discharged"] + (1 if not any(p.startswith(("scenario", "trace", "harness")) for p in problems) else 0),
        "checker_cmd": "cd /verif/lean && lake build " + " ".join(cfg["modules"]) + " && lake env lean <#print axioms of every theorem>"
                       + (" && lake env leanchecker " + " ".join(cfg["modules"]) if tier == "thorough" else ""),
        "trusted_base": L.TRUSTED_BASE + ["scenario engine, scripted peers (independent layout parser), hook package verifhook (build tag verif)"],
        "theorems": sorted(pr["axioms"].keys()) if pr["axioms"] else [],
        "axioms_used": sorted({a for v in pr["axioms"].values() for a in v}),
        "proof_failed": pr["failed"],
        "evaluations": len(res), "distinct_nontrivial": distinct,
        "rule": cfg["rule"], "samples": samples or ["(no scenario ran)"],
        "traces_validated_against_impl": conf.get("checked", 0) + (conf.get("recovery") or {}).get("checked", 0) + (conf.get("conn") or {}).get("checked", 0),
        "recovery_traces_replayed": (conf.get("recovery") or {}).get("checked", 0),
        "connection_traces_replayed": (conf.get("conn") or {}).get("checked", 0),
        "monitor_verdicts": nver, "failing_histories": len(fails), "scenario_distribution": dist,
        "conformance_mismatches": len(conf.get("mismatches", [])),
        "model_scripts": cfg.get("_model_oracle", {}),
        "timing_retries": (batches[0].get("meta", {}) or {}).get("timing_retries", 0) if batches else 0,
        "max_process_stall_ms": round(max([r.get("max_stall_ms", 0) or 0 for r in res] or [0]), 1),
        "known_findings_matched": sorted(matched), "fixed_findings": [f["commit"] + " " + f["text"] for f in fixed],
        "extract": {k: ex.get(k) for k in ("changed", "anchors_lost", "error") if k in ex},
        "timing": {"lake_build_s": pr.get("build_s"), "scenarios_s": batches[0]["wall_s"] if batches else 0},
        "partial": cfg.get("partial", ""),
    }
    if "leanchecker" in pr:
        cov["leanchecker"] = pr["leanchecker"]
    L.write_evidence(prop, tier, seed, cov, CLIENT_ASSUME + cfg.get("assumptions", []), time.time() - t0, 1 if rc else 0)
    if rc == 0:
        for b in batches:
            shutil.rmtree(b["dir"], ignore_errors=True)
        print(f"OK property={prop} tier={tier} seed={seed} theorems={pr['discharged']}/{pr['obligations']} scenarios={len(res)} verdicts={nver} wall={time.time()-t0:.1f}s")
    return rc


def replay_client(prop, cfg, path):
    p = json.load(open(path))
    ok, out = L.build_go_tool("harness", tags="verif")
    if not ok:
        print("harness does not build:", out[-500:])
        return 1
    if p.get("kind") != "failing-history":
        print("replay file names broken obligations, not a history:")
        for b in p.get("broken", []):
            print("  " + b)
        return run(prop, cfg, p.get("tier", "quick"), p.get("seed", 1), None)
    s = p["scenario"]
    rc, out = L.sh([os.path.join(L.BIN, "harness"), "scn", s["name"], s["transport"], str(s["version"]), str(s["seed"])], env=L.GOENV, timeout=600)
    try:
        r = json.loads(out.strip().splitlines()[-1])
    except Exception:
        print("scenario crashed:", out[-2000:])
        print(f"VIOLATION property={prop} replay={path}")
        return 1
    fails, _ = failures_of(prop, [r], cfg)
    for f in fails:
        print(f"REPRODUCED {f['key']} in {f['scenario']}: {f['detail'][:400]}")
    if fails:
        print(f"VIOLATION property={prop} replay={path}")
        return 1
    print("not reproduced: the recorded scenario passes now")
    return 0
