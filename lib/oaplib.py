"""Shared machinery of ./check (see DESIGN.md sections 2-4)."""
import sys, os, json, subprocess, time, re, fcntl, hashlib, shutil, glob

VERIF = os.path.dirname(os.path.dirname(os.path.abspath(__file__)))
REPO = os.environ.get("OAP_REPO", "/repo")
LEAN = os.path.join(VERIF, "lean")
BIN = os.path.join(VERIF, "bin")
WORK = os.path.join(VERIF, "work")          # scratch of the checks (ignored by git)
EVID = os.path.join(VERIF, "evidence")
REPLAYS = os.path.join(VERIF, "replays")
KNOWN = os.path.join(VERIF, "KNOWN_FINDINGS.txt")
ALLOWED_AXIOMS = {"propext", "Classical.choice", "Quot.sound"}
FORBIDDEN = re.compile(r"\bsorry\b|\badmit\b|^\s*axiom\s|native_decide|bv_decide|implemented_by|\bunsafe\s|maxHeartbeats\s+0\b")

GOENV = dict(os.environ, GOFLAGS="-mod=mod", GOPROXY="off", GOSUMDB="off", GOTOOLCHAIN="local",
             CGO_ENABLED=os.environ.get("CGO_ENABLED", "1"))


def sh(cmd, cwd=None, env=None, timeout=3600, stdin=None, stdout=None):
    p = subprocess.run(cmd, cwd=cwd, env=env, timeout=timeout, stdin=stdin,
                       stdout=subprocess.PIPE if stdout is None else stdout, stderr=subprocess.STDOUT, text=stdout is None)
    return p.returncode, (p.stdout if stdout is None else "")


class Lock:
    def __init__(self, name):
        os.makedirs(WORK, exist_ok=True)
        self.path = os.path.join(WORK, name + ".lock")

    def __enter__(self):
        self.f = open(self.path, "w")
        fcntl.flock(self.f, fcntl.LOCK_EX)
        return self

    def __exit__(self, *a):
        fcntl.flock(self.f, fcntl.LOCK_UN)
        self.f.close()


# ------------------------------------------------------------------ T2: extraction

def build_go_tool(name, tags=None, race=False):
    """go build /verif/<name> -> /verif/bin/<name> (from source on every run; the Go build cache makes it cheap)"""
    os.makedirs(BIN, exist_ok=True)
    src = os.path.join(VERIF, name)
    if name == "harness":
        # the harness module replaces the library by /repo/go: its go.sum is the repo's
        shutil.copyfile(os.path.join(REPO, "go", "go.sum"), os.path.join(src, "go.sum"))
    out_name = name + ("-race" if race else "")
    cmd = ["go", "build"] + (["-race"] if race else []) + (["-tags", tags] if tags else []) + ["-o", os.path.join(BIN, out_name), "."]
    with Lock("gobuild-" + out_name):
        rc, out = sh(cmd, cwd=src, env=GOENV, timeout=900)
    return rc == 0, out


def extract():
    ok, out = build_go_tool("extract")
    if not ok:
        return {"ok": False, "error": "extractor does not build: " + out[-2000:]}
    with Lock("lake"):
        rc, out = sh([os.path.join(BIN, "extract"), REPO, os.path.join(LEAN, "OAP", "Gen")], timeout=120)
    if rc != 0:
        return {"ok": False, "error": "extractor failed (the Go source does not parse?): " + out[-2000:]}
    try:
        info = json.loads(out.strip().splitlines()[-1])
    except Exception:
        return {"ok": False, "error": "extractor output unreadable: " + out[-500:]}
    info["ok"] = True
    return info


# ------------------------------------------------------------------ proofs

def lake_build(targets, timeout=3000):
    with Lock("lake"):
        rc, out = sh(["lake", "build"] + targets, cwd=LEAN, timeout=timeout)
    return rc == 0, out


def theorems_of(path):
    """public theorem names (fully qualified) of a Props file, with their line numbers"""
    ns, out = [], []
    for i, line in enumerate(open(path, encoding="utf-8"), 1):
        m = re.match(r"^namespace\s+(\S+)", line)
        if m:
            ns.append(m.group(1))
        m = re.match(r"^end\s+(\S+)", line)
        if m and ns and ns[-1] == m.group(1):
            ns.pop()
        m = re.match(r"^(private\s+)?theorem\s+([^\s:({\[]+)", line)
        if m:
            out.append({"name": ".".join(ns + [m.group(2)]), "line": i, "private": bool(m.group(1))})
    return out


def strip_comments(text):
    # remove /- … -/ (nested not needed here) and -- … comments
    text = re.sub(r"/-.*?-/", lambda m: "\n" * m.group(0).count("\n"), text, flags=re.S)
    return "\n".join(l.split("--")[0] for l in text.splitlines())


def forbidden_tokens():
    hits = []
    for root in ("OAP", "Driver"):
        for p in glob.glob(os.path.join(LEAN, root, "**", "*.lean"), recursive=True):
            for i, l in enumerate(strip_comments(open(p, encoding="utf-8").read()).splitlines(), 1):
                if FORBIDDEN.search(l):
                    hits.append(f"{os.path.relpath(p, LEAN)}:{i}: {l.strip()[:120]}")
    return hits


def audit(prop_modules):
    """#print axioms for every public theorem of the property modules; returns {theorem: [axioms]}"""
    thms = []
    for mod in prop_modules:
        path = os.path.join(LEAN, mod.replace(".", "/") + ".lean")
        thms += [t for t in theorems_of(path) if not t["private"]]
    os.makedirs(WORK, exist_ok=True)
    tmp = os.path.join(WORK, "audit_" + hashlib.sha1(" ".join(prop_modules).encode()).hexdigest()[:10] + ".lean")
    with open(tmp, "w") as f:
        for mod in prop_modules:
            f.write(f"import {mod}\n")
        for t in thms:
            f.write(f"#print axioms {t['name']}\n")
    with Lock("lake"):
        rc, out = sh(["lake", "env", "lean", tmp], cwd=LEAN, timeout=900)
    res = {}
    # output: "'name' depends on axioms: [a, b]" or "'name' does not depend on any axioms"
    # (names may end in primes: match up to the quote that is followed by the fixed text)
    for m in re.finditer(r"'(\S+?)' depends on axioms: \[([^\]]*)\]", out.replace("\n ", " ")):
        res[m.group(1)] = [a.strip() for a in m.group(2).split(",") if a.strip()]
    for m in re.finditer(r"'(\S+?)' does not depend on any axioms", out):
        res[m.group(1)] = []
    missing = [t["name"] for t in thms if t["name"] not in res]
    return thms, res, missing, (out if rc != 0 or missing else "")


def prove(prop, modules, tier):
    """build the property's theorem modules, audit axioms; returns a dict for the evidence"""
    r = {"modules": modules, "obligations": 0, "discharged": 0, "failed": [], "axioms": {}, "build_ok": False}
    t0 = time.time()
    ok, out = lake_build(modules + ["oapdriver"])
    r["build_s"] = round(time.time() - t0, 1)
    r["build_ok"] = ok
    all_thms = []
    for mod in modules:
        path = os.path.join(LEAN, mod.replace(".", "/") + ".lean")
        all_thms += [dict(t, module=mod) for t in theorems_of(path)]
    r["obligations"] = len(all_thms)
    if not ok:
        errs = re.findall(r"error: (\S+?\.lean):(\d+):(\d+): (.*)", out)
        r["build_errors"] = [f"{f}:{l}:{c}: {m[:200]}" for f, l, c, m in errs][:20]
        # which theorems are hit: those of a Props file containing an error line inside their span;
        # an error upstream (Model/Proofs/Gen) leaves every theorem of the property unchecked
        upstream = [e for e in errs if not any(e[0].endswith(m.replace(".", "/") + ".lean") for m in modules)]
        if upstream or not errs:
            r["failed"] = [t["name"] for t in all_thms]
            r["failed_reason"] = "a module the theorems depend on no longer builds: " + (r["build_errors"][0] if errs else out[-400:])
        else:
            for mod in modules:
                path = mod.replace(".", "/") + ".lean"
                ts = [t for t in all_thms if t["module"] == mod]
                lines = sorted(int(l) for f, l, c, m in errs if f.endswith(path))
                for i, t in enumerate(ts):
                    end = ts[i + 1]["line"] if i + 1 < len(ts) else 10 ** 9
                    if any(t["line"] <= l < end for l in lines):
                        r["failed"].append(t["name"])
                # errors before the first theorem
                if lines and ts and lines[0] < ts[0]["line"]:
                    r["failed"] = [t["name"] for t in ts]
            r["failed_reason"] = "proof obligations no longer check: " + r["build_errors"][0]
        r["discharged"] = r["obligations"] - len(r["failed"])
        return r
    thms, ax, missing, aout = audit(modules)
    r["axioms"] = ax
    bad = {n: a for n, a in ax.items() if not set(a) <= ALLOWED_AXIOMS}
    for n in missing:
        r["failed"].append(n)
    for n in bad:
        r["failed"].append(n)
    if missing:
        r["failed_reason"] = "axiom audit could not print: " + ", ".join(missing[:5]) + " " + aout[-300:]
    if bad:
        r["failed_reason"] = "theorem depends on a non-standard axiom: " + json.dumps(bad)[:300]
    fb = forbidden_tokens()
    if fb:
        r["failed"].append("forbidden-token")
        r["failed_reason"] = "forbidden token in Lean sources: " + "; ".join(fb[:5])
    r["discharged"] = r["obligations"] - len([f for f in r["failed"] if f != "forbidden-token"])
    if tier == "thorough":
        t0 = time.time()
        for mod in modules:
            with Lock("lake"):
                rc, out = sh(["lake", "env", "leanchecker", mod], cwd=LEAN, timeout=3000)
            if rc != 0:
                r["failed"].append("leanchecker:" + mod)
                r["failed_reason"] = "leanchecker rejected " + mod + ": " + out[-300:]
        r["leanchecker_s"] = round(time.time() - t0, 1)
        r["leanchecker"] = "ok" if not any(f.startswith("leanchecker") for f in r["failed"]) else "failed"
    return r


# ------------------------------------------------------------------ T1: codec correspondence

def run_codec(prop, tier, seed, gen=None):
    """harness (real code) and driver (model) on the same generated operation lines"""
    gen = gen or prop
    d = os.path.join(WORK, f"{gen}-{tier}-{seed}-{os.getpid()}")
    shutil.rmtree(d, ignore_errors=True)
    os.makedirs(d)
    r = {"dir": d, "mismatches": [], "fails": [], "notes": [], "ops": 0}
    t0 = time.time()
    env = dict(GOENV, GOMEMLIMIT="12GiB")
    rc, out = sh([os.path.join(BIN, "harness"), "codec", gen, tier, str(seed), d], env=env, timeout=3000)
    r["harness_s"] = round(time.time() - t0, 1)
    if rc != 0:
        r["error"] = "harness failed: " + out[-1500:]
        return r
    t0 = time.time()
    with open(os.path.join(d, "ops.txt"), "rb") as fi, open(os.path.join(d, "lean.raw"), "wb") as fo:
        p = subprocess.run([os.path.join(LEAN, ".lake", "build", "bin", "oapdriver")], stdin=fi, stdout=fo, stderr=subprocess.PIPE, timeout=3000)
    r["driver_s"] = round(time.time() - t0, 1)
    if p.returncode != 0:
        r["error"] = "model driver crashed: " + p.stderr.decode(errors="replace")[-800:]
        return r
    # the comparator's canonicalisation: raw metadata pairs -> lower-cased map, with the real strings.ToLower
    rc, out = sh([os.path.join(BIN, "harness"), "canon", os.path.join(d, "lean.raw"), os.path.join(d, "lean.out")], env=env, timeout=3000)
    if rc != 0:
        r["error"] = "canonicalisation failed: " + out[-500:]
        return r
    ops = open(os.path.join(d, "ops.txt"), encoding="utf-8", errors="replace").read().splitlines()
    go = open(os.path.join(d, "go.out"), encoding="utf-8", errors="replace").read().splitlines()
    le = open(os.path.join(d, "lean.out"), encoding="utf-8", errors="replace").read().splitlines()
    r["ops"] = len(ops)
    if not (len(ops) == len(go) == len(le)):
        r["error"] = f"line counts differ: ops={len(ops)} go={len(go)} model={len(le)}"
    for i in range(min(len(ops), len(go), len(le))):
        if go[i] != le[i]:
            r["mismatches"].append({"index": i, "op": ops[i][:2000], "code": go[i][:2000], "model": le[i][:2000]})
            if len(r["mismatches"]) >= 50:
                break
    for line in open(os.path.join(d, "props.txt"), encoding="utf-8", errors="replace"):
        line = line.rstrip("\n")
        if line.startswith("FAIL "):
            _, idx, key, *rest = line.split(" ", 3)
            i = int(idx)
            r["fails"].append({"index": i, "key": key, "detail": (rest[0] if rest else "")[:2000],
                               "op": ops[i][:2000] if 0 <= i < len(ops) else "", "code": go[i][:2000] if 0 <= i < len(go) else ""})
        elif line.startswith("NOTE "):
            r["notes"].append(line[5:])
    try:
        r["meta"] = json.load(open(os.path.join(d, "meta.json")))
    except Exception as e:
        r["error"] = "meta.json unreadable: " + str(e)
    return r


# ------------------------------------------------------------------ findings, evidence, verdict

def known_findings(prop):
    known, fixed = [], []
    if os.path.exists(KNOWN):
        for line in open(KNOWN, encoding="utf-8"):
            line = line.strip()
            m = re.match(r"known:\s+property=(\S+)\s+key=(\S+)\s+(.*)", line)
            if m and m.group(1) == prop:
                known.append({"key": m.group(2), "text": m.group(3)})
            m = re.match(r"fixed:\s+property=(\S+)\s+(\S+)\s+(.*)", line)
            if m and m.group(1) == prop:
                fixed.append({"commit": m.group(2), "text": m.group(3)})
    return known, fixed


def write_replay(prop, seed, payload):
    os.makedirs(REPLAYS, exist_ok=True)
    n = 0
    while True:
        p = os.path.join(REPLAYS, f"{prop}-{seed}-{n}.json")
        if not os.path.exists(p):
            break
        n += 1
    with open(p, "w") as f:
        json.dump(payload, f, indent=1)
    return os.path.relpath(p, VERIF)


def write_evidence(prop, tier, seed, coverage, assumptions, wall, violations):
    os.makedirs(EVID, exist_ok=True)
    ev = {"property_id": prop, "tier": tier, "seed": seed, "level": "proof", "coverage": coverage,
          "assumptions": assumptions, "wall_s": round(wall, 1), "violations": violations}
    with open(os.path.join(EVID, prop + ".json"), "w") as f:
        json.dump(ev, f, indent=1)


TRUSTED_BASE = [
    "Lean 4.33.0 kernel (thorough tier: re-checked by leanchecker)",
    "axioms allowed in property theorems: propext, Classical.choice, Quot.sound (audited by #print axioms on every run)",
    "the hand-written model is tied to /repo by differential execution (Go harness vs compiled Lean driver) and by facts regenerated from the Go source (extract)",
    "Go harness canonicalisation, Lean driver parsing/printing, extractor",
]


def main(argv):
    import props  # per-property configuration
    if not argv:
        print(__doc__)
        return 2
    prop = argv[0]
    tier = os.environ.get("VERIF_TIER", "quick")
    replay = None
    i = 1
    while i < len(argv):
        if argv[i] == "--tier":
            tier = argv[i + 1]; i += 2
        elif argv[i] == "--replay":
            replay = argv[i + 1]; i += 2
        else:
            print("unknown argument", argv[i]); return 2
    if tier not in ("quick", "thorough"):
        tier = "quick"
    try:
        seed = int(os.environ.get("VERIF_SEED", "1"))
    except ValueError:
        seed = 1
    if prop not in props.PROPS:
        print("unknown property", prop)
        return 2
    return props.run(prop, tier, seed, replay)
