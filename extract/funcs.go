// funcs.go: statement-level translation of the small pure functions of the codec core into Lean definitions
// (Gen/Funcs.lean). Every translated function becomes a `def … : Res …` whose control flow, buffer writes, index and
// slice operations (panicking exactly where Go panics) and arithmetic are those of the Go source; the hand-written
// model functions are then PROVED equal to them (OAP/Proofs/GenFuncs.lean), so a change of the Go function changes
// the term the kernel checks. Subset: straight-line code, if/else, switch, early returns, named results, fixed-size
// integers, `int` as Nat (lengths and offsets only; subtraction only between constants), []byte as List UInt8,
// make/len/append/composite literals, index and slice expressions, binary.BigEndian.{Put,}Uint{16,32}, calls of
// other translated methods of the same receiver. No loops, no closures, no maps.
// Streaming decoders: a parameter of type *ringbuffer.RingBuffer is a mutable variable of the model's type `Ring`
// (OAP/Model/Ring.lean, written after the library's source) that is threaded like a written pointer receiver and returned
// in the result tuple; buffer.Length() is pure, buffer.PeekUint8/16/32() are binds on the model's `Res`-valued
// Ring.peekUintN, buffer.Retrieve(n) is a statement, `f, e := buffer.Peek(n)` defines the two slices. In such a function
// the state (receiver, ring) survives a returned error, so the `error` result is a component of the tuple
// (`Option String`) rather than `Res.err`; `Res.panic` remains the run-time panic.
package main

import (
	"fmt"
	"go/ast"
	"go/token"
	"sort"
	"strconv"
	"strings"
)

type sfield struct{ goName, lean, ty string }

var gstructs = map[string][]sfield{} // "v1.Header" -> fields (embedded structs flattened)
var leanStruct = map[string]string{"protocol.Handshake": "GHandshake", "v1.Header": "V1Header", "v2.Header": "V2Header"}

func lowerFirst(s string) string { return strings.ToLower(s[:1]) + s[1:] }

func structOf(pkg, name string) []sfield {
	key := pkg + "." + name
	if fs, ok := gstructs[key]; ok {
		return fs
	}
	var out []sfield
	for _, f := range pkgs[pkg].files {
		for _, d := range f.Decls {
			gd, ok := d.(*ast.GenDecl)
			if !ok || gd.Tok != token.TYPE {
				continue
			}
			for _, s := range gd.Specs {
				ts := s.(*ast.TypeSpec)
				st, ok := ts.Type.(*ast.StructType)
				if !ok || ts.Name.Name != name {
					continue
				}
				for _, fl := range st.Fields.List {
					if len(fl.Names) == 0 { // embedded
						if se, ok := fl.Type.(*ast.SelectorExpr); ok {
							out = append(out, structOf(exprText(se.X), se.Sel.Name)...)
						} else if id, ok := fl.Type.(*ast.Ident); ok {
							out = append(out, structOf(pkg, id.Name)...)
						}
						continue
					}
					ty := ""
					switch exprText(fl.Type) {
					case "bool":
						ty = "Bool"
					default:
						ty = goTy[exprText(fl.Type)]
					}
					for _, n := range fl.Names {
						if ty != "" {
							out = append(out, sfield{n.Name, lowerFirst(n.Name), ty})
						}
					}
				}
			}
		}
	}
	gstructs[key] = out
	return out
}

// message of a package-level `ErrX = errors.New("…")`
func errMessage(pk *pkgInfo, e ast.Expr) (string, bool) {
	name := ""
	switch x := e.(type) {
	case *ast.Ident:
		name = x.Name
	case *ast.SelectorExpr:
		if id, ok := x.X.(*ast.Ident); ok {
			if q, ok := pkgs[id.Name]; ok {
				pk, name = q, x.Sel.Name
			}
		}
	}
	if name == "" || name == "nil" {
		return "", false
	}
	for _, f := range pk.files {
		for _, d := range f.Decls {
			gd, ok := d.(*ast.GenDecl)
			if !ok || gd.Tok != token.VAR {
				continue
			}
			for _, s := range gd.Specs {
				vs := s.(*ast.ValueSpec)
				for i, n := range vs.Names {
					if n.Name == name && i < len(vs.Values) {
						if ce, ok := vs.Values[i].(*ast.CallExpr); ok && exprText(ce.Fun) == "errors.New" && len(ce.Args) == 1 {
							if bl, ok := ce.Args[0].(*ast.BasicLit); ok {
								if s, err := strconv.Unquote(bl.Value); err == nil {
									return s, true
								}
							}
						}
					}
				}
			}
		}
	}
	return "", false
}

type fres struct{ name, ty string } // ty "Err" for error

type translated struct {
	lean   string // Lean def name
	recvTy string // Lean struct of the receiver ("" if none)
	resTy  string // Lean type inside Res
}

var fnTable = map[string]translated{} // "v1.Header.IsUnknownPacket" -> …
var usesRing = false                  // some translated function takes a ring buffer: Gen/Funcs.lean imports OAP.Model.Ring

type ftr struct {
	tx
	pkg     string
	vars    map[string]string // go variable -> Lean type
	order   []string
	results []fres
	named   bool
	recv    string
	recvKey string // "v1.Header"
	recvPtr bool
	recvW   bool
	fresh   int
	fail    string
	hoisted []string
	rings   []string // parameters of type *ringbuffer.RingBuffer (Lean type Ring), in declaration order
	errVal  bool     // error results are tuple components (functions whose state survives an error)
}

func isRingType(e ast.Expr) bool {
	st, ok := e.(*ast.StarExpr)
	return ok && exprText(st.X) == "ringbuffer.RingBuffer"
}

// ringCall recognises `<ring variable>.<method>(args)`
func (f *ftr) ringCall(e ast.Expr) (ring, method string, args []ast.Expr, ok bool) {
	ce, isCall := e.(*ast.CallExpr)
	if !isCall {
		return
	}
	se, isSel := ce.Fun.(*ast.SelectorExpr)
	if !isSel {
		return
	}
	id, isId := se.X.(*ast.Ident)
	if !isId || f.vars[id.Name] != "Ring" {
		return
	}
	return id.Name, se.Sel.Name, ce.Args, true
}

func (f *ftr) bad(format string, a ...interface{}) string {
	if f.fail == "" {
		f.fail = fmt.Sprintf(format, a...)
	}
	return "sorryUntranslatable"
}

var leanKeywords = map[string]bool{"end": true, "from": true, "at": true, "in": true, "fun": true, "do": true, "then": true, "else": true, "if": true, "let": true,
	"have": true, "show": true, "open": true, "section": true, "namespace": true, "match": true, "with": true, "instance": true, "class": true, "structure": true,
	"theorem": true, "def": true, "where": true, "by": true, "Type": true, "Prop": true, "Sort": true, "mut": true, "for": true, "return": true}

func lname(s string) string {
	if leanKeywords[s] {
		return s + "_"
	}
	return s
}

func (f *ftr) declare(name, ty string) {
	if _, ok := f.vars[name]; !ok {
		f.order = append(f.order, name)
	}
	f.vars[name] = ty
	f.ren[name] = [2]string{lname(name), ty}
	if ty == "Bytes" {
		f.ren["len("+name+")"] = [2]string{lname(name) + ".length", "Nat"}
	}
	if fs, ok := gstructs[f.structKeyOfLean(ty)]; ok {
		for _, fl := range fs {
			f.ren[name+"."+fl.goName] = [2]string{lname(name) + "." + fl.lean, fl.ty}
		}
	}
}

func (f *ftr) structKeyOfLean(ty string) string {
	for k, v := range leanStruct {
		if v == ty {
			return k
		}
	}
	return ""
}

type snapshot struct {
	vars  map[string]string
	order []string
	ren   map[string][2]string
}

func (f *ftr) snap() snapshot {
	s := snapshot{vars: map[string]string{}, ren: map[string][2]string{}, order: append([]string{}, f.order...)}
	for k, v := range f.vars {
		s.vars[k] = v
	}
	for k, v := range f.ren {
		s.ren[k] = v
	}
	return s
}
func (f *ftr) restore(s snapshot) { f.vars, f.order, f.ren = s.vars, s.order, s.ren }

func (f *ftr) leanTypeOf(e ast.Expr) string {
	switch x := e.(type) {
	case *ast.ArrayType:
		if x.Len == nil && (exprText(x.Elt) == "byte" || exprText(x.Elt) == "uint8") {
			return "Bytes"
		}
	case *ast.Ident:
		switch x.Name {
		case "bool":
			return "Bool"
		case "string":
			return "Bytes"
		case "error":
			return "Err"
		}
		if g, ok := f.goType(x.Name); ok {
			return g
		}
	}
	return ""
}

func zeroOf(ty string) string {
	switch ty {
	case "Bytes":
		return "[]"
	case "Bool":
		return "false"
	case "Err":
		return "none"
	}
	return "0"
}

func leanTyText(ty string) string {
	if ty == "Err" {
		return "Option String"
	}
	return ty
}

// ---- expressions: hoist the operations that can panic (or that call another translated function), then use the typed translator ----

func (f *ftr) tmp() string { f.fresh++; return fmt.Sprintf("t%d", f.fresh) }

func (f *ftr) nat(e ast.Expr) (pre, s string) {
	pre, s, ty := f.expr(e, "Nat")
	if ty != "Nat" {
		c, ok := conv(s, ty, "Nat")
		if !ok {
			return pre, f.bad("not convertible to Nat: %s", exprText(e))
		}
		s = c
	}
	return pre, s
}

func (f *ftr) isBytes(e ast.Expr) bool {
	id, ok := e.(*ast.Ident)
	return ok && f.vars[id.Name] == "Bytes"
}

// hoist registers ren entries for panicking sub-expressions of e and returns the bind prefix
func (f *ftr) hoist(e ast.Expr) string {
	pre := ""
	var walk func(n ast.Expr)
	walk = func(n ast.Expr) {
		switch x := n.(type) {
		case *ast.ParenExpr:
			walk(x.X)
		case *ast.BinaryExpr:
			walk(x.X)
			walk(x.Y)
		case *ast.UnaryExpr:
			walk(x.X)
		case *ast.IndexExpr:
			if f.isBytes(x.X) {
				key := exprText(x)
				if _, done := f.ren[key]; done {
					return
				}
				p, i := f.nat(x.Index)
				t := f.tmp()
				pre += p + fmt.Sprintf("Res.bind (Bytes.idx %s %s) fun %s =>\n", lname(exprText(x.X)), i, t)
				f.ren[key] = [2]string{t, "UInt8"}
				f.hoisted = append(f.hoisted, key)
			}
		case *ast.SliceExpr:
			if f.isBytes(x.X) {
				key := exprText(x)
				if _, done := f.ren[key]; done {
					return
				}
				t := f.tmp()
				if x.High == nil && x.Low != nil {
					p, lo := f.nat(x.Low)
					pre += p + fmt.Sprintf("Res.bind (Bytes.sliceFrom %s %s) fun %s =>\n", lname(exprText(x.X)), lo, t)
				} else if x.High != nil {
					lo, p1 := "0", ""
					if x.Low != nil {
						p1, lo = f.nat(x.Low)
					}
					p2, hi := f.nat(x.High)
					pre += p1 + p2 + fmt.Sprintf("Res.bind (Bytes.slice %s %s %s) fun %s =>\n", lname(exprText(x.X)), lo, hi, t)
				} else {
					return
				}
				f.ren[key] = [2]string{t, "Bytes"}
				f.hoisted = append(f.hoisted, key)
			}
		case *ast.CallExpr:
			fn := exprText(x.Fun)
			key := exprText(x)
			if _, done := f.ren[key]; done {
				return
			}
			// binary.BigEndian.UintN(b[lo:hi])
			if strings.HasPrefix(fn, "binary.BigEndian.Uint") && len(x.Args) == 1 {
				if se, ok := x.Args[0].(*ast.SliceExpr); ok && f.isBytes(se.X) && se.Low != nil && se.High != nil {
					n := strings.TrimPrefix(fn, "binary.BigEndian.Uint")
					p1, lo := f.nat(se.Low)
					p2, hi := f.nat(se.High)
					t := f.tmp()
					pre += p1 + p2 + fmt.Sprintf("Res.bind (Bytes.rdBE%s %s %s %s) fun %s =>\n", n, lname(exprText(se.X)), lo, hi, t)
					f.ren[key] = [2]string{t, "UInt" + n}
					f.hoisted = append(f.hoisted, key)
					return
				}
			}
			// methods of a ring parameter: Length() is pure, PeekUintN() is the model's Res-valued Ring.peekUintN
			if ring, m, args, ok := f.ringCall(x); ok {
				switch {
				case m == "Length" && len(args) == 0:
					f.ren[key] = [2]string{"(Ring.length " + lname(ring) + ")", "Nat"}
					f.hoisted = append(f.hoisted, key)
				case (m == "PeekUint8" || m == "PeekUint16" || m == "PeekUint32") && len(args) == 0:
					n := strings.TrimPrefix(m, "PeekUint")
					t := f.tmp()
					pre += fmt.Sprintf("Res.bind (Ring.peekUint%s %s) fun %s =>\n", n, lname(ring), t)
					f.ren[key] = [2]string{t, "UInt" + n}
					f.hoisted = append(f.hoisted, key)
				default:
					f.bad("ring method %s in an expression", m)
				}
				return
			}
			// method of the receiver that was translated before
			if se, ok := x.Fun.(*ast.SelectorExpr); ok && exprText(se.X) == f.recv && len(x.Args) == 0 {
				for _, rk := range f.recvKeys() {
					if tr, ok := fnTable[rk+"."+se.Sel.Name]; ok {
						arg := lname(f.recv)
						if tr.recvTy != f.vars[f.recv] {
							arg = "(" + lname(f.recv) + ".to" + tr.recvTy + ")"
						}
						t := f.tmp()
						pre += fmt.Sprintf("Res.bind (%s %s) fun %s =>\n", tr.lean, arg, t)
						f.ren[key] = [2]string{t, tr.resTy}
						f.hoisted = append(f.hoisted, key)
						return
					}
				}
			}
			for _, a := range x.Args {
				walk(a)
			}
		}
	}
	walk(e)
	return pre
}

// the receiver's struct and the structs it embeds (method promotion)
func (f *ftr) recvKeys() []string {
	out := []string{f.recvKey}
	if f.recvKey == "v2.Header" {
		out = append(out, "v1.Header")
	}
	return out
}

func (f *ftr) dropHoisted() {
	for _, k := range f.hoisted {
		delete(f.ren, k)
	}
	f.hoisted = nil
}

// expr translates e (after hoisting); returns the bind prefix, the Lean text and its Lean type
func (f *ftr) expr(e ast.Expr, want string) (string, string, string) {
	switch x := e.(type) {
	case *ast.ParenExpr:
		return f.expr(x.X, want)
	case *ast.Ident:
		if x.Name == "nil" && want == "Bytes" {
			return "", "[]", "Bytes"
		}
		if x.Name == "true" || x.Name == "false" {
			return "", x.Name, "Bool"
		}
	case *ast.CompositeLit:
		if f.leanTypeOf(x.Type) == "Bytes" {
			pre, els := "", []string{}
			for _, el := range x.Elts {
				p, s, ty := f.expr(el, "UInt8")
				if ty != "UInt8" {
					c, ok := conv(s, ty, "UInt8")
					if !ok {
						return pre, f.bad("composite element %s", exprText(el)), "Bytes"
					}
					s = c
				}
				pre += p
				els = append(els, s)
			}
			return pre, "[" + strings.Join(els, ", ") + "]", "Bytes"
		}
	case *ast.CallExpr:
		fn := exprText(x.Fun)
		switch {
		case fn == "make" && len(x.Args) == 2 && f.leanTypeOf(x.Args[0]) == "Bytes":
			p, n := f.nat(x.Args[1])
			return p, "(List.replicate " + n + " (0 : UInt8))", "Bytes"
		case fn == "append" && len(x.Args) == 2 && x.Ellipsis.IsValid():
			p1, a, ta := f.expr(x.Args[0], "Bytes")
			p2, b, tb := f.expr(x.Args[1], "Bytes")
			if ta != "Bytes" || tb != "Bytes" {
				return p1 + p2, f.bad("append of non-bytes: %s", exprText(e)), "Bytes"
			}
			return p1 + p2, "(" + a + " ++ " + b + ")", "Bytes"
		case (fn == "string" || fn == "[]byte") && len(x.Args) == 1:
			return f.expr(x.Args[0], "Bytes")
		}
	}
	pre := f.hoist(e)
	if n, ok := f.ren[exprText(e)]; ok {
		return pre, n[0], n[1]
	}
	s, ty, ok := f.lean(e, want)
	if !ok {
		return pre, f.bad("untranslatable expression: %s", exprText(e)), want
	}
	return pre, s, ty
}

func (f *ftr) exprAs(e ast.Expr, want string) (string, string) {
	pre, s, ty := f.expr(e, want)
	if ty != want {
		c, ok := conv(s, ty, want)
		if !ok {
			return pre, f.bad("%s has type %s, want %s", exprText(e), ty, want)
		}
		s = c
	}
	return pre, s
}

// ---- statements ----

func containsReturn(n ast.Node) bool {
	found := false
	ast.Inspect(n, func(m ast.Node) bool {
		if _, ok := m.(*ast.ReturnStmt); ok {
			found = true
		}
		if _, ok := m.(*ast.FuncLit); ok {
			return false
		}
		return true
	})
	return found
}

// variables declared outside that the statements assign
func (f *ftr) assigned(n ast.Node) []string {
	set := map[string]bool{}
	mark := func(e ast.Expr) {
		switch x := e.(type) {
		case *ast.Ident:
			set[x.Name] = true
		case *ast.IndexExpr:
			set[exprText(x.X)] = true
		case *ast.SelectorExpr:
			set[exprText(x.X)] = true
		}
	}
	ast.Inspect(n, func(m ast.Node) bool {
		switch x := m.(type) {
		case *ast.AssignStmt:
			if x.Tok != token.DEFINE {
				for _, l := range x.Lhs {
					mark(l)
				}
			}
		case *ast.IncDecStmt:
			mark(x.X)
		case *ast.CallExpr:
			if strings.HasPrefix(exprText(x.Fun), "binary.BigEndian.PutUint") && len(x.Args) == 2 {
				if se, ok := x.Args[0].(*ast.SliceExpr); ok {
					set[exprText(se.X)] = true
				}
			}
			if ring, m, _, ok := f.ringCall(x); ok && m != "Length" && !strings.HasPrefix(m, "Peek") {
				set[ring] = true // Retrieve (and any method outside the subset: the statement translator rejects it)
			}
		}
		return true
	})
	out := []string{}
	for _, v := range f.order {
		if set[v] {
			if _, ok := f.vars[v]; ok {
				out = append(out, v)
			}
		}
	}
	return out
}

func tuple(vs []string) string {
	switch len(vs) {
	case 0:
		return "()"
	case 1:
		return lname(vs[0])
	}
	o := []string{}
	for _, v := range vs {
		o = append(o, lname(v))
	}
	return "(" + strings.Join(o, ", ") + ")"
}

func (f *ftr) block(stmts []ast.Stmt, tail func() string) string {
	if len(stmts) == 0 {
		return tail()
	}
	s, rest := stmts[0], stmts[1:]
	defer f.dropHoisted()
	cont := func() string { f.dropHoisted(); return f.block(rest, tail) }
	switch x := s.(type) {
	case *ast.EmptyStmt:
		return cont()
	case *ast.DeclStmt:
		gd, ok := x.Decl.(*ast.GenDecl)
		if !ok || gd.Tok != token.VAR {
			return f.bad("declaration %T", x.Decl)
		}
		out := ""
		for _, sp := range gd.Specs {
			vs := sp.(*ast.ValueSpec)
			ty := f.leanTypeOf(vs.Type)
			if ty == "" || len(vs.Values) != 0 {
				return f.bad("var declaration %s", exprText(vs.Type))
			}
			for _, n := range vs.Names {
				f.declare(n.Name, ty)
				out += fmt.Sprintf("let %s : %s := %s\n", lname(n.Name), leanTyText(ty), zeroOf(ty))
			}
		}
		return out + cont()
	case *ast.IncDecStmt:
		id, ok := x.X.(*ast.Ident)
		if !ok || f.vars[id.Name] != "Nat" {
			return f.bad("inc/dec of %s", exprText(x.X))
		}
		op := "+"
		if x.Tok == token.DEC {
			return f.bad("decrement")
		}
		return fmt.Sprintf("let %s := %s %s 1\n", lname(id.Name), lname(id.Name), op) + cont()
	case *ast.AssignStmt:
		if len(x.Lhs) == 2 && len(x.Rhs) == 1 && x.Tok == token.DEFINE {
			// f, e := buffer.Peek(n): the two slices of the model's Ring.peek
			a, ok1 := x.Lhs[0].(*ast.Ident)
			b, ok2 := x.Lhs[1].(*ast.Ident)
			ring, m, args, ok3 := f.ringCall(x.Rhs[0])
			if !ok1 || !ok2 || !ok3 || m != "Peek" || len(args) != 1 || a.Name == "_" || b.Name == "_" || a.Name == b.Name {
				return f.bad("two-value definition %s", exprText(x.Rhs[0]))
			}
			if _, dup := f.vars[a.Name]; dup { // `:=` would ASSIGN an existing variable of the same scope
				return f.bad("two-value definition re-uses %s", a.Name)
			}
			if _, dup := f.vars[b.Name]; dup {
				return f.bad("two-value definition re-uses %s", b.Name)
			}
			pre, n := f.nat(args[0])
			f.dropHoisted()
			t := f.tmp()
			out := pre + fmt.Sprintf("let %s : Bytes × Bytes := Ring.peek %s %s\n", t, lname(ring), n)
			f.declare(a.Name, "Bytes")
			f.declare(b.Name, "Bytes")
			out += fmt.Sprintf("let %s : Bytes := %s.1\nlet %s : Bytes := %s.2\n", lname(a.Name), t, lname(b.Name), t)
			return out + cont()
		}
		if len(x.Lhs) != 1 || len(x.Rhs) != 1 {
			return f.bad("multi-assignment %s", exprText(x.Lhs[0]))
		}
		switch l := x.Lhs[0].(type) {
		case *ast.Ident:
			if x.Tok == token.DEFINE {
				pre, rhs, ty := f.expr(x.Rhs[0], "")
				if ty == "" || ty == "Int" {
					ty = "Nat"
					pre, rhs = f.exprAs(x.Rhs[0], "Nat")
				}
				if ty == "Ring" {
					return f.bad("alias of the ring pointer %s", exprText(x.Rhs[0]))
				}
				f.dropHoisted()
				f.declare(l.Name, ty)
				return pre + fmt.Sprintf("let %s : %s := %s\n", lname(l.Name), leanTyText(ty), rhs) + cont()
			}
			ty, ok := f.vars[l.Name]
			if !ok {
				return f.bad("assignment to unknown %s", l.Name)
			}
			if ty == "Ring" {
				return f.bad("assignment to the ring pointer %s", l.Name)
			}
			if ty == "Err" {
				if msg, ok := errMessage(f.pk, x.Rhs[0]); ok {
					return fmt.Sprintf("let %s : Option String := some %q\n", lname(l.Name), msg) + cont()
				}
				if exprText(x.Rhs[0]) == "nil" {
					return fmt.Sprintf("let %s : Option String := none\n", lname(l.Name)) + cont()
				}
				return f.bad("error value %s", exprText(x.Rhs[0]))
			}
			if x.Tok != token.ASSIGN {
				return f.bad("assignment operator %s", x.Tok)
			}
			pre, rhs := f.exprAs(x.Rhs[0], ty)
			return pre + fmt.Sprintf("let %s : %s := %s\n", lname(l.Name), ty, rhs) + cont()
		case *ast.IndexExpr:
			if !f.isBytes(l.X) || x.Tok != token.ASSIGN {
				return f.bad("indexed assignment %s", exprText(l))
			}
			p1, i := f.nat(l.Index)
			p2, v := f.exprAs(x.Rhs[0], "UInt8")
			d := lname(exprText(l.X))
			return p1 + p2 + fmt.Sprintf("Res.bind (Bytes.set %s %s %s) fun %s =>\n", d, i, v, d) + cont()
		case *ast.SelectorExpr:
			base := exprText(l.X)
			n, ok := f.ren[exprText(l)]
			if !ok || x.Tok != token.ASSIGN || base != f.recv || !f.recvPtr {
				return f.bad("field assignment %s", exprText(l))
			}
			pre, v := f.exprAs(x.Rhs[0], n[1])
			f.recvW = true
			fld := strings.TrimPrefix(n[0], lname(base)+".")
			return pre + fmt.Sprintf("let %s := { %s with %s := %s }\n", lname(base), lname(base), fld, v) + cont()
		}
		return f.bad("assignment to %s", exprText(x.Lhs[0]))
	case *ast.ExprStmt:
		if ce, ok := x.X.(*ast.CallExpr); ok && strings.HasPrefix(exprText(ce.Fun), "binary.BigEndian.PutUint") && len(ce.Args) == 2 {
			if se, ok := ce.Args[0].(*ast.SliceExpr); ok && f.isBytes(se.X) && se.Low != nil && se.High != nil {
				n := strings.TrimPrefix(exprText(ce.Fun), "binary.BigEndian.PutUint")
				p1, lo := f.nat(se.Low)
				p2, hi := f.nat(se.High)
				p3, v := f.exprAs(ce.Args[1], "UInt"+n)
				d := lname(exprText(se.X))
				return p1 + p2 + p3 + fmt.Sprintf("Res.bind (Bytes.putBE%s %s %s %s %s) fun %s =>\n", n, d, lo, hi, v, d) + cont()
			}
		}
		if ring, m, args, ok := f.ringCall(x.X); ok && m == "Retrieve" && len(args) == 1 {
			pre, n := f.nat(args[0])
			return pre + fmt.Sprintf("let %s : Ring := Ring.retrieve %s %s\n", lname(ring), lname(ring), n) + cont()
		}
		return f.bad("expression statement %s", exprText(x.X))
	case *ast.ReturnStmt:
		return f.ret(x.Results)
	case *ast.BlockStmt:
		return f.block(append(append([]ast.Stmt{}, x.List...), rest...), tail)
	case *ast.SwitchStmt:
		if x.Init != nil {
			return f.bad("switch with init")
		}
		var chain ast.Stmt
		var deflt *ast.BlockStmt
		clauses := x.Body.List
		for i := len(clauses) - 1; i >= 0; i-- {
			cc := clauses[i].(*ast.CaseClause)
			body := append([]ast.Stmt{}, cc.Body...)
			if n := len(body); n > 0 {
				if br, ok := body[n-1].(*ast.BranchStmt); ok && br.Tok == token.BREAK {
					body = body[:n-1]
				}
			}
			for _, b := range body {
				bad := false
				ast.Inspect(b, func(m ast.Node) bool {
					if br, ok := m.(*ast.BranchStmt); ok && (br.Tok == token.BREAK || br.Tok == token.FALLTHROUGH) {
						bad = true
					}
					return true
				})
				if bad {
					return f.bad("break/fallthrough inside a switch clause")
				}
			}
			if cc.List == nil {
				if i != len(clauses)-1 {
					return f.bad("default clause not last")
				}
				deflt = &ast.BlockStmt{List: body}
				continue
			}
			var cond ast.Expr
			for _, v := range cc.List {
				var c ast.Expr = v
				if x.Tag != nil {
					c = &ast.BinaryExpr{X: x.Tag, Op: token.EQL, Y: v}
				}
				if cond == nil {
					cond = c
				} else {
					cond = &ast.BinaryExpr{X: cond, Op: token.LOR, Y: c}
				}
			}
			is := &ast.IfStmt{Cond: cond, Body: &ast.BlockStmt{List: body}}
			if chain != nil {
				is.Else = chain
			} else if deflt != nil {
				is.Else = deflt
			}
			chain = is
		}
		if chain == nil {
			if deflt != nil {
				return f.block(append(deflt.List, rest...), tail)
			}
			return cont()
		}
		return f.block(append([]ast.Stmt{chain}, rest...), tail)
	case *ast.IfStmt:
		if x.Init != nil {
			return f.bad("if with init")
		}
		pre, cond := f.exprAs(x.Cond, "Bool")
		f.dropHoisted()
		var elseList []ast.Stmt
		switch e := x.Else.(type) {
		case nil:
		case *ast.BlockStmt:
			elseList = e.List
		case *ast.IfStmt:
			elseList = []ast.Stmt{e}
		default:
			return f.bad("else %T", x.Else)
		}
		hasRet := containsReturn(x.Body) || (x.Else != nil && containsReturn(x.Else))
		if hasRet {
			// the continuation is inlined into both branches (a branch that returns ignores it)
			sn := f.snap()
			a := f.block(append(append([]ast.Stmt{}, x.Body.List...), rest...), tail)
			f.restore(sn)
			sn = f.snap()
			b := f.block(append(append([]ast.Stmt{}, elseList...), rest...), tail)
			f.restore(sn)
			return pre + fmt.Sprintf("if %s then (\n%s) else (\n%s)", cond, a, b)
		}
		var scope ast.Node = x.Body
		vs := f.assigned(scope)
		if x.Else != nil {
			seen := map[string]bool{}
			for _, v := range vs {
				seen[v] = true
			}
			for _, v := range f.assigned(x.Else) {
				if !seen[v] {
					vs = append(vs, v)
				}
			}
			sort.SliceStable(vs, func(i, j int) bool { return indexOf(f.order, vs[i]) < indexOf(f.order, vs[j]) })
		}
		for _, v := range vs {
			if v == f.recv {
				f.recvW = true
			}
		}
		join := func() string { return ".ok " + tuple(vs) }
		sn := f.snap()
		a := f.block(x.Body.List, join)
		f.restore(sn)
		sn = f.snap()
		b := f.block(elseList, join)
		f.restore(sn)
		pat := tuple(vs)
		if len(vs) == 0 {
			pat = "(_ : Unit)"
		}
		return pre + fmt.Sprintf("Res.bind (if %s then (\n%s) else (\n%s)) fun %s =>\n", cond, a, b, pat) + cont()
	}
	return f.bad("statement %T", s)
}

func indexOf(xs []string, x string) int {
	for i, y := range xs {
		if y == x {
			return i
		}
	}
	return -1
}

func (f *ftr) ret(results []ast.Expr) string {
	if len(results) == 0 {
		if !f.named && len(f.results) != 0 {
			return f.bad("naked return without named results")
		}
		for _, r := range f.results {
			results = append(results, ast.NewIdent(r.name))
		}
	}
	if len(results) != len(f.results) {
		return f.bad("return arity")
	}
	pre, vals := "", []string{}
	if f.recvPtr && f.recvW {
		vals = append(vals, lname(f.recv))
	}
	for _, rg := range f.rings {
		vals = append(vals, lname(rg))
	}
	errStatic, errDyn := "", ""
	for i, r := range f.results {
		e := results[i]
		if r.ty == "Err" && f.errVal {
			// the error is a component of the result: the receiver and the ring keep what was written before the return
			if exprText(e) == "nil" {
				vals = append(vals, "none")
			} else if id, ok := e.(*ast.Ident); ok && f.vars[id.Name] == "Err" {
				vals = append(vals, lname(id.Name))
			} else if msg, ok := errMessage(f.pk, e); ok {
				vals = append(vals, fmt.Sprintf("(some %q)", msg))
			} else {
				return f.bad("returned error %s", exprText(e))
			}
			continue
		}
		if r.ty == "Err" {
			if exprText(e) == "nil" {
				continue
			}
			if id, ok := e.(*ast.Ident); ok && f.vars[id.Name] == "Err" {
				errDyn = lname(id.Name)
				continue
			}
			msg, ok := errMessage(f.pk, e)
			if !ok {
				return f.bad("returned error %s", exprText(e))
			}
			errStatic = msg
			continue
		}
		if errStatic != "" {
			continue
		}
		p, s := f.exprAs(e, r.ty)
		pre += p
		vals = append(vals, s)
	}
	if errStatic != "" {
		return fmt.Sprintf(".err %q", errStatic)
	}
	okv := ".ok ()"
	if len(vals) == 1 {
		okv = ".ok " + vals[0]
	} else if len(vals) > 1 {
		okv = ".ok (" + strings.Join(vals, ", ") + ")"
	}
	if errDyn != "" {
		return pre + fmt.Sprintf("match %s with\n| some e => .err e\n| none => %s", errDyn, okv)
	}
	return pre + okv
}

type fspec struct{ pkg, recv, fn string }

// translateFunc returns the Lean definition text ("" + reason when the function is outside the subset)
func translateFunc(sp fspec) (string, string) {
	pk := pkgs[sp.pkg]
	fd := findFunc(pk, sp.recv, sp.fn)
	if fd == nil || fd.Body == nil {
		return "", "function not found"
	}
	f := &ftr{tx: tx{pk: pk, ren: map[string][2]string{}, intTy: "Nat"}, pkg: sp.pkg, vars: map[string]string{}}
	name := sp.pkg + "_" + sp.fn
	params := ""
	if sp.recv != "" {
		name = sp.pkg + "_" + sp.recv + "_" + sp.fn
		f.recvKey = sp.pkg + "." + sp.recv
		structOf(sp.pkg, sp.recv)
		ls, ok := leanStruct[f.recvKey]
		if !ok {
			return "", "receiver struct not modelled"
		}
		fl := fd.Recv.List[0]
		_, f.recvPtr = fl.Type.(*ast.StarExpr)
		if len(fl.Names) == 1 {
			f.recv = fl.Names[0].Name
			f.declare(f.recv, ls)
			params += fmt.Sprintf(" (%s : %s)", lname(f.recv), ls)
		}
	}
	used := map[string]bool{}
	ast.Inspect(fd.Body, func(n ast.Node) bool {
		if id, ok := n.(*ast.Ident); ok {
			used[id.Name] = true
		}
		return true
	})
	for _, p := range fd.Type.Params.List {
		ty := f.leanTypeOf(p.Type)
		if isRingType(p.Type) {
			ty = "Ring"
		}
		for _, n := range p.Names {
			if !used[n.Name] {
				continue
			}
			if ty == "Ring" {
				f.rings = append(f.rings, n.Name)
				f.errVal = true
			}
			if ty == "" {
				return "", "parameter type " + exprText(p.Type)
			}
			f.declare(n.Name, ty)
			params += fmt.Sprintf(" (%s : %s)", lname(n.Name), ty)
		}
	}
	pro := ""
	if fd.Type.Results != nil {
		for _, r := range fd.Type.Results.List {
			ty := f.leanTypeOf(r.Type)
			if ty == "" {
				return "", "result type " + exprText(r.Type)
			}
			if len(r.Names) == 0 {
				f.results = append(f.results, fres{"", ty})
			}
			for _, n := range r.Names {
				f.named = true
				f.results = append(f.results, fres{n.Name, ty})
				f.declare(n.Name, ty)
				pro += fmt.Sprintf("let %s : %s := %s\n", lname(n.Name), leanTyText(ty), zeroOf(ty))
			}
		}
	}
	// does the function write its pointer receiver anywhere? (decides the result type before the body is emitted)
	if f.recvPtr {
		for _, v := range f.assigned(fd.Body) {
			if v == f.recv {
				f.recvW = true
			}
		}
	}
	body := pro + f.block(fd.Body.List, func() string {
		if len(f.results) == 0 || f.named {
			return f.ret(nil)
		}
		return f.bad("falls off the end")
	})
	if f.fail != "" {
		return "", f.fail
	}
	tys := []string{}
	if f.recvPtr && f.recvW {
		tys = append(tys, f.vars[f.recv])
	}
	for range f.rings {
		tys = append(tys, "Ring")
	}
	for _, r := range f.results {
		if r.ty != "Err" {
			tys = append(tys, r.ty)
		} else if f.errVal {
			tys = append(tys, "Option String")
		}
	}
	resTy := "Unit"
	if len(tys) == 1 {
		resTy = tys[0]
	} else if len(tys) > 1 {
		resTy = "(" + strings.Join(tys, " × ") + ")"
	}
	key := sp.pkg + "." + sp.fn
	recvTy := ""
	if sp.recv != "" {
		key = sp.pkg + "." + sp.recv + "." + sp.fn
		recvTy = leanStruct[f.recvKey]
	}
	fnTable[key] = translated{lean: name, recvTy: recvTy, resTy: resTy}
	if len(f.rings) > 0 {
		usesRing = true
	}
	src := strings.Join(strings.Fields(sigText(fd)), " ")
	indented := "  " + strings.ReplaceAll(strings.TrimRight(body, "\n"), "\n", "\n  ")
	return fmt.Sprintf("/-- go/%s: %s -/\ndef %s%s : Res %s :=\n%s\n", sp.pkg, src, name, params, resTy, indented), ""
}

func sigText(fd *ast.FuncDecl) string {
	s := "func "
	if fd.Recv != nil && len(fd.Recv.List) == 1 {
		r := fd.Recv.List[0]
		nm := ""
		if len(r.Names) == 1 {
			nm = r.Names[0].Name + " "
		}
		s += "(" + nm + exprText(r.Type) + ") "
	}
	return s + fd.Name.Name
}

func funcSpecs() []fspec {
	return []fspec{
		{"protocol", "Handshake", "Pack"}, {"protocol", "Handshake", "Unpack"},
		{"protocol", "", "unmarshalStringLength"}, {"protocol", "", "marshalString"},
		{"v1", "Header", "IsUnknownPacket"}, {"v1", "Header", "length"}, {"v1", "Header", "Pack"}, {"v1", "Header", "UnpackBytes"},
		{"v2", "Header", "length"}, {"v2", "Header", "Pack"}, {"v2", "Header", "UnpackBytes"},
		{"v1", "Header", "Unpack"}, {"v2", "Header", "Unpack"},
	}
}

// genFuncs returns the text of Gen/Funcs.lean and the list of functions that fell outside the subset
func genFuncs() (string, []string) {
	var w strings.Builder
	lost := []string{}
	usesRing = false
	for _, k := range []string{"protocol.Handshake", "v1.Header", "v2.Header"} {
		parts := strings.SplitN(k, ".", 2)
		fs := structOf(parts[0], parts[1])
		fmt.Fprintf(&w, "/-- go/%s: type %s struct (embedded structs flattened) -/\nstructure %s where\n", parts[0], parts[1], leanStruct[k])
		for _, fl := range fs {
			fmt.Fprintf(&w, "  %s : %s := %s\n", fl.lean, fl.ty, zeroOf(fl.ty))
		}
		w.WriteString("  deriving DecidableEq, Repr\n\n")
	}
	// projection v2.Header -> embedded v1.Header
	w.WriteString("/-- the embedded v1.Header of a v2.Header (method promotion) -/\ndef V2Header.toV1Header (h : V2Header) : V1Header :=\n  { ")
	ps := []string{}
	for _, fl := range structOf("v1", "Header") {
		ps = append(ps, fl.lean+" := h."+fl.lean)
	}
	w.WriteString(strings.Join(ps, ", ") + " }\n\n")
	names := []string{}
	for _, sp := range funcSpecs() {
		txt, why := translateFunc(sp)
		id := sp.pkg + "." + sp.recv + "." + sp.fn
		if txt == "" {
			lost = append(lost, "func "+id+" ("+why+")")
			fmt.Fprintf(&w, "-- anchor-lost: func %s: %s\n\n", id, why)
			continue
		}
		names = append(names, id)
		w.WriteString(txt + "\n")
	}
	fmt.Fprintf(&w, "/-- the functions translated in this run -/\ndef translated : List String := %s\n", q(names))
	w.WriteString("end OAP.Gen.Fn\n")
	head := "-- GENERATED by /verif/extract (funcs.go) from the Go source of /repo — do not edit; rewritten by every check run\nimport OAP.Base\n"
	if usesRing { // OAP/Model/Ring.lean imports OAP.Base only: no cycle
		head += "import OAP.Model.Ring\n"
	}
	head += "namespace OAP.Gen.Fn\nopen OAP\n\n"
	return head + w.String(), lost
}
