// funcs.go: statement-level translation of the small pure functions of the codec core into Lean definitions
// (Gen/Funcs.lean). Every translated function becomes a `def … : Res …` whose control flow, buffer writes, index and
// slice operations (panicking exactly where Go panics) and arithmetic are those of the Go source; the hand-written
// model functions are then PROVED equal to them (OAP/Proofs/GenFuncs.lean), so a change of the Go function changes
// the term the kernel checks. Subset: straight-line code, if/else, switch, early returns, named results, fixed-size
// integers, `int` as Nat (lengths and offsets only; subtraction only between constants), []byte as List UInt8,
// make/len/append/composite literals, index and slice expressions, binary.BigEndian.{Put,}Uint{16,32}, calls of
// other translated methods of the same receiver. No loops, no closures, no maps.
// Streaming decoders: a parameter of type *ringbuffer.RingBuffer is a mutable variable of the model's type `Ring`
// (OAP/Model/Ring.lean, written after the library's source) that is threaded like a written pointer receiver and returned
// in the result tuple; buffer.Length() is pure, buffer.PeekUint8/16/32() are binds on the model's `Res`-valued
// Ring.peekUintN, buffer.Retrieve(n) is a statement, `f, e := buffer.Peek(n)` defines the two slices. In such a function
// the state (receiver, ring) survives a returned error, so the `error` result is a component of the tuple
// (`Option String`) rather than `Res.err`; `Res.panic` remains the run-time panic.
// Protocol-level one-shot decoders (protocolV1/protocolV2.UnpackBytes, Header.Metadata): structures GPacket / GMetadata and the
// enum GPacketType are generated from the declarations in go/packet.go and go/metadata.go. TRUSTED MAPPINGS, each accepted in
// exactly the shape named and in no other (anything else drops the function with an anchor-lost comment):
//   - `x := defaultHeaderPool.Get()` (a package-level pool whose `Get` returns *Header) is the zero value of the generated
//     header struct (that Get resets every field is the separate theorem C11.every_field_reset), and
//     `defer func() { defaultHeaderPool.Put(x) }()` for such an x is skipped;
//   - a local pointer to a modelled struct that is the only reference (pool Get, `&T{…}`) is a value variable; calling a
//     translated pointer-receiver method on it rebinds it; a struct FIELD of pointer type (`Packet.Metadata *Metadata`) is the
//     struct value itself, and a composite literal must then give that field from a translated function that returns `&T{…}`;
//   - a named result of pointer type starts nil: it is `Option T` in the result, and is dereferenced only where the translator has
//     seen the assignment `p = &T{…}` on every path to that point (otherwise the function drops out);
//   - `a, e := x.M(args)` of a translated method with an error result, IMMEDIATELY followed by `if e != nil { err = e; return }`
//     (err the named error result, e not used again): the callee's `Res.err` is propagated (other results of a returned error are
//     dropped, as everywhere in error-as-`Res.err` mode), in the `.ok` arm e is nil;
//   - `if lhs…, err = CALL; err != nil { return }` for the two EXTERNAL functions of the model:
//     gzip.Decompress(b) ↦ `Gzip.decompress gz b` (parameter `gz : GzOracle`, second result must be blank), and
//     p.UnmarshalMetadata(d) — after checking that go/packet.go defines it as `return p.Metadata.UnmarshalValues(data)` —
//     ↦ `p.metadata.values ← Metadata.unmarshalValues lower d` (parameter `lower` = strings.ToLower; the loop stays hand-written);
//   - a parameter `ctx *protocol.Context` is read only as `ctx.Codec` (parameter `codec : UInt8` in its place) or passed on;
//   - `map[string]string` is the association list of the Metadata model; the string type protocol.PacketType is the generated
//     enum of its declared constants plus `zero` for "" (two values of it are compared with the enum's decidable equality).
//
// Protocol-level encoders (protocolV1/protocolV2.Pack, the two headerFromMetadata). Further TRUSTED MAPPINGS, again each in exactly the
// shape named:
//   - a parameter `opts ...protocol.PackOption` is ONE parameter `thr : Int`, and `o := protocol.NewPackOptions(opts...)` followed by
//     reads of `o.MinGzipSize` (no other use of o or opts) reads thr — after checking in go/protocol.go that PackOptions has the single
//     field `MinGzipSize int`, PackOption is `func(*PackOptions)`, NewPackOptions is `o := &PackOptions{}; for … { opt(o) }; return o`
//     (so it starts from MinGzipSize = 0) and GzipSize(n) is `o.MinGzipSize = n` (packOptionsCollapse): whatever options are passed,
//     Pack sees their final MinGzipSize only. A length (Nat) compared with thr is lifted to Int exactly;
//   - a parameter that is a pointer to a modelled struct (`packet *protocol.Packet`, `md *protocol.Metadata`; at most one per struct
//     type, so that two cannot alias) is a variable of the struct: by value if the body only reads it, threaded like a written receiver
//     and returned as the LAST component of the result if the body writes it (`Res (Bytes × GPacket)`). On a returned error the
//     written packet is dropped with the other results (error-as-`Res.err` mode), as the model does;
//   - `if x, err = gzip.Compress(b); err != nil { return nil, err }` (err a local error variable, unnamed results, the error last;
//     the repository's own gzip package) ↦ bind on `gz.compress b` of the oracle: its error and its panic are the function's;
//   - `h := F(args)` for a translated package-level function F of this package whose result is a pooled header
//     (`h := pool.Get(); …; return h`, no deferred Put of it in F): h is a pooled value variable as after `pool.Get()`, the deferred Put
//     in the caller is skipped as before; a pointer argument (`packet.Metadata`) of a parameter F only reads is passed by value;
//   - `a, e := x.M()` IMMEDIATELY followed by `if e != nil { return nil, …, e }` (unnamed results, e not used again) propagates the
//     callee's `Res.err` like the named-result idiom;
//   - `md := packet.MarshalMetadata(n)` — after checking that go/packet.go defines it as `return p.Metadata.MarshalValues(max)` on a
//     value receiver — ↦ `Metadata.marshalMap packet.metadata.values (Int.ofNat n)` of the model (the loop stays hand-written);
//   - `copy(d, s)` / `copy(d[lo:], s)` into a local []byte ↦ `Bytes.copyAt d lo s` (the slice expression panics when lo > len(d);
//     copy never panics and copies min(len(d)-lo, len(s)) bytes); binary.BigEndian.PutUint64 ↦ `Bytes.putBE64`;
//   - a statement that is nothing but a call into package verifhook with literal arguments is instrumentation (empty without the
//     build tag) and is skipped;
//   - block scoping: where the continuation of an `if` is inlined behind a branch, what the branch declared goes out of scope at its end
//     (`var err error` in the branch, `hd, err := …` later); re-declaring a variable that is still in scope stays outside the subset.
//
// Protocol-level STREAMING decoders (protocolV1/protocolV2.Unpack over the ring). The function has a ring parameter, so its error is a
// component of the result tuple (errVal mode). Further TRUSTED MAPPINGS, each in exactly the shape named:
//   - the header slot of the connection context is ONE threaded variable `pend : Option <Header struct>` — a parameter next to `codec` and the
//     FIRST component of the result — after checking in go/context.go that BeginUnpack / InUnpack / EndUnpack / SetHeader / GetHeader are
//     `c.beginUnpack = true` / `return c.beginUnpack` / `c.beginUnpack = false; c.buildin[ContextKeyHeader] = nil` /
//     `c.buildin[ContextKeyHeader] = h` / `return c.buildin[ContextKeyHeader]` and that nothing else in the package mentions the key or the
//     flag (ctxHeaderSlot). The flag `beginUnpack` is not part of the state: `ctx.BeginUnpack()` is skipped, `ctx.EndUnpack()` is `pend := none`;
//   - `header := headerFromContext(ctx)` — after checking that the package's headerFromContext is `v := ctx.GetHeader(); if v == nil
//     { h = defaultHeaderPool.Get(); ctx.SetHeader(h) } else { h = v.(*Header) }; return` (the type assertion cannot fail on what these
//     functions park) — ↦ `header := pend.getD {}; pend := some header` (pool Get = zero header as before). From here on `header` is a
//     value variable that ALIASES the parked header: at every return `pend := pend.map (fun _ => header)` writes back what was written
//     through the alias (a translated callee that gets `ctx` and the header never reads the slot: it ignores ctx or reads ctx.Codec only);
//     all returns of such a function must be bare, a Go identifier `pend` drops the function;
//   - `defer func() { if done || err != nil { ctx.SetHeader(nil); POOL.Put(header) } }()` (done / err the named bool / error results,
//     header that alias, POOL the header pool) ↦ at every return, after the write-back, `pend := if done || err.isSome then none else pend`
//     on the final values of the named results (the Put has no effect on the results, as before). A run-time panic is `Res.panic`: the state
//     at a panic is dropped, so the deferred function (which Go does run while panicking) has nothing to act on there;
//   - `ok, e := header.M(ctx, buf)` for a translated streaming method M (written pointer receiver, one ring, one value and an error in its
//     tuple) ↦ `Res.bind (M header buf) fun (header, buf, ok, e)`; e is an `Option String` variable, `e != nil` / `e == nil` are
//     isSome / isNone, `err = e` assigns it;
//   - `if _, err = buf.Read(b); err != nil { return }` (err the named error result, b a local []byte) ↦ a match on the ring model's
//     `Ring.read buf (len b)` (written after the library: ErrIsEmpty on an empty ring, which then keeps ring and b as they were; `% size`
//     panics on size 0): on success the bytes read are copied to the front of b with `Bytes.copyAt b 0` (what is left of b stays) and
//     err is nil; buf.PeekUint64() ↦ `Ring.peekUint64`;
//   - `if x, _, err = gzip.Decompress(b); err != nil { return }` and `if err = p.UnmarshalMetadata(d); err != nil { return }` in this mode
//     ↦ a match on `Gzip.decompress gz b` / `Metadata.unmarshalValues lower d` (the same oracles as above); on the error arm the left-hand
//     side is NOT assigned (Go assigns the callee's result, a value the oracle does not have): the packet returned next to an error is
//     not to be relied on, the equality theorems do not compare it.
package main

import (
	"fmt"
	"go/ast"
	"go/token"
	"sort"
	"strconv"
	"strings"
)

type sfield struct {
	goName, lean, ty string
	ptr              bool // declared as *T: the struct value stands for the (never nil, unshared) pointer
}

var gstructs = map[string][]sfield{} // "v1.Header" -> fields (embedded structs flattened)
var leanStruct = map[string]string{"protocol.Handshake": "GHandshake", "v1.Header": "V1Header", "v2.Header": "V2Header",
					"protocol.Metadata": "GMetadata", "protocol.Packet": "GPacket"}
var structBad = map[string]string{} // struct key -> first field whose type is outside the subset

const pairsTy = "List (Bytes × Bytes)"

// underlying type text of `type name X` in pkg ("" if not found)
func underlying(pkg, name string) string {
	pk, ok := pkgs[pkg]
	if !ok {
		return ""
	}
	for _, f := range pk.files {
		for _, d := range f.Decls {
			gd, ok := d.(*ast.GenDecl)
			if !ok || gd.Tok != token.TYPE {
				continue
			}
			for _, sp := range gd.Specs {
				ts := sp.(*ast.TypeSpec)
				if ts.Name.Name == name {
					return exprText(ts.Type)
				}
			}
		}
	}
	return ""
}

type enumCase struct{ goName, lean, val string }

// a string-typed named type: its declared constants, in source order
func enumOf(pkg, name string) []enumCase {
	pk := pkgs[pkg]
	out := []enumCase{}
	for _, f := range pk.files {
		for _, d := range f.Decls {
			gd, ok := d.(*ast.GenDecl)
			if !ok || gd.Tok != token.CONST {
				continue
			}
			for _, sp := range gd.Specs {
				vs := sp.(*ast.ValueSpec)
				if vs.Type == nil || exprText(vs.Type) != name {
					continue
				}
				for i, n := range vs.Names {
					if i < len(vs.Values) {
						if bl, ok := vs.Values[i].(*ast.BasicLit); ok && bl.Kind == token.STRING {
							if v, err := strconv.Unquote(bl.Value); err == nil && v != "" {
								out = append(out, enumCase{n.Name, lowerFirst(n.Name), v})
							}
						}
					}
				}
			}
		}
	}
	return out
}

var leanEnum = map[string]string{"protocol.PacketType": "GPacketType"}

// Lean type of a field / variable type expression written in package pkg ("" = outside the subset)
func typeIn(pkg string, e ast.Expr) (ty string, ptr bool) {
	switch x := e.(type) {
	case *ast.StarExpr:
		t, p := typeIn(pkg, x.X)
		if _, isStruct := leanStructRev()[t]; isStruct && !p {
			return t, true
		}
		return "", false
	case *ast.ArrayType:
		if x.Len == nil && (exprText(x.Elt) == "byte" || exprText(x.Elt) == "uint8") {
			return "Bytes", false
		}
	case *ast.MapType:
		if exprText(x.Key) == "string" && exprText(x.Value) == "string" {
			return pairsTy, false
		}
	case *ast.SelectorExpr:
		if id, ok := x.X.(*ast.Ident); ok {
			if _, isPkg := pkgs[id.Name]; isPkg {
				return typeIn(id.Name, x.Sel)
			}
		}
	case *ast.Ident:
		switch x.Name {
		case "bool":
			return "Bool", false
		}
		if ls, ok := leanStruct[pkg+"."+x.Name]; ok {
			return ls, false
		}
		if u := underlying(pkg, x.Name); u != "" {
			if u == "string" {
				return leanEnum[pkg+"."+x.Name], false
			}
			if g, ok := goTy[u]; ok && width[g] != 0 {
				return g, false
			}
			return "", false
		}
		if g, ok := goTy[x.Name]; ok && width[g] != 0 {
			return g, false
		}
	}
	return "", false
}

func leanStructRev() map[string]string {
	m := map[string]string{}
	for k, v := range leanStruct {
		m[v] = k
	}
	return m
}

func lowerFirst(s string) string { return strings.ToLower(s[:1]) + s[1:] }

func structOf(pkg, name string) []sfield {
	key := pkg + "." + name
	if fs, ok := gstructs[key]; ok {
		return fs
	}
	var out []sfield
	for _, f := range pkgs[pkg].files {
		for _, d := range f.Decls {
			gd, ok := d.(*ast.GenDecl)
			if !ok || gd.Tok != token.TYPE {
				continue
			}
			for _, s := range gd.Specs {
				ts := s.(*ast.TypeSpec)
				st, ok := ts.Type.(*ast.StructType)
				if !ok || ts.Name.Name != name {
					continue
				}
				for _, fl := range st.Fields.List {
					if len(fl.Names) == 0 { // embedded
						if se, ok := fl.Type.(*ast.SelectorExpr); ok {
							out = append(out, structOf(exprText(se.X), se.Sel.Name)...)
						} else if id, ok := fl.Type.(*ast.Ident); ok {
							out = append(out, structOf(pkg, id.Name)...)
						}
						continue
					}
					ty, ptr := typeIn(pkg, fl.Type)
					for _, n := range fl.Names {
						if ty != "" {
							out = append(out, sfield{n.Name, lowerFirst(n.Name), ty, ptr})
						} else if _, seen := structBad[key]; !seen {
							structBad[key] = n.Name + " " + exprText(fl.Type)
						}
					}
				}
			}
		}
	}
	gstructs[key] = out
	return out
}

// message of a package-level `ErrX = errors.New("…")`
func errMessage(pk *pkgInfo, e ast.Expr) (string, bool) {
	name := ""
	switch x := e.(type) {
	case *ast.Ident:
		name = x.Name
	case *ast.SelectorExpr:
		if id, ok := x.X.(*ast.Ident); ok {
			if q, ok := pkgs[id.Name]; ok {
				pk, name = q, x.Sel.Name
			}
		}
	}
	if name == "" || name == "nil" {
		return "", false
	}
	for _, f := range pk.files {
		for _, d := range f.Decls {
			gd, ok := d.(*ast.GenDecl)
			if !ok || gd.Tok != token.VAR {
				continue
			}
			for _, s := range gd.Specs {
				vs := s.(*ast.ValueSpec)
				for i, n := range vs.Names {
					if n.Name == name && i < len(vs.Values) {
						if ce, ok := vs.Values[i].(*ast.CallExpr); ok && exprText(ce.Fun) == "errors.New" && len(ce.Args) == 1 {
							if bl, ok := ce.Args[0].(*ast.BasicLit); ok {
								if s, err := strconv.Unquote(bl.Value); err == nil {
									return s, true
								}
							}
						}
					}
				}
			}
		}
	}
	return "", false
}

type fres struct{ name, ty string } // ty "Err" for error

type tparam struct {
	kind string // "val" | "ctx" | "ring" | "ptr" (pointer to a modelled struct, only read: passed by value) | "ptrw" (read and written) | "opts"
	ty   string
	kept bool // false: the callee never reads it, it is not a parameter of the Lean definition
}

type translated struct {
	lean    string // Lean def name
	recvTy  string // Lean struct of the receiver ("" if none)
	resTy   string // Lean type inside Res
	recvPtr bool
	recvW   bool     // the (pointer) receiver is written: first component of the result
	params  []tparam // Go parameters in declaration order
	needs   []string // leading environment parameters, a subset of envOrder
	vals    []string // Lean types of the non-error results
	hasErr  bool
	errVal  bool
	rings   int
	fresh   bool // the single result is a pointer returned as `&T{…}` on every path: never nil, never shared
	pooled  bool // … or, on some path, a header taken from the pool in this very function (`h := pool.Get(); …; return h`)
	ptrW    int  // pointer parameters the function writes: last components of the result
}

var envOrder = []string{"gz", "lower"}
var envTy = map[string]string{"gz": "GzOracle", "lower": "Bytes → Bytes"}

var fnTable = map[string]translated{} // "v1.Header.IsUnknownPacket" -> …
var usesRing = false                  // some translated function takes a ring buffer: Gen/Funcs.lean imports OAP.Model.Ring
var usesEnv = map[string]bool{}       // "gz" / "lower": some translated function calls an external function of the model (imports OAP.Model.Frame)

type ftr struct {
	tx
	pkg     string
	vars    map[string]string // go variable -> Lean type
	order   []string
	results []fres
	named   bool
	recv    string
	recvKey string // "v1.Header"
	recvPtr bool
	recvW   bool
	fresh   int
	fail    string
	hoisted []string
	rings   []string          // parameters of type *ringbuffer.RingBuffer (Lean type Ring), in declaration order
	errVal  bool              // error results are tuple components (functions whose state survives an error)
	ctx     string            // name of the parameter of type *protocol.Context ("" if none)
	needs   map[string]bool   // "gz", "lower", "codec": environment parameters the body turned out to need
	pooled  map[string]bool   // local variables defined by `pool.Get()`
	ptrVars map[string]string // named results of pointer type -> Lean struct (the variable has type "Ptr:T" while nil, T once assigned &T{…})
	joinDep int               // > 0 inside the branches of an `if` whose continuation is joined (not inlined)
	file    *ast.File
	body    *ast.BlockStmt
	ptrW    []string                    // pointer parameters (to modelled structs) that the body writes, in declaration order
	opts    string                      // the variadic parameter `opts ...protocol.PackOption` ("" if none)
	putDef  map[string]bool             // pooled variables with a deferred Put
	retPool bool                        // some return hands out a pooled header
	model   bool                        // the body calls a function of the hand-written model other than the oracles
	scopes  map[*ast.EmptyStmt][]string // end-of-block markers: the variables that were in scope when the block was entered
	pendTy  string                      // Lean struct of the header parked in the context (`header := headerFromContext(ctx)` was seen): the state variable `pend : Option T`
	parked  string                      // the Go variable that aliases the parked header
	relD    string                      // the named bool result the deferred release reads
	relE    string                      // … and the named error result
	release bool                        // the deferred conditional release `if done || err != nil { ctx.SetHeader(nil); pool.Put(header) }` was seen
}

func isCtxType(e ast.Expr) bool {
	st, ok := e.(*ast.StarExpr)
	if !ok {
		return false
	}
	t := exprText(st.X)
	return t == "protocol.Context" || t == "Context"
}

func isStructTy(ty string) bool { _, ok := leanStructRev()[ty]; return ok }
func isPtrTy(ty string) bool    { return strings.HasPrefix(ty, "Ptr:") }

func isRingType(e ast.Expr) bool {
	st, ok := e.(*ast.StarExpr)
	return ok && exprText(st.X) == "ringbuffer.RingBuffer"
}

// ringCall recognises `<ring variable>.<method>(args)`
func (f *ftr) ringCall(e ast.Expr) (ring, method string, args []ast.Expr, ok bool) {
	ce, isCall := e.(*ast.CallExpr)
	if !isCall {
		return
	}
	se, isSel := ce.Fun.(*ast.SelectorExpr)
	if !isSel {
		return
	}
	id, isId := se.X.(*ast.Ident)
	if !isId || f.vars[id.Name] != "Ring" {
		return
	}
	return id.Name, se.Sel.Name, ce.Args, true
}

func (f *ftr) bad(format string, a ...interface{}) string {
	if f.fail == "" {
		f.fail = fmt.Sprintf(format, a...)
	}
	return "sorryUntranslatable"
}

var leanKeywords = map[string]bool{"end": true, "from": true, "at": true, "in": true, "fun": true, "do": true, "then": true, "else": true, "if": true, "let": true,
	"have": true, "show": true, "open": true, "section": true, "namespace": true, "match": true, "with": true, "instance": true, "class": true, "structure": true,
	"theorem": true, "def": true, "where": true, "by": true, "Type": true, "Prop": true, "Sort": true, "mut": true, "for": true, "return": true}

func lname(s string) string {
	if leanKeywords[s] {
		return s + "_"
	}
	return s
}

func (f *ftr) declare(name, ty string) {
	if _, ok := f.vars[name]; !ok {
		f.order = append(f.order, name)
	}
	f.vars[name] = ty
	f.ren[name] = [2]string{lname(name), ty}
	if ty == "Bytes" {
		f.ren["len("+name+")"] = [2]string{lname(name) + ".length", "Nat"}
	}
	f.declareFields(name, lname(name), ty)
}

// ren entries for the fields of a struct-typed variable (nested structs: packet.Metadata.Nonce)
func (f *ftr) declareFields(goPath, leanPath, ty string) {
	if fs, ok := gstructs[f.structKeyOfLean(ty)]; ok {
		for _, fl := range fs {
			if !fl.ptr { // a pointer field is never read as a value (that would be an alias), only through
				f.ren[goPath+"."+fl.goName] = [2]string{leanPath + "." + fl.lean, fl.ty}
				if fl.ty == "Bytes" {
					f.ren["len("+goPath+"."+fl.goName+")"] = [2]string{leanPath + "." + fl.lean + ".length", "Nat"}
				}
			}
			if isStructTy(fl.ty) {
				f.declareFields(goPath+"."+fl.goName, leanPath+"."+fl.lean, fl.ty)
			}
		}
	}
}

// removes the ren entries of a variable's fields (a pointer variable that is nil again / of unknown state)
func (f *ftr) undeclareFields(name string) {
	for k := range f.ren {
		if strings.HasPrefix(k, name+".") || strings.HasPrefix(k, "len("+name+".") {
			delete(f.ren, k)
		}
	}
}

func (f *ftr) structKeyOfLean(ty string) string {
	for k, v := range leanStruct {
		if v == ty {
			return k
		}
	}
	return ""
}

type snapshot struct {
	vars  map[string]string
	order []string
	ren   map[string][2]string
}

func (f *ftr) snap() snapshot {
	s := snapshot{vars: map[string]string{}, ren: map[string][2]string{}, order: append([]string{}, f.order...)}
	for k, v := range f.vars {
		s.vars[k] = v
	}
	for k, v := range f.ren {
		s.ren[k] = v
	}
	return s
}
func (f *ftr) restore(s snapshot) { f.vars, f.order, f.ren = s.vars, s.order, s.ren }

func (f *ftr) leanTypeOf(e ast.Expr) string {
	switch x := e.(type) {
	case *ast.ArrayType:
		if x.Len == nil && (exprText(x.Elt) == "byte" || exprText(x.Elt) == "uint8") {
			return "Bytes"
		}
	case *ast.Ident:
		switch x.Name {
		case "bool":
			return "Bool"
		case "string":
			return "Bytes"
		case "error":
			return "Err"
		}
		if underlying(f.pkg, x.Name) == "string" { // a string-typed named type of this package: its generated enum or nothing
			return leanEnum[f.pkg+"."+x.Name]
		}
		if g, ok := f.goType(x.Name); ok {
			return g
		}
	case *ast.StarExpr: // pointer to a modelled struct (results only; see translateFunc)
		if t, p := typeIn(f.pkg, x.X); t != "" && !p && isStructTy(t) {
			return "Ptr:" + t
		}
	case *ast.SelectorExpr: // a named type of another package: only the generated enums (integer types keep the old route)
		if t, p := typeIn(f.pkg, x); t != "" && !p && isEnumTy(t) {
			return t
		}
	}
	return ""
}

func isEnumTy(ty string) bool {
	for _, v := range leanEnum {
		if v == ty {
			return true
		}
	}
	return false
}

func zeroOf(ty string) string {
	switch ty {
	case "Bytes", pairsTy:
		return "[]"
	case "Bool":
		return "false"
	case "Err":
		return "none"
	}
	if isEnumTy(ty) {
		return ty + ".zero"
	}
	if isStructTy(ty) {
		return "{}"
	}
	if isPtrTy(ty) {
		return "none"
	}
	return "0"
}

func leanTyText(ty string) string {
	if ty == "Err" {
		return "Option String"
	}
	if isPtrTy(ty) {
		return "Option " + strings.TrimPrefix(ty, "Ptr:")
	}
	return ty
}

// ---- expressions: hoist the operations that can panic (or that call another translated function), then use the typed translator ----

func (f *ftr) tmp() string { f.fresh++; return fmt.Sprintf("t%d", f.fresh) }

func (f *ftr) nat(e ast.Expr) (pre, s string) {
	pre, s, ty := f.expr(e, "Nat")
	if ty != "Nat" {
		c, ok := conv(s, ty, "Nat")
		if !ok {
			return pre, f.bad("not convertible to Nat: %s", exprText(e))
		}
		s = c
	}
	return pre, s
}

func (f *ftr) isBytes(e ast.Expr) bool {
	id, ok := e.(*ast.Ident)
	return ok && f.vars[id.Name] == "Bytes"
}

// hoist registers ren entries for panicking sub-expressions of e and returns the bind prefix
func (f *ftr) hoist(e ast.Expr) string {
	pre := ""
	var walk func(n ast.Expr)
	walk = func(n ast.Expr) {
		switch x := n.(type) {
		case *ast.ParenExpr:
			walk(x.X)
		case *ast.BinaryExpr:
			walk(x.X)
			walk(x.Y)
		case *ast.UnaryExpr:
			walk(x.X)
		case *ast.IndexExpr:
			if f.isBytes(x.X) {
				key := exprText(x)
				if _, done := f.ren[key]; done {
					return
				}
				p, i := f.nat(x.Index)
				t := f.tmp()
				pre += p + fmt.Sprintf("Res.bind (Bytes.idx %s %s) fun %s =>\n", lname(exprText(x.X)), i, t)
				f.ren[key] = [2]string{t, "UInt8"}
				f.hoisted = append(f.hoisted, key)
			}
		case *ast.SliceExpr:
			if f.isBytes(x.X) {
				key := exprText(x)
				if _, done := f.ren[key]; done {
					return
				}
				t := f.tmp()
				if x.High == nil && x.Low != nil {
					p, lo := f.nat(x.Low)
					pre += p + fmt.Sprintf("Res.bind (Bytes.sliceFrom %s %s) fun %s =>\n", lname(exprText(x.X)), lo, t)
				} else if x.High != nil {
					lo, p1 := "0", ""
					if x.Low != nil {
						p1, lo = f.nat(x.Low)
					}
					p2, hi := f.nat(x.High)
					pre += p1 + p2 + fmt.Sprintf("Res.bind (Bytes.slice %s %s %s) fun %s =>\n", lname(exprText(x.X)), lo, hi, t)
				} else {
					return
				}
				f.ren[key] = [2]string{t, "Bytes"}
				f.hoisted = append(f.hoisted, key)
			}
		case *ast.CallExpr:
			fn := exprText(x.Fun)
			key := exprText(x)
			if _, done := f.ren[key]; done {
				return
			}
			// binary.BigEndian.UintN(b[lo:hi])
			if strings.HasPrefix(fn, "binary.BigEndian.Uint") && len(x.Args) == 1 {
				if se, ok := x.Args[0].(*ast.SliceExpr); ok && f.isBytes(se.X) && se.Low != nil && se.High != nil {
					n := strings.TrimPrefix(fn, "binary.BigEndian.Uint")
					p1, lo := f.nat(se.Low)
					p2, hi := f.nat(se.High)
					t := f.tmp()
					pre += p1 + p2 + fmt.Sprintf("Res.bind (Bytes.rdBE%s %s %s %s) fun %s =>\n", n, lname(exprText(se.X)), lo, hi, t)
					f.ren[key] = [2]string{t, "UInt" + n}
					f.hoisted = append(f.hoisted, key)
					return
				}
			}
			// methods of a ring parameter: Length() is pure, PeekUintN() is the model's Res-valued Ring.peekUintN
			if ring, m, args, ok := f.ringCall(x); ok {
				switch {
				case m == "Length" && len(args) == 0:
					f.ren[key] = [2]string{"(Ring.length " + lname(ring) + ")", "Nat"}
					f.hoisted = append(f.hoisted, key)
				case (m == "PeekUint8" || m == "PeekUint16" || m == "PeekUint32" || m == "PeekUint64") && len(args) == 0:
					n := strings.TrimPrefix(m, "PeekUint")
					t := f.tmp()
					pre += fmt.Sprintf("Res.bind (Ring.peekUint%s %s) fun %s =>\n", n, lname(ring), t)
					f.ren[key] = [2]string{t, "UInt" + n}
					f.hoisted = append(f.hoisted, key)
				default:
					f.bad("ring method %s in an expression", m)
				}
				return
			}
			// method of a struct variable (the receiver, a pooled header) that was translated before: a single value, no error,
			// no written receiver — the other shapes are statements (see block)
			if tr, _, found := f.lookupMethod(x); found {
				if len(tr.vals) != 1 || tr.hasErr || (tr.recvPtr && tr.recvW) || tr.rings != 0 {
					f.bad("call of %s in an expression", exprText(x.Fun))
					return
				}
				p, app, ok := f.methodCall(x)
				if !ok {
					return
				}
				t := f.tmp()
				pre += p + fmt.Sprintf("Res.bind (%s) fun %s =>\n", app, t)
				f.ren[key] = [2]string{t, tr.vals[0]}
				f.hoisted = append(f.hoisted, key)
				return
			}
			for _, a := range x.Args {
				walk(a)
			}
		}
	}
	walk(e)
	return pre
}

// the receiver's struct and the structs it embeds (method promotion)
func (f *ftr) recvKeys() []string {
	out := []string{f.recvKey}
	if f.recvKey == "v2.Header" {
		out = append(out, "v1.Header")
	}
	return out
}

// lookupMethod recognises `<struct variable>.<translated method>(…)` (no side effects)
func (f *ftr) lookupMethod(x *ast.CallExpr) (tr translated, recvVar string, found bool) {
	se, isSel := x.Fun.(*ast.SelectorExpr)
	if !isSel {
		return
	}
	id, isId := se.X.(*ast.Ident)
	if !isId || !isStructTy(f.vars[id.Name]) {
		return
	}
	key := f.structKeyOfLean(f.vars[id.Name])
	keys := []string{key}
	if key == "v2.Header" { // method promotion from the embedded v1.Header
		keys = append(keys, "v1.Header")
	}
	for _, rk := range keys {
		if t, ok := fnTable[rk+"."+se.Sel.Name]; ok {
			return t, id.Name, true
		}
	}
	return
}

// methodCall returns the Lean application of a call recognised by lookupMethod (and the binds its arguments need)
func (f *ftr) methodCall(x *ast.CallExpr) (pre, app string, ok bool) {
	tr, rv, found := f.lookupMethod(x)
	if !found {
		f.bad("call %s", exprText(x.Fun))
		return
	}
	arg := lname(rv)
	if tr.recvTy != f.vars[rv] {
		if tr.recvPtr && tr.recvW {
			f.bad("promoted method %s writes the embedded struct", exprText(x.Fun))
			return
		}
		arg = "(" + arg + ".to" + tr.recvTy + ")"
	}
	if len(x.Args) != len(tr.params) || x.Ellipsis.IsValid() {
		f.bad("arity of %s", exprText(x.Fun))
		return
	}
	app = tr.lean
	for _, n := range tr.needs {
		f.needs[n] = true
		app += " " + n
	}
	app += " " + arg
	for i, p := range tr.params {
		a := x.Args[i]
		aid, isId := a.(*ast.Ident)
		switch {
		case p.kind == "ctx":
			if !isId || f.ctx == "" || aid.Name != f.ctx {
				f.bad("context argument %s", exprText(a))
				return
			}
			if p.kept {
				f.needs["codec"] = true
				app += " codec"
			}
		case p.kind == "ring": // the caller's ring is handed on (the callee returns the new ring in its tuple)
			if !isId || f.vars[aid.Name] != "Ring" || !p.kept {
				f.bad("ring argument %s of %s", exprText(a), exprText(x.Fun))
				return
			}
			app += " " + lname(aid.Name)
		case p.kind != "val":
			f.bad("argument %s of %s", exprText(a), exprText(x.Fun))
			return
		case !p.kept: // Go still evaluates the argument: only a plain variable is certain not to panic
			if !isId {
				f.bad("argument %s of a parameter the callee ignores", exprText(a))
				return
			}
			if _, known := f.vars[aid.Name]; !known {
				f.bad("argument %s of a parameter the callee ignores", exprText(a))
				return
			}
		default:
			p1, s := f.exprAs(a, p.ty)
			pre += p1
			app += " " + s
		}
	}
	return pre, app, f.fail == ""
}

// enumConst: a declared constant of a string-typed named type with a generated enum
func (f *ftr) enumConst(e ast.Expr) (string, string, bool) {
	pkg, name := f.pkg, ""
	switch x := e.(type) {
	case *ast.Ident:
		name = x.Name
	case *ast.SelectorExpr:
		if id, ok := x.X.(*ast.Ident); ok {
			if _, isPkg := pkgs[id.Name]; isPkg {
				pkg, name = id.Name, x.Sel.Name
			}
		}
	}
	if name == "" {
		return "", "", false
	}
	if _, shadow := f.vars[name]; shadow && pkg == f.pkg {
		return "", "", false
	}
	for tkey, lty := range leanEnum {
		parts := strings.SplitN(tkey, ".", 2)
		if parts[0] != pkg {
			continue
		}
		for _, c := range enumOf(parts[0], parts[1]) {
			if c.goName == name {
				return lty + "." + c.lean, lty, true
			}
		}
	}
	return "", "", false
}

// structLit translates `T{Field: value, …}` of a modelled struct (keyed elements only; omitted fields are Go's zero values,
// which are the defaults of the generated structure — except pointer fields, which must be given)
func (f *ftr) structLit(cl *ast.CompositeLit) (pre, s, ty string) {
	t, p := typeIn(f.pkg, cl.Type)
	if t == "" || p || !isStructTy(t) {
		return "", f.bad("composite literal of %s", exprText(cl.Type)), ""
	}
	key := f.structKeyOfLean(t)
	kp := strings.SplitN(key, ".", 2)
	fs := structOf(kp[0], kp[1])
	if why, isBad := structBad[key]; isBad {
		return "", f.bad("struct %s has a field outside the subset (%s)", key, why), t
	}
	given := map[string]bool{}
	parts := []string{}
	for _, el := range cl.Elts {
		kv, ok := el.(*ast.KeyValueExpr)
		if !ok {
			return pre, f.bad("positional composite literal of %s", key), t
		}
		var fl *sfield
		for i := range fs {
			if fs[i].goName == exprText(kv.Key) {
				fl = &fs[i]
			}
		}
		if fl == nil || given[fl.goName] {
			return pre, f.bad("field %s of %s", exprText(kv.Key), key), t
		}
		given[fl.goName] = true
		if fl.ptr {
			// the pointer must be fresh and non-nil: the result of a translated function that returns `&T{…}`
			ce, isCall := kv.Value.(*ast.CallExpr)
			if !isCall {
				return pre, f.bad("pointer field %s from %s", fl.goName, exprText(kv.Value)), t
			}
			tr, _, found := f.lookupMethod(ce)
			if !found || !tr.fresh || len(tr.vals) != 1 || tr.vals[0] != fl.ty || tr.hasErr || (tr.recvPtr && tr.recvW) || tr.rings != 0 {
				return pre, f.bad("pointer field %s from %s", fl.goName, exprText(kv.Value)), t
			}
			p1, app, ok := f.methodCall(ce)
			if !ok {
				return pre, "sorryUntranslatable", t
			}
			tv := f.tmp()
			pre += p1 + fmt.Sprintf("Res.bind (%s) fun %s =>\n", app, tv)
			parts = append(parts, fl.lean+" := "+tv)
			continue
		}
		p1, v := f.exprAs(kv.Value, fl.ty)
		pre += p1
		parts = append(parts, fl.lean+" := "+v)
	}
	for _, fl := range fs {
		if fl.ptr && !given[fl.goName] {
			return pre, f.bad("pointer field %s of %s left nil", fl.goName, key), t
		}
	}
	return pre, "({ " + strings.Join(parts, ", ") + " } : " + t + ")", t
}

// addrLit: `&T{…}` of a modelled struct
func addrLit(e ast.Expr) (*ast.CompositeLit, bool) {
	u, ok := e.(*ast.UnaryExpr)
	if !ok || u.Op != token.AND {
		return nil, false
	}
	cl, ok := u.X.(*ast.CompositeLit)
	return cl, ok
}

// fieldWrite: `root.f1.….fn = v` on the pointer receiver or on a local struct variable (the only reference to its struct)
func (f *ftr) fieldWrite(l *ast.SelectorExpr, rhs func(ty string) (string, string)) string {
	path := []string{}
	var cur ast.Expr = l
	for {
		se, ok := cur.(*ast.SelectorExpr)
		if !ok {
			break
		}
		path = append([]string{se.Sel.Name}, path...)
		cur = se.X
	}
	root, ok := cur.(*ast.Ident)
	if !ok || !isStructTy(f.vars[root.Name]) || (root.Name == f.recv && !f.recvPtr) {
		return f.bad("field assignment %s", exprText(l))
	}
	ty := f.vars[root.Name]
	leanPaths, fields := []string{lname(root.Name)}, []string{}
	for i, name := range path {
		var fl *sfield
		fs := gstructs[f.structKeyOfLean(ty)]
		for j := range fs {
			if fs[j].goName == name {
				fl = &fs[j]
			}
		}
		if fl == nil || (i < len(path)-1 && !isStructTy(fl.ty)) || (i == len(path)-1 && fl.ptr) {
			return f.bad("field assignment %s", exprText(l))
		}
		fields = append(fields, fl.lean)
		leanPaths = append(leanPaths, leanPaths[i]+"."+fl.lean)
		ty = fl.ty
	}
	pre, v := rhs(ty)
	upd := v
	for i := len(fields) - 1; i >= 0; i-- {
		upd = fmt.Sprintf("{ %s with %s := %s }", leanPaths[i], fields[i], upd)
	}
	if root.Name == f.recv {
		f.recvW = true
	}
	return pre + fmt.Sprintf("let %s := %s\n", lname(root.Name), upd)
}

// isErrResult: the named error result of a function in error-as-Res.err mode
func (f *ftr) isErrResult(name string) bool {
	if !f.named || f.errVal || f.vars[name] != "Err" {
		return false
	}
	for _, r := range f.results {
		if r.name == name && r.ty == "Err" {
			return true
		}
	}
	return false
}

func isNeqNil(e ast.Expr, name string) bool {
	be, ok := e.(*ast.BinaryExpr)
	return ok && be.Op == token.NEQ && exprText(be.X) == name && exprText(be.Y) == "nil"
}

// `return nil, …, e` in a function with unnamed results, the error last, e a local error variable (error-as-Res.err mode)
func (f *ftr) isNilErrReturn(rs *ast.ReturnStmt, e string) bool {
	n := len(f.results)
	if f.named || f.errVal || n == 0 || len(rs.Results) != n || f.results[n-1].ty != "Err" || exprText(rs.Results[n-1]) != e {
		return false
	}
	for i, r := range rs.Results[:n-1] {
		if exprText(r) != "nil" || f.results[i].ty == "Err" {
			return false
		}
		if t := f.results[i].ty; t != "Bytes" && !strings.HasPrefix(t, "Fresh:") {
			return false
		}
	}
	_, shadow := f.vars["nil"]
	return !shadow
}

// `if e != nil { err = e; return }` with err the named error result, or `if e != nil { return nil, …, e }` (unnamed results)
func (f *ftr) isErrReturnIdiom(s ast.Stmt, e string) bool {
	is, ok := s.(*ast.IfStmt)
	if ok && is.Init == nil && is.Else == nil && len(is.Body.List) == 1 && isNeqNil(is.Cond, e) {
		if rs, isRet := is.Body.List[0].(*ast.ReturnStmt); isRet && f.isNilErrReturn(rs, e) {
			return true
		}
	}
	if !ok || is.Init != nil || is.Else != nil || len(is.Body.List) != 2 || !isNeqNil(is.Cond, e) {
		return false
	}
	as, ok := is.Body.List[0].(*ast.AssignStmt)
	if !ok || as.Tok != token.ASSIGN || len(as.Lhs) != 1 || len(as.Rhs) != 1 || exprText(as.Rhs[0]) != e {
		return false
	}
	lid, ok := as.Lhs[0].(*ast.Ident)
	if !ok || !f.isErrResult(lid.Name) {
		return false
	}
	rs, ok := is.Body.List[1].(*ast.ReturnStmt)
	return ok && len(rs.Results) == 0
}

func mentions(stmts []ast.Stmt, name string) bool {
	found := false
	for _, s := range stmts {
		ast.Inspect(s, func(n ast.Node) bool {
			if id, ok := n.(*ast.Ident); ok && id.Name == name {
				found = true
			}
			return true
		})
	}
	return found
}

// a package-level variable of this package that is a header pool: the package has exactly one method `Get`, it returns *Header
// and Header is a modelled struct. (That Get resets every field is C11.every_field_reset.)
func (f *ftr) isHeaderPool(name string) bool {
	if _, local := f.vars[name]; local {
		return false
	}
	declared := false
	gets, good := 0, 0
	for _, fl := range f.pk.files {
		for _, d := range fl.Decls {
			switch x := d.(type) {
			case *ast.GenDecl:
				if x.Tok == token.VAR {
					for _, sp := range x.Specs {
						for _, n := range sp.(*ast.ValueSpec).Names {
							if n.Name == name {
								declared = true
							}
						}
					}
				}
			case *ast.FuncDecl:
				if x.Name.Name == "Get" && x.Recv != nil {
					gets++
					if x.Type.Results != nil && len(x.Type.Results.List) == 1 && exprText(x.Type.Results.List[0].Type) == "*Header" && len(x.Type.Params.List) == 0 {
						good++
					}
				}
			}
		}
	}
	_, modelled := leanStruct[f.pkg+".Header"]
	return declared && gets == 1 && good == 1 && modelled
}

// `P.Get()` on a header pool
func (f *ftr) isPoolGet(e ast.Expr) bool {
	ce, ok := e.(*ast.CallExpr)
	if !ok || len(ce.Args) != 0 {
		return false
	}
	se, ok := ce.Fun.(*ast.SelectorExpr)
	if !ok || se.Sel.Name != "Get" {
		return false
	}
	id, ok := se.X.(*ast.Ident)
	return ok && f.isHeaderPool(id.Name)
}

// `defer func() { P.Put(v) }()` for a header pool P and a variable v that came from `P.Get()`
func (f *ftr) isPoolPutDefer(d *ast.DeferStmt) bool {
	fl, ok := d.Call.Fun.(*ast.FuncLit)
	if !ok || len(d.Call.Args) != 0 || len(fl.Type.Params.List) != 0 || fl.Type.Results != nil || len(fl.Body.List) != 1 {
		return false
	}
	es, ok := fl.Body.List[0].(*ast.ExprStmt)
	if !ok {
		return false
	}
	ce, ok := es.X.(*ast.CallExpr)
	if !ok || len(ce.Args) != 1 {
		return false
	}
	se, ok := ce.Fun.(*ast.SelectorExpr)
	if !ok || se.Sel.Name != "Put" {
		return false
	}
	pid, ok1 := se.X.(*ast.Ident)
	vid, ok2 := ce.Args[0].(*ast.Ident)
	if ok1 && ok2 && f.isHeaderPool(pid.Name) && f.pooled[vid.Name] {
		f.putDef[vid.Name] = true
		return true
	}
	return false
}

// the file of the function imports the repository's own gzip package under the name `gzip`
func (f *ftr) importsRepoGzip() bool {
	if f.file == nil {
		return false
	}
	for _, im := range f.file.Imports {
		p, _ := strconv.Unquote(im.Path.Value)
		if strings.HasSuffix(p, "/openapi-protocol/go/gzip") && (im.Name == nil || im.Name.Name == "gzip") {
			return true
		}
	}
	return false
}

// go/packet.go: `func (p Packet) UnmarshalMetadata(data []byte) error { return p.Metadata.UnmarshalValues(data) }`
func unmarshalMetadataIsForwarder() bool {
	fd := findFunc(pkgs["protocol"], "Packet", "UnmarshalMetadata")
	if fd == nil || fd.Body == nil || len(fd.Body.List) != 1 || len(fd.Recv.List[0].Names) != 1 || len(fd.Type.Params.List) != 1 || len(fd.Type.Params.List[0].Names) != 1 {
		return false
	}
	rs, ok := fd.Body.List[0].(*ast.ReturnStmt)
	if !ok || len(rs.Results) != 1 {
		return false
	}
	want := fd.Recv.List[0].Names[0].Name + ".Metadata.UnmarshalValues(" + fd.Type.Params.List[0].Names[0].Name + ")"
	return exprText(rs.Results[0]) == want && findFunc(pkgs["protocol"], "Metadata", "UnmarshalValues") != nil
}

// go/packet.go: `func (p Packet) MarshalMetadata(max int) []byte { return p.Metadata.MarshalValues(max) }`
func marshalMetadataIsForwarder() bool {
	fd := findFunc(pkgs["protocol"], "Packet", "MarshalMetadata")
	if fd == nil || fd.Body == nil || len(fd.Body.List) != 1 || len(fd.Recv.List[0].Names) != 1 || len(fd.Type.Params.List) != 1 || len(fd.Type.Params.List[0].Names) != 1 {
		return false
	}
	if _, ptr := fd.Recv.List[0].Type.(*ast.StarExpr); ptr || exprText(fd.Type.Params.List[0].Type) != "int" {
		return false
	}
	rs, ok := fd.Body.List[0].(*ast.ReturnStmt)
	if !ok || len(rs.Results) != 1 {
		return false
	}
	want := fd.Recv.List[0].Names[0].Name + ".Metadata.MarshalValues(" + fd.Type.Params.List[0].Names[0].Name + ")"
	return exprText(rs.Results[0]) == want && findFunc(pkgs["protocol"], "Metadata", "MarshalValues") != nil
}

// go/protocol.go: the pack options are ONE number. `type PackOptions struct { MinGzipSize int }` (no other field),
// `type PackOption func(*PackOptions)`, NewPackOptions starts from the zero struct and applies the options in order, GzipSize(n) sets
// the field to n: whatever options are passed, Pack sees them only as the final value of MinGzipSize (0 without options).
func packOptionsCollapse() bool {
	pk, ok := pkgs["protocol"]
	if !ok {
		return false
	}
	fields := 0
	for _, f := range pk.files {
		ast.Inspect(f, func(n ast.Node) bool {
			ts, ok := n.(*ast.TypeSpec)
			if !ok {
				return true
			}
			switch ts.Name.Name {
			case "PackOptions":
				st, ok := ts.Type.(*ast.StructType)
				if !ok {
					fields = -100
					return true
				}
				for _, fl := range st.Fields.List {
					if len(fl.Names) == 1 && fl.Names[0].Name == "MinGzipSize" && exprText(fl.Type) == "int" {
						fields++
					} else {
						fields = -100
					}
				}
			case "PackOption":
				ft, ok := ts.Type.(*ast.FuncType)
				if !ok || ft.Results != nil || len(ft.Params.List) != 1 || len(ft.Params.List[0].Names) > 1 || exprText(ft.Params.List[0].Type) != "*PackOptions" {
					fields = -100
				} else {
					fields += 10
				}
			}
			return true
		})
	}
	if fields != 11 {
		return false
	}
	nw := findFunc(pk, "", "NewPackOptions")
	gs := findFunc(pk, "", "GzipSize")
	if nw == nil || gs == nil || len(nw.Type.Params.List) != 1 || len(nw.Type.Params.List[0].Names) != 1 || nw.Type.Params.List[0].Names[0].Name != "opts" {
		return false
	}
	if el, ok := nw.Type.Params.List[0].Type.(*ast.Ellipsis); !ok || exprText(el.Elt) != "PackOption" {
		return false
	}
	a, b := stmtTexts(nw), stmtTexts(gs)
	return len(a) == 3 && a[0] == "o := &PackOptions{}" && a[1] == "for _, opt := range opts { opt(o) }" && a[2] == "return o" &&
		len(gs.Type.Params.List) == 1 && len(gs.Type.Params.List[0].Names) == 1 && gs.Type.Params.List[0].Names[0].Name == "n" &&
		exprText(gs.Type.Params.List[0].Type) == "int" &&
		len(b) == 1 && b[0] == "return func(o *PackOptions) { o.MinGzipSize = n }"
}

// structPath: `v`, `v.F`, `v.F.G` … from a struct variable through struct-typed fields (pointer fields included: the struct value
// stands for the never-nil, unshared pointer); returns the Lean term and its struct type
func (f *ftr) structPath(e ast.Expr) (string, string, bool) {
	switch x := e.(type) {
	case *ast.Ident:
		if ty := f.vars[x.Name]; isStructTy(ty) {
			return lname(x.Name), ty, true
		}
	case *ast.SelectorExpr:
		base, ty, ok := f.structPath(x.X)
		if !ok {
			return "", "", false
		}
		for _, fl := range gstructs[f.structKeyOfLean(ty)] {
			if fl.goName == x.Sel.Name && isStructTy(fl.ty) {
				return base + "." + fl.lean, fl.ty, true
			}
		}
	}
	return "", "", false
}

// scopeMark returns a marker statement to be put after the statements of a block whose continuation is inlined behind it: what the
// block declared goes out of scope there (Go's block scoping; without it `var err error` in a branch and a later `hd, err := …`
// would look like a re-definition)
func (f *ftr) scopeMark() ast.Stmt {
	m := &ast.EmptyStmt{}
	if f.scopes == nil {
		f.scopes = map[*ast.EmptyStmt][]string{}
	}
	f.scopes[m] = append([]string{}, f.order...)
	return m
}

func (f *ftr) endScope(m *ast.EmptyStmt) {
	outer, ok := f.scopes[m]
	if !ok {
		return
	}
	keep := map[string]bool{}
	for _, v := range outer {
		keep[v] = true
	}
	for v := range f.vars {
		if !keep[v] {
			delete(f.vars, v)
			delete(f.ren, v)
			delete(f.ren, "len("+v+")")
			f.undeclareFields(v)
			delete(f.pooled, v)
		}
	}
	f.order = append([]string{}, outer...)
}

// ifInit: `if lhs…, err = CALL; err != nil { return }` for the external functions of the model (see the header comment)
func (f *ftr) ifInit(x *ast.IfStmt, rest []ast.Stmt, tail func() string) string {
	as, ok := x.Init.(*ast.AssignStmt)
	if !ok || as.Tok != token.ASSIGN || len(as.Rhs) != 1 || len(as.Lhs) == 0 || x.Else != nil || len(x.Body.List) != 1 {
		return f.bad("if with init")
	}
	rs, ok := x.Body.List[0].(*ast.ReturnStmt)
	if !ok {
		return f.bad("if with init: the body is not a return")
	}
	eid, ok := as.Lhs[len(as.Lhs)-1].(*ast.Ident)
	if !ok || !isNeqNil(x.Cond, eid.Name) {
		return f.bad("if with init: not `…, err = call; err != nil`")
	}
	if f.errVal {
		return f.ifInitErrVal(x, as, eid.Name, rest, tail)
	}
	// the body hands the error on: a bare return with err the named error result, or `return nil, …, err` with err a local error
	// variable in a function with unnamed results (the error last)
	if len(rs.Results) == 0 {
		if !f.isErrResult(eid.Name) {
			return f.bad("if with init: not `…, err = call; err != nil`")
		}
	} else if f.vars[eid.Name] != "Err" || !f.isNilErrReturn(rs, eid.Name) {
		return f.bad("if with init: the body is not `return nil, …, %s`", eid.Name)
	}
	ce, ok := as.Rhs[0].(*ast.CallExpr)
	if !ok {
		return f.bad("if with init: %s", exprText(as.Rhs[0]))
	}
	lhs := as.Lhs[:len(as.Lhs)-1]
	out := ""
	switch {
	case exprText(ce.Fun) == "gzip.Decompress" && len(ce.Args) == 1 && len(lhs) == 2 && exprText(lhs[1]) == "_" && f.importsRepoGzip() &&
		findFunc(pkgs["gzip"], "", "Decompress") != nil:
		if _, shadow := f.vars["gzip"]; shadow {
			return f.bad("gzip is a variable here")
		}
		pre, arg := f.exprAs(ce.Args[0], "Bytes")
		f.dropHoisted()
		f.needs["gz"] = true
		t := f.tmp()
		out = pre + fmt.Sprintf("Res.bind (Gzip.decompress gz %s) fun %s =>\n", arg, t)
		switch l := lhs[0].(type) {
		case *ast.SelectorExpr:
			out += f.fieldWrite(l, func(ty string) (string, string) {
				if ty != "Bytes" {
					return "", f.bad("gzip.Decompress into %s", exprText(l))
				}
				return "", t
			})
		case *ast.Ident:
			if f.vars[l.Name] != "Bytes" {
				return f.bad("gzip.Decompress into %s", l.Name)
			}
			out += fmt.Sprintf("let %s : Bytes := %s\n", lname(l.Name), t)
		default:
			return f.bad("gzip.Decompress into %s", exprText(lhs[0]))
		}
	case exprText(ce.Fun) == "gzip.Compress" && len(ce.Args) == 1 && len(lhs) == 1 && f.importsRepoGzip() &&
		findFunc(pkgs["gzip"], "", "Compress") != nil:
		// x, err = gzip.Compress(b): the oracle's compressor; its error (and its panic) is the function's
		if _, shadow := f.vars["gzip"]; shadow {
			return f.bad("gzip is a variable here")
		}
		pre, arg := f.exprAs(ce.Args[0], "Bytes")
		f.dropHoisted()
		f.needs["gz"] = true
		t := f.tmp()
		out = pre + fmt.Sprintf("Res.bind (gz.compress %s) fun %s =>\n", arg, t)
		switch l := lhs[0].(type) {
		case *ast.SelectorExpr:
			out += f.fieldWrite(l, func(ty string) (string, string) {
				if ty != "Bytes" {
					return "", f.bad("gzip.Compress into %s", exprText(l))
				}
				return "", t
			})
		case *ast.Ident:
			if f.vars[l.Name] != "Bytes" {
				return f.bad("gzip.Compress into %s", l.Name)
			}
			out += fmt.Sprintf("let %s : Bytes := %s\n", lname(l.Name), t)
		default:
			return f.bad("gzip.Compress into %s", exprText(lhs[0]))
		}
	case len(lhs) == 0 && len(ce.Args) == 1:
		se, isSel := ce.Fun.(*ast.SelectorExpr)
		if !isSel || se.Sel.Name != "UnmarshalMetadata" {
			return f.bad("if with init: %s", exprText(ce.Fun))
		}
		id, isId := se.X.(*ast.Ident)
		if !isId || f.vars[id.Name] != "GPacket" || !unmarshalMetadataIsForwarder() {
			return f.bad("UnmarshalMetadata on %s", exprText(se.X))
		}
		pre, arg := f.exprAs(ce.Args[0], "Bytes")
		f.dropHoisted()
		f.needs["lower"] = true
		t := f.tmp()
		out = pre + fmt.Sprintf("Res.bind (Metadata.unmarshalValues lower %s) fun %s =>\n", arg, t)
		target := &ast.SelectorExpr{X: &ast.SelectorExpr{X: id, Sel: ast.NewIdent("Metadata")}, Sel: ast.NewIdent("Values")}
		out += f.fieldWrite(target, func(ty string) (string, string) {
			if ty != pairsTy {
				return "", f.bad("Metadata.Values has type %s", ty)
			}
			return "", t
		})
	default:
		return f.bad("if with init: %s", exprText(ce.Fun))
	}
	out += fmt.Sprintf("let %s : Option String := none\n", lname(eid.Name))
	return out + f.block(rest, tail)
}

// defineSpecial: the three `v := CALL` shapes of the protocol-level encoders (trusted mappings, see the header comment)
func (f *ftr) defineSpecial(name string, rhs ast.Expr) (string, bool) {
	ce, ok := rhs.(*ast.CallExpr)
	if !ok {
		return "", false
	}
	// o := protocol.NewPackOptions(opts...): from here on `o.MinGzipSize` is the parameter thr; o is not a variable (any other use fails)
	if exprText(ce.Fun) == "protocol.NewPackOptions" {
		if _, shadow := f.vars["protocol"]; shadow || f.pkg == "protocol" {
			return f.bad("protocol.NewPackOptions here"), true
		}
		aid, isId := (ast.Expr)(nil), false
		if len(ce.Args) == 1 {
			aid, isId = ce.Args[0], true
		}
		if !isId || !ce.Ellipsis.IsValid() || f.opts == "" || exprText(aid) != f.opts || !packOptionsCollapse() || f.joinDep > 0 {
			return f.bad("NewPackOptions not as `o := protocol.NewPackOptions(opts...)` with opts the variadic parameter"), true
		}
		if _, done := f.ren[name+".MinGzipSize"]; done {
			return f.bad("second NewPackOptions"), true
		}
		// every occurrence of o is a read of o.MinGzipSize, opts occurs only here
		nO, nSel, nOpts, written := 0, 0, 0, false
		ast.Inspect(f.body, func(n ast.Node) bool {
			switch y := n.(type) {
			case *ast.Ident:
				if y.Name == name {
					nO++
				}
				if y.Name == f.opts {
					nOpts++
				}
			case *ast.SelectorExpr:
				if exprText(y) == name+".MinGzipSize" {
					nSel++
				}
			case *ast.AssignStmt:
				for _, l := range y.Lhs {
					if strings.HasPrefix(exprText(l), name+".") {
						written = true
					}
				}
			case *ast.IncDecStmt:
				if strings.HasPrefix(exprText(y.X), name+".") {
					written = true
				}
			case *ast.UnaryExpr:
				if y.Op == token.AND && strings.HasPrefix(exprText(y.X), name+".") {
					written = true
				}
			}
			return true
		})
		if nO != nSel+1 || nOpts != 1 || written {
			return f.bad("the pack options %s are used otherwise than by reading %s.MinGzipSize", name, name), true
		}
		f.ren[name+".MinGzipSize"] = [2]string{"thr", "Int"}
		return "", true
	}
	// md := packet.MarshalMetadata(max): the model's Metadata.marshalMap on the packet's values (the loop stays hand-written)
	if se, isSel := ce.Fun.(*ast.SelectorExpr); isSel && se.Sel.Name == "MarshalMetadata" {
		id, isId := se.X.(*ast.Ident)
		if !isId || f.vars[id.Name] != "GPacket" || len(ce.Args) != 1 || !marshalMetadataIsForwarder() {
			return f.bad("MarshalMetadata on %s", exprText(se.X)), true
		}
		var vty string
		for _, fl := range gstructs["protocol.Metadata"] {
			if fl.goName == "Values" {
				vty = fl.ty
			}
		}
		if vty != pairsTy {
			return f.bad("Metadata.Values has type %s", vty), true
		}
		pre, n := f.nat(ce.Args[0])
		f.dropHoisted()
		f.model = true
		f.declare(name, "Bytes")
		return pre + fmt.Sprintf("let %s : Bytes := Metadata.marshalMap %s.metadata.values (Int.ofNat %s)\n", lname(name), lname(id.Name), n), true
	}
	// header := headerFromContext(ctx): the header parked in the context, or a fresh pool header that is parked at once
	if fid, isId := ce.Fun.(*ast.Ident); isId && fid.Name == "headerFromContext" {
		if _, shadow := f.vars[fid.Name]; shadow {
			return "", false
		}
		hty, modelled := leanStruct[f.pkg+".Header"]
		if len(ce.Args) != 1 || f.ctx == "" || exprText(ce.Args[0]) != f.ctx || !f.errVal || !f.named || f.pendTy != "" || f.joinDep > 0 || !modelled ||
			!f.isHeaderPool("defaultHeaderPool") || !ctxHeaderSlot() || !headerFromContextShape(f.pk) {
			return f.bad("headerFromContext not as `h := headerFromContext(ctx)` at the top of a streaming decoder"), true
		}
		f.pendTy, f.parked = hty, name
		f.declare(name, hty)
		return fmt.Sprintf("let %s : %s := Option.getD pend {}\nlet pend : Option %s := some %s\n", lname(name), hty, hty, lname(name)), true
	}
	// h := headerFromMetadata(packet.Metadata): a translated package-level function that hands out a pooled header
	if fid, isId := ce.Fun.(*ast.Ident); isId {
		tr, found := fnTable[f.pkg+"."+fid.Name]
		if _, shadow := f.vars[fid.Name]; !found || shadow || findFunc(f.pk, "", fid.Name) == nil {
			return "", false
		}
		if tr.recvTy != "" || !tr.pooled || tr.hasErr || len(tr.vals) != 1 || tr.rings != 0 || tr.ptrW != 0 || len(ce.Args) != len(tr.params) || ce.Ellipsis.IsValid() {
			return f.bad("call of %s", fid.Name), true
		}
		app := tr.lean
		for _, n := range tr.needs {
			f.needs[n] = true
			app += " " + n
		}
		pre := ""
		for i, p := range tr.params {
			switch {
			case p.kind == "ptr": // the callee only reads the struct: by value
				s, ty, ok := f.structPath(ce.Args[i])
				if !ok || ty != p.ty {
					return f.bad("argument %s of %s", exprText(ce.Args[i]), fid.Name), true
				}
				if p.kept {
					app += " " + s
				}
			case p.kind == "val" && p.kept:
				p1, s := f.exprAs(ce.Args[i], p.ty)
				pre += p1
				app += " " + s
			default:
				return f.bad("argument %s of %s", exprText(ce.Args[i]), fid.Name), true
			}
		}
		f.dropHoisted()
		f.declare(name, tr.vals[0])
		f.pooled[name] = true
		return pre + fmt.Sprintf("Res.bind (%s) fun %s =>\n", app, lname(name)), true
	}
	return "", false
}

// go/context.go: the header slot of the context is one map entry that only these methods touch, and the unpack flag is read by InUnpack only
func ctxHeaderSlot() bool {
	pk, ok := pkgs["protocol"]
	if !ok {
		return false
	}
	want := map[string][]string{
		"BeginUnpack": {"c.beginUnpack = true"},
		"InUnpack":    {"return c.beginUnpack"},
		"EndUnpack":   {"c.beginUnpack = false", "c.buildin[ContextKeyHeader] = nil"},
		"SetHeader":   {"c.buildin[ContextKeyHeader] = h"},
		"GetHeader":   {"return c.buildin[ContextKeyHeader]"},
	}
	for name, body := range want {
		fd := findFunc(pk, "Context", name)
		if fd == nil || len(fd.Recv.List) != 1 || len(fd.Recv.List[0].Names) != 1 || fd.Recv.List[0].Names[0].Name != "c" {
			return false
		}
		if name == "SetHeader" && (len(fd.Type.Params.List) != 1 || len(fd.Type.Params.List[0].Names) != 1 || fd.Type.Params.List[0].Names[0].Name != "h") {
			return false
		}
		got := stmtTexts(fd)
		if len(got) != len(body) {
			return false
		}
		for i := range got {
			if got[i] != body[i] {
				return false
			}
		}
	}
	// no other function of the package mentions the slot or the flag
	n := 0
	for _, fl := range pk.files {
		ast.Inspect(fl, func(m ast.Node) bool {
			switch y := m.(type) {
			case *ast.Ident:
				if y.Name == "ContextKeyHeader" {
					n++
				}
			case *ast.SelectorExpr:
				if y.Sel.Name == "beginUnpack" {
					n += 100
				}
			}
			return true
		})
	}
	return n == 4+300 // the constant's declaration and three uses; three uses of the flag (its field declaration is an Ident, not a selector)
}

// headerFromContext of a version package: the parked header if there is one, else a pool header that is parked at once
func headerFromContextShape(pk *pkgInfo) bool {
	fd := findFunc(pk, "", "headerFromContext")
	if fd == nil || len(fd.Type.Params.List) != 1 || len(fd.Type.Params.List[0].Names) != 1 || fd.Type.Params.List[0].Names[0].Name != "ctx" ||
		!isCtxType(fd.Type.Params.List[0].Type) || fd.Type.Results == nil || len(fd.Type.Results.List) != 1 ||
		len(fd.Type.Results.List[0].Names) != 1 || fd.Type.Results.List[0].Names[0].Name != "h" || exprText(fd.Type.Results.List[0].Type) != "*Header" {
		return false
	}
	got := stmtTexts(fd)
	return len(got) == 3 && got[0] == "v := ctx.GetHeader()" &&
		got[1] == "if v == nil { h = defaultHeaderPool.Get() ctx.SetHeader(h) } else { h = v.(*Header) }" && got[2] == "return"
}

// `defer func() { if done || err != nil { ctx.SetHeader(nil); P.Put(header) } }()`: done / err the named bool / error results, header the
// alias of the parked header, P the header pool
func (f *ftr) isReleaseDefer(d *ast.DeferStmt) bool {
	fl, ok := d.Call.Fun.(*ast.FuncLit)
	if !ok || f.pendTy == "" || f.release || f.joinDep > 0 || len(d.Call.Args) != 0 || len(fl.Type.Params.List) != 0 || fl.Type.Results != nil || len(fl.Body.List) != 1 {
		return false
	}
	is, ok := fl.Body.List[0].(*ast.IfStmt)
	if !ok || is.Init != nil || is.Else != nil || len(is.Body.List) != 2 {
		return false
	}
	be, ok := is.Cond.(*ast.BinaryExpr)
	if !ok || be.Op != token.LOR {
		return false
	}
	did, ok := be.X.(*ast.Ident)
	ne, ok2 := be.Y.(*ast.BinaryExpr)
	if !ok || !ok2 || ne.Op != token.NEQ || exprText(ne.Y) != "nil" {
		return false
	}
	eid, ok := ne.X.(*ast.Ident)
	if !ok {
		return false
	}
	isRes := func(name, ty string) bool {
		for _, r := range f.results {
			if r.name == name && r.ty == ty && f.vars[name] == ty {
				return true
			}
		}
		return false
	}
	if !f.named || !isRes(did.Name, "Bool") || !isRes(eid.Name, "Err") {
		return false
	}
	s0, ok0 := is.Body.List[0].(*ast.ExprStmt)
	s1, ok1 := is.Body.List[1].(*ast.ExprStmt)
	if !ok0 || !ok1 || exprText(s0.X) != f.ctx+".SetHeader(nil)" {
		return false
	}
	ce, ok := s1.X.(*ast.CallExpr)
	if !ok || len(ce.Args) != 1 || exprText(ce.Args[0]) != f.parked {
		return false
	}
	se, ok := ce.Fun.(*ast.SelectorExpr)
	if !ok || se.Sel.Name != "Put" {
		return false
	}
	pid, ok := se.X.(*ast.Ident)
	if !ok || !f.isHeaderPool(pid.Name) {
		return false
	}
	f.relD, f.relE = did.Name, eid.Name
	return true
}

// ifInitErrVal: `if …, err = CALL; err != nil { return }` in a function whose error is a tuple component (err the named error result,
// a bare return): `_, err = RING.Read(b)` and `x, _, err = gzip.Decompress(b)`
func (f *ftr) ifInitErrVal(x *ast.IfStmt, as *ast.AssignStmt, ename string, rest []ast.Stmt, tail func() string) string {
	rs := x.Body.List[0].(*ast.ReturnStmt)
	isRes := false
	for _, r := range f.results {
		if r.name == ename && r.ty == "Err" {
			isRes = true
		}
	}
	if !f.named || !isRes || f.vars[ename] != "Err" || len(rs.Results) != 0 || f.joinDep > 0 {
		return f.bad("if with init: not `…, err = call; err != nil { return }` with err the named error result")
	}
	ce, ok := as.Rhs[0].(*ast.CallExpr)
	if !ok {
		return f.bad("if with init: %s", exprText(as.Rhs[0]))
	}
	lhs := as.Lhs[:len(as.Lhs)-1]
	head, okPat, okPre := "", "", ""
	t := f.tmp()
	if ring, m, args, isRing := f.ringCall(ce); isRing && m == "Read" && len(args) == 1 && len(lhs) == 1 && exprText(lhs[0]) == "_" {
		// _, err = buf.Read(b): the model's Ring.read with n = len(b); the bytes read are copied to the front of b (what is left of b stays);
		// ErrIsEmpty leaves ring and b as they were
		bid, isId := args[0].(*ast.Ident)
		if !isId || f.vars[bid.Name] != "Bytes" {
			return f.bad("Read into %s", exprText(args[0]))
		}
		head = fmt.Sprintf("Ring.read %s %s.length", lname(ring), lname(bid.Name))
		okPat = fmt.Sprintf("(%s, %s)", t, lname(ring))
		okPre = fmt.Sprintf("Res.bind (Bytes.copyAt %s (0 : Nat) %s) fun %s =>\n", lname(bid.Name), t, lname(bid.Name))
	} else if exprText(ce.Fun) == "gzip.Decompress" && len(ce.Args) == 1 && len(lhs) == 2 && exprText(lhs[1]) == "_" && f.importsRepoGzip() &&
		findFunc(pkgs["gzip"], "", "Decompress") != nil {
		if _, shadow := f.vars["gzip"]; shadow {
			return f.bad("gzip is a variable here")
		}
		pre, arg := f.exprAs(ce.Args[0], "Bytes")
		if pre != "" {
			return f.bad("argument of gzip.Decompress")
		}
		f.dropHoisted()
		f.needs["gz"] = true
		head = "Gzip.decompress gz " + arg
		okPat = t
		switch l := lhs[0].(type) {
		case *ast.SelectorExpr:
			okPre = f.fieldWrite(l, func(ty string) (string, string) {
				if ty != "Bytes" {
					return "", f.bad("gzip.Decompress into %s", exprText(l))
				}
				return "", t
			})
		default:
			return f.bad("gzip.Decompress into %s", exprText(lhs[0]))
		}
	} else if se, isSel := ce.Fun.(*ast.SelectorExpr); isSel && len(lhs) == 0 && len(ce.Args) == 1 && se.Sel.Name == "UnmarshalMetadata" {
		// err = packet.UnmarshalMetadata(md): the model's Metadata.unmarshalValues (the loop stays hand-written), as in the one-shot decoder
		id, isId := se.X.(*ast.Ident)
		if !isId || f.vars[id.Name] != "GPacket" || !unmarshalMetadataIsForwarder() {
			return f.bad("UnmarshalMetadata on %s", exprText(se.X))
		}
		pre, arg := f.exprAs(ce.Args[0], "Bytes")
		if pre != "" {
			return f.bad("argument of UnmarshalMetadata")
		}
		f.dropHoisted()
		f.needs["lower"] = true
		head = "Metadata.unmarshalValues lower " + arg
		okPat = t
		target := &ast.SelectorExpr{X: &ast.SelectorExpr{X: id, Sel: ast.NewIdent("Metadata")}, Sel: ast.NewIdent("Values")}
		okPre = f.fieldWrite(target, func(ty string) (string, string) {
			if ty != pairsTy {
				return "", f.bad("Metadata.Values has type %s", ty)
			}
			return "", t
		})
	} else {
		return f.bad("if with init: %s", exprText(ce.Fun))
	}
	e, w := f.tmp(), f.tmp()
	sn := f.snap()
	a := fmt.Sprintf("let %s : Option String := some %s\n", lname(ename), e) + f.block(append(append([]ast.Stmt{}, x.Body.List...), f.scopeMark()), tail)
	f.restore(sn)
	b := okPre + fmt.Sprintf("let %s : Option String := none\n", lname(ename)) + f.block(rest, tail)
	return fmt.Sprintf("(match %s with\n| .panic %s => .panic %s\n| .err %s => (\n%s)\n| .ok %s => (\n%s))", head, w, w, e, a, okPat, b)
}

func (f *ftr) dropHoisted() {
	for _, k := range f.hoisted {
		delete(f.ren, k)
	}
	f.hoisted = nil
}

// expr translates e (after hoisting); returns the bind prefix, the Lean text and its Lean type
func (f *ftr) expr(e ast.Expr, want string) (string, string, string) {
	switch x := e.(type) {
	case *ast.ParenExpr:
		return f.expr(x.X, want)
	case *ast.Ident:
		if x.Name == "nil" && want == "Bytes" {
			return "", "[]", "Bytes"
		}
		if x.Name == "true" || x.Name == "false" {
			return "", x.Name, "Bool"
		}
		if s, ty, ok := f.enumConst(x); ok {
			return "", s, ty
		}
	case *ast.SelectorExpr:
		if s, ty, ok := f.enumConst(x); ok {
			return "", s, ty
		}
	case *ast.BinaryExpr:
		// md.Type == protocol.RequestPacket: equality of two values of a generated enum (decidable equality of the inductive type)
		if x.Op == token.EQL || x.Op == token.NEQ {
			// e != nil / e == nil on a local error variable (functions whose error is a tuple component)
			if id, isId := x.X.(*ast.Ident); isId && f.errVal && f.vars[id.Name] == "Err" && exprText(x.Y) == "nil" {
				if _, shadow := f.vars["nil"]; !shadow {
					if x.Op == token.NEQ {
						return "", "(Option.isSome " + lname(id.Name) + ")", "Bool"
					}
					return "", "(Option.isNone " + lname(id.Name) + ")", "Bool"
				}
			}
			_, _, lc := f.enumConst(x.X)
			_, _, rc := f.enumConst(x.Y)
			if lc || rc {
				p1, a, ta := f.expr(x.X, "")
				p2, b, tb := f.expr(x.Y, "")
				if ta != tb || !isEnumTy(ta) {
					return p1 + p2, f.bad("comparison %s", exprText(e)), "Bool"
				}
				op := "=="
				if x.Op == token.NEQ {
					op = "!="
				}
				return p1 + p2, "(" + a + " " + op + " " + b + ")", "Bool"
			}
		}
	case *ast.CompositeLit:
		if f.leanTypeOf(x.Type) == "Bytes" {
			pre, els := "", []string{}
			for _, el := range x.Elts {
				p, s, ty := f.expr(el, "UInt8")
				if ty != "UInt8" {
					c, ok := conv(s, ty, "UInt8")
					if !ok {
						return pre, f.bad("composite element %s", exprText(el)), "Bytes"
					}
					s = c
				}
				pre += p
				els = append(els, s)
			}
			return pre, "[" + strings.Join(els, ", ") + "]", "Bytes"
		}
	case *ast.CallExpr:
		fn := exprText(x.Fun)
		switch {
		case fn == "make" && len(x.Args) == 2 && f.leanTypeOf(x.Args[0]) == "Bytes":
			p, n := f.nat(x.Args[1])
			return p, "(List.replicate " + n + " (0 : UInt8))", "Bytes"
		case fn == "append" && len(x.Args) == 2 && x.Ellipsis.IsValid():
			p1, a, ta := f.expr(x.Args[0], "Bytes")
			p2, b, tb := f.expr(x.Args[1], "Bytes")
			if ta != "Bytes" || tb != "Bytes" {
				return p1 + p2, f.bad("append of non-bytes: %s", exprText(e)), "Bytes"
			}
			return p1 + p2, "(" + a + " ++ " + b + ")", "Bytes"
		case (fn == "string" || fn == "[]byte") && len(x.Args) == 1:
			return f.expr(x.Args[0], "Bytes")
		}
	}
	pre := f.hoist(e)
	if n, ok := f.ren[exprText(e)]; ok {
		return pre, n[0], n[1]
	}
	s, ty, ok := f.lean(e, want)
	if !ok {
		return pre, f.bad("untranslatable expression: %s", exprText(e)), want
	}
	return pre, s, ty
}

func (f *ftr) exprAs(e ast.Expr, want string) (string, string) {
	pre, s, ty := f.expr(e, want)
	if ty != want {
		c, ok := conv(s, ty, want)
		if !ok {
			return pre, f.bad("%s has type %s, want %s", exprText(e), ty, want)
		}
		s = c
	}
	return pre, s
}

// ---- statements ----

func containsReturn(n ast.Node) bool {
	found := false
	ast.Inspect(n, func(m ast.Node) bool {
		if _, ok := m.(*ast.ReturnStmt); ok {
			found = true
		}
		if _, ok := m.(*ast.FuncLit); ok {
			return false
		}
		return true
	})
	return found
}

// variables declared outside that the statements assign
func (f *ftr) assigned(n ast.Node) []string {
	set := map[string]bool{}
	mark := func(e ast.Expr) {
		switch x := e.(type) {
		case *ast.Ident:
			set[x.Name] = true
		case *ast.IndexExpr:
			set[exprText(x.X)] = true
		case *ast.SelectorExpr:
			var cur ast.Expr = x
			for { // packet.Metadata.Nonce = … writes the variable packet
				se, ok := cur.(*ast.SelectorExpr)
				if !ok {
					break
				}
				cur = se.X
			}
			set[exprText(cur)] = true
		}
	}
	ast.Inspect(n, func(m ast.Node) bool {
		switch x := m.(type) {
		case *ast.AssignStmt:
			if x.Tok != token.DEFINE {
				for _, l := range x.Lhs {
					mark(l)
				}
			}
			if len(x.Rhs) == 1 { // a pointer-receiver method may write its receiver variable
				if ce, ok := x.Rhs[0].(*ast.CallExpr); ok {
					if se, ok := ce.Fun.(*ast.SelectorExpr); ok {
						if id, ok := se.X.(*ast.Ident); ok && isStructTy(f.vars[id.Name]) {
							if tr, _, found := f.lookupMethod(ce); !found || (tr.recvPtr && tr.recvW) {
								set[id.Name] = true
							}
						}
					}
				}
			}
		case *ast.ExprStmt:
			if ce, ok := x.X.(*ast.CallExpr); ok {
				if se, ok := ce.Fun.(*ast.SelectorExpr); ok { // any method call statement on a struct variable
					if id, ok := se.X.(*ast.Ident); ok && isStructTy(f.vars[id.Name]) {
						set[id.Name] = true
					}
				}
			}
		case *ast.IncDecStmt:
			mark(x.X)
		case *ast.CallExpr:
			if strings.HasPrefix(exprText(x.Fun), "binary.BigEndian.PutUint") && len(x.Args) == 2 {
				if se, ok := x.Args[0].(*ast.SliceExpr); ok {
					set[exprText(se.X)] = true
				}
			}
			if exprText(x.Fun) == "copy" && len(x.Args) == 2 { // copy(d, …) / copy(d[lo:], …) writes d
				switch d := x.Args[0].(type) {
				case *ast.SliceExpr:
					set[exprText(d.X)] = true
				default:
					set[exprText(d)] = true
				}
			}
			if ring, m, _, ok := f.ringCall(x); ok && m != "Length" && !strings.HasPrefix(m, "Peek") {
				set[ring] = true // Retrieve (and any method outside the subset: the statement translator rejects it)
			}
		}
		return true
	})
	out := []string{}
	for _, v := range f.order {
		if set[v] {
			if _, ok := f.vars[v]; ok {
				out = append(out, v)
			}
		}
	}
	return out
}

func tuple(vs []string) string {
	switch len(vs) {
	case 0:
		return "()"
	case 1:
		return lname(vs[0])
	}
	o := []string{}
	for _, v := range vs {
		o = append(o, lname(v))
	}
	return "(" + strings.Join(o, ", ") + ")"
}

func (f *ftr) block(stmts []ast.Stmt, tail func() string) string {
	if len(stmts) == 0 {
		return tail()
	}
	s, rest := stmts[0], stmts[1:]
	defer f.dropHoisted()
	cont := func() string { f.dropHoisted(); return f.block(rest, tail) }
	switch x := s.(type) {
	case *ast.EmptyStmt:
		f.endScope(x)
		return cont()
	case *ast.DeclStmt:
		gd, ok := x.Decl.(*ast.GenDecl)
		if !ok || gd.Tok != token.VAR {
			return f.bad("declaration %T", x.Decl)
		}
		out := ""
		for _, sp := range gd.Specs {
			vs := sp.(*ast.ValueSpec)
			ty := f.leanTypeOf(vs.Type)
			if ty == "" || len(vs.Values) != 0 {
				return f.bad("var declaration %s", exprText(vs.Type))
			}
			for _, n := range vs.Names {
				if _, dup := f.vars[n.Name]; dup {
					return f.bad("re-declaration of %s (shadowing is outside the subset)", n.Name)
				}
				f.declare(n.Name, ty)
				out += fmt.Sprintf("let %s : %s := %s\n", lname(n.Name), leanTyText(ty), zeroOf(ty))
			}
		}
		return out + cont()
	case *ast.IncDecStmt:
		id, ok := x.X.(*ast.Ident)
		if !ok || f.vars[id.Name] != "Nat" {
			return f.bad("inc/dec of %s", exprText(x.X))
		}
		op := "+"
		if x.Tok == token.DEC {
			return f.bad("decrement")
		}
		return fmt.Sprintf("let %s := %s %s 1\n", lname(id.Name), lname(id.Name), op) + cont()
	case *ast.AssignStmt:
		if len(x.Lhs) == 2 && len(x.Rhs) == 1 && x.Tok == token.DEFINE {
			a, ok1 := x.Lhs[0].(*ast.Ident)
			b, ok2 := x.Lhs[1].(*ast.Ident)
			// data, e := header.UnpackBytes(ctx, bs) + `if e != nil { err = e; return }`: the callee's error is propagated
			if ce, isCall := x.Rhs[0].(*ast.CallExpr); isCall && ok1 && ok2 {
				if tr, rv, found := f.lookupMethod(ce); found && tr.errVal {
					// ok, e := header.Unpack(ctx, buf): a translated streaming decoder; it returns (receiver, ring, value, error) as a tuple
					if !f.errVal || !tr.hasErr || len(tr.vals) != 1 || tr.rings != 1 || len(f.rings) != 1 || !(tr.recvPtr && tr.recvW) ||
						tr.recvTy != f.vars[rv] || a.Name == "_" || b.Name == "_" || a.Name == b.Name {
						return f.bad("two-value definition from %s", exprText(ce.Fun))
					}
					if _, dup := f.vars[a.Name]; dup {
						return f.bad("two-value definition re-uses %s", a.Name)
					}
					if _, dup := f.vars[b.Name]; dup {
						return f.bad("two-value definition re-uses %s", b.Name)
					}
					pre, app, ok := f.methodCall(ce)
					if !ok {
						return "sorryUntranslatable"
					}
					f.dropHoisted()
					f.declare(a.Name, tr.vals[0])
					f.declare(b.Name, "Err")
					return pre + fmt.Sprintf("Res.bind (%s) fun (%s, %s, %s, %s) =>\n", app, lname(rv), lname(f.rings[0]), lname(a.Name), lname(b.Name)) + cont()
				}
				if tr, rv, found := f.lookupMethod(ce); found {
					if !tr.hasErr || tr.errVal || len(tr.vals) != 1 || tr.rings != 0 || a.Name == "_" || b.Name == "_" || a.Name == b.Name {
						return f.bad("two-value definition from %s", exprText(ce.Fun))
					}
					if _, dup := f.vars[a.Name]; dup {
						return f.bad("two-value definition re-uses %s", a.Name)
					}
					if _, dup := f.vars[b.Name]; dup {
						return f.bad("two-value definition re-uses %s", b.Name)
					}
					if len(rest) == 0 || !f.isErrReturnIdiom(rest[0], b.Name) || mentions(rest[1:], b.Name) {
						return f.bad("the error of %s is not returned at once (`if %s != nil { err = %s; return }`)", exprText(ce.Fun), b.Name, b.Name)
					}
					pre, app, ok := f.methodCall(ce)
					if !ok {
						return "sorryUntranslatable"
					}
					f.dropHoisted()
					pat := lname(a.Name)
					if tr.recvPtr && tr.recvW {
						pat = "(" + lname(rv) + ", " + lname(a.Name) + ")"
					}
					f.declare(a.Name, tr.vals[0])
					return pre + fmt.Sprintf("Res.bind (%s) fun %s =>\n", app, pat) + f.block(rest[1:], tail)
				}
			}
			// f, e := buffer.Peek(n): the two slices of the model's Ring.peek
			ring, m, args, ok3 := f.ringCall(x.Rhs[0])
			if !ok1 || !ok2 || !ok3 || m != "Peek" || len(args) != 1 || a.Name == "_" || b.Name == "_" || a.Name == b.Name {
				return f.bad("two-value definition %s", exprText(x.Rhs[0]))
			}
			if _, dup := f.vars[a.Name]; dup { // `:=` would ASSIGN an existing variable of the same scope
				return f.bad("two-value definition re-uses %s", a.Name)
			}
			if _, dup := f.vars[b.Name]; dup {
				return f.bad("two-value definition re-uses %s", b.Name)
			}
			pre, n := f.nat(args[0])
			f.dropHoisted()
			t := f.tmp()
			out := pre + fmt.Sprintf("let %s : Bytes × Bytes := Ring.peek %s %s\n", t, lname(ring), n)
			f.declare(a.Name, "Bytes")
			f.declare(b.Name, "Bytes")
			out += fmt.Sprintf("let %s : Bytes := %s.1\nlet %s : Bytes := %s.2\n", lname(a.Name), t, lname(b.Name), t)
			return out + cont()
		}
		if len(x.Lhs) != 1 || len(x.Rhs) != 1 {
			return f.bad("multi-assignment %s", exprText(x.Lhs[0]))
		}
		switch l := x.Lhs[0].(type) {
		case *ast.Ident:
			if x.Tok == token.DEFINE {
				if _, dup := f.vars[l.Name]; dup {
					return f.bad("re-definition of %s (shadowing is outside the subset)", l.Name)
				}
				if out, handled := f.defineSpecial(l.Name, x.Rhs[0]); handled {
					if f.fail != "" {
						return out
					}
					return out + cont()
				}
				if f.isPoolGet(x.Rhs[0]) { // header := defaultHeaderPool.Get(): a fresh zero header (trusted mapping, see the header comment)
					ty := leanStruct[f.pkg+".Header"]
					f.declare(l.Name, ty)
					f.pooled[l.Name] = true
					return fmt.Sprintf("let %s : %s := {}\n", lname(l.Name), ty) + cont()
				}
				pre, rhs, ty := f.expr(x.Rhs[0], "")
				if ty == "" || ty == "Int" {
					ty = "Nat"
					pre, rhs = f.exprAs(x.Rhs[0], "Nat")
				}
				if ty == "Ring" {
					return f.bad("alias of the ring pointer %s", exprText(x.Rhs[0]))
				}
				if isStructTy(ty) || isPtrTy(ty) {
					return f.bad("copy or alias of a struct: %s", exprText(x.Rhs[0]))
				}
				f.dropHoisted()
				f.declare(l.Name, ty)
				return pre + fmt.Sprintf("let %s : %s := %s\n", lname(l.Name), leanTyText(ty), rhs) + cont()
			}
			ty, ok := f.vars[l.Name]
			if !ok {
				return f.bad("assignment to unknown %s", l.Name)
			}
			if ty == "Ring" {
				return f.bad("assignment to the ring pointer %s", l.Name)
			}
			if sty, isPtrVar := f.ptrVars[l.Name]; isPtrVar {
				// packet = &protocol.Packet{…}: from here on the variable is known to be non-nil (a value of the struct)
				cl, isLit := addrLit(x.Rhs[0])
				if !isLit || x.Tok != token.ASSIGN || f.joinDep > 0 {
					return f.bad("assignment to the pointer %s", l.Name)
				}
				pre, lit, lty := f.structLit(cl)
				if lty != sty {
					return f.bad("assignment to the pointer %s", l.Name)
				}
				f.dropHoisted()
				f.declare(l.Name, sty)
				return pre + fmt.Sprintf("let %s : %s := %s\n", lname(l.Name), sty, lit) + cont()
			}
			if isStructTy(ty) || isPtrTy(ty) {
				return f.bad("assignment to the struct variable %s", l.Name)
			}
			if ty == "Err" {
				if msg, ok := errMessage(f.pk, x.Rhs[0]); ok {
					return fmt.Sprintf("let %s : Option String := some %q\n", lname(l.Name), msg) + cont()
				}
				if exprText(x.Rhs[0]) == "nil" {
					return fmt.Sprintf("let %s : Option String := none\n", lname(l.Name)) + cont()
				}
				if rid, isId := x.Rhs[0].(*ast.Ident); isId && f.errVal && f.vars[rid.Name] == "Err" && x.Tok == token.ASSIGN {
					return fmt.Sprintf("let %s : Option String := %s\n", lname(l.Name), lname(rid.Name)) + cont()
				}
				return f.bad("error value %s", exprText(x.Rhs[0]))
			}
			if x.Tok != token.ASSIGN {
				return f.bad("assignment operator %s", x.Tok)
			}
			pre, rhs := f.exprAs(x.Rhs[0], ty)
			return pre + fmt.Sprintf("let %s : %s := %s\n", lname(l.Name), ty, rhs) + cont()
		case *ast.IndexExpr:
			if !f.isBytes(l.X) || x.Tok != token.ASSIGN {
				return f.bad("indexed assignment %s", exprText(l))
			}
			p1, i := f.nat(l.Index)
			p2, v := f.exprAs(x.Rhs[0], "UInt8")
			d := lname(exprText(l.X))
			return p1 + p2 + fmt.Sprintf("Res.bind (Bytes.set %s %s %s) fun %s =>\n", d, i, v, d) + cont()
		case *ast.SelectorExpr:
			if x.Tok != token.ASSIGN {
				return f.bad("field assignment %s", exprText(l))
			}
			return f.fieldWrite(l, func(ty string) (string, string) { return f.exprAs(x.Rhs[0], ty) }) + cont()
		}
		return f.bad("assignment to %s", exprText(x.Lhs[0]))
	case *ast.ExprStmt:
		if ce, ok := x.X.(*ast.CallExpr); ok && strings.HasPrefix(exprText(ce.Fun), "binary.BigEndian.PutUint") && len(ce.Args) == 2 {
			if se, ok := ce.Args[0].(*ast.SliceExpr); ok && f.isBytes(se.X) && se.Low != nil && se.High != nil {
				n := strings.TrimPrefix(exprText(ce.Fun), "binary.BigEndian.PutUint")
				p1, lo := f.nat(se.Low)
				p2, hi := f.nat(se.High)
				p3, v := f.exprAs(ce.Args[1], "UInt"+n)
				d := lname(exprText(se.X))
				return p1 + p2 + p3 + fmt.Sprintf("Res.bind (Bytes.putBE%s %s %s %s %s) fun %s =>\n", n, d, lo, hi, v, d) + cont()
			}
		}
		if ce, ok := x.X.(*ast.CallExpr); ok && isHookStmt(x) {
			// verifhook.Point("…"): instrumentation (empty without the build tag); only literal arguments, so that nothing is evaluated
			_, shadow := f.vars["verifhook"]
			lits := true
			for _, a := range ce.Args {
				if _, isLit := a.(*ast.BasicLit); !isLit {
					lits = false
				}
			}
			if !shadow && lits {
				return cont()
			}
			return f.bad("instrumentation call %s", exprText(x.X))
		}
		if ce, ok := x.X.(*ast.CallExpr); ok && exprText(ce.Fun) == "copy" && len(ce.Args) == 2 {
			// copy(d, src) / copy(d[lo:], src) into a local buffer: Bytes.copyAt (the slice expression may panic, copy never does)
			if _, shadow := f.vars["copy"]; shadow {
				return f.bad("copy is a variable here")
			}
			var dst ast.Expr = ce.Args[0]
			p1, lo := "", "(0 : Nat)"
			if se, isSl := dst.(*ast.SliceExpr); isSl {
				if se.High != nil || se.Max != nil || se.Low == nil {
					return f.bad("copy into %s", exprText(dst))
				}
				dst = se.X
				p1, lo = f.nat(se.Low)
			}
			did, isId := dst.(*ast.Ident)
			if !isId || f.vars[did.Name] != "Bytes" {
				return f.bad("copy into %s", exprText(ce.Args[0]))
			}
			p2, src := f.exprAs(ce.Args[1], "Bytes")
			d := lname(did.Name)
			return p1 + p2 + fmt.Sprintf("Res.bind (Bytes.copyAt %s %s %s) fun %s =>\n", d, lo, src, d) + cont()
		}
		if ce, ok := x.X.(*ast.CallExpr); ok && f.ctx != "" && len(ce.Args) == 0 {
			if _, shadow := f.vars[f.ctx]; !shadow && ctxHeaderSlot() {
				switch exprText(ce.Fun) {
				case f.ctx + ".BeginUnpack": // sets a flag that only InUnpack reads: not part of the state (trusted mapping)
					return cont()
				case f.ctx + ".EndUnpack": // clears the flag and the header slot
					if f.pendTy == "" || f.joinDep > 0 {
						return f.bad("EndUnpack before headerFromContext")
					}
					return fmt.Sprintf("let pend : Option %s := none\n", f.pendTy) + cont()
				}
			}
		}
		if ring, m, args, ok := f.ringCall(x.X); ok && m == "Retrieve" && len(args) == 1 {
			pre, n := f.nat(args[0])
			return pre + fmt.Sprintf("let %s : Ring := Ring.retrieve %s %s\n", lname(ring), lname(ring), n) + cont()
		}
		return f.bad("expression statement %s", exprText(x.X))
	case *ast.ReturnStmt:
		return f.ret(x.Results)
	case *ast.BlockStmt:
		return f.block(append(append([]ast.Stmt{}, x.List...), rest...), tail)
	case *ast.SwitchStmt:
		if x.Init != nil {
			return f.bad("switch with init")
		}
		var chain ast.Stmt
		var deflt *ast.BlockStmt
		clauses := x.Body.List
		for i := len(clauses) - 1; i >= 0; i-- {
			cc := clauses[i].(*ast.CaseClause)
			body := append([]ast.Stmt{}, cc.Body...)
			if n := len(body); n > 0 {
				if br, ok := body[n-1].(*ast.BranchStmt); ok && br.Tok == token.BREAK {
					body = body[:n-1]
				}
			}
			for _, b := range body {
				bad := false
				ast.Inspect(b, func(m ast.Node) bool {
					if br, ok := m.(*ast.BranchStmt); ok && (br.Tok == token.BREAK || br.Tok == token.FALLTHROUGH) {
						bad = true
					}
					return true
				})
				if bad {
					return f.bad("break/fallthrough inside a switch clause")
				}
			}
			if cc.List == nil {
				if i != len(clauses)-1 {
					return f.bad("default clause not last")
				}
				deflt = &ast.BlockStmt{List: body}
				continue
			}
			var cond ast.Expr
			for _, v := range cc.List {
				var c ast.Expr = v
				if x.Tag != nil {
					c = &ast.BinaryExpr{X: x.Tag, Op: token.EQL, Y: v}
				}
				if cond == nil {
					cond = c
				} else {
					cond = &ast.BinaryExpr{X: cond, Op: token.LOR, Y: c}
				}
			}
			is := &ast.IfStmt{Cond: cond, Body: &ast.BlockStmt{List: body}}
			if chain != nil {
				is.Else = chain
			} else if deflt != nil {
				is.Else = deflt
			}
			chain = is
		}
		if chain == nil {
			if deflt != nil {
				return f.block(append(deflt.List, rest...), tail)
			}
			return cont()
		}
		return f.block(append([]ast.Stmt{chain}, rest...), tail)
	case *ast.DeferStmt:
		if f.isPoolPutDefer(x) { // the pooled header goes back when the function returns: no effect on the results (trusted mapping)
			return cont()
		}
		if f.isReleaseDefer(x) {
			f.release = true
			return cont()
		}
		return f.bad("defer")
	case *ast.IfStmt:
		if x.Init != nil {
			return f.ifInit(x, rest, tail)
		}
		pre, cond := f.exprAs(x.Cond, "Bool")
		f.dropHoisted()
		var elseList []ast.Stmt
		switch e := x.Else.(type) {
		case nil:
		case *ast.BlockStmt:
			elseList = e.List
		case *ast.IfStmt:
			elseList = []ast.Stmt{e}
		default:
			return f.bad("else %T", x.Else)
		}
		hasRet := containsReturn(x.Body) || (x.Else != nil && containsReturn(x.Else))
		if hasRet {
			// the continuation is inlined into both branches (a branch that returns ignores it)
			sn := f.snap()
			a := f.block(append(append(append([]ast.Stmt{}, x.Body.List...), f.scopeMark()), rest...), tail)
			f.restore(sn)
			sn = f.snap()
			b := f.block(append(append(append([]ast.Stmt{}, elseList...), f.scopeMark()), rest...), tail)
			f.restore(sn)
			return pre + fmt.Sprintf("if %s then (\n%s) else (\n%s)", cond, a, b)
		}
		var scope ast.Node = x.Body
		vs := f.assigned(scope)
		if x.Else != nil {
			seen := map[string]bool{}
			for _, v := range vs {
				seen[v] = true
			}
			for _, v := range f.assigned(x.Else) {
				if !seen[v] {
					vs = append(vs, v)
				}
			}
			sort.SliceStable(vs, func(i, j int) bool { return indexOf(f.order, vs[i]) < indexOf(f.order, vs[j]) })
		}
		for _, v := range vs {
			if v == f.recv {
				f.recvW = true
			}
		}
		join := func() string { return ".ok " + tuple(vs) }
		f.joinDep++
		sn := f.snap()
		a := f.block(x.Body.List, join)
		f.restore(sn)
		sn = f.snap()
		b := f.block(elseList, join)
		f.restore(sn)
		f.joinDep--
		pat := tuple(vs)
		if len(vs) == 0 {
			pat = "(_ : Unit)"
		}
		return pre + fmt.Sprintf("Res.bind (if %s then (\n%s) else (\n%s)) fun %s =>\n", cond, a, b, pat) + cont()
	}
	return f.bad("statement %T", s)
}

func indexOf(xs []string, x string) int {
	for i, y := range xs {
		if y == x {
			return i
		}
	}
	return -1
}

func (f *ftr) ret(results []ast.Expr) string {
	naked := len(results) == 0
	if len(results) == 0 {
		if !f.named && len(f.results) != 0 {
			return f.bad("naked return without named results")
		}
		for _, r := range f.results {
			results = append(results, ast.NewIdent(r.name))
		}
	}
	if len(results) != len(f.results) {
		return f.bad("return arity")
	}
	pre, vals := "", []string{}
	if f.recvPtr && f.recvW {
		vals = append(vals, lname(f.recv))
	}
	if f.pendTy != "" {
		// the parked pointer (if still parked) sees what was written through the local alias; then the deferred release runs on the
		// final values of the named results
		if !naked || f.joinDep > 0 {
			return f.bad("return with values in a function with a parked header")
		}
		pre += fmt.Sprintf("let pend : Option %s := Option.map (fun _ => %s) pend\n", f.pendTy, lname(f.parked))
		if f.release {
			pre += fmt.Sprintf("let pend : Option %s := if (%s || Option.isSome %s) then none else pend\n", f.pendTy, lname(f.relD), lname(f.relE))
		}
		vals = append(vals, "pend")
	}
	for _, rg := range f.rings {
		vals = append(vals, lname(rg))
	}
	errStatic, errDyn := "", ""
	for i, r := range f.results {
		e := results[i]
		if r.ty == "Err" && f.errVal {
			// the error is a component of the result: the receiver and the ring keep what was written before the return
			if exprText(e) == "nil" {
				vals = append(vals, "none")
			} else if id, ok := e.(*ast.Ident); ok && f.vars[id.Name] == "Err" {
				vals = append(vals, lname(id.Name))
			} else if msg, ok := errMessage(f.pk, e); ok {
				vals = append(vals, fmt.Sprintf("(some %q)", msg))
			} else {
				return f.bad("returned error %s", exprText(e))
			}
			continue
		}
		if r.ty == "Err" {
			if exprText(e) == "nil" {
				continue
			}
			if id, ok := e.(*ast.Ident); ok && f.vars[id.Name] == "Err" {
				errDyn = lname(id.Name)
				continue
			}
			msg, ok := errMessage(f.pk, e)
			if !ok {
				return f.bad("returned error %s", exprText(e))
			}
			errStatic = msg
			continue
		}
		if errStatic != "" {
			continue
		}
		if strings.HasPrefix(r.ty, "Fresh:") { // unnamed pointer result: only `return &T{…}`
			if id, isId := e.(*ast.Ident); isId && f.pooled[id.Name] && f.vars[id.Name] == strings.TrimPrefix(r.ty, "Fresh:") {
				// `h := pool.Get(); …; return h`: the caller gets the header (and gives it back); it must not also go back here
				if f.putDef[id.Name] {
					return f.bad("pooled header %s is returned and put back", id.Name)
				}
				f.retPool = true
				vals = append(vals, lname(id.Name))
				continue
			}
			cl, isLit := addrLit(e)
			if !isLit {
				return f.bad("pointer result %s is not a fresh `&T{…}`", exprText(e))
			}
			p, s, lty := f.structLit(cl)
			if lty != strings.TrimPrefix(r.ty, "Fresh:") {
				return f.bad("pointer result %s", exprText(e))
			}
			pre += p
			vals = append(vals, s)
			continue
		}
		if isPtrTy(r.ty) { // named pointer result: nil (`none`) until the translator has seen `p = &T{…}`
			id, isId := e.(*ast.Ident)
			if !isId || f.ptrVars[id.Name] != strings.TrimPrefix(r.ty, "Ptr:") {
				return f.bad("pointer result %s", exprText(e))
			}
			switch f.vars[id.Name] {
			case r.ty:
				vals = append(vals, lname(id.Name))
			case f.ptrVars[id.Name]:
				vals = append(vals, "(some "+lname(id.Name)+")")
			default:
				return f.bad("pointer result %s", exprText(e))
			}
			continue
		}
		p, s := f.exprAs(e, r.ty)
		pre += p
		vals = append(vals, s)
	}
	if errStatic != "" {
		return fmt.Sprintf(".err %q", errStatic)
	}
	for _, pw := range f.ptrW { // what the function wrote through its pointer parameters
		vals = append(vals, lname(pw))
	}
	okv := ".ok ()"
	if len(vals) == 1 {
		okv = ".ok " + vals[0]
	} else if len(vals) > 1 {
		okv = ".ok (" + strings.Join(vals, ", ") + ")"
	}
	if errDyn != "" {
		return pre + fmt.Sprintf("match %s with\n| some e => .err e\n| none => %s", errDyn, okv)
	}
	return pre + okv
}

type fspec struct{ pkg, recv, fn string }

// translateFunc returns the Lean definition text ("" + reason when the function is outside the subset)
func translateFunc(sp fspec) (string, string) {
	pk := pkgs[sp.pkg]
	fd := findFunc(pk, sp.recv, sp.fn)
	if fd == nil || fd.Body == nil {
		return "", "function not found"
	}
	f := &ftr{tx: tx{pk: pk, ren: map[string][2]string{}, intTy: "Nat"}, pkg: sp.pkg, vars: map[string]string{},
		needs: map[string]bool{}, pooled: map[string]bool{}, ptrVars: map[string]string{}, putDef: map[string]bool{}, body: fd.Body}
	for _, fl := range pk.files {
		if fl.Pos() <= fd.Pos() && fd.End() <= fl.End() {
			f.file = fl
		}
	}
	used := map[string]bool{}
	ast.Inspect(fd.Body, func(n ast.Node) bool {
		if id, ok := n.(*ast.Ident); ok {
			used[id.Name] = true
		}
		return true
	})
	name := sp.pkg + "_" + sp.fn
	recvParam := ""
	if sp.recv != "" {
		name = sp.pkg + "_" + sp.recv + "_" + sp.fn
		f.recvKey = sp.pkg + "." + sp.recv
		structOf(sp.pkg, sp.recv)
		ls, ok := leanStruct[f.recvKey]
		fl := fd.Recv.List[0]
		recvUsed := len(fl.Names) == 1 && used[fl.Names[0].Name]
		if !ok && recvUsed {
			return "", "receiver struct not modelled"
		}
		if ok {
			_, f.recvPtr = fl.Type.(*ast.StarExpr)
			if len(fl.Names) == 1 {
				f.recv = fl.Names[0].Name
				f.declare(f.recv, ls)
				recvParam = fmt.Sprintf(" (%s : %s)", lname(f.recv), ls)
			}
		} else {
			f.recvKey = "" // a receiver the body never mentions (protocolV1, an empty struct): not a parameter
		}
	}
	type pslot struct {
		text  string
		isCtx bool
	}
	slots := []pslot{}
	tparams := []tparam{}
	ptrParams := map[string]string{} // struct type -> the pointer parameter of that type
	for _, p := range fd.Type.Params.List {
		if el, isEll := p.Type.(*ast.Ellipsis); isEll {
			// opts ...protocol.PackOption: ONE number, the final MinGzipSize (see packOptionsCollapse)
			for _, n := range p.Names {
				if !used[n.Name] {
					tparams = append(tparams, tparam{"opts", "Int", false})
					continue
				}
				if exprText(el.Elt) != "protocol.PackOption" || sp.pkg == "protocol" || !packOptionsCollapse() || used["thr"] || f.opts != "" {
					return "", "variadic parameter " + exprText(el.Elt)
				}
				f.opts = n.Name
				slots = append(slots, pslot{" (thr : Int)", false})
				tparams = append(tparams, tparam{"opts", "Int", true})
			}
			continue
		}
		if st, isStar := p.Type.(*ast.StarExpr); isStar && !isCtxType(p.Type) && !isRingType(p.Type) {
			// pointer to a modelled struct: a variable of the struct type; by value if the body only reads it, threaded into the
			// result if it writes it. One such parameter per struct type (two could alias).
			if t, pp := typeIn(f.pkg, st.X); t != "" && !pp && isStructTy(t) {
				key := f.structKeyOfLean(t)
				kp := strings.SplitN(key, ".", 2)
				structOf(kp[0], kp[1])
				if why, isBad := structBad[key]; isBad {
					return "", "parameter struct " + key + " has a field outside the subset (" + why + ")"
				}
				for _, n := range p.Names {
					if !used[n.Name] {
						tparams = append(tparams, tparam{"ptr", t, false})
						continue
					}
					if _, two := ptrParams[t]; two || t == leanStruct[f.recvKey] {
						return "", "two pointers to " + key
					}
					ptrParams[t] = n.Name
					f.declare(n.Name, t)
					slots = append(slots, pslot{fmt.Sprintf(" (%s : %s)", lname(n.Name), t), false})
					tparams = append(tparams, tparam{"ptr", t, true})
				}
				continue
			}
		}
		ty := f.leanTypeOf(p.Type)
		kind := "val"
		if isRingType(p.Type) {
			ty, kind = "Ring", "ring"
		}
		if isCtxType(p.Type) {
			ty, kind = "Ctx", "ctx"
		}
		for _, n := range p.Names {
			if !used[n.Name] {
				tparams = append(tparams, tparam{kind, ty, false})
				continue
			}
			if kind == "ctx" {
				// the context is read only as ctx.Codec (parameter `codec` in its place) or handed on to a translated callee
				if f.ctx != "" {
					return "", "two context parameters"
				}
				f.ctx = n.Name
				f.ren[n.Name+".Codec"] = [2]string{"codec", "UInt8"}
				ast.Inspect(fd.Body, func(m ast.Node) bool {
					if se, ok := m.(*ast.SelectorExpr); ok && exprText(se) == n.Name+".Codec" {
						f.needs["codec"] = true
					}
					return true
				})
				slots = append(slots, pslot{"", true})
				tparams = append(tparams, tparam{kind, ty, true}) // kept is settled after the body
				continue
			}
			if ty == "Ring" {
				f.rings = append(f.rings, n.Name)
				f.errVal = true
			}
			if ty == "" || isPtrTy(ty) || isStructTy(ty) {
				return "", "parameter type " + exprText(p.Type)
			}
			f.declare(n.Name, ty)
			slots = append(slots, pslot{fmt.Sprintf(" (%s : %s)", lname(n.Name), ty), false})
			tparams = append(tparams, tparam{kind, ty, true})
		}
	}
	pro := ""
	fresh := false
	if fd.Type.Results != nil {
		for _, r := range fd.Type.Results.List {
			ty := f.leanTypeOf(r.Type)
			if ty == "" {
				return "", "result type " + exprText(r.Type)
			}
			if len(r.Names) == 0 {
				if isPtrTy(ty) { // an unnamed pointer result must be returned as `&T{…}`: it is the struct value
					ty = "Fresh:" + strings.TrimPrefix(ty, "Ptr:")
					fresh = true
				}
				f.results = append(f.results, fres{"", ty})
			}
			for _, n := range r.Names {
				f.named = true
				f.results = append(f.results, fres{n.Name, ty})
				f.declare(n.Name, ty)
				if isPtrTy(ty) {
					f.ptrVars[n.Name] = strings.TrimPrefix(ty, "Ptr:")
				}
				pro += fmt.Sprintf("let %s : %s := %s\n", lname(n.Name), leanTyText(ty), zeroOf(ty))
			}
		}
	}
	if fresh && len(f.results) != 1 {
		return "", "pointer result among several results"
	}
	// does the function write its pointer receiver anywhere? (decides the result type before the body is emitted)
	if f.recvPtr {
		for _, v := range f.assigned(fd.Body) {
			if v == f.recv {
				f.recvW = true
			}
		}
	}
	// … or one of its pointer parameters?
	for _, v := range f.assigned(fd.Body) {
		for i := range tparams {
			if tparams[i].kind == "ptr" && tparams[i].kept && ptrParams[tparams[i].ty] == v {
				tparams[i].kind = "ptrw"
				f.ptrW = append(f.ptrW, v)
			}
		}
	}
	if used["pend"] {
		return "", "a Go identifier `pend` (reserved for the parked header)"
	}
	if len(f.ptrW) > 0 && (f.errVal || f.named) {
		return "", "written pointer parameter in a function with named results or a ring"
	}
	body := pro + f.block(fd.Body.List, func() string {
		if len(f.results) == 0 || f.named {
			return f.ret(nil)
		}
		return f.bad("falls off the end")
	})
	if f.fail != "" {
		return "", f.fail
	}
	tys, vals := []string{}, []string{}
	if f.recvPtr && f.recvW {
		tys = append(tys, f.vars[f.recv])
	}
	if f.pendTy != "" {
		tys = append(tys, "(Option "+f.pendTy+")")
	}
	for range f.rings {
		tys = append(tys, "Ring")
	}
	hasErr := false
	for _, r := range f.results {
		if r.ty != "Err" {
			t := leanTyText(strings.TrimPrefix(r.ty, "Fresh:"))
			if strings.Contains(t, " ") {
				t = "(" + t + ")"
			}
			tys = append(tys, t)
			vals = append(vals, strings.TrimPrefix(r.ty, "Fresh:"))
		} else {
			hasErr = true
			if f.errVal {
				tys = append(tys, "Option String")
			}
		}
	}
	for _, pw := range f.ptrW {
		tys = append(tys, f.vars[pw])
	}
	resTy := "Unit"
	if len(tys) == 1 {
		resTy = tys[0]
	} else if len(tys) > 1 {
		resTy = "(" + strings.Join(tys, " × ") + ")"
	}
	key := sp.pkg + "." + sp.fn
	recvTy := ""
	if sp.recv != "" {
		key = sp.pkg + "." + sp.recv + "." + sp.fn
		recvTy = leanStruct[f.recvKey]
	}
	// parameters: the oracles the body needs first, then the receiver, then the Go parameters (ctx as `codec`, if read)
	params, needs := "", []string{}
	for _, n := range envOrder {
		if f.needs[n] {
			needs = append(needs, n)
			params += fmt.Sprintf(" (%s : %s)", n, envTy[n])
		}
	}
	params += recvParam
	for _, sl := range slots {
		if sl.isCtx {
			if f.needs["codec"] {
				params += " (codec : UInt8)"
			}
			if f.pendTy != "" { // the header slot of the context
				params += " (pend : Option " + f.pendTy + ")"
			}
			continue
		}
		params += sl.text
	}
	for i := range tparams {
		if tparams[i].kind == "ctx" && tparams[i].kept {
			tparams[i].kept = f.needs["codec"]
		}
	}
	for _, n := range needs {
		usesEnv[n] = true
	}
	fnTable[key] = translated{lean: name, recvTy: recvTy, resTy: resTy, recvPtr: f.recvPtr, recvW: f.recvW, params: tparams, needs: needs,
		vals: vals, hasErr: hasErr, errVal: f.errVal, rings: len(f.rings), fresh: fresh, pooled: f.retPool, ptrW: len(f.ptrW)}
	if f.model {
		usesEnv["model"] = true
	}
	if len(f.rings) > 0 {
		usesRing = true
	}
	src := strings.Join(strings.Fields(sigText(fd)), " ")
	indented := "  " + strings.ReplaceAll(strings.TrimRight(body, "\n"), "\n", "\n  ")
	return fmt.Sprintf("/-- go/%s: %s -/\ndef %s%s : Res %s :=\n%s\n", sp.pkg, src, name, params, resTy, indented), ""
}

func sigText(fd *ast.FuncDecl) string {
	s := "func "
	if fd.Recv != nil && len(fd.Recv.List) == 1 {
		r := fd.Recv.List[0]
		nm := ""
		if len(r.Names) == 1 {
			nm = r.Names[0].Name + " "
		}
		s += "(" + nm + exprText(r.Type) + ") "
	}
	return s + fd.Name.Name
}

func funcSpecs() []fspec {
	return []fspec{
		{"protocol", "Handshake", "Pack"}, {"protocol", "Handshake", "Unpack"},
		{"protocol", "", "unmarshalStringLength"}, {"protocol", "", "marshalString"},
		{"v1", "Header", "IsUnknownPacket"}, {"v1", "Header", "length"}, {"v1", "Header", "Pack"}, {"v1", "Header", "UnpackBytes"},
		{"v2", "Header", "length"}, {"v2", "Header", "Pack"}, {"v2", "Header", "UnpackBytes"},
		{"v1", "Header", "Unpack"}, {"v2", "Header", "Unpack"},
		{"v1", "Header", "Unpacked"}, {"v1", "Header", "Metadata"}, {"v1", "protocolV1", "UnpackBytes"}, {"v2", "protocolV2", "UnpackBytes"},
		{"v1", "", "headerFromMetadata"}, {"v2", "", "headerFromMetadata"}, {"v1", "protocolV1", "Pack"}, {"v2", "protocolV2", "Pack"},
		{"v1", "protocolV1", "Unpack"}, {"v2", "protocolV2", "Unpack"},
	}
}

// genFuncs returns the text of Gen/Funcs.lean and the list of functions that fell outside the subset
func genFuncs() (string, []string) {
	var w strings.Builder
	lost := []string{}
	usesRing = false
	usesEnv = map[string]bool{}
	// string-typed named types: an enum of the declared constants, `zero` for ""
	for _, k := range []string{"protocol.PacketType"} {
		parts := strings.SplitN(k, ".", 2)
		cs := enumOf(parts[0], parts[1])
		if underlying(parts[0], parts[1]) != "string" || len(cs) == 0 {
			lost = append(lost, "type "+k+" (not a string type with declared constants)")
			fmt.Fprintf(&w, "-- anchor-lost: type %s\n\n", k)
			delete(leanEnum, k)
			continue
		}
		doc := []string{}
		for _, c := range cs {
			doc = append(doc, fmt.Sprintf("%s = %q", c.goName, c.val))
		}
		fmt.Fprintf(&w, "/-- go/%s: type %s string; %s; zero = \"\" -/\ninductive %s where\n  | zero", parts[0], parts[1], strings.Join(doc, ", "), leanEnum[k])
		for _, c := range cs {
			fmt.Fprintf(&w, " | %s", c.lean)
		}
		w.WriteString("\n  deriving DecidableEq, Repr\n\n")
	}
	for _, k := range []string{"protocol.Handshake", "v1.Header", "v2.Header", "protocol.Metadata", "protocol.Packet"} {
		parts := strings.SplitN(k, ".", 2)
		fs := structOf(parts[0], parts[1])
		if why, isBad := structBad[k]; isBad && (k == "protocol.Metadata" || k == "protocol.Packet") {
			lost = append(lost, "type "+k+" (field "+why+")")
			fmt.Fprintf(&w, "-- anchor-lost: type %s: field %s\n", k, why)
		}
		fmt.Fprintf(&w, "/-- go/%s: type %s struct (embedded structs flattened) -/\nstructure %s where\n", parts[0], parts[1], leanStruct[k])
		for _, fl := range fs {
			fmt.Fprintf(&w, "  %s : %s := %s\n", fl.lean, fl.ty, zeroOf(fl.ty))
		}
		w.WriteString("  deriving DecidableEq, Repr\n\n")
	}
	// projection v2.Header -> embedded v1.Header
	w.WriteString("/-- the embedded v1.Header of a v2.Header (method promotion) -/\ndef V2Header.toV1Header (h : V2Header) : V1Header :=\n  { ")
	ps := []string{}
	for _, fl := range structOf("v1", "Header") {
		ps = append(ps, fl.lean+" := h."+fl.lean)
	}
	w.WriteString(strings.Join(ps, ", ") + " }\n\n")
	names := []string{}
	for _, sp := range funcSpecs() {
		txt, why := translateFunc(sp)
		id := sp.pkg + "." + sp.recv + "." + sp.fn
		if txt == "" {
			lost = append(lost, "func "+id+" ("+why+")")
			fmt.Fprintf(&w, "-- anchor-lost: func %s: %s\n\n", id, why)
			continue
		}
		names = append(names, id)
		w.WriteString(txt + "\n")
	}
	fmt.Fprintf(&w, "/-- the functions translated in this run -/\ndef translated : List String := %s\n", q(names))
	w.WriteString("end OAP.Gen.Fn\n")
	head := "-- GENERATED by /verif/extract (funcs.go) from the Go source of /repo — do not edit; rewritten by every check run\nimport OAP.Base\n"
	if usesRing { // OAP/Model/Ring.lean imports OAP.Base only: no cycle
		head += "import OAP.Model.Ring\n"
	}
	if len(usesEnv) > 0 { // external functions of the model: GzOracle / Gzip.decompress (OAP/Model/Frame.lean), Metadata.unmarshalValues
		head += "import OAP.Model.Frame\n" // imports OAP.Base, OAP.Gen.Facts, OAP.Model.Metadata: no cycle
	}
	head += "namespace OAP.Gen.Fn\nopen OAP\n\n"
	return head + w.String(), lost
}
