// extract: T2 of DESIGN.md. Re-reads /repo with go/ast only and emits Lean source
// (constants, anchored integer/bit-level expressions, struct/reset tables) that the
// hand-written model imports. Run on every check; output written only when it changed.
//
// usage: extract <repo-root> <out-dir>      (writes <out-dir>/Facts.lean, Funcs.lean, Conn.lean and prints a JSON summary)
package main

import (
	"bytes"
	"encoding/json"
	"fmt"
	"go/ast"
	"go/parser"
	"go/printer"
	"go/token"
	"os"
	"path/filepath"
	"sort"
	"strconv"
	"strings"
)

type pkgInfo struct {
	name   string
	files  []*ast.File
	consts map[string]ast.Expr
	ctype  map[string]string // declared type of the const ("" = untyped)
	iota   map[string]int
}

var fset = token.NewFileSet()
var pkgs = map[string]*pkgInfo{}

func load(dir, alias string) {
	ps, err := parser.ParseDir(fset, dir, func(fi os.FileInfo) bool {
		n := fi.Name()
		return !strings.HasSuffix(n, "_test.go") && !strings.HasSuffix(n, "_verif.go")
	}, 0)
	if err != nil {
		panic(err)
	}
	pi := &pkgInfo{name: alias, consts: map[string]ast.Expr{}, ctype: map[string]string{}, iota: map[string]int{}}
	names := []string{}
	for n := range ps {
		names = append(names, n)
	}
	sort.Strings(names)
	for _, n := range names {
		p := ps[n]
		fns := []string{}
		for fn := range p.Files {
			fns = append(fns, fn)
		}
		sort.Strings(fns)
		for _, fn := range fns {
			f := p.Files[fn]
			pi.files = append(pi.files, f)
			for _, d := range f.Decls {
				gd, ok := d.(*ast.GenDecl)
				if !ok || gd.Tok != token.CONST {
					continue
				}
				var last ast.Expr
				lastT := ""
				for i, s := range gd.Specs {
					vs := s.(*ast.ValueSpec)
					for j, nm := range vs.Names {
						var e ast.Expr
						if j < len(vs.Values) {
							e = vs.Values[j]
							last = e
							lastT = ""
							if vs.Type != nil {
								lastT = exprText(vs.Type)
							}
						} else {
							e = last
						}
						pi.consts[nm.Name] = e
						pi.ctype[nm.Name] = lastT
						pi.iota[nm.Name] = i
					}
				}
			}
		}
	}
	pkgs[alias] = pi
}

func eval(pk *pkgInfo, e ast.Expr, iota int) (int64, bool) {
	switch x := e.(type) {
	case *ast.BasicLit:
		if x.Kind == token.INT {
			v, err := strconv.ParseInt(strings.ReplaceAll(x.Value, "_", ""), 0, 64)
			return v, err == nil
		}
	case *ast.Ident:
		if x.Name == "iota" {
			return int64(iota), true
		}
		if c, ok := pk.consts[x.Name]; ok {
			return eval(pk, c, pk.iota[x.Name])
		}
	case *ast.SelectorExpr:
		if id, ok := x.X.(*ast.Ident); ok {
			if q, ok := pkgs[id.Name]; ok {
				if c, ok := q.consts[x.Sel.Name]; ok {
					return eval(q, c, q.iota[x.Sel.Name])
				}
			}
			// control.Command_CMD_* are generated protobuf enums, outside /repo: fixed by the wire protocol
			if id.Name == "control" {
				if v, ok := controlEnums[x.Sel.Name]; ok {
					return v, true
				}
			}
			if id.Name == "time" {
				if v, ok := timeConsts[x.Sel.Name]; ok {
					return v, true
				}
			}
		}
	case *ast.ParenExpr:
		return eval(pk, x.X, iota)
	case *ast.CallExpr:
		if len(x.Args) == 1 {
			return eval(pk, x.Args[0], iota)
		}
	case *ast.UnaryExpr:
		a, ok := eval(pk, x.X, iota)
		if !ok {
			return 0, false
		}
		switch x.Op {
		case token.SUB:
			return -a, true
		case token.ADD:
			return a, true
		}
	case *ast.BinaryExpr:
		a, ok1 := eval(pk, x.X, iota)
		b, ok2 := eval(pk, x.Y, iota)
		if !ok1 || !ok2 {
			return 0, false
		}
		switch x.Op {
		case token.ADD:
			return a + b, true
		case token.SUB:
			return a - b, true
		case token.MUL:
			return a * b, true
		case token.QUO:
			if b != 0 {
				return a / b, true
			}
		case token.SHL:
			return a << uint(b), true
		case token.SHR:
			return a >> uint(b), true
		case token.OR:
			return a | b, true
		case token.AND:
			return a & b, true
		}
	}
	return 0, false
}

var controlEnums = map[string]int64{"Command_CMD_CLOSE": 0, "Command_CMD_HEARTBEAT": 1, "Command_CMD_AUTH": 2, "Command_CMD_RECONNECT": 3}
var timeConsts = map[string]int64{"Nanosecond": 1, "Microsecond": 1000, "Millisecond": 1000000, "Second": 1000000000, "Minute": 60000000000}

func exprText(e ast.Expr) string {
	switch x := e.(type) {
	case *ast.Ident:
		return x.Name
	case *ast.SelectorExpr:
		return exprText(x.X) + "." + x.Sel.Name
	case *ast.IndexExpr:
		return exprText(x.X) + "[" + exprText(x.Index) + "]"
	case *ast.BasicLit:
		return x.Value
	case *ast.CallExpr:
		as := []string{}
		for _, a := range x.Args {
			as = append(as, exprText(a))
		}
		return exprText(x.Fun) + "(" + strings.Join(as, ",") + ")"
	case *ast.BinaryExpr:
		return exprText(x.X) + x.Op.String() + exprText(x.Y)
	case *ast.UnaryExpr:
		return x.Op.String() + exprText(x.X)
	case *ast.ParenExpr:
		return "(" + exprText(x.X) + ")"
	case *ast.StarExpr:
		return "*" + exprText(x.X)
	case *ast.SliceExpr:
		lo, hi := "", ""
		if x.Low != nil {
			lo = exprText(x.Low)
		}
		if x.High != nil {
			hi = exprText(x.High)
		}
		return exprText(x.X) + "[" + lo + ":" + hi + "]"
	}
	return "?"
}

// ---- typed translation of Go's integer / bitwise / comparison subset to Lean ----

var width = map[string]int{"UInt8": 8, "UInt16": 16, "UInt32": 32, "UInt64": 64}
var goTy = map[string]string{"uint8": "UInt8", "byte": "UInt8", "uint16": "UInt16", "uint32": "UInt32", "uint64": "UInt64",
	"int": "Int", "int64": "Int", "CodecType": "UInt8", "PlatformType": "UInt8", "PacketType": "UInt8"}

type tx struct {
	pk    *pkgInfo
	ren   map[string][2]string // go text -> (lean name, lean type)
	intTy string               // Lean type standing for Go's int in this anchor: "Int", or "Nat" for lengths (non-negative, no overflow)
}

func (t *tx) goType(name string) (string, bool) {
	if i := strings.LastIndex(name, "."); i >= 0 { // v1.PacketType
		if _, isPkg := pkgs[name[:i]]; isPkg {
			name = name[i+1:]
		}
	}
	g, ok := goTy[name]
	if ok && g == "Int" && t.intTy != "" {
		return t.intTy, true
	}
	return g, ok
}

func lit(v int64, ty string) string {
	if ty == "Int" && v < 0 {
		return fmt.Sprintf("(%d : Int)", v)
	}
	return fmt.Sprintf("(%d : %s)", v, ty)
}

func conv(s, from, to string) (string, bool) {
	if from == to {
		return s, true
	}
	switch {
	case to == "Int" && width[from] != 0:
		return "(Int.ofNat " + s + ".toNat)", true
	case to == "Nat" && width[from] != 0:
		return "(" + s + ".toNat)", true
	case from == "Nat" && width[to] != 0:
		return "(" + to + ".ofNat " + s + ")", true
	case from == "Int" && width[to] != 0:
		return "(" + to + ".ofInt " + s + ")", true
	case width[from] != 0 && width[to] != 0:
		return "(" + s + ".to" + to + ")", true
	}
	return "", false
}

// returns lean text, lean type ("" for an untyped constant, with its value in cv)
func (t *tx) lean(e ast.Expr, want string) (string, string, bool) {
	// constants first
	if v, ok := eval(t.pk, e, 0); ok {
		if _, isRen := t.ren[exprText(e)]; !isRen {
			ty := want
			if id, ok := e.(*ast.Ident); ok && t.pk.ctype[id.Name] != "" {
				if g, ok := goTy[t.pk.ctype[id.Name]]; ok {
					ty = g
				}
			}
			if ty == "" {
				ty = "Int"
				if t.intTy != "" {
					ty = t.intTy
				}
			}
			return lit(v, ty), ty, true
		}
	}
	switch x := e.(type) {
	case *ast.Ident, *ast.SelectorExpr, *ast.IndexExpr, *ast.SliceExpr:
		if n, ok := t.ren[exprText(e)]; ok {
			return n[0], n[1], true
		}
		return "", "", false
	case *ast.ParenExpr:
		s, ty, ok := t.lean(x.X, want)
		return s, ty, ok
	case *ast.CallExpr:
		if n, ok := t.ren[exprText(e)]; ok { // e.g. len(data), or a hoisted call
			return n[0], n[1], true
		}
		if len(x.Args) != 1 {
			return "", "", false
		}
		fn := exprText(x.Fun)
		to, ok := t.goType(fn)
		if !ok {
			return "", "", false
		}
		s, from, ok := t.lean(x.Args[0], to)
		if !ok {
			return "", "", false
		}
		c, ok := conv(s, from, to)
		return c, to, ok
	case *ast.UnaryExpr:
		s, ty, ok := t.lean(x.X, want)
		if !ok {
			return "", "", false
		}
		switch x.Op {
		case token.XOR:
			if width[ty] == 0 {
				return "", "", false
			}
			return "(~~~" + s + ")", ty, true
		case token.NOT:
			return "(!" + s + ")", "Bool", ty == "Bool"
		}
		return "", "", false
	case *ast.BinaryExpr:
		switch x.Op {
		case token.SHL, token.SHR:
			a, ty, ok := t.lean(x.X, want)
			if !ok {
				return "", "", false
			}
			k, ok := eval(t.pk, x.Y, 0)
			if !ok || k < 0 {
				return "", "", false
			}
			op := map[token.Token]string{token.SHL: "<<<", token.SHR: ">>>"}[x.Op]
			if ty == "Int" || ty == "Nat" {
				if x.Op == token.SHL {
					return fmt.Sprintf("(%s * %d)", a, int64(1)<<uint(k)), ty, true
				}
				return fmt.Sprintf("(%s / %d)", a, int64(1)<<uint(k)), ty, true // callers guarantee non-negative operands
			}
			if int(k) >= width[ty] {
				return "", "", false // Go yields 0, Lean reduces the shift modulo the width
			}
			return fmt.Sprintf("(%s %s (%d : %s))", a, op, k, ty), ty, true
		case token.LAND, token.LOR:
			a, ta, ok1 := t.lean(x.X, "Bool")
			b, tb, ok2 := t.lean(x.Y, "Bool")
			if !ok1 || !ok2 || ta != "Bool" || tb != "Bool" {
				return "", "", false
			}
			op := map[token.Token]string{token.LAND: "&&", token.LOR: "||"}[x.Op]
			return "(" + a + " " + op + " " + b + ")", "Bool", true
		}
		// find the type from whichever side is typed
		_, lc := eval(t.pk, x.X, 0)
		_, rc := eval(t.pk, x.Y, 0)
		var a, b, ta, tb string
		var ok1, ok2 bool
		if lc && !rc {
			b, tb, ok2 = t.lean(x.Y, want)
			a, ta, ok1 = t.lean(x.X, tb)
		} else {
			a, ta, ok1 = t.lean(x.X, want)
			b, tb, ok2 = t.lean(x.Y, ta)
		}
		if ok1 && ok2 && ta != tb {
			// a length (Nat) compared with an int that may be negative (Int): the comparison is made in Int, the length lifted exactly
			switch x.Op {
			case token.EQL, token.NEQ, token.LSS, token.LEQ, token.GTR, token.GEQ:
				if ta == "Nat" && tb == "Int" {
					a, ta = "(Int.ofNat "+a+")", "Int"
				} else if ta == "Int" && tb == "Nat" {
					b, tb = "(Int.ofNat "+b+")", "Int"
				}
			}
		}
		if !ok1 || !ok2 || ta != tb {
			return "", "", false
		}
		if op, ok := map[token.Token]string{token.AND: "&&&", token.OR: "|||", token.XOR: "^^^"}[x.Op]; ok {
			if width[ta] == 0 {
				if x.Op == token.AND { // int & mask with mask = 2^k-1
					if m, ok := eval(t.pk, x.Y, 0); ok && m > 0 && (m&(m+1)) == 0 {
						return fmt.Sprintf("(%s %% %d)", a, m+1), ta, true
					}
				}
				return "", "", false
			}
			return "(" + a + " " + op + " " + b + ")", ta, true
		}
		if op, ok := map[token.Token]string{token.ADD: "+", token.SUB: "-", token.MUL: "*"}[x.Op]; ok {
			return "(" + a + " " + op + " " + b + ")", ta, true
		}
		if op, ok := map[token.Token]string{token.EQL: "==", token.NEQ: "!=", token.LSS: "<", token.LEQ: "≤", token.GTR: ">", token.GEQ: "≥"}[x.Op]; ok {
			if x.Op == token.EQL || x.Op == token.NEQ {
				return "(" + a + " " + op + " " + b + ")", "Bool", true
			}
			return "(decide (" + a + " " + op + " " + b + "))", "Bool", true
		}
	}
	return "", "", false
}

func recvName(fd *ast.FuncDecl) string {
	if fd.Recv == nil || len(fd.Recv.List) != 1 {
		return ""
	}
	switch t := fd.Recv.List[0].Type.(type) {
	case *ast.Ident:
		return t.Name
	case *ast.StarExpr:
		return exprText(t.X)
	}
	return ""
}

func findFunc(pk *pkgInfo, recv, fn string) *ast.FuncDecl {
	for _, f := range pk.files {
		for _, d := range f.Decls {
			fd, ok := d.(*ast.FuncDecl)
			if ok && fd.Name.Name == fn && recvName(fd) == recv {
				return fd
			}
		}
	}
	return nil
}

// nth (0-based) assignment `lhs = rhs` / `lhs := rhs` in the function, in source order
func findAssign(fd *ast.FuncDecl, lhs string, nth int) ast.Expr {
	var out ast.Expr
	k := 0
	ast.Inspect(fd.Body, func(n ast.Node) bool {
		as, ok := n.(*ast.AssignStmt)
		if ok && len(as.Lhs) == 1 && len(as.Rhs) == 1 && exprText(as.Lhs[0]) == lhs {
			if nth < 0 || (k == nth && out == nil) {
				out = as.Rhs[0] // nth < 0: the last one wins
			}
			k++
		}
		return true
	})
	return out
}

// nth if-condition of the function, in source order
func findIf(fd *ast.FuncDecl, nth int) ast.Expr {
	var out ast.Expr
	k := 0
	ast.Inspect(fd.Body, func(n ast.Node) bool {
		is, ok := n.(*ast.IfStmt)
		if ok {
			if k == nth && out == nil {
				out = is.Cond
			}
			k++
		}
		return true
	})
	return out
}

type anchor struct {
	pkg, recv, fn, lhs string
	nth                int
	name, ty           string      // lean def name and result type
	params             [][2]string // lean param name, type (in order)
	ren                map[string][2]string
	fallback           string // hand-written body used when the anchor is lost
	isIf               bool
	intTy              string
}

func r(pairs ...string) map[string][2]string {
	m := map[string][2]string{}
	for i := 0; i+2 < len(pairs)+0 && i+2 <= len(pairs)-1; i += 3 {
		m[pairs[i]] = [2]string{pairs[i+1], pairs[i+2]}
	}
	return m
}
func ps(pairs ...string) [][2]string {
	o := [][2]string{}
	for i := 0; i+1 < len(pairs); i += 2 {
		o = append(o, [2]string{pairs[i], pairs[i+1]})
	}
	return o
}

func anchors() []anchor {
	as := []anchor{
		{"protocol", "Handshake", "Pack", "fb", 0, "hsPackB0", "UInt8", ps("version", "UInt8", "codec", "UInt8"),
			r("h.Version", "version", "UInt8", "h.Codec", "codec", "UInt8"), "(version ||| (codec <<< (4 : UInt8)))", false, ""},
		{"protocol", "Handshake", "Pack", "sb", 0, "hsPackB1", "UInt8", ps("platform", "UInt8", "reserve", "UInt8"),
			r("h.Platform", "platform", "UInt8", "h.Reserve", "reserve", "UInt8"), "(platform ||| (reserve <<< (4 : UInt8)))", false, ""},
		{"protocol", "Handshake", "Unpack", "h.Version", 0, "hsVersion", "UInt8", ps("b0", "UInt8"), r("data[0]", "b0", "UInt8"), "((15 : UInt8) &&& b0)", false, ""},
		{"protocol", "Handshake", "Unpack", "h.Codec", 0, "hsCodec", "UInt8", ps("b0", "UInt8"), r("data[0]", "b0", "UInt8"), "(((240 : UInt8) &&& b0) >>> (4 : UInt8))", false, ""},
		{"protocol", "Handshake", "Unpack", "h.Platform", 0, "hsPlatform", "UInt8", ps("b1", "UInt8"), r("data[1]", "b1", "UInt8"), "((15 : UInt8) &&& b1)", false, ""},
		{"protocol", "Handshake", "Unpack", "h.Reserve", 0, "hsReserve", "UInt8", ps("b1", "UInt8"), r("data[1]", "b1", "UInt8"), "(((240 : UInt8) &&& b1) >>> (4 : UInt8))", false, ""},
		// metadata string length prefix
		{"protocol", "", "marshalString", "first", 0, "mdLenFirst", "UInt8", ps("l", "Nat"), r("l", "l", "Nat"), "((UInt8.ofNat (l / 256)) ||| (128 : UInt8))", false, "Nat"},
		{"protocol", "", "marshalString", "second", 0, "mdLenSecond", "UInt8", ps("l", "Nat"), r("l", "l", "Nat"), "(UInt8.ofNat (l % 256))", false, "Nat"},
		{"protocol", "", "unmarshalStringLength", "bitSize", 1, "mdBitSize", "UInt8", ps("b0", "UInt8"), r("data[0]", "b0", "UInt8"), "(b0 &&& (128 : UInt8))", false, "Nat"},
		{"protocol", "", "unmarshalStringLength", "l", 0, "mdLen7", "Nat", ps("b0", "UInt8"), r("data[0]", "b0", "UInt8"), "((b0 &&& (~~~(128 : UInt8))).toNat)", false, "Nat"},
		{"protocol", "", "unmarshalStringLength", "first", 0, "mdLen15First", "Nat", ps("b0", "UInt8"), r("data[0]", "b0", "UInt8"), "((b0 &&& (~~~(128 : UInt8))).toNat)", false, "Nat"},
		{"protocol", "", "unmarshalStringLength", "second", 0, "mdLen15Second", "Nat", ps("b1", "UInt8"), r("data[1]", "b1", "UInt8"), "(b1.toNat)", false, "Nat"},
		{"protocol", "", "unmarshalStringLength", "l", 1, "mdLen15", "Nat", ps("first", "Nat", "second", "Nat"), r("first", "first", "Nat", "second", "second", "Nat"), "((first * 256) + second)", false, "Nat"},
	}
	for _, v := range []string{"v1", "v2"} {
		hdrRen := r("h.Type", "type", "UInt8", "h.Verify", "verify", "UInt8", "h.Gzip", "gzip", "UInt8", "h.Reserve", "reserve", "UInt8")
		as = append(as, anchor{v, "Header", "Pack", "b", 0, v + "PackB0", "UInt8", ps("type", "UInt8", "verify", "UInt8", "gzip", "UInt8", "reserve", "UInt8"), hdrRen,
			"((((type &&& (15 : UInt8)) ||| ((verify &&& (1 : UInt8)) <<< (4 : UInt8))) ||| ((gzip &&& (1 : UInt8)) <<< (5 : UInt8))) ||| ((reserve &&& (3 : UInt8)) <<< (6 : UInt8)))", false, ""})
		bl := r("h.BodyLength", "bl", "UInt32")
		as = append(as,
			anchor{v, "Header", "Pack", "data[idx]", -1, v + "PackLen0", "UInt8", ps("bl", "UInt32"), bl, "((bl >>> (16 : UInt32)).toUInt8)", false, ""},
			anchor{v, "Header", "Pack", "data[idx+1]", 0, v + "PackLen1", "UInt8", ps("bl", "UInt32"), bl, "((bl >>> (8 : UInt32)).toUInt8)", false, ""},
			anchor{v, "Header", "Pack", "data[idx+2]", 0, v + "PackLen2", "UInt8", ps("bl", "UInt32"), bl, "(bl.toUInt8)", false, ""},
			anchor{v, "", "headerFromMetadata", "h.CmdCode", 0, v + "CmdByte", "UInt8", ps("cmd", "UInt32"), r("md.CmdCode", "cmd", "UInt32"), "((cmd &&& (255 : UInt32)).toUInt8)", false, ""},
		)
		for _, f := range [][2]string{{"UnpackBytes", "Ub"}, {"Unpack", "Us"}} {
			b := r("b", "b", "UInt8")
			as = append(as,
				anchor{v, "Header", f[0], "h.Type", 0, v + f[1] + "Type", "UInt8", ps("b", "UInt8"), b, "((15 : UInt8) &&& b)", false, ""},
				anchor{v, "Header", f[0], "h.Verify", 0, v + f[1] + "Verify", "UInt8", ps("b", "UInt8"), b, "((b >>> (4 : UInt8)) &&& (1 : UInt8))", false, ""},
				anchor{v, "Header", f[0], "h.Gzip", 0, v + f[1] + "Gzip", "UInt8", ps("b", "UInt8"), b, "((b >>> (5 : UInt8)) &&& (1 : UInt8))", false, ""},
				anchor{v, "Header", f[0], "h.Reserve", 0, v + f[1] + "Reserve", "UInt8", ps("b", "UInt8"), b, "((b >>> (6 : UInt8)) &&& (3 : UInt8))", false, ""},
				anchor{v, "Header", f[0], "h.BodyLength", 0, v + f[1] + "BodyLen", "UInt32", ps("fb", "UInt8", "sb", "UInt8", "tb", "UInt8"),
					r("fb", "fb", "UInt8", "sb", "sb", "UInt8", "tb", "tb", "UInt8"),
					"(((fb.toUInt32 <<< (16 : UInt32)) ||| (sb.toUInt32 <<< (8 : UInt32))) ||| tb.toUInt32)", false, ""},
			)
		}
		// gzip condition in Pack: first if of the function
		pv := map[string]string{"v1": "protocolV1", "v2": "protocolV2"}[v]
		as = append(as, anchor{v, pv, "Pack", "", 0, v + "GzipCond", "Bool", ps("thr", "Int", "bl", "Int"),
			r("o.MinGzipSize", "thr", "Int", "bl", "bl", "Int"), "((thr != (0 : Int)) && (decide (bl ≥ thr)))", true, ""})
	}
	return as
}

type constWant struct{ pkg, name string }

func structFields(pk *pkgInfo, ty string) []string {
	fields := []string{}
	for _, f := range pk.files {
		ast.Inspect(f, func(n ast.Node) bool {
			ts, ok := n.(*ast.TypeSpec)
			if ok && ts.Name.Name == ty {
				if st, ok := ts.Type.(*ast.StructType); ok {
					for _, fl := range st.Fields.List {
						if len(fl.Names) == 0 { // embedded
							fields = append(fields, "embed:"+exprText(fl.Type))
						}
						for _, nm := range fl.Names {
							fields = append(fields, nm.Name)
						}
					}
				}
			}
			return true
		})
	}
	sort.Strings(fields)
	return fields
}

func poolResets(pk *pkgInfo) []string {
	resets := []string{}
	fd := findFunc(pk, "headerPool", "Get")
	if fd != nil {
		ast.Inspect(fd.Body, func(n ast.Node) bool {
			as, ok := n.(*ast.AssignStmt)
			if ok && len(as.Lhs) == 1 && len(as.Rhs) == 1 {
				if se, ok := as.Lhs[0].(*ast.SelectorExpr); ok && exprText(se.X) == "h" {
					// only resets to the zero value count
					rhs := exprText(as.Rhs[0])
					if rhs == "0" || rhs == "false" {
						resets = append(resets, se.Sel.Name)
					}
				}
			}
			return true
		})
	}
	sort.Strings(resets)
	return resets
}

func registered(pk *pkgInfo) []int64 {
	out := []int64{}
	for _, f := range pk.files {
		ast.Inspect(f, func(n ast.Node) bool {
			ce, ok := n.(*ast.CallExpr)
			if ok && exprText(ce.Fun) == "protocol.Register" && len(ce.Args) == 2 {
				if v, ok := eval(pk, ce.Args[0], 0); ok {
					out = append(out, v)
				}
			}
			return true
		})
	}
	return out
}

// printed top-level statements of a function body (whitespace-normalised): the T2 "structure" facts
func stmtTexts(fd *ast.FuncDecl) []string {
	out := []string{}
	if fd == nil || fd.Body == nil {
		return out
	}
	stripHooks(fd.Body)
	for _, st := range fd.Body.List {
		var b bytes.Buffer
		printer.Fprint(&b, fset, st)
		out = append(out, strings.Join(strings.Fields(b.String()), " "))
	}
	return out
}

// isHookStmt: a statement that is nothing but a call (or deferred call) into the instrumentation package
func isHookStmt(st ast.Stmt) bool {
	var call *ast.CallExpr
	switch x := st.(type) {
	case *ast.ExprStmt:
		call, _ = x.X.(*ast.CallExpr)
	case *ast.DeferStmt:
		call = x.Call
	}
	if call == nil {
		return false
	}
	se, ok := call.Fun.(*ast.SelectorExpr)
	if !ok {
		return false
	}
	id, ok := se.X.(*ast.Ident)
	return ok && id.Name == "verifhook"
}

// stripHooks removes the instrumentation statements (verifhook.Point(…) and the like, empty without the build tag) from every block
// of the body, closures included: the statement lists pinned by the theorems are those of the code, not of its instrumentation, so
// that adding a yield point does not disturb them
func stripHooks(body *ast.BlockStmt) {
	ast.Inspect(body, func(n ast.Node) bool {
		var list *[]ast.Stmt
		switch x := n.(type) {
		case *ast.BlockStmt:
			list = &x.List
		case *ast.CaseClause:
			list = &x.Body
		case *ast.CommClause:
			list = &x.Body
		}
		if list != nil {
			kept := (*list)[:0:0]
			for _, st := range *list {
				if !isHookStmt(st) {
					kept = append(kept, st)
				}
			}
			*list = kept
		}
		return true
	})
}

// ordered sequence of synchronisation-relevant operations of a function body, in source order (closures included):
// lock/unlock calls, closed-checks, close(ch), channel sends, go statements, defers and the calls named in `interesting`
var interesting = map[string]bool{
	"c.RLock": true, "c.RUnlock": true, "c.Lock": true, "c.Unlock": true,
	"c.recvsMu.Lock": true, "c.recvsMu.Unlock": true, "c.recvsMu.RLock": true, "c.recvsMu.RUnlock": true,
	"c.stateMu.Lock": true, "c.stateMu.Unlock": true, "c.closeOnce.Do": true, "conn.closeOnce.Do": true, "conn.onPacketOnce.Do": true,
	"c.closed": true, "conn.closed": true, "c.register": true, "c.unregister": true, "c.recv": true, "c.write": true,
	"conn.Write": true, "conn.write": true, "c.conn.Write": true, "c.dial": true, "dialer": true, "c.reconnect": true, "c.reconnecting": true, "c.reconnectDial": true,
	"c.auth": true, "c.afterReconnected": true, "c.onClose": true, "c.conn.Close": true, "conn.Close": true, "old.Close": true,
	"conn.conn.Close": true, "conn.DispatchClose": true, "c.Close": true, "c.Do": true, "c.handleResponse": true, "c.handlePush": true,
	"c.handleControl": true, "c.handlePing": true, "c.handlePong": true, "c.closeByServer": true, "c.isAuthExpired": true,
	"conn.OnPacket": true, "conn.OnClose": true, "protocol.NewRequest": true, "time.Sleep": true, "conn.addPacket": true, "conn.readPacket": true,
	"conn.p.Pack": true, "conn.p.Unpack": true, "conn.p.UnpackBytes": true, "conn.conn.Write": true, "conn.conn.Read": true,
	"conn.conn.WriteMessage": true, "conn.conn.WriteControl": true, "fn": true, "sub": true, "cb": true,
}

func opSeq(fd *ast.FuncDecl) []string {
	out := []string{}
	if fd == nil || fd.Body == nil {
		return out
	}
	var walk func(n ast.Node, pre string)
	walk = func(n ast.Node, pre string) {
		ast.Inspect(n, func(x ast.Node) bool {
			switch v := x.(type) {
			case *ast.DeferStmt:
				walk(v.Call, pre+"defer:")
				return false
			case *ast.GoStmt:
				out = append(out, pre+"go")
				walk(v.Call, pre)
				return false
			case *ast.SendStmt:
				out = append(out, pre+"send:"+exprText(v.Chan))
			case *ast.UnaryExpr:
				if v.Op == token.ARROW {
					out = append(out, pre+"recv:"+exprText(v.X))
				}
			case *ast.SelectStmt:
				out = append(out, pre+"select")
			case *ast.CommClause:
				if v.Comm == nil {
					out = append(out, pre+"default")
				}
			case *ast.CallExpr:
				f := exprText(v.Fun)
				if f == "close" && len(v.Args) == 1 {
					out = append(out, pre+"close:"+exprText(v.Args[0]))
				} else if interesting[f] {
					out = append(out, pre+f)
				} else if strings.HasPrefix(f, "atomic.") && len(v.Args) >= 1 {
					// atomic operations with their target and, for stores, the value (the recovery fast path of `reconnecting`)
					t := pre + f + ":" + exprText(v.Args[0])
					if len(v.Args) >= 2 {
						t += "=" + exprText(v.Args[1])
					}
					out = append(out, t)
				}
			}
			return true
		})
	}
	walk(fd.Body, "")
	return out
}

// ---- C17: access table of the client struct's fields with the lexically held locks ----

var lockOps = map[string][2]string{ // call text -> (lock name, +mode / -)
	"c.Lock": {"mu", "W"}, "c.Unlock": {"mu", "-"}, "c.RLock": {"mu", "R"}, "c.RUnlock": {"mu", "-"},
	"c.recvsMu.Lock": {"recvsMu", "W"}, "c.recvsMu.Unlock": {"recvsMu", "-"}, "c.recvsMu.RLock": {"recvsMu", "R"}, "c.recvsMu.RUnlock": {"recvsMu", "-"},
	"c.stateMu.Lock": {"stateMu", "W"}, "c.stateMu.Unlock": {"stateMu", "-"},
	"c.mu.Lock": {"cbMu", "W"}, "c.mu.Unlock": {"cbMu", "-"},
}

type access struct{ field, fn, kind, locks string }

func heldText(h map[string]string) string {
	ks := []string{}
	for k, v := range h {
		ks = append(ks, k+":"+v)
	}
	sort.Strings(ks)
	return strings.Join(ks, ",")
}

// accessesOf walks a method of receiver `c` in source order with a lexical lock set. A `defer X.Unlock()` keeps the lock to the end;
// a `go func` body starts with an empty lock set; other closures (Once.Do, deferred funcs) inherit the current one.
func accessesOf(fd *ast.FuncDecl, fields map[string]bool, atomicFields map[string]bool) []access {
	out := []access{}
	if fd == nil || fd.Body == nil {
		return out
	}
	fn := fd.Name.Name
	var walkStmts func(list []ast.Stmt, held map[string]string)
	var walkNode func(n ast.Node, held map[string]string, write bool)
	copyHeld := func(h map[string]string) map[string]string {
		c := map[string]string{}
		for k, v := range h {
			c[k] = v
		}
		return c
	}
	record := func(sel *ast.SelectorExpr, held map[string]string, write bool) {
		if id, ok := sel.X.(*ast.Ident); ok && id.Name == "c" && fields[sel.Sel.Name] {
			kind := "read"
			if write {
				kind = "write"
			}
			out = append(out, access{sel.Sel.Name, fn, kind, heldText(held)})
		}
	}
	walkNode = func(n ast.Node, held map[string]string, write bool) {
		if n == nil {
			return
		}
		switch v := n.(type) {
		case *ast.FuncLit:
			walkStmts(v.Body.List, copyHeld(held))
		case *ast.SelectorExpr:
			record(v, held, write)
			walkNode(v.X, held, false)
		case *ast.CallExpr:
			f := exprText(v.Fun)
			if strings.HasPrefix(f, "atomic.") { // atomic access: &c.field is not a plain access
				for _, a := range v.Args {
					if u, ok := a.(*ast.UnaryExpr); ok && u.Op == token.AND {
						if se, ok := u.X.(*ast.SelectorExpr); ok && atomicFields[se.Sel.Name] {
							out = append(out, access{se.Sel.Name, fn, "atomic", heldText(held)})
							continue
						}
					}
					walkNode(a, held, false)
				}
				return
			}
			walkNode(v.Fun, held, false)
			for _, a := range v.Args {
				walkNode(a, held, false)
			}
		case *ast.UnaryExpr:
			walkNode(v.X, held, write)
		case *ast.BinaryExpr:
			walkNode(v.X, held, false)
			walkNode(v.Y, held, false)
		case *ast.IndexExpr:
			walkNode(v.X, held, write) // m[k] = v writes the map field
			walkNode(v.Index, held, false)
		case *ast.ParenExpr:
			walkNode(v.X, held, write)
		case *ast.StarExpr:
			walkNode(v.X, held, write)
		case *ast.CompositeLit:
			for _, e := range v.Elts {
				walkNode(e, held, false)
			}
		case *ast.KeyValueExpr:
			walkNode(v.Value, held, false)
		case *ast.TypeAssertExpr:
			walkNode(v.X, held, false)
		case *ast.SliceExpr:
			walkNode(v.X, held, false)
		}
	}
	walkStmts = func(list []ast.Stmt, held map[string]string) {
		for _, st := range list {
			switch v := st.(type) {
			case *ast.ExprStmt:
				if ce, ok := v.X.(*ast.CallExpr); ok {
					if lo, ok := lockOps[exprText(ce.Fun)]; ok {
						if lo[1] == "-" {
							delete(held, lo[0])
						} else {
							held[lo[0]] = lo[1]
						}
						continue
					}
				}
				walkNode(v.X, held, false)
			case *ast.DeferStmt:
				if _, ok := lockOps[exprText(v.Call.Fun)]; ok {
					continue // deferred unlock: held to the end
				}
				walkNode(v.Call, held, false)
			case *ast.GoStmt:
				if fl, ok := v.Call.Fun.(*ast.FuncLit); ok {
					walkStmts(fl.Body.List, map[string]string{})
				} else {
					walkNode(v.Call, map[string]string{}, false)
				}
			case *ast.AssignStmt:
				for _, r := range v.Rhs {
					walkNode(r, held, false)
				}
				for _, l := range v.Lhs {
					walkNode(l, held, true)
				}
			case *ast.IncDecStmt:
				walkNode(v.X, held, true)
			case *ast.IfStmt:
				if v.Init != nil {
					walkStmts([]ast.Stmt{v.Init}, held)
				}
				walkNode(v.Cond, held, false)
				h2 := copyHeld(held)
				walkStmts(v.Body.List, h2)
				if v.Else != nil {
					switch e := v.Else.(type) {
					case *ast.BlockStmt:
						walkStmts(e.List, copyHeld(held))
					case *ast.IfStmt:
						walkStmts([]ast.Stmt{e}, copyHeld(held))
					}
				}
			case *ast.ForStmt:
				if v.Cond != nil {
					walkNode(v.Cond, held, false)
				}
				walkStmts(v.Body.List, copyHeld(held))
			case *ast.RangeStmt:
				walkNode(v.X, held, false)
				walkStmts(v.Body.List, copyHeld(held))
			case *ast.BlockStmt:
				walkStmts(v.List, held)
			case *ast.SelectStmt:
				for _, c := range v.Body.List {
					cc := c.(*ast.CommClause)
					h2 := copyHeld(held)
					if cc.Comm != nil {
						walkStmts([]ast.Stmt{cc.Comm}, h2)
					}
					walkStmts(cc.Body, h2)
				}
			case *ast.SwitchStmt:
				if v.Tag != nil {
					walkNode(v.Tag, held, false)
				}
				for _, c := range v.Body.List {
					cc := c.(*ast.CaseClause)
					for _, e := range cc.List {
						walkNode(e, held, false)
					}
					walkStmts(cc.Body, copyHeld(held))
				}
			case *ast.ReturnStmt:
				for _, r := range v.Results {
					walkNode(r, held, false)
				}
			case *ast.SendStmt:
				walkNode(v.Chan, held, false)
				walkNode(v.Value, held, false)
			case *ast.DeclStmt:
				if gd, ok := v.Decl.(*ast.GenDecl); ok {
					for _, sp := range gd.Specs {
						if vs, ok := sp.(*ast.ValueSpec); ok {
							for _, e := range vs.Values {
								walkNode(e, held, false)
							}
						}
					}
				}
			}
		}
	}
	walkStmts(fd.Body.List, map[string]string{})
	return out
}

func q(xs []string) string {
	o := []string{}
	for _, x := range xs {
		o = append(o, strconv.Quote(x))
	}
	return "[" + strings.Join(o, ", ") + "]"
}

func main() {
	root, outDir := os.Args[1], os.Args[2]
	load(filepath.Join(root, "go"), "protocol")
	load(filepath.Join(root, "go/v1"), "v1")
	load(filepath.Join(root, "go/v2"), "v2")
	load(filepath.Join(root, "go/gzip"), "gzip")
	load(filepath.Join(root, "go/client"), "client")
	var w bytes.Buffer
	lost := []string{}
	fmt.Fprintln(&w, "-- GENERATED by /verif/extract from the Go source of /repo — do not edit; rewritten by every check run")
	fmt.Fprintln(&w, "namespace OAP.Gen")
	ws := []constWant{{"protocol", "HandshakeLength"}, {"protocol", "VersionMask"}, {"protocol", "CodecMask"}, {"protocol", "PlatformMask"}, {"protocol", "ReserveMask"},
		{"protocol", "max7BitLength"}, {"protocol", "max15BitLength"}, {"protocol", "maxStringLength"}, {"protocol", "lengthMask"}, {"protocol", "length7Bit"}, {"protocol", "length15Bit"},
		{"protocol", "CodecProtobuf"}, {"protocol", "CodecJSON"}, {"protocol", "StatusSuccess"}, {"protocol", "StatusUnauthenticated"},
		{"v1", "RequestHeaderLen"}, {"v1", "ResponseHeaderLen"}, {"v1", "PushHeaderLen"}, {"v1", "HeaderTypeMask"}, {"v1", "MaxBodyLength"}, {"v1", "NonceLength"}, {"v1", "SignatureLength"},
		{"v1", "RequestPacket"}, {"v1", "ResponsePacket"}, {"v1", "PushPacket"},
		{"v2", "RequestHeaderLen"}, {"v2", "ResponseHeaderLen"}, {"v2", "PushHeaderLen"}, {"v2", "MaxMetadataLength"}}
	fallbackConst := map[string]int64{"protocol_HandshakeLength": 2, "protocol_VersionMask": 15, "protocol_CodecMask": 240, "protocol_PlatformMask": 15, "protocol_ReserveMask": 240,
		"protocol_max7BitLength": 127, "protocol_max15BitLength": 32767, "protocol_maxStringLength": 32767, "protocol_lengthMask": 128, "protocol_length7Bit": 0, "protocol_length15Bit": 128,
		"protocol_CodecProtobuf": 1, "protocol_CodecJSON": 2, "protocol_StatusSuccess": 0, "protocol_StatusUnauthenticated": 5,
		"v1_RequestHeaderLen": 11, "v1_ResponseHeaderLen": 10, "v1_PushHeaderLen": 5, "v1_HeaderTypeMask": 15, "v1_MaxBodyLength": 16777215, "v1_NonceLength": 8, "v1_SignatureLength": 16,
		"v1_RequestPacket": 1, "v1_ResponsePacket": 2, "v1_PushPacket": 3, "v2_RequestHeaderLen": 13, "v2_ResponseHeaderLen": 12, "v2_PushHeaderLen": 7, "v2_MaxMetadataLength": 65535}
	for _, c := range ws {
		pk := pkgs[c.pkg]
		name := c.pkg + "_" + c.name
		e, ok := pk.consts[c.name]
		var v int64
		if ok {
			v, ok = eval(pk, e, pk.iota[c.name])
		}
		if !ok {
			lost = append(lost, "const "+name)
			v = fallbackConst[name]
			fmt.Fprintf(&w, "-- anchor-lost: const %s (hand-written fallback)\n", name)
		}
		fmt.Fprintf(&w, "def %s : Nat := %d\n", name, v)
	}
	// IsControl bound: cmd <= uint32(control.Command_CMD_RECONNECT)
	if fd := findFunc(pkgs["protocol"], "", "IsControl"); fd != nil {
		done := false
		ast.Inspect(fd.Body, func(n ast.Node) bool {
			be, ok := n.(*ast.BinaryExpr)
			if ok && !done && be.Op == token.LEQ && exprText(be.X) == "cmd" {
				if v, ok := eval(pkgs["protocol"], be.Y, 0); ok {
					fmt.Fprintf(&w, "def protocol_controlMax : Nat := %d\n", v)
					done = true
				}
			}
			return true
		})
		if !done {
			lost = append(lost, "const protocol_controlMax")
			fmt.Fprintf(&w, "-- anchor-lost: IsControl bound\ndef protocol_controlMax : Nat := 3\n")
		}
	}
	for _, a := range anchors() {
		pk := pkgs[a.pkg]
		var e ast.Expr
		if fd := findFunc(pk, a.recv, a.fn); fd != nil {
			if a.isIf {
				e = findIf(fd, a.nth)
			} else {
				e = findAssign(fd, a.lhs, a.nth)
			}
		}
		body, src := "", ""
		if e != nil {
			t := &tx{pk: pk, ren: a.ren, intTy: a.intTy}
			s, ty, ok := t.lean(e, a.ty)
			if ok && ty != a.ty {
				s, ok = conv(s, ty, a.ty)
			}
			if ok {
				body, src = s, exprText(e)
			}
		}
		if body == "" {
			lost = append(lost, "expr "+a.name)
			body = a.fallback
			src = "ANCHOR LOST — hand-written fallback"
			if e != nil {
				src += " (untranslatable: " + exprText(e) + ")"
			}
		}
		params := ""
		for _, p := range a.params {
			params += fmt.Sprintf(" (%s : %s)", p[0], p[1])
		}
		fmt.Fprintf(&w, "/-- %s.(%s).%s %s: %s -/\ndef %s%s : %s := %s\n", a.pkg, a.recv, a.fn, a.lhs, src, a.name, params, a.ty, body)
	}
	// structure: header struct fields vs pool resets
	v1f := structFields(pkgs["v1"], "Header")
	v2f := structFields(pkgs["v2"], "Header")
	fmt.Fprintf(&w, "def v1HeaderFields : List String := %s\ndef v1HeaderResets : List String := %s\n", q(v1f), q(poolResets(pkgs["v1"])))
	fmt.Fprintf(&w, "def v2HeaderFields : List String := %s\ndef v2HeaderResets : List String := %s\n", q(v2f), q(poolResets(pkgs["v2"])))
	regs := append(registered(pkgs["v1"]), registered(pkgs["v2"])...)
	rs := []string{}
	for _, v := range regs {
		rs = append(rs, strconv.FormatInt(v, 10))
	}
	fmt.Fprintf(&w, "def registeredVersions : List Nat := [%s]\n", strings.Join(rs, ", "))
	// structure facts: the statement lists of the tiny constructors around the request-id generator
	for _, fn := range []string{"GetRequestIDGen", "NewRequest", "MustNewRequest", "NewResponse", "MustNewResponse", "NewPush", "MustNewPush"} {
		fmt.Fprintf(&w, "def stmts_%s : List String := %s\n", fn, q(stmtTexts(findFunc(pkgs["protocol"], "", fn))))
	}
	// statement lists of the small client functions whose behaviour the Keepalive / Reconnect models mirror (C15, C08)
	for _, fn := range []string{"keepalive", "handlePing", "handlePong", "isAuthExpired", "auth"} {
		fmt.Fprintf(&w, "def stmts_client_%s : List String := %s\n", fn, q(stmtTexts(findFunc(pkgs["client"], "client", fn))))
	}
	for _, fn := range []string{"newDialOptions", "Keepalive", "KeepaliveTimeout", "MaxReconnect", "AuthTimeout", "DialTimeout", "MinGzipSize"} {
		fmt.Fprintf(&w, "def stmts_opt_%s : List String := %s\n", fn, q(stmtTexts(findFunc(pkgs["client"], "", fn))))
	}
	// statement lists of the gzip glue (C10/C11 pool view: who takes an object from a pool, who resets it, who puts it back, and when)
	for _, fr := range [][3]string{{"compressor", "Compress", "compressor_Compress"}, {"writer", "Close", "writer_Close"}, {"compressor", "Decompress", "compressor_Decompress"},
		{"reader", "Read", "reader_Read"}, {"", "Compress", "Compress"}, {"", "Decompress", "Decompress"}, {"", "init", "init"}, {"", "SetLevel", "SetLevel"}} {
		fmt.Fprintf(&w, "def stmts_gzip_%s : List String := %s\n", fr[2], q(stmtTexts(findFunc(pkgs["gzip"], fr[0], fr[1]))))
	}
	// operation sequences of the client and the transports (T2 "structure": the calls themselves, in source order)
	for _, fr := range [][2]string{{"client", "Do"}, {"client", "Close"}, {"client", "dial"}, {"client", "reconnecting"}, {"client", "reconnect"},
		{"client", "reconnectDial"}, {"client", "handleResponse"}, {"client", "register"}, {"client", "unregister"}, {"client", "recv"},
		{"client", "closeByServer"}, {"client", "onConnClose"}, {"client", "write"}, {"client", "keepalive"}, {"client", "handlePing"}, {"client", "handlePong"},
		{"tcpConn", "writing"}, {"tcpConn", "reading"}, {"wsConn", "writing"}, {"wsConn", "reading"}, {"client", "onPacket"}, {"client", "handlePush"}, {"client", "handleControl"},
		{"tcpConn", "write"}, {"tcpConn", "Close"}, {"tcpConn", "OnPacket"}, {"tcpConn", "addPacket"}, {"tcpConn", "Write"},
		{"wsConn", "write"}, {"wsConn", "Close"}, {"wsConn", "OnPacket"}, {"wsConn", "addPacket"}, {"wsConn", "Write"}} {
		fmt.Fprintf(&w, "def seq_%s_%s : List String := %s\n", fr[0], fr[1], q(opSeq(findFunc(pkgs["client"], fr[0], fr[1]))))
	}
	// C17: every syntactic access to a field of the client struct, with the lexically held locks
	{
		cfields := map[string]bool{}
		for _, f := range structFields(pkgs["client"], "client") {
			cfields[f] = true
		}
		atomicF := map[string]bool{"recovering": true}
		acc := []access{}
		for _, f := range pkgs["client"].files {
			for _, d := range f.Decls {
				if fd, ok := d.(*ast.FuncDecl); ok && (recvName(fd) == "client" || fd.Name.Name == "New") {
					acc = append(acc, accessesOf(fd, cfields, atomicF)...)
				}
			}
		}
		// option setters assign through the parameter `c` as well
		for _, fn := range []string{"WithContext", "WithLogger", "WithConnectMetadata"} {
			acc = append(acc, accessesOf(findFunc(pkgs["client"], "", fn), cfields, atomicF)...)
		}
		seen := map[string]bool{}
		rows := []string{}
		for _, a := range acc {
			k := a.field + "|" + a.fn + "|" + a.kind + "|" + a.locks
			if seen[k] {
				continue
			}
			seen[k] = true
			ls := []string{}
			if a.locks != "" {
				ls = strings.Split(a.locks, ",")
			}
			rows = append(rows, fmt.Sprintf("(%q, %q, %q, %s)", a.field, a.fn, a.kind, q(ls)))
		}
		sort.Strings(rows)
		fl := structFields(pkgs["client"], "client")
		fmt.Fprintf(&w, "def clientFields : List String := %s\n", q(fl))
		fmt.Fprintf(&w, "def clientAccess : List (String × String × String × List String) := [\n  %s]\n", strings.Join(rows, ",\n  "))
	}
	fmt.Fprintln(&w, "end OAP.Gen")
	{
		ftxt, flost := genFuncs()
		lost = append(lost, flost...)
		fout := filepath.Join(outDir, "Funcs.lean")
		if old, _ := os.ReadFile(fout); string(old) != ftxt {
			if err := os.WriteFile(fout, []byte(ftxt), 0o644); err != nil {
				panic(err)
			}
		}
	}
	connChanged := false
	{
		// C17, connection types: access, call and edge tables of tcpConn / wsConn / closeCallback (conn.go)
		ctxt, clost := genConn(pkgs["client"])
		lost = append(lost, clost...)
		cout := filepath.Join(outDir, "Conn.lean")
		if old, _ := os.ReadFile(cout); string(old) != ctxt {
			connChanged = true
			if err := os.WriteFile(cout, []byte(ctxt), 0o644); err != nil {
				panic(err)
			}
		}
	}
	out := filepath.Join(outDir, "Facts.lean")
	old, _ := os.ReadFile(out)
	changed := !bytes.Equal(old, w.Bytes()) || connChanged
	if changed {
		if err := os.WriteFile(out, w.Bytes(), 0o644); err != nil {
			panic(err)
		}
	}
	js, _ := json.Marshal(map[string]interface{}{"changed": changed, "anchors_lost": lost, "file": out})
	fmt.Println(string(js))
}
