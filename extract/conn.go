// conn.go: C17 for the connection types (go/ast only). Emits Gen/Conn.lean:
//
//	connFields   : struct ↦ declared fields (an embedded field is named by its type, as in Go)
//	connCaptured : struct ↦ pseudo-fields "<Method>$<var>": variables of a method that a `go func(){…}` closure captures
//	connAccess   : (struct, field, enclosing function, kind read|write|call, lexically held locks)
//	connCalls    : (struct, field, enclosing function, operation) for every `call` row: the method called on the object
//	               held in the field, or send|recv|close|len|cap on a channel field
//	connEdges    : (caller, kind call|go|once:<field>|ref, callee) between the functions below (closures included)
//
// for every function of package client that mentions one of the tracked struct types: all their methods, the dial
// functions, newCloseCallback. Function names are qualified ("tcpConn.reading", "dialTCPConn"); a function literal is the
// pseudo-function "<parent>.func<N>" (N counts the literals of that parent in source order). In a plain function that
// builds a tracked struct with a composite literal, the statements AFTER the first top-level statement that starts a
// goroutine (directly or through a method that does) are attributed to "<name>.started".
//
// Kinds. `write`: assignment to the field, to a component reached through it (x.f.g = …, x.f[i] = …, *x.f = …), x.f++,
// &x.f, copy(x.f, …), a key of a composite literal of the struct. `call`: a method call x.f.M(…) on the object held in
// the field (Lock/Unlock, Once.Do, net.Conn.Read, …) or a channel operation on it. `read`: every other use.
//
// Locks are tracked lexically per function: x.f.Lock()/RLock() adds "f:W"/"f:R", Unlock()/RUnlock() removes it, a deferred
// unlock keeps it to the end. After a branching statement the lock set is the INTERSECTION of the sets at the end of the
// branches that fall through (and of the sets at every break/continue of a loop, switch or select), so a lock released on
// one path is not assumed afterwards. A `go` closure and a function literal handed to unknown code start with no lock;
// the argument of x.<once>.Do and an immediately invoked literal inherit the current set; a deferred literal runs with the
// locks whose unlock was deferred before it.
package main

import (
	"fmt"
	"go/ast"
	"go/token"
	"sort"
	"strconv"
	"strings"
)

var connTypes = []string{"closeCallback", "tcpConn", "wsConn"}

type cfield struct {
	name string // Go field name (embedded: the type name)
	ty   string // tracked struct held by the field (T or *T), else ""
	kind string // "chan" or ""
	emb  bool
}

type connWorld struct {
	tracked  map[string]bool
	fields   map[string][]cfield
	methods  map[string]map[string]*ast.FuncDecl
	funcs    map[string]*ast.FuncDecl // package-level functions
	retType  map[string]string        // package-level function -> tracked struct it returns
	rows     map[string]bool
	calls    map[string]bool
	edgeSet  map[string]bool
	edges    [][3]string
	captured map[string]map[string]bool // struct -> pseudo-fields
	starts   map[string]bool            // function (transitively, synchronously) starts a goroutine
	litCount map[string]int
	unknown  []string
}

type cctx struct {
	fn       string
	held     map[string]string
	dheld    map[string]string
	vars     map[string]string
	self     string          // receiver struct of the enclosing declaration ("" for a plain function)
	decl     string          // name of the enclosing declaration
	captured map[string]bool // variables of the declaration captured by a go closure
	breaks   []*[]map[string]string
}

func copyMap(h map[string]string) map[string]string {
	c := map[string]string{}
	for k, v := range h {
		c[k] = v
	}
	return c
}

func interMap(hs []map[string]string) map[string]string {
	if len(hs) == 0 {
		return map[string]string{}
	}
	out := copyMap(hs[0])
	for _, h := range hs[1:] {
		for k, v := range out {
			w, ok := h[k]
			if !ok {
				delete(out, k)
			} else if w != v { // held in different modes: keep the weaker one
				out[k] = "R"
			}
		}
	}
	return out
}

func (c *cctx) fork() *cctx {
	n := *c
	n.held = copyMap(c.held)
	n.dheld = copyMap(c.dheld)
	n.vars = copyMap(c.vars)
	return &n
}

// closure context: same variables, given lock set, no break targets
func (c *cctx) closure(fn string, held map[string]string) *cctx {
	return &cctx{fn: fn, held: copyMap(held), dheld: map[string]string{}, vars: copyMap(c.vars), self: c.self, decl: c.decl, captured: c.captured}
}

func unparen(e ast.Expr) ast.Expr {
	for {
		p, ok := e.(*ast.ParenExpr)
		if !ok {
			return e
		}
		e = p.X
	}
}

func trackedTypeName(w *connWorld, t ast.Expr) string {
	switch x := t.(type) {
	case *ast.Ident:
		if w.tracked[x.Name] {
			return x.Name
		}
	case *ast.StarExpr:
		return trackedTypeName(w, x.X)
	case *ast.ParenExpr:
		return trackedTypeName(w, x.X)
	}
	return ""
}

func newConnWorld(pk *pkgInfo) *connWorld {
	w := &connWorld{tracked: map[string]bool{}, fields: map[string][]cfield{}, methods: map[string]map[string]*ast.FuncDecl{},
		funcs: map[string]*ast.FuncDecl{}, retType: map[string]string{}, captured: map[string]map[string]bool{}}
	for _, t := range connTypes {
		w.tracked[t] = true
		w.methods[t] = map[string]*ast.FuncDecl{}
	}
	for _, f := range pk.files {
		for _, d := range f.Decls {
			switch x := d.(type) {
			case *ast.GenDecl:
				if x.Tok != token.TYPE {
					continue
				}
				for _, s := range x.Specs {
					ts := s.(*ast.TypeSpec)
					st, ok := ts.Type.(*ast.StructType)
					if !ok || !w.tracked[ts.Name.Name] {
						continue
					}
					for _, fl := range st.Fields.List {
						kind := ""
						if _, ok := fl.Type.(*ast.ChanType); ok {
							kind = "chan"
						}
						ty := trackedTypeName(w, fl.Type)
						if len(fl.Names) == 0 {
							n := strings.TrimPrefix(exprText(fl.Type), "*")
							if i := strings.LastIndex(n, "."); i >= 0 {
								n = n[i+1:]
							}
							w.fields[ts.Name.Name] = append(w.fields[ts.Name.Name], cfield{n, ty, kind, true})
						}
						for _, nm := range fl.Names {
							w.fields[ts.Name.Name] = append(w.fields[ts.Name.Name], cfield{nm.Name, ty, kind, false})
						}
					}
				}
			case *ast.FuncDecl:
				if r := recvName(x); r != "" {
					if w.tracked[r] {
						w.methods[r][x.Name.Name] = x
					}
				} else {
					w.funcs[x.Name.Name] = x
					if x.Type.Results != nil && len(x.Type.Results.List) >= 1 {
						if t := trackedTypeName(w, x.Type.Results.List[0].Type); t != "" {
							w.retType[x.Name.Name] = t
						}
					}
				}
			}
		}
	}
	return w
}

func (w *connWorld) reset() {
	w.rows, w.calls, w.edgeSet = map[string]bool{}, map[string]bool{}, map[string]bool{}
	w.edges = nil
	w.litCount = map[string]int{}
	w.unknown = nil
	w.captured = map[string]map[string]bool{}
}

func (w *connWorld) field(t, name string) (cfield, bool) {
	for _, f := range w.fields[t] {
		if f.name == name {
			return f, true
		}
	}
	return cfield{}, false
}

// promoted field or method `name` of struct t through an embedded tracked struct: returns the embedded field
func (w *connWorld) promoted(t, name string) (cfield, bool) {
	for _, f := range w.fields[t] {
		if f.emb && f.ty != "" {
			if _, ok := w.field(f.ty, name); ok {
				return f, true
			}
			if _, ok := w.methods[f.ty][name]; ok {
				return f, true
			}
		}
	}
	return cfield{}, false
}

func (w *connWorld) record(c *cctx, t, f, kind string) {
	w.rows[strings.Join([]string{t, f, c.fn, kind, heldText(c.held)}, "|")] = true
}

func (w *connWorld) recordCall(c *cctx, t, f, op string) {
	w.record(c, t, f, "call")
	w.calls[strings.Join([]string{t, f, c.fn, op}, "|")] = true
}

func (w *connWorld) edge(from, kind, to string) {
	k := from + "|" + kind + "|" + to
	if !w.edgeSet[k] {
		w.edgeSet[k] = true
		w.edges = append(w.edges, [3]string{from, kind, to})
	}
}

func (w *connWorld) litName(parent string) string {
	w.litCount[parent]++
	return parent + ".func" + strconv.Itoa(w.litCount[parent])
}

// struct of the object an expression denotes (variables bound to a tracked struct, fields holding one)
func (w *connWorld) resolve(e ast.Expr, c *cctx) string {
	switch x := unparen(e).(type) {
	case *ast.Ident:
		return c.vars[x.Name]
	case *ast.StarExpr:
		return w.resolve(x.X, c)
	case *ast.UnaryExpr:
		if x.Op == token.AND {
			return w.resolve(x.X, c)
		}
	case *ast.CompositeLit:
		if x.Type != nil {
			return trackedTypeName(w, x.Type)
		}
	case *ast.SelectorExpr:
		if t := w.resolve(x.X, c); t != "" {
			if f, ok := w.field(t, x.Sel.Name); ok {
				return f.ty
			}
			if emb, ok := w.promoted(t, x.Sel.Name); ok {
				if f, ok := w.field(emb.ty, x.Sel.Name); ok {
					return f.ty
				}
			}
		}
	case *ast.CallExpr:
		if id, ok := unparen(x.Fun).(*ast.Ident); ok {
			if id.Name == "new" && len(x.Args) == 1 {
				return trackedTypeName(w, x.Args[0])
			}
			return w.retType[id.Name]
		}
	}
	return ""
}

// a field access x.f (x a tracked object): returns struct, field, ok. Promoted fields are attributed to the embedded
// struct (and the embedded field itself is read).
func (w *connWorld) fieldOf(e ast.Expr, c *cctx, touchEmbedded bool) (string, cfield, bool) {
	se, ok := unparen(e).(*ast.SelectorExpr)
	if !ok {
		return "", cfield{}, false
	}
	t := w.resolve(se.X, c)
	if t == "" {
		return "", cfield{}, false
	}
	if f, ok := w.field(t, se.Sel.Name); ok {
		return t, f, true
	}
	if emb, ok := w.promoted(t, se.Sel.Name); ok {
		if f, ok := w.field(emb.ty, se.Sel.Name); ok {
			if touchEmbedded {
				w.record(c, t, emb.name, "read")
			}
			return emb.ty, f, true
		}
	}
	return "", cfield{}, false
}

func (w *connWorld) ident(id *ast.Ident, c *cctx, mode string) {
	if c.captured[id.Name] {
		pf := c.decl + "$" + id.Name
		if w.captured[c.self] == nil {
			w.captured[c.self] = map[string]bool{}
		}
		w.captured[c.self][pf] = true
		w.record(c, c.self, pf, mode)
	}
}

func (w *connWorld) expr(e ast.Expr, c *cctx, mode string) {
	if e == nil {
		return
	}
	switch v := e.(type) {
	case *ast.Ident:
		w.ident(v, c, mode)
	case *ast.BasicLit, *ast.ArrayType, *ast.MapType, *ast.ChanType, *ast.FuncType, *ast.InterfaceType, *ast.StructType, *ast.Ellipsis:
	case *ast.ParenExpr:
		w.expr(v.X, c, mode)
	case *ast.SelectorExpr:
		w.selector(v, c, mode)
	case *ast.CallExpr:
		w.call(v, c, "call")
	case *ast.UnaryExpr:
		switch v.Op {
		case token.ARROW:
			if t, f, ok := w.fieldOf(v.X, c, true); ok && f.kind == "chan" {
				w.recordCall(c, t, f.name, "recv")
				w.expr(unparen(v.X).(*ast.SelectorExpr).X, c, "read")
			} else {
				w.expr(v.X, c, "read")
			}
		case token.AND:
			if _, isLit := unparen(v.X).(*ast.CompositeLit); isLit {
				w.expr(v.X, c, "read")
			} else {
				w.expr(v.X, c, "write") // address taken: the location escapes
			}
		default:
			w.expr(v.X, c, "read")
		}
	case *ast.BinaryExpr:
		w.expr(v.X, c, "read")
		w.expr(v.Y, c, "read")
	case *ast.IndexExpr:
		w.expr(v.X, c, mode)
		w.expr(v.Index, c, "read")
	case *ast.SliceExpr:
		w.expr(v.X, c, "read")
		w.expr(v.Low, c, "read")
		w.expr(v.High, c, "read")
		w.expr(v.Max, c, "read")
	case *ast.StarExpr:
		if t := w.resolve(v.X, c); t != "" {
			w.record(c, t, "*", mode) // the whole struct is copied or overwritten
		}
		w.expr(v.X, c, mode)
	case *ast.TypeAssertExpr:
		w.expr(v.X, c, "read")
	case *ast.KeyValueExpr:
		w.expr(v.Key, c, "read")
		w.expr(v.Value, c, "read")
	case *ast.CompositeLit:
		t := ""
		if v.Type != nil {
			t = trackedTypeName(w, v.Type)
		}
		for i, el := range v.Elts {
			kv, isKV := el.(*ast.KeyValueExpr)
			switch {
			case t != "" && isKV:
				if k, ok := kv.Key.(*ast.Ident); ok {
					if _, ok := w.field(t, k.Name); ok {
						w.record(c, t, k.Name, "write")
					} else {
						w.record(c, t, "?"+k.Name, "write")
					}
				}
				w.expr(kv.Value, c, "read")
			case t != "":
				if i < len(w.fields[t]) {
					w.record(c, t, w.fields[t][i].name, "write")
				}
				w.expr(el, c, "read")
			case isKV:
				if _, ok := kv.Key.(*ast.Ident); !ok { // an identifier key may be a field name of an untracked struct
					w.expr(kv.Key, c, "read")
				}
				w.expr(kv.Value, c, "read")
			default:
				w.expr(el, c, "read")
			}
		}
	case *ast.FuncLit:
		// a literal handed to code we do not see: may run anywhere, later, with no lock
		name := w.litName(c.fn)
		w.edge(c.fn, "ref", name)
		w.block(v.Body.List, c.closure(name, nil))
	default:
		w.unknown = append(w.unknown, fmt.Sprintf("%s: expression %T", c.fn, e))
	}
}

func (w *connWorld) selector(v *ast.SelectorExpr, c *cctx, mode string) {
	t := w.resolve(v.X, c)
	if t == "" {
		// x.f.g: a component reached through a field; a write to it counts as a write of the field
		w.expr(v.X, c, mode)
		return
	}
	name := v.Sel.Name
	if _, ok := w.field(t, name); ok {
		w.record(c, t, name, mode)
	} else if emb, ok := w.promoted(t, name); ok {
		w.record(c, t, emb.name, "read")
		if _, ok := w.field(emb.ty, name); ok {
			w.record(c, emb.ty, name, mode)
		} else {
			w.edge(c.fn, "ref", emb.ty+"."+name) // method value of the embedded struct
		}
	} else if _, ok := w.methods[t][name]; ok {
		w.edge(c.fn, "ref", t+"."+name) // method value: the callee runs wherever the receiver of the value calls it
	} else {
		w.record(c, t, "?"+name, mode)
	}
	w.expr(v.X, c, "read")
}

var lockMethods = map[string]string{"Lock": "W", "RLock": "R", "Unlock": "-", "RUnlock": "-"}

// kind: "call" | "go" | "defer"
func (w *connWorld) call(v *ast.CallExpr, c *cctx, kind string) {
	ek := "call"
	if kind == "go" {
		ek = "go"
	}
	args := func() {
		for _, a := range v.Args {
			w.expr(a, c, "read")
		}
	}
	litBody := func(fl *ast.FuncLit, edgeKind string, held map[string]string) {
		name := w.litName(c.fn)
		w.edge(c.fn, edgeKind, name)
		w.block(fl.Body.List, c.closure(name, held))
	}
	switch f := unparen(v.Fun).(type) {
	case *ast.FuncLit:
		args()
		switch kind {
		case "go":
			litBody(f, "go", nil)
		case "defer":
			litBody(f, "call", c.dheld)
		default:
			litBody(f, "call", c.held)
		}
		return
	case *ast.Ident:
		switch f.Name {
		case "close", "len", "cap":
			if len(v.Args) == 1 {
				if t, fd, ok := w.fieldOf(v.Args[0], c, true); ok && fd.kind == "chan" {
					w.recordCall(c, t, fd.name, f.Name)
					w.expr(unparen(v.Args[0]).(*ast.SelectorExpr).X, c, "read")
					return
				}
			}
		case "copy":
			if len(v.Args) == 2 {
				w.expr(v.Args[0], c, "write")
				w.expr(v.Args[1], c, "read")
				return
			}
		case "new", "make":
			for i, a := range v.Args {
				if i > 0 {
					w.expr(a, c, "read")
				}
			}
			return
		}
		if _, ok := w.funcs[f.Name]; ok && w.connFunc(f.Name) {
			w.edge(c.fn, ek, f.Name)
		}
		w.ident(f, c, "read")
		args()
		return
	case *ast.SelectorExpr:
		m := f.Sel.Name
		if t := w.resolve(f.X, c); t != "" {
			// a method of a tracked struct, possibly promoted; or a func-valued field being called
			if _, ok := w.methods[t][m]; ok {
				w.edge(c.fn, ek, t+"."+m)
			} else if emb, ok := w.promoted(t, m); ok {
				w.record(c, t, emb.name, "read")
				if _, isField := w.field(emb.ty, m); isField {
					w.record(c, emb.ty, m, "read")
				} else {
					w.edge(c.fn, ek, emb.ty+"."+m)
				}
			} else if _, ok := w.field(t, m); ok {
				w.record(c, t, m, "read")
			} else {
				w.recordCall(c, t, "?"+m, m)
			}
			w.expr(f.X, c, "read")
			args()
			return
		}
		if t, fd, ok := w.fieldOf(f.X, c, true); ok {
			// x.f.M(...): an operation on the object held in field f
			w.expr(unparen(f.X).(*ast.SelectorExpr).X, c, "read")
			if lm, isLock := lockMethods[m]; isLock && len(v.Args) == 0 {
				w.recordCall(c, t, fd.name, m)
				switch {
				case lm == "-" && kind == "defer":
					c.dheld[fd.name] = c.held[fd.name] // released at exit: held to the end
				case lm == "-":
					delete(c.held, fd.name)
				case kind == "call":
					c.held[fd.name] = lm
				}
				return
			}
			w.recordCall(c, t, fd.name, m)
			if m == "Do" && len(v.Args) == 1 {
				if fl, ok := unparen(v.Args[0]).(*ast.FuncLit); ok && kind == "call" {
					litBody(fl, "once:"+fd.name, c.held) // sync.Once.Do runs the literal in the caller, at most once
					return
				}
			}
			args()
			return
		}
		// x.f.g.M(...): an operation reached through a field
		if inner, ok := unparen(f.X).(*ast.SelectorExpr); ok {
			if t, fd, ok := w.fieldOf(inner.X, c, true); ok {
				w.recordCall(c, t, fd.name, inner.Sel.Name+"."+m)
				w.expr(unparen(inner.X).(*ast.SelectorExpr).X, c, "read")
				args()
				return
			}
		}
		w.expr(f.X, c, "read")
		args()
		return
	}
	w.expr(v.Fun, c, "read")
	args()
}

// a plain function that mentions a tracked struct in its signature or builds one
func (w *connWorld) connFunc(name string) bool {
	fd := w.funcs[name]
	if fd == nil {
		return false
	}
	found := false
	ast.Inspect(fd, func(n ast.Node) bool {
		switch x := n.(type) {
		case *ast.Ident:
			if w.tracked[x.Name] {
				found = true
			}
		case *ast.CallExpr:
			if id, ok := x.Fun.(*ast.Ident); ok && w.retType[id.Name] != "" {
				found = true
			}
		}
		return !found
	})
	return found
}

func (w *connWorld) bind(c *cctx, name string, rhs ast.Expr) {
	if name == "_" {
		return
	}
	if rhs != nil {
		if t := w.resolve(rhs, c); t != "" {
			c.vars[name] = t
			return
		}
	}
	delete(c.vars, name)
}

func (w *connWorld) merge(c *cctx, ends []map[string]string) bool {
	if len(ends) == 0 {
		return true // every path left the statement list
	}
	c.held = interMap(ends)
	return false
}

func (w *connWorld) block(list []ast.Stmt, c *cctx) bool {
	for _, s := range list {
		if w.stmt(s, c) {
			return true
		}
	}
	return false
}

func (c *cctx) pushBreak() *[]map[string]string {
	l := &[]map[string]string{}
	c.breaks = append(append([]*[]map[string]string{}, c.breaks...), l)
	return l
}

// returns true when control does not reach the next statement
func (w *connWorld) stmt(s ast.Stmt, c *cctx) bool {
	switch v := s.(type) {
	case nil, *ast.EmptyStmt:
	case *ast.ExprStmt:
		w.expr(v.X, c, "read")
		if ce, ok := v.X.(*ast.CallExpr); ok {
			if id, ok := ce.Fun.(*ast.Ident); ok && id.Name == "panic" {
				return true
			}
		}
	case *ast.AssignStmt:
		for _, r := range v.Rhs {
			w.expr(r, c, "read")
		}
		for i, l := range v.Lhs {
			var rhs ast.Expr
			if len(v.Rhs) == len(v.Lhs) {
				rhs = v.Rhs[i]
			}
			if id, ok := l.(*ast.Ident); ok {
				if v.Tok != token.DEFINE {
					w.ident(id, c, "write")
				}
				w.bind(c, id.Name, rhs)
				continue
			}
			w.expr(l, c, "write")
		}
	case *ast.IncDecStmt:
		w.expr(v.X, c, "write")
	case *ast.DeclStmt:
		if gd, ok := v.Decl.(*ast.GenDecl); ok {
			for _, sp := range gd.Specs {
				vs, ok := sp.(*ast.ValueSpec)
				if !ok {
					continue
				}
				for _, e := range vs.Values {
					w.expr(e, c, "read")
				}
				for i, nm := range vs.Names {
					if vs.Type != nil {
						if t := trackedTypeName(w, vs.Type); t != "" {
							c.vars[nm.Name] = t
							continue
						}
					}
					var rhs ast.Expr
					if i < len(vs.Values) {
						rhs = vs.Values[i]
					}
					w.bind(c, nm.Name, rhs)
				}
			}
		}
	case *ast.ReturnStmt:
		for _, r := range v.Results {
			w.expr(r, c, "read")
		}
		return true
	case *ast.BranchStmt:
		if v.Tok == token.FALLTHROUGH {
			return false
		}
		// break/continue/goto: the lock set here joins the sets at the exit of the enclosing statements
		// (all of them for a label or goto, the innermost otherwise)
		for i := len(c.breaks) - 1; i >= 0; i-- {
			*c.breaks[i] = append(*c.breaks[i], copyMap(c.held))
			if v.Label == nil {
				break
			}
		}
		return true
	case *ast.BlockStmt:
		return w.block(v.List, c)
	case *ast.LabeledStmt:
		return w.stmt(v.Stmt, c)
	case *ast.GoStmt:
		w.call(v.Call, c, "go")
	case *ast.DeferStmt:
		w.call(v.Call, c, "defer")
	case *ast.SendStmt:
		if t, f, ok := w.fieldOf(v.Chan, c, true); ok && f.kind == "chan" {
			w.recordCall(c, t, f.name, "send")
			w.expr(unparen(v.Chan).(*ast.SelectorExpr).X, c, "read")
		} else {
			w.expr(v.Chan, c, "read")
		}
		w.expr(v.Value, c, "read")
	case *ast.IfStmt:
		w.stmt(v.Init, c)
		w.expr(v.Cond, c, "read")
		ends := []map[string]string{}
		b := c.fork()
		if !w.block(v.Body.List, b) {
			ends = append(ends, b.held)
		}
		if v.Else != nil {
			e := c.fork()
			if !w.stmt(v.Else, e) {
				ends = append(ends, e.held)
			}
		} else {
			ends = append(ends, c.held)
		}
		return w.merge(c, ends)
	case *ast.ForStmt:
		w.stmt(v.Init, c)
		w.expr(v.Cond, c, "read")
		ends := []map[string]string{}
		if v.Cond != nil {
			ends = append(ends, copyMap(c.held))
		}
		b := c.fork()
		brk := b.pushBreak()
		if !w.block(v.Body.List, b) {
			w.stmt(v.Post, b)
			ends = append(ends, b.held)
		}
		ends = append(ends, *brk...)
		return w.merge(c, ends)
	case *ast.RangeStmt:
		if t, f, ok := w.fieldOf(v.X, c, true); ok && f.kind == "chan" {
			w.recordCall(c, t, f.name, "recv")
			w.expr(unparen(v.X).(*ast.SelectorExpr).X, c, "read")
		} else {
			w.expr(v.X, c, "read")
		}
		for _, kv := range []ast.Expr{v.Key, v.Value} {
			if kv == nil {
				continue
			}
			if id, ok := kv.(*ast.Ident); ok {
				if v.Tok != token.DEFINE {
					w.ident(id, c, "write")
				}
				w.bind(c, id.Name, nil)
			} else {
				w.expr(kv, c, "write")
			}
		}
		ends := []map[string]string{copyMap(c.held)}
		b := c.fork()
		brk := b.pushBreak()
		if !w.block(v.Body.List, b) {
			ends = append(ends, b.held)
		}
		ends = append(ends, *brk...)
		return w.merge(c, ends)
	case *ast.SwitchStmt, *ast.TypeSwitchStmt:
		var body *ast.BlockStmt
		if sw, ok := v.(*ast.SwitchStmt); ok {
			w.stmt(sw.Init, c)
			w.expr(sw.Tag, c, "read")
			body = sw.Body
		} else {
			ts := v.(*ast.TypeSwitchStmt)
			w.stmt(ts.Init, c)
			w.stmt(ts.Assign, c)
			body = ts.Body
		}
		ends := []map[string]string{}
		hasDefault := false
		var brk *[]map[string]string
		for _, cl := range body.List {
			cc := cl.(*ast.CaseClause)
			if cc.List == nil {
				hasDefault = true
			}
			for _, e := range cc.List {
				w.expr(e, c, "read")
			}
			b := c.fork()
			if brk == nil {
				brk = b.pushBreak()
			} else {
				b.breaks = append(append([]*[]map[string]string{}, c.breaks...), brk)
			}
			if !w.block(cc.Body, b) {
				ends = append(ends, b.held)
			}
		}
		if !hasDefault {
			ends = append(ends, copyMap(c.held))
		}
		if brk != nil {
			ends = append(ends, *brk...)
		}
		return w.merge(c, ends)
	case *ast.SelectStmt:
		ends := []map[string]string{}
		var brk *[]map[string]string
		for _, cl := range v.Body.List {
			cc := cl.(*ast.CommClause)
			b := c.fork()
			if brk == nil {
				brk = b.pushBreak()
			} else {
				b.breaks = append(append([]*[]map[string]string{}, c.breaks...), brk)
			}
			w.stmt(cc.Comm, b)
			if !w.block(cc.Body, b) {
				ends = append(ends, b.held)
			}
		}
		if brk != nil {
			ends = append(ends, *brk...)
		}
		return w.merge(c, ends)
	default:
		w.unknown = append(w.unknown, fmt.Sprintf("%s: statement %T", c.fn, s))
	}
	return false
}

// variables of a declaration that one of its `go func(){…}` closures uses
func capturedVars(fd *ast.FuncDecl) map[string]bool {
	outer := map[string]bool{}
	addFields := func(fl *ast.FieldList) {
		if fl == nil {
			return
		}
		for _, f := range fl.List {
			for _, n := range f.Names {
				outer[n.Name] = true
			}
		}
	}
	addFields(fd.Recv)
	addFields(fd.Type.Params)
	addFields(fd.Type.Results)
	var goLits []*ast.FuncLit
	inGo := map[*ast.FuncLit]bool{}
	declsOf := func(n ast.Node, into map[string]bool, skip map[*ast.FuncLit]bool) {
		ast.Inspect(n, func(x ast.Node) bool {
			switch v := x.(type) {
			case *ast.FuncLit:
				if skip[v] {
					return false
				}
				for _, f := range v.Type.Params.List {
					for _, nm := range f.Names {
						into[nm.Name] = true
					}
				}
			case *ast.AssignStmt:
				if v.Tok == token.DEFINE {
					for _, l := range v.Lhs {
						if id, ok := l.(*ast.Ident); ok {
							into[id.Name] = true
						}
					}
				}
			case *ast.ValueSpec:
				for _, nm := range v.Names {
					into[nm.Name] = true
				}
			case *ast.RangeStmt:
				if v.Tok == token.DEFINE {
					for _, kv := range []ast.Expr{v.Key, v.Value} {
						if id, ok := kv.(*ast.Ident); ok {
							into[id.Name] = true
						}
					}
				}
			}
			return true
		})
	}
	ast.Inspect(fd.Body, func(x ast.Node) bool {
		if g, ok := x.(*ast.GoStmt); ok {
			if fl, ok := g.Call.Fun.(*ast.FuncLit); ok {
				goLits = append(goLits, fl)
				inGo[fl] = true
			}
		}
		return true
	})
	declsOf(fd.Body, outer, inGo)
	out := map[string]bool{}
	for _, g := range goLits {
		inner := map[string]bool{}
		declsOf(g.Body, inner, nil)
		for _, f := range g.Type.Params.List {
			for _, nm := range f.Names {
				inner[nm.Name] = true
			}
		}
		var visit func(n ast.Node) bool
		visit = func(n ast.Node) bool {
			switch v := n.(type) {
			case *ast.SelectorExpr:
				ast.Inspect(v.X, visit)
				return false
			case *ast.KeyValueExpr:
				if _, ok := v.Key.(*ast.Ident); !ok {
					ast.Inspect(v.Key, visit)
				}
				ast.Inspect(v.Value, visit)
				return false
			case *ast.Ident:
				if outer[v.Name] && !inner[v.Name] {
					out[v.Name] = true
				}
			}
			return true
		}
		ast.Inspect(g.Body, visit)
	}
	return out
}

func (w *connWorld) walkDecl(fd *ast.FuncDecl) {
	if fd.Body == nil {
		return
	}
	recv := recvName(fd)
	name := fd.Name.Name
	if recv != "" {
		name = recv + "." + name
	}
	c := &cctx{fn: name, held: map[string]string{}, dheld: map[string]string{}, vars: map[string]string{}, decl: fd.Name.Name, captured: capturedVars(fd)}
	if w.tracked[recv] {
		c.self = recv
	}
	bindFields := func(fl *ast.FieldList) {
		if fl == nil {
			return
		}
		for _, f := range fl.List {
			if t := trackedTypeName(w, f.Type); t != "" {
				for _, n := range f.Names {
					c.vars[n.Name] = t
				}
			}
		}
	}
	bindFields(fd.Recv)
	bindFields(fd.Type.Params)
	bindFields(fd.Type.Results)
	// a plain function that builds a tracked struct: split at the first top-level statement that starts a goroutine
	builds := false
	if recv == "" {
		ast.Inspect(fd.Body, func(n ast.Node) bool {
			if cl, ok := n.(*ast.CompositeLit); ok && cl.Type != nil && trackedTypeName(w, cl.Type) != "" {
				builds = true
			}
			return !builds
		})
	}
	if !builds {
		w.block(fd.Body.List, c)
		return
	}
	started := false
	for _, s := range fd.Body.List {
		before := len(w.edges)
		if w.stmt(s, c) {
			break
		}
		if started {
			continue
		}
		for _, e := range w.edges[before:] {
			if e[0] == name && (e[1] == "go" || (e[1] != "ref" && w.starts[e[2]])) {
				started = true
				c.fn = name + ".started"
			}
		}
	}
}

func (w *connWorld) computeStarts() {
	w.starts = map[string]bool{}
	for changed := true; changed; {
		changed = false
		for _, e := range w.edges {
			if w.starts[e[0]] || e[1] == "ref" {
				continue
			}
			if e[1] == "go" || w.starts[e[2]] {
				w.starts[e[0]] = true
				changed = true
			}
		}
	}
}

func (w *connWorld) walkAll(pk *pkgInfo) {
	w.reset()
	for _, f := range pk.files {
		for _, d := range f.Decls {
			fd, ok := d.(*ast.FuncDecl)
			if !ok {
				continue
			}
			if r := recvName(fd); w.tracked[r] || (r == "" && w.connFunc(fd.Name.Name)) {
				w.walkDecl(fd)
			} else if r != "" && !w.tracked[r] {
				// methods of other types: only when they bind a tracked struct themselves (none on the current tree)
				uses := false
				ast.Inspect(fd, func(n ast.Node) bool {
					if id, ok := n.(*ast.Ident); ok && w.tracked[id.Name] {
						uses = true
					}
					return !uses
				})
				if uses {
					w.walkDecl(fd)
				}
			}
		}
	}
}

func genConn(pk *pkgInfo) (string, []string) {
	w := newConnWorld(pk)
	w.starts = map[string]bool{}
	w.walkAll(pk) // pass 1: the call edges, to know which functions start goroutines
	w.computeStarts()
	w.walkAll(pk) // pass 2: with the constructor split
	var b strings.Builder
	fmt.Fprintln(&b, "-- GENERATED by /verif/extract (conn.go) from go/client/{tcp_conn,ws_conn,client_conn}.go — do not edit; rewritten by every check run")
	fmt.Fprintln(&b, "namespace OAP.Gen")
	sorted := func(m map[string]bool) []string {
		o := []string{}
		for k := range m {
			o = append(o, k)
		}
		sort.Strings(o)
		return o
	}
	tuple := func(k string, last bool) string {
		parts := strings.Split(k, "|")
		o := []string{}
		for i, p := range parts {
			if last && i == len(parts)-1 {
				ls := []string{}
				if p != "" {
					ls = strings.Split(p, ",")
				}
				o = append(o, q(ls))
			} else {
				o = append(o, strconv.Quote(p))
			}
		}
		return "(" + strings.Join(o, ", ") + ")"
	}
	fs := []string{}
	for _, t := range connTypes {
		names := []string{}
		for _, f := range w.fields[t] {
			names = append(names, f.name)
		}
		sort.Strings(names)
		fs = append(fs, fmt.Sprintf("(%q, %s)", t, q(names)))
	}
	fmt.Fprintf(&b, "def connFields : List (String × List String) := [\n  %s]\n", strings.Join(fs, ",\n  "))
	cs := []string{}
	cstructs := []string{}
	for t := range w.captured {
		cstructs = append(cstructs, t)
	}
	sort.Strings(cstructs)
	for _, t := range cstructs {
		cs = append(cs, fmt.Sprintf("(%q, %s)", t, q(sorted(w.captured[t]))))
	}
	fmt.Fprintf(&b, "def connCaptured : List (String × List String) := [\n  %s]\n", strings.Join(cs, ",\n  "))
	rows := []string{}
	for _, k := range sorted(w.rows) {
		rows = append(rows, tuple(k, true))
	}
	fmt.Fprintf(&b, "def connAccess : List (String × String × String × String × List String) := [\n  %s]\n", strings.Join(rows, ",\n  "))
	calls := []string{}
	for _, k := range sorted(w.calls) {
		calls = append(calls, tuple(k, false))
	}
	fmt.Fprintf(&b, "def connCalls : List (String × String × String × String) := [\n  %s]\n", strings.Join(calls, ",\n  "))
	es := []string{}
	for _, k := range sorted(w.edgeSet) {
		es = append(es, tuple(k, false))
	}
	fmt.Fprintf(&b, "def connEdges : List (String × String × String) := [\n  %s]\n", strings.Join(es, ",\n  "))
	fmt.Fprintln(&b, "end OAP.Gen")
	lost := []string{}
	for _, u := range w.unknown {
		lost = append(lost, "conn "+u)
	}
	return b.String(), lost
}
