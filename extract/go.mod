module oapverif/extract

go 1.23
