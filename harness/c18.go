package main

import (
	"context"
	"encoding/hex"
	"fmt"

	protocol "github.com/longportapp/openapi-protocol/go"
	_ "github.com/longportapp/openapi-protocol/go/v1"
	_ "github.com/longportapp/openapi-protocol/go/v2"
)

func init() { codecGens["C18"] = genC18 }

// C18: the whole finite domain is enumerated on the code side (both tiers).
func genC18(e *emitter, tier string, seed uint64) map[string]interface{} {
	// all 2^16 field tuples over the 4-bit domain
	var prevBytes []byte
	prevHex := ""
	for v := 0; v < 16; v++ {
		for c := 0; c < 16; c++ {
			for p := 0; p < 16; p++ {
				for r := 0; r < 16; r++ {
					h := protocol.Handshake{Version: uint8(v), Codec: protocol.CodecType(c), Platform: protocol.PlatformType(p), Reserve: uint8(r)}
					bs := h.Pack()
					idx := e.op(fmt.Sprintf("hs.pack v=%d c=%d p=%d r=%d", v, c, p, r), hex.EncodeToString(bs), "pack-4bit", true)
					// an encoded handshake stays what it was when the next one is encoded (a connection's writer sends it later)
					if prevBytes != nil && hex.EncodeToString(prevBytes) != prevHex {
						e.fail(idx, "unpack_pack", fmt.Sprintf("the bytes returned by an earlier Pack (%s) changed to %x when %+v was packed", prevHex, prevBytes, h))
						prevBytes = nil
					} else {
						prevBytes, prevHex = bs, hex.EncodeToString(bs)
					}
					// property, directly on the code: decode(encode h) = h
					var g protocol.Handshake
					if err := g.Unpack(bs); err != nil || g != h {
						e.fail(idx, "unpack_pack", fmt.Sprintf("h=%+v bytes=%x decoded=%+v err=%v", h, bs, g, err))
					}
				}
			}
		}
	}
	// fields outside the 4-bit domain (model must agree; not part of the bijection claim)
	rg := &rng{seed ^ 0x18}
	for i := 0; i < 2000; i++ {
		v, c, p, r := rg.intn(256), rg.intn(256), rg.intn(256), rg.intn(256)
		h := protocol.Handshake{Version: uint8(v), Codec: protocol.CodecType(c), Platform: protocol.PlatformType(p), Reserve: uint8(r)}
		e.op(fmt.Sprintf("hs.pack v=%d c=%d p=%d r=%d", v, c, p, r), hex.EncodeToString(h.Pack()), "pack-8bit", true)
	}
	// all 2^16 byte pairs
	for a := 0; a < 256; a++ {
		for b := 0; b < 256; b++ {
			data := []byte{byte(a), byte(b)}
			var h protocol.Handshake
			res := guard(func() string {
				if err := h.Unpack(data); err != nil {
					return "err"
				}
				return fmt.Sprintf("ok %d %d %d %d", h.Version, h.Codec, h.Platform, h.Reserve)
			})
			idx := e.op("hs.unpack hex=hex:"+hex.EncodeToString(data), res, "unpack-pair", true)
			if res == "err" || res == "panic" {
				e.fail(idx, "unpack_two", "two-byte input not accepted: "+res)
			} else if back := h.Pack(); back[0] != data[0] || back[1] != data[1] {
				e.fail(idx, "pack_unpack", fmt.Sprintf("bytes=%x re-encoded=%x", data, back))
			} else if h.Version > 15 || h.Codec > 15 || h.Platform > 15 || h.Reserve > 15 {
				e.fail(idx, "unpack_two", fmt.Sprintf("field outside 4 bits: %+v", h))
			}
		}
	}
	// every input length 0..4 (and a few longer)
	for _, n := range []int{0, 1, 3, 4, 5, 8, 64} {
		for k := 0; k < 8; k++ {
			data := rg.bytes(n)
			var h protocol.Handshake
			res := guard(func() string {
				if err := h.Unpack(data); err != nil {
					return "err"
				}
				return fmt.Sprintf("ok %d %d %d %d", h.Version, h.Codec, h.Platform, h.Reserve)
			})
			idx := e.op("hs.unpack hex=hex:"+hex.EncodeToString(data), res, fmt.Sprintf("unpack-len%d", n), true)
			if res != "err" {
				e.fail(idx, "unpack_len", fmt.Sprintf("input of %d bytes: %s", n, res))
			}
		}
	}
	// all 256 versions: lookup and Context.Handshake
	for v := 0; v < 256; v++ {
		_, err := protocol.GetProtocol(uint8(v))
		res := "ok"
		if err != nil {
			res = "err"
		}
		idx := e.op(fmt.Sprintf("proto.get v=%d", v), res, "lookup", true)
		if (res == "ok") != (v == 1 || v == 2) {
			e.fail(idx, "getProtocol_unregistered", fmt.Sprintf("version %d: %s", v, res))
		}
		c, p, r := rg.intn(16), rg.intn(16), rg.intn(16)
		ctx := protocol.NewContext(context.Background(), protocol.ClientSide)
		h := &protocol.Handshake{Version: uint8(v), Codec: protocol.CodecType(c), Platform: protocol.PlatformType(p), Reserve: uint8(r)}
		res2 := "err"
		if err := ctx.Handshake(h); err == nil {
			res2 = fmt.Sprintf("ok %d %d %d %v", ctx.Version, ctx.Codec, ctx.Platform, ctx.Handshaked)
		}
		idx = e.op(fmt.Sprintf("hs.ctx v=%d c=%d p=%d r=%d", v, c, p, r), res2, "ctx-handshake", true)
		want := "err"
		if v == 1 || v == 2 {
			want = fmt.Sprintf("ok %d %d %d true", v, c, p)
		}
		if res2 != want {
			e.fail(idx, "ctx_handshake_iff", fmt.Sprintf("version %d: got %q want %q", v, res2, want))
		}
		if res2 == "err" && (ctx.Handshaked || ctx.Version != 0) {
			e.fail(idx, "ctx_handshake_iff", "rejected handshake modified the context")
		}
	}
	// a context that already went through a handshake adopts the next accepted one completely (every codec and platform nibble,
	// including 0), and a rejected one leaves it as it was
	for _, first := range [][3]int{{1, 1, 9}, {2, 2, 3}, {2, 15, 15}} {
		for v2 := 0; v2 < 4; v2++ {
			for c2 := 0; c2 < 16; c2++ {
				for _, p2 := range []int{0, 1, 9, 15} {
					ctx := protocol.NewContext(context.Background(), protocol.ClientSide)
					if err := ctx.Handshake(&protocol.Handshake{Version: uint8(first[0]), Codec: protocol.CodecType(first[1]), Platform: protocol.PlatformType(first[2])}); err != nil {
						continue
					}
					err := ctx.Handshake(&protocol.Handshake{Version: uint8(v2), Codec: protocol.CodecType(c2), Platform: protocol.PlatformType(p2)})
					got := fmt.Sprintf("%v %d %d %d", err == nil, ctx.Version, ctx.Codec, ctx.Platform)
					want := fmt.Sprintf("false %d %d %d", first[0], first[1], first[2])
					if v2 == 1 || v2 == 2 {
						want = fmt.Sprintf("true %d %d %d", v2, c2, p2)
					}
					idx := e.op(fmt.Sprintf("ids.note rehandshake first=%v second=%d,%d,%d", first, v2, c2, p2), "ok", "ctx-rehandshake", true)
					if got != want {
						e.fail(idx, "ctx_handshake_adopts", fmt.Sprintf("context after handshake %v then (%d,%d,%d): accepted/version/codec/platform = %s, want %s", first, v2, c2, p2, got, want))
					}
				}
			}
		}
	}
	// the registry as a history: a version registered later is accepted and ADOPTED under the handshake's number (also when the
	// implementation registered under it reports another number of its own); a version withdrawn again (Register(v, nil)) is
	// unregistered for lookup and for Context.Handshake alike. The standard registrations are restored afterwards.
	{
		v2impl, _ := protocol.GetProtocol(2)
		note := func(what string) int { return e.op("ids.note registry "+what, "ok", "registry", true) }
		hs := func(v uint8) (bool, uint8) {
			ctx := protocol.NewContext(context.Background(), protocol.ClientSide)
			err := ctx.Handshake(&protocol.Handshake{Version: v, Codec: protocol.CodecProtobuf, Platform: protocol.PlatformOpenapi})
			return err == nil, ctx.Version
		}
		for _, v := range []uint8{3, 7, 15} {
			if _, err := protocol.GetProtocol(v); err == nil {
				continue
			}
			protocol.Register(v, v2impl)
			idx := note(fmt.Sprintf("register %d", v))
			if _, err := protocol.GetProtocol(v); err != nil {
				e.fail(idx, "getProtocol_unregistered", fmt.Sprintf("version %d was registered and its lookup fails", v))
			}
			if ok, got := hs(v); !ok || got != v {
				e.fail(idx, "ctx_handshake_adopts", fmt.Sprintf("handshake with the newly registered version %d: accepted=%v, context version %d (want accepted, version %d)", v, ok, got, v))
			}
			protocol.Register(v, nil)
			idx = note(fmt.Sprintf("withdraw %d", v))
			if pr, err := protocol.GetProtocol(v); err == nil || pr != nil {
				e.fail(idx, "getProtocol_unregistered", fmt.Sprintf("version %d was withdrawn (Register(v, nil)) and its lookup still succeeds (protocol nil=%v)", v, pr == nil))
			}
			if ok, got := hs(v); ok || got != 0 {
				e.fail(idx, "ctx_handshake_iff", fmt.Sprintf("handshake with the withdrawn version %d: accepted=%v, context version %d (want rejected, context untouched)", v, ok, got))
			}
		}
		for _, v := range []uint8{1, 2} {
			if ok, got := hs(v); !ok || got != v {
				idx := note("standard registrations intact")
				e.fail(idx, "ctx_handshake_iff", fmt.Sprintf("after the registry history version %d: accepted=%v version=%d", v, ok, got))
			}
		}
	}
	return map[string]interface{}{"exhaustive": true}
}
