package main

import (
	"bytes"
	"fmt"
	"strings"

	"github.com/Allenxuxu/ringbuffer"
	protocol "github.com/longportapp/openapi-protocol/go"
)

func init() { codecGens["C03"] = genC03 }

func showRingGo(rb *ringbuffer.RingBuffer) string {
	f, e := rb.PeekAll()
	em := 0
	if rb.IsEmpty() {
		em = 1
	}
	return fmt.Sprintf("len=%d cap=%d e=%d fl=%d,%d", rb.Length(), rb.Capacity(), em, len(f), len(e))
}

// ringCase: a random operation sequence on the real ring buffer, printed like the model's `ring` op,
// with a shadow byte queue as the direct statement of "the ring is a byte queue"
func ringCase(e *emitter, rg *rng, nops int) {
	var rb *ringbuffer.RingBuffer
	var shadow []byte
	init := ""
	if rg.intn(4) == 0 {
		d := rg.bytes(1 + rg.intn(12))
		rb = ringbuffer.NewWithData(append([]byte{}, d...))
		shadow = append([]byte{}, d...)
		init = "data:" + hexSpec(d).String()
	} else {
		c := rg.pick([]int{1, 2, 3, 4, 5, 8, 13, 16})
		rb = ringbuffer.New(c)
		init = fmt.Sprintf("new:%d", c)
	}
	ops, outs := []string{}, []string{}
	bad := ""
	for i := 0; i < nops; i++ {
		var op, ret string
		switch rg.intn(10) {
		case 0, 1, 2:
			p := rg.bytes(rg.intn(9))
			if rg.intn(8) == 0 {
				p = rg.bytes(10 + rg.intn(30))
			}
			rb.Write(p)
			shadow = append(shadow, p...)
			op, ret = "w:"+hexSpec(p).String(), fmt.Sprintf("w%d", len(p))
		case 3, 4:
			n := rg.intn(8)
			p := make([]byte, n)
			k, err := rb.Read(p)
			op = fmt.Sprintf("r:%d", n)
			if err != nil {
				ret = "r=err"
				if len(shadow) != 0 && n != 0 {
					bad = "Read failed on a non-empty ring"
				}
			} else {
				ret = "r=" + showBytes(p[:k])
				if !bytes.Equal(p[:k], shadow[:min(n, len(shadow))]) {
					bad = "Read returned other bytes than the queue head"
				}
				shadow = shadow[min(n, len(shadow)):]
			}
		case 5:
			n := rg.intn(10)
			f, en := rb.Peek(n)
			op, ret = fmt.Sprintf("p:%d", n), "p="+showBytes(f)+"+"+showBytes(en)
			if !bytes.Equal(append(append([]byte{}, f...), en...), shadow[:min(n, len(shadow))]) {
				bad = "Peek returned other bytes than the queue head"
			}
		case 6:
			n := rg.intn(8)
			rb.Retrieve(n)
			shadow = shadow[min(n, len(shadow)):]
			op, ret = fmt.Sprintf("t:%d", n), "t"
		case 7:
			k := rg.intn(4)
			need := []int{1, 2, 4, 8}[k]
			op = []string{"u8", "u16", "u32", "u64"}[k]
			var v uint64
			r := guard(func() string {
				switch k {
				case 0:
					v = uint64(rb.PeekUint8())
				case 1:
					v = uint64(rb.PeekUint16())
				case 2:
					v = uint64(rb.PeekUint32())
				case 3:
					v = rb.PeekUint64()
				}
				return "ok"
			})
			if r == "panic" {
				ret = op + "=panic"
			} else {
				ret = fmt.Sprintf("%s=%d", op, v)
				var want uint64
				if len(shadow) >= need {
					for _, b := range shadow[:need] {
						want = want<<8 | uint64(b)
					}
				}
				if v != want {
					bad = fmt.Sprintf("%s returned %d, queue head says %d", op, v, want)
				}
			}
		case 8:
			f, en := rb.PeekAll()
			op, ret = "all", "all="+showBytes(f)+"+"+showBytes(en)
			if !bytes.Equal(append(append([]byte{}, f...), en...), shadow) {
				bad = "PeekAll differs from the queue"
			}
		default:
			op, ret = "len", "len"
		}
		if rb.Length() != len(shadow) && bad == "" {
			bad = fmt.Sprintf("Length %d, queue has %d bytes", rb.Length(), len(shadow))
		}
		ops = append(ops, op)
		outs = append(outs, ret+" "+showRingGo(rb))
	}
	idx := e.op("ring init="+init+" ops="+strings.Join(ops, ";"), strings.Join(outs, " | "), "ring", true)
	if bad != "" {
		e.fail(idx, "ring_is_queue", bad)
	}
}

type gzEntry struct {
	fnv  uint64
	n    int
	kind string
	data []byte
}

func gztToken(es []gzEntry) string {
	if len(es) == 0 {
		return ""
	}
	parts := []string{}
	for _, g := range es {
		s := fmt.Sprintf("%d:%d:%s", g.fnv, g.n, g.kind)
		if g.kind == "ok" {
			s += ":" + hexSpec(g.data).String()
		}
		parts = append(parts, s)
	}
	return " gzt=" + strings.Join(parts, ",")
}

func gzEntryFor(section []byte) gzEntry {
	k, p := stdRead(section)
	return gzEntry{fnv: fnv1a(section), n: len(section), kind: k, data: p}
}

type streamResult struct {
	text    string
	packets []string // showPacket of every delivered packet, in order
	err     bool
	panic   bool
	left    int
	calls   int
	lastLen int
}

// runStream drives the real streaming decoder exactly like the model's `stream` op
func runStream(version int, codec protocol.CodecType, capacity, pre int, chunks []int, data []byte) streamResult {
	var sr streamResult
	rb := ringbuffer.New(capacity)
	if pre > 0 {
		rb.Write(bytes.Repeat([]byte{0xEE}, pre))
		rb.Read(make([]byte, pre))
	}
	ctx := newCtx(version, codec)
	p := proto(version)
	rest := data
	outs := []string{}
	stop := false
	var held []*protocol.Packet
	for ci, n := range chunks {
		if stop {
			break
		}
		if ci > 0 {
			// between two pieces of this connection's stream other users of the codec's shared pools run (another connection's
			// decoder, an encoder): whatever this connection has parked must not be affected
			otherPoolUsers(version)
		}
		if n > len(rest) {
			n = len(rest)
		}
		chunk := rest[:n]
		rest = rest[n:]
		rb.Write(chunk)
		calls := []string{}
		for {
			before := rb.Length()
			var pk *protocol.Packet
			var done bool
			var err error
			r := guard(func() string {
				pk, done, err = p.Unpack(ctx, rb)
				return "ok"
			})
			sr.calls++
			s := ""
			switch {
			case r == "panic":
				s, stop, sr.panic = "panic", true, true
			case err != nil:
				s, stop, sr.err = "err", true, true
			case done:
				s = "pkt " + showPacket(pk)
				sr.packets = append(sr.packets, showPacket(pk))
				held = append(held, pk)
				if rb.Length() >= before {
					sr.text = "NOPROGRESS"
				}
			default:
				s = "more"
			}
			calls = append(calls, fmt.Sprintf("%s len=%d", s, rb.Length()))
			if stop || !done {
				break
			}
		}
		outs = append(outs, fmt.Sprintf("[w%d: %s]", len(chunk), strings.Join(calls, "; ")))
	}
	if sr.text == "NOPROGRESS" {
		sr.text = "NOPROGRESS " + strings.Join(outs, " ")
	} else {
		sr.text = strings.Join(outs, " ")
	}
	sr.left = rb.Length()
	// the packets handed out stay what they were when the buffer they were decoded from is reused for later input: cycle the write
	// position through the whole ring (without growing it), then look at the packets again
	if !sr.panic && len(held) > 0 {
		guard(func() string {
			for round := 0; round < 3; round++ {
				if free := rb.Capacity() - rb.Length(); free > 0 {
					rb.Write(bytes.Repeat([]byte{0xA5}, free))
					rb.Retrieve(free)
				}
			}
			return "ok"
		})
		for i, pk := range held {
			if now := showPacket(pk); now != sr.packets[i] {
				streamUnstable = append(streamUnstable, fmt.Sprintf("v%d cap=%d pre=%d chunks=%s: packet %d was %s when it was delivered and is %s after the ring buffer was reused for later input",
					version, capacity, pre, chunkList(chunks), i, sr.packets[i][:min(160, len(sr.packets[i]))], now[:min(160, len(now))]))
				break
			}
		}
	}
	return sr
}

// streamUnstable collects delivered packets that changed afterwards (aliasing of the decoder's buffers); the generators report them
var streamUnstable []string

func flushUnstable(e *emitter, class string) {
	if len(streamUnstable) == 0 {
		return
	}
	idx := e.op("gz.note concurrent retained-packets "+class, "done", "retained", true)
	e.fail(idx, "delivered_packets_stable", streamUnstable[0])
	streamUnstable = nil
}

// otherPoolUsers: one encode and two decodes of unrelated packets on fresh contexts of the same version, on the calling goroutine
func otherPoolUsers(version int) {
	defer func() { recover() }()
	pk := &pkt{version: version, typ: "push", cmd: 77, body: bspec{kind: "rep", b: 'o', n: 9}}
	if version == 2 {
		pk.pairs = [][2]item{{item{data: []byte("other")}, item{data: []byte("conn")}}}
	}
	f, err := proto(version).Pack(newCtx(version, protocol.CodecProtobuf), pk.build(protocol.CodecProtobuf))
	if err != nil {
		return
	}
	proto(version).UnpackBytes(newCtx(version, protocol.CodecProtobuf), f)
	proto(version).Unpack(newCtx(version, protocol.CodecProtobuf), ringbuffer.NewWithData(append([]byte{}, f...)))
}

func chunkList(chunks []int) string {
	s := make([]string, len(chunks))
	for i, c := range chunks {
		s[i] = fmt.Sprint(c)
	}
	return strings.Join(s, ",")
}

// partitions of n bytes
func partitions(rg *rng, n int, kind int) []int {
	switch kind {
	case 0:
		return []int{n}
	case 1:
		out := make([]int, n)
		for i := range out {
			out[i] = 1
		}
		return out
	}
	out := []int{}
	for n > 0 {
		c := 1 + rg.intn(rg.pick([]int{2, 5, 17, 64, 300}))
		if c > n {
			c = n
		}
		out = append(out, c)
		n -= c
	}
	return out
}

// a random valid frame (built with the independent spec encoder) + its isolated decode by the real one-shot decoder
func genValidFrame(rg *rng, version int, small bool) ([]byte, *gzEntry) {
	typ := 1 + rg.intn(3)
	f := specFrame{typ: typ, verify: rg.intn(2), gzip: 0, reserve: rg.intn(4), cmd: rg.intn(256), rid: uint32(rg.next()), to: uint16(rg.next()), st: uint8(rg.next()),
		nonce: rg.next(), sig: rg.bytes(16)}
	n := rg.pick([]int{0, 0, 1, 2, 3, 7, 20, 60})
	if !small {
		n = rg.pick([]int{0, 1, 5, 100, 255, 256, 257, 1000, 5000})
	}
	f.body = rg.bytes(n)
	var ge *gzEntry
	if rg.intn(5) == 0 {
		f.gzip = 1
		f.body = stdCompress(f.body)
		g := gzEntryFor(f.body)
		ge = &g
	}
	if version == 2 {
		switch rg.intn(3) {
		case 1:
			f.md = append(encStr([]byte("Key")), encStr(rg.bytes(rg.intn(5)))...)
		case 2:
			f.md = append(append(encStr([]byte("a")), encStr([]byte("b"))...), append(encStr([]byte("LONG")), encStr(bytes.Repeat([]byte{'x'}, 130+rg.intn(100)))...)...)
		}
	}
	return specEncode(version, f), ge
}

func genC03(e *emitter, tier string, seed uint64) map[string]interface{} {
	defer flushUnstable(e, "C03")
	rg := &rng{seed ^ 0x03}
	thorough := tier == "thorough"
	// (a) ring buffer operation sequences
	nRing := 400
	if thorough {
		nRing = 6000
	}
	for i := 0; i < nRing; i++ {
		ringCase(e, rg, 6+rg.intn(30))
	}
	// (b) frame sequences x chunkings x capacities x offsets
	caps := []int{1, 2, 3, 5, 8, 13, 16, 64, 4096}
	streamCase := func(version int, frames [][]byte, gzs []gzEntry, partial []byte, capacity, pre int, chunks []int, class string) {
		var data []byte
		for _, f := range frames {
			data = append(data, f...)
		}
		data = append(data, partial...)
		sr := runStream(version, protocol.CodecProtobuf, capacity, pre, chunks, data)
		line := fmt.Sprintf("stream v=%d codec=1 cap=%d pre=%d chunks=%s hex=%s%s", version, capacity, pre, chunkList(chunks), hexSpec(data).String(), gztToken(gzs))
		idx := e.op(line, sr.text, class, true)
		// the property on the real code: the delivered packets are the isolated decodes of the frames, in order
		want := []string{}
		for _, f := range frames {
			p, err := proto(version).UnpackBytes(newCtx(version, protocol.CodecProtobuf), f)
			if err != nil {
				e.fail(idx, "generator", "isolated decode of a generated frame failed")
				return
			}
			want = append(want, showPacket(p))
		}
		key := fmt.Sprintf("chunking_independent:v%d", version)
		switch {
		case sr.panic:
			e.fail(idx, key, "streaming decoder panicked")
		case sr.err:
			e.fail(idx, key, "streaming decoder reported an error on a valid stream")
		case strings.HasPrefix(sr.text, "NOPROGRESS"):
			e.fail(idx, "progress", "a call reported a packet without consuming a byte")
		case len(sr.packets) != len(want):
			e.fail(idx, key, fmt.Sprintf("%d packets delivered, %d frames sent (cap=%d pre=%d chunks=%s)", len(sr.packets), len(want), capacity, pre, chunkList(chunks)))
		default:
			for i := range want {
				if want[i] != sr.packets[i] {
					e.fail(idx, key, fmt.Sprintf("packet %d differs from the isolated decode of frame %d (cap=%d pre=%d)", i, i, capacity, pre))
					break
				}
			}
			if sr.left != len(partial)-consumedOfPartial(version, partial) {
				e.fail(idx, fmt.Sprintf("frames_in_order:v%d", version), fmt.Sprintf("left-over %d bytes, expected the partial frame's undecoded bytes (partial=%d)", sr.left, len(partial)))
			}
		}
	}
	nSeq := 60
	if thorough {
		nSeq = 700
	}
	for i := 0; i < nSeq; i++ {
		version := 1 + i%2
		nf := 1 + rg.intn(4)
		frames := [][]byte{}
		gzs := []gzEntry{}
		total := 0
		for j := 0; j < nf; j++ {
			f, g := genValidFrame(rg, version, i%3 != 0)
			frames = append(frames, f)
			if g != nil {
				gzs = append(gzs, *g)
			}
			total += len(f)
		}
		var partial []byte
		if rg.intn(2) == 0 {
			f, _ := genValidFrame(rg, version, true)
			partial = f[:rg.intn(len(f))]
		}
		n := total + len(partial)
		// every cut position of the first and of the last frame (two chunks), on a small ring with a moved offset
		if total <= 400 || thorough {
			first, last := len(frames[0]), total-len(frames[nf-1])
			for cut := 1; cut < n; cut++ {
				if (cut <= first || cut >= last) && (cut < 64 || thorough || cut > n-40) {
					c := rg.pick(caps)
					streamCase(version, frames, gzs, partial, c, rg.intn(c+1), []int{cut, n - cut}, "stream/two-chunks-every-cut")
				}
			}
		}
		// whole, all-1-byte, random partitions x capacities x offsets
		for kind := 0; kind < 5; kind++ {
			if kind == 1 && n > 700 && !thorough {
				continue
			}
			c := rg.pick(caps)
			streamCase(version, frames, gzs, partial, c, rg.intn(c+1), partitions(rg, n, kind), []string{"stream/whole", "stream/1-byte-chunks", "stream/random-partition", "stream/random-partition", "stream/random-partition"}[kind])
		}
	}
	// every wrap offset of every header field: one frame, ring of exactly-fitting small capacity, pre = 0..cap
	for _, version := range []int{1, 2} {
		for typ := 1; typ <= 3; typ++ {
			f := specFrame{typ: typ, verify: 1, cmd: 9, rid: 0x01020304, to: 0x0506, st: 7, body: []byte{1, 2, 3}, nonce: 0x1112131415161718, sig: rg.bytes(16)}
			if version == 2 {
				f.md = append(encStr([]byte("k")), encStr([]byte("v"))...)
			}
			frame := specEncode(version, f)
			for _, c := range []int{len(frame), len(frame) + 1, len(frame) + 3, 64} {
				for pre := 0; pre <= c; pre++ {
					if pre > 48 && !thorough {
						break
					}
					streamCase(version, [][]byte{frame}, nil, nil, c, pre, []int{len(frame)}, "stream/every-wrap-offset")
					if pre%3 == 0 {
						streamCase(version, [][]byte{frame, frame}, nil, nil, c, pre, partitions(rg, 2*len(frame), 2), "stream/every-wrap-offset")
					}
				}
			}
		}
	}
	// v2: a metadata block whose length needs BOTH bytes of metadata_len (256 bytes and more): that field, read at every position around
	// the physical end of the ring (the frame starts 0..16 bytes before the end), is the block's length — high byte included
	for typ := 1; typ <= 3; typ++ {
		for _, vl := range []int{250, 300, 33000 - 32767 + 32000} {
			f := specFrame{typ: typ, verify: typ % 2, cmd: 9, rid: 0x01020304, to: 0x0506, st: 7, body: []byte{1, 2, 3}, nonce: 0x1112131415161718, sig: rg.bytes(16)}
			f.md = append(append(encStr([]byte("k")), encStr(bytes.Repeat([]byte{'v'}, vl))...), append(encStr([]byte("second")), encStr([]byte("x"))...)...)
			frame := specEncode(2, f)
			c := len(frame) + 2
			for back := 0; back <= 16; back++ {
				streamCase(2, [][]byte{frame}, nil, nil, c, c-back, []int{len(frame)}, "stream/wrap-offset-long-metadata")
			}
		}
	}
	// the same for bodies whose length needs all three bytes of the length field (65536 and beyond): the field, the other multi-byte
	// header fields and the trailer land on every position around the physical end of an exactly-fitting ring
	for _, version := range []int{1, 2} {
		for typ := 1; typ <= 3; typ++ {
			for _, bl := range []int{65536, 0x012345} {
				if bl != 65536 && !thorough {
					continue
				}
				body := make([]byte, bl)
				for i := range body {
					body[i] = byte(i*7 + typ)
				}
				f := specFrame{typ: typ, verify: 1, cmd: 9, rid: 0x01020304, to: 0x0506, st: 7, body: body, nonce: 0x1112131415161718, sig: rg.bytes(16)}
				if version == 2 {
					f.md = append(encStr([]byte("k")), encStr([]byte("v"))...)
				}
				frame := specEncode(version, f)
				c := len(frame)
				for _, pre := range []int{c - 20, c - 19, c - 18, c - 17, c - 16, c - 15, c - 14, c - 13, c - 12, c - 11, c - 10, c - 9, c - 8, c - 7, c - 6, c - 5, c - 4, c - 3, c - 2, c - 1, c, 1, 2, 3, 9, 17, 24, 25} {
					streamCase(version, [][]byte{frame}, nil, nil, c, pre, []int{len(frame)}, "stream/wrap-offset-long-body")
				}
			}
		}
	}
	return map[string]interface{}{}
}

// a strict prefix of a valid frame is never consumed beyond its header bytes: the decoder keeps body/trailer bytes buffered.
// Returns how many bytes of the partial frame the decoder has consumed (header bytes it could complete, or 1 type byte).
func consumedOfPartial(version int, partial []byte) int {
	if len(partial) == 0 {
		return 0
	}
	t := int(partial[0] & 0xf)
	hl := map[int]int{1: 11, 2: 10, 3: 5}[t]
	if version == 2 {
		hl += 2
	}
	if len(partial) >= hl {
		return hl
	}
	return 1
}
