package main

// Scenarios added after the fourth wave of seeded changes (each is a general statement of a clause of its property; none refers to a patch).

import (
	"context"
	"fmt"
	"strings"
	"sync"
	"sync/atomic"
	"time"

	control "github.com/longportapp/openapi-protobufs/gen/go/control"
	protocol "github.com/longportapp/openapi-protocol/go"
	"github.com/longportapp/openapi-protocol/go/client"
)

func init() {
	// C18 at the client: Dial resolves the protocol of the handshake version BEFORE it opens a connection — for all 256 version numbers a
	// dial succeeds exactly for the registered versions, and the peer sees exactly those connections
	register(&scenario{Name: "c18/dial-all-versions", Props: []string{"C18"}, Quick: true, Run: func(t *T) {
		p := newPeer(t, t.Transport, t.Version)
		defer p.Shutdown()
		p.onFrame = func(pc *peerConn, f frameIn) { stdReply(pc, f) }
		okDials := 0
		for v := 0; v < 256; v++ {
			cl := client.New(client.WithLogger(capLogger{t}))
			ctx, cancel := context.WithTimeout(context.Background(), t.U(10))
			err := cl.Dial(ctx, p.URL(), &protocol.Handshake{Version: uint8(v), Codec: protocol.CodecProtobuf, Platform: protocol.PlatformOpenapi}, client.DialTimeout(t.U(6)))
			cancel()
			registered := v == 1 || v == 2
			if (err == nil) != registered {
				t.Check("dial_registered_only", false, "Dial with handshake version %d: err=%v (registered versions are 1 and 2)", v, err)
			}
			if err == nil {
				okDials++
			}
			cl.Close(nil)
		}
		t.Sleep(4)
		t.Check("dial_registered_only", p.Dials() == okDials && okDials == 2, "256 dials, one per version number: %d succeeded, the peer accepted %d connections (want 2 and 2)", okDials, p.Dials())
	}})

	// C13: well-formed pushes followed, in the SAME write, by bytes that do not decode: everything decoded before the fault is delivered
	register(&scenario{Name: "c13/pushes-then-garbage-same-write", Props: []string{"C13", "C03"}, Quick: true, Transports: []string{"tcp"}, Run: func(t *T) {
		p := newPeer(t, t.Transport, t.Version)
		defer p.Shutdown()
		var mu sync.Mutex
		var got []string
		p.onFrame = func(pc *peerConn, f frameIn) {
			if stdReply(pc, f) {
				return
			}
			if f.Typ == 1 && f.Cmd == 100 && pc.N == 1 {
				var buf []byte
				for i := 0; i < 6; i++ {
					buf = append(buf, specEncode(p.version, pushFrame(50, []byte(fmt.Sprintf("p%02d", i))))...)
				}
				buf = append(buf, 0x0f, 0xee, 0x01, 0x02, 0x03, 0x04, 0x05, 0x06, 0x07, 0x08) // unknown packet type
				pc.SendRaw(buf)
				return
			}
			if f.Typ == 1 && f.Cmd >= 100 {
				pc.Send(respFrame(f, 0, f.Body))
			}
		}
		cfg := defaultCfg()
		cfg.Handlers = map[uint32][]func(*protocol.Packet){50: {func(pk *protocol.Packet) {
			mu.Lock()
			got = append(got, string(pk.Body))
			mu.Unlock()
		}}}
		cl, err := t.NewClient(p, cfg)
		if err != nil {
			t.Check("setup", false, "dial: %v", err)
			return
		}
		defer cl.Close(nil)
		t.Do(cl, "burst", 100, 4)
		t.Sleep(8)
		mu.Lock()
		defer mu.Unlock()
		t.Check("dispatch_spec", strings.Join(got, ",") == "p00,p01,p02,p03,p04,p05" && t.Warns("drop") == 0, "6 pushes were decoded before an undecodable frame in the same segment (no overflow logged); delivered: %v", got)
		t.Check("tcp_reading_spec", strings.Join(got, ",") == "p00,p01,p02,p03,p04,p05", "frames sent before the fault: 6, delivered: %v", got)
	}})

	// C16: a connection is closed while its reader still holds a long batch of small frames of one read and the handler is slow: the
	// reader goroutine must end (nothing may wait forever for room in a queue nobody drains any more)
	register(&scenario{Name: "c16/close-during-long-batch", Props: []string{"C16", "C14"}, Quick: true, Transports: []string{"tcp"}, Run: func(t *T) {
		for cycle := 0; cycle < 4; cycle++ {
			p := newPeer(t, t.Transport, t.Version)
			var buf []byte
			for i := 0; i < 6000; i++ {
				buf = append(buf, specEncode(p.version, pushFrame(50, []byte("x")))...)
			}
			p.onFrame = func(pc *peerConn, f frameIn) {
				if stdReply(pc, f) {
					return
				}
				if f.Typ == 1 && f.Cmd == 100 {
					pc.SendRaw(buf)
				}
			}
			cfg := defaultCfg()
			first := make(chan struct{}, 1)
			cfg.Handlers = map[uint32][]func(*protocol.Packet){50: {func(pk *protocol.Packet) {
				select {
				case first <- struct{}{}:
				default:
				}
				time.Sleep(200 * time.Microsecond)
			}}}
			cl, err := t.NewClient(p, cfg)
			if err != nil {
				t.Check("setup", false, "dial: %v", err)
				p.Shutdown()
				return
			}
			t.DoAsync(cl, fmt.Sprintf("burst-%d", cycle), 100, 2)
			select {
			case <-first:
			case <-time.After(t.U(40)):
			}
			cl.Close(nil)
			t.Join()
			p.Shutdown()
		}
		t.Sleep(6)
		n, where := libGoroutines()
		for i := 0; i < 20 && n > 0; i++ {
			t.Sleep(1)
			n, where = libGoroutines()
		}
		t.Check("client_threads_exit", n == 0, "%d library goroutine(s) alive after 4 cycles of Close during a long batch of frames: %s", n, where)
	}})

	// C14 / C16: Close with accepted but unsent frames in the transport (a peer that stopped reading): Close returns promptly and the
	// socket is closed — the peer's kernel sees the connection end although the peer reads nothing
	register(&scenario{Name: "c14/close-with-unsent-frames", Props: []string{"C14", "C16"}, Quick: true, Run: func(t *T) {
		p := newPeer(t, t.Transport, t.Version)
		defer p.Shutdown()
		p.onConn = func(pc *peerConn) { pc.Stall(true) }
		p.onFrame = func(pc *peerConn, f frameIn) { stdReply(pc, f) }
		cfg := defaultCfg()
		cfg.MinGzip = 1 << 30
		cfg.WriteQueue = 16
		cl, err := t.NewClient(p, cfg)
		if err != nil {
			t.Check("setup", false, "dial: %v", err)
			return
		}
		first := p.FirstConn()
		body := strings.Repeat("u", 1<<20)
		for i := 0; i < 10; i++ {
			go cl.Do(contextBG(), &clientRequest{Cmd: 100, Body: &control.AuthRequest{Token: body}}, reqTimeout(t.U(3)))
		}
		t.Sleep(3)
		done := make(chan struct{})
		go func() { cl.Close(nil); close(done) }()
		select {
		case <-done:
		case <-time.After(t.U(40)):
			t.Check("close_prompt", false, "Close did not return within 40 units with unsent frames queued")
		}
		t.Sleep(5)
		st := first.clientKernelState()
		t.Check("close_final:conn_closed", st != "01", "5 units after Close returned the client still holds its socket open (kernel state %q): the transport keeps it to flush frames", st)
		t.Check("sockets_released", st != "01", "the client's socket is still open (kernel state %q) after Close with unsent frames", st)
		n, where := libGoroutines()
		for i := 0; i < 80 && n > 0; i++ {
			t.Sleep(1)
			n, where = libGoroutines()
		}
		t.Check("client_threads_exit", n == 0, "%d library goroutine(s) alive after Close with unsent frames: %s", n, where)
	}})

	// C15 on a JSON-codec connection (the heartbeat body is then JSON on both transports): a peer that answers every heartbeat is not recycled
	register(&scenario{Name: "c15/healthy-json-codec", Codec: protocol.CodecJSON, Props: []string{"C15", "C20"}, Quick: true, Run: func(t *T) {
		p := newPeer(t, t.Transport, t.Version)
		defer p.Shutdown()
		p.onFrame = func(pc *peerConn, f frameIn) {
			if f.WsKind == "ping" {
				pc.WsControl(10, f.Body)
				return
			}
			if (f.WsKind == "" || f.WsKind == "binary") && f.Typ == 1 && f.Cmd == 1 {
				pc.Send(respFrame(f, 0, f.Body))
			}
		}
		cfg := defaultCfg()
		cfg.KeepaliveU, cfg.KeepaliveTimeoutU = 2, 5
		cl, err := t.NewClient(p, cfg)
		if err != nil {
			t.Check("setup", false, "dial: %v", err)
			return
		}
		defer cl.Close(nil)
		t.Sleep(40)
		t.Check("no_false_positive", p.Dials() == 1, "JSON codec: a peer that answers every heartbeat (interval 2, timeout 5) saw %d connections in 20 intervals", p.Dials())
		t.Check("timing:heartbeat_rate", atomic.LoadInt32(&t.pongCb) >= 8, "JSON codec: only %d pong callbacks in 20 intervals", atomic.LoadInt32(&t.pongCb))
		t.ev("c20.trace", "canon", fmt.Sprintf("connections=%d pongs>=8:%v", p.Dials(), atomic.LoadInt32(&t.pongCb) >= 8), "connections", p.Dials())
	}})

	// C15: the freshly re-dialled connection is lost while the first recovery is still finishing (its after-reconnect callback is running, so
	// close notifications are ignored); keepalive is then the detector: the client must arrive on a third connection soon after
	register(&scenario{Name: "c15/loss-during-after-reconnect-callback", Props: []string{"C15", "C08"}, Quick: true, Run: func(t *T) {
		p := newPeer(t, t.Transport, t.Version)
		defer p.Shutdown()
		p.onConn = func(pc *peerConn) {
			if pc.N == 2 {
				go func() { time.Sleep(t.U(2)); pc.Drop() }()
			}
		}
		p.onFrame = func(pc *peerConn, f frameIn) {
			if f.WsKind == "ping" {
				pc.WsControl(10, f.Body)
				return
			}
			if f.WsKind != "" && f.WsKind != "binary" {
				return
			}
			if f.Typ != 1 {
				return
			}
			switch f.Cmd {
			case 1:
				pc.Send(respFrame(f, 0, f.Body))
			case 199:
				pc.Drop()
			case 100:
				pc.Send(respFrame(f, 0, f.Body))
			}
		}
		cfg := defaultCfg()
		cfg.KeepaliveU, cfg.KeepaliveTimeoutU = 2, 6
		cfg.AfterRecSleepU = 10
		cl, err := t.NewClient(p, cfg)
		if err != nil {
			t.Check("setup", false, "dial: %v", err)
			return
		}
		defer cl.Close(nil)
		t.DoAsync(cl, "loss", 199, 2)
		t.Sleep(50)
		t.Join()
		t.Check("detects_dead", p.Dials() >= 3, "connection 2 was lost while the after-reconnect callback of the first recovery was running (10 units); 50 units later the client is still on %d connection(s): nothing noticed the loss", p.Dials())
		r := t.Do(cl, "after", 100, 6)
		t.Check("serves_again", r.Err == nil, "request after the second recovery: %v", r.Err)
	}})

	// C06: keepalive ticking very fast against a peer that drops every connection shortly after accepting it, with requests issued all
	// the time: whatever interleaving of ping, loss notification and recovery happens, calls keep returning and Close returns
	register(&scenario{Name: "c06/keepalive-storm-vs-drops", Props: []string{"C06", "C14"}, Quick: true, TimeoutU: 400, Run: func(t *T) {
		p := newPeer(t, t.Transport, t.Version)
		defer p.Shutdown()
		p.onConn = func(pc *peerConn) {
			go func() { time.Sleep(2 * time.Millisecond); pc.Drop() }()
		}
		p.onFrame = func(pc *peerConn, f frameIn) {
			if f.WsKind == "ping" {
				pc.WsControl(10, f.Body)
				return
			}
			if (f.WsKind == "" || f.WsKind == "binary") && f.Typ == 1 {
				pc.Send(respFrame(f, 0, f.Body))
			}
		}
		cfg := defaultCfg()
		cfg.KeepaliveRaw, cfg.KeepaliveTimeoutRaw = 30*time.Microsecond, 5*time.Second
		cl, err := t.NewClient(p, cfg)
		if err != nil {
			t.Check("setup", false, "dial: %v", err)
			return
		}
		var returned, issued int32
		stop := time.Now().Add(t.U(40))
		var wg sync.WaitGroup
		for g := 0; g < 3; g++ {
			wg.Add(1)
			go func() {
				defer wg.Done()
				for time.Now().Before(stop) {
					atomic.AddInt32(&issued, 1)
					func() {
						defer func() { recover() }()
						cl.Do(contextBG(), &clientRequest{Cmd: 100, Body: &control.AuthRequest{Token: "x"}}, reqTimeout(t.U(2)))
					}()
					atomic.AddInt32(&returned, 1)
					time.Sleep(time.Millisecond)
				}
			}()
		}
		fin := make(chan struct{})
		go func() { wg.Wait(); close(fin) }()
		select {
		case <-fin:
		case <-time.After(t.U(40) + t.U(30)):
			t.Check("do_terminates", false, "%d of %d request calls issued during a keepalive storm against a dropping peer have not returned 30 units after the last one was issued (request timeout 2 units)", atomic.LoadInt32(&issued)-atomic.LoadInt32(&returned), atomic.LoadInt32(&issued))
		}
		done := make(chan struct{})
		go func() { cl.Close(nil); close(done) }()
		select {
		case <-done:
		case <-time.After(t.U(40)):
			t.Check("close_prompt", false, "Close did not return within 40 units after the keepalive storm")
		}
		t.Check("do_terminates", atomic.LoadInt32(&issued) > 10, "only %d calls were issued in 40 units", atomic.LoadInt32(&issued))
	}})
}

func init() {
	// C05: the peer originates requests of its own, numbered like the client's (1, 2, 3, … per connection), so their ids collide with the
	// ids of outstanding calls; a request-type (or push-type) frame is never the response to a call
	register(&scenario{Name: "c05/peer-request-with-outstanding-id", Props: []string{"C05", "C07"}, Quick: true, Run: func(t *T) {
		p := newPeer(t, t.Transport, t.Version)
		defer p.Shutdown()
		p.onFrame = func(pc *peerConn, f frameIn) {
			if stdReply(pc, f) {
				return
			}
			if f.Typ == 1 && f.Cmd == 100 {
				// a request and a push carrying the caller's id first, then the real response
				pc.SendRaw(specEncode(p.version, specFrame{typ: 1, cmd: 60, rid: f.Rid, body: []byte("peer-request")}))
				pc.SendRaw(specEncode(p.version, specFrame{typ: 3, cmd: 61, rid: f.Rid, body: []byte("peer-push")}))
				pc.Send(respFrame(f, 0, f.Body))
			}
		}
		cl, err := t.NewClient(p, defaultCfg())
		if err != nil {
			t.Check("setup", false, "dial: %v", err)
			return
		}
		defer cl.Close(nil)
		bad := ""
		for i := 0; i < 30 && bad == ""; i++ {
			tag := int32(300 + i)
			res, err := doTagged(t, cl, 100, tag, 10)
			switch {
			case err != nil:
				bad = fmt.Sprintf("call %d failed: %v", i, err)
			case res.Metadata.Type != protocol.ResponsePacket:
				bad = fmt.Sprintf("call %d returned a %v-type frame (cmd %d, body %q) as its response", i, res.Metadata.Type, res.Metadata.CmdCode, res.Body)
			case tagOfBody(res.Body) != tag:
				bad = fmt.Sprintf("call %d returned body %q, not its own answer", i, res.Body)
			}
		}
		t.Check("do_returns_own_id", bad == "", "the peer sends a request and a push with the id of the outstanding call before the response: %s", bad)
		t.Check("no_lost_wakeup", bad == "", "%s", bad)
	}})
}

func init() {
	// C03 / C13 across a reconnect: a connection is lost in the middle of a frame; the new connection's stream starts with a clean
	// decoder — nothing of the lost connection's incomplete frame is seen on it
	register(&scenario{Name: "c03/partial-frame-then-reconnect", Props: []string{"C03", "C13"}, Quick: true, Transports: []string{"tcp"}, Run: func(t *T) {
		p := newPeer(t, t.Transport, t.Version)
		defer p.Shutdown()
		var mu sync.Mutex
		var got []string
		big := make([]byte, 4000)
		for i := range big {
			big[i] = byte(i)
		}
		p.onFrame = func(pc *peerConn, f frameIn) {
			if stdReply(pc, f) {
				return
			}
			if f.Typ == 1 && f.Cmd == 100 {
				if pc.N%2 == 1 {
					// a whole push, then a frame cut in the middle, then the connection is dropped
					cut := specEncode(p.version, pushFrame(50, big))
					pc.SendRaw(append(specEncode(p.version, pushFrame(50, []byte(fmt.Sprintf("alpha-%d", pc.N)))), cut[:len(cut)/2+pc.N*7]...))
					go func() { time.Sleep(t.U(2)); pc.Drop() }()
					return
				}
				pc.Send(pushFrame(50, []byte(fmt.Sprintf("gamma-%d", pc.N))))
				pc.Send(respFrame(f, 0, f.Body))
			}
		}
		cfg := defaultCfg()
		cfg.Handlers = map[uint32][]func(*protocol.Packet){50: {func(pk *protocol.Packet) {
			mu.Lock()
			got = append(got, string(pk.Body))
			mu.Unlock()
		}}}
		cl, err := t.NewClient(p, cfg)
		if err != nil {
			t.Check("setup", false, "dial: %v", err)
			return
		}
		defer cl.Close(nil)
		for round := 0; round < 3; round++ {
			t.Do(cl, fmt.Sprintf("cut-%d", round), 100, 4) // odd connection: answered by a cut frame and a drop
			for i := 0; i < 100 && p.Dials() < 2*round+2; i++ {
				time.Sleep(t.U(1) / 2)
			}
			t.Sleep(3)
			r := t.Do(cl, fmt.Sprintf("clean-%d", round), 100, 8) // even connection: a push and the response
			t.Check("tcp_reading_spec", r.Err == nil, "round %d: the request on the connection that replaced one lost in mid-frame failed: %v", round, r.Err)
			// lose the even connection too, cleanly, so that the next round starts on an odd one
			if round < 2 {
				conns := p.Conns()
				conns[len(conns)-1].Drop()
				for i := 0; i < 100 && p.Dials() < 2*round+3; i++ {
					time.Sleep(t.U(1) / 2)
				}
				t.Sleep(3)
			}
		}
		mu.Lock()
		defer mu.Unlock()
		want := "alpha-1,gamma-2,alpha-3,gamma-4,alpha-5,gamma-6"
		t.Check("tcp_reading_spec", strings.Join(got, ",") == want, "pushes delivered across three losses in mid-frame: %v (want %s)", got, want)
		t.Check("dispatch_spec", strings.Join(got, ",") == want, "pushes delivered: %v (want %s)", got, want)
	}})
}

// wsQueryProblem: the URL query of a WebSocket connection announces the protocol version — once, with the handshake's value (and
// likewise codec and platform)
func wsQueryProblem(q string, version int) string {
	vals := map[string][]string{}
	for _, kv := range strings.Split(q, "&") {
		if kv == "" {
			continue
		}
		parts := strings.SplitN(kv, "=", 2)
		v := ""
		if len(parts) == 2 {
			v = parts[1]
		}
		vals[parts[0]] = append(vals[parts[0]], v)
	}
	for _, k := range []string{"version", "codec", "platform"} {
		if len(vals[k]) != 1 {
			return fmt.Sprintf("query %q carries %d values for %q (want exactly one)", q, len(vals[k]), k)
		}
	}
	if vals["version"][0] != fmt.Sprint(version) {
		return fmt.Sprintf("query %q announces version %s, the handshake asks for %d", q, vals["version"][0], version)
	}
	return ""
}

func init() {
	// C12 (WebSocket): every connection the client opens announces the version in its URL — the first one and every one after a recovery
	register(&scenario{Name: "c12/ws-url-after-reconnects", Props: []string{"C12", "C08"}, Quick: true, Transports: []string{"ws"}, Run: func(t *T) {
		p := newPeer(t, t.Transport, t.Version)
		defer p.Shutdown()
		p.onFrame = func(pc *peerConn, f frameIn) {
			if stdReply(pc, f) {
				return
			}
			if f.Typ == 1 && f.Cmd == 199 {
				pc.Drop()
			} else if f.Typ == 1 {
				pc.Send(respFrame(f, 0, f.Body))
			}
		}
		cfgU := defaultCfg()
		cfgU.URLSuffix = "?token=abc&region=hk" // the address the user dials may carry parameters of its own
		cl, err := t.NewClient(p, cfgU)
		if err != nil {
			t.Check("setup", false, "dial: %v", err)
			return
		}
		defer cl.Close(nil)
		for i := 0; i < 3; i++ {
			t.DoAsync(cl, fmt.Sprintf("loss-%d", i), 199, 2)
			for k := 0; k < 100 && p.Dials() < i+2; k++ {
				time.Sleep(t.U(1) / 2)
			}
			t.Sleep(3)
		}
		t.Join()
		t.Check("setup", p.Dials() == 4, "three losses led to %d connections", p.Dials())
		for _, pc := range p.Conns() {
			if prob := wsQueryProblem(string(pc.hs), t.Version); prob != "" {
				t.Check("ws_url_announces_version", false, "connection #%d: %s", pc.N, prob)
			}
		}
		t.Check("ws_url_announces_version", true, "")
	}})
}

func init() {
	// C17: answers keep arriving on a connection that keepalive recycles again and again (the peer answers requests at once but never a
	// heartbeat), with many callers: the recovery fails the waiters while the old connection's dispatcher is still handing answers over
	register(&scenario{Name: "c17/answers-during-keepalive-recycle", Props: []string{"C17", "C06"}, Quick: true, TimeoutU: 400, Run: func(t *T) {
		p := newPeer(t, t.Transport, t.Version)
		defer p.Shutdown()
		p.onFrame = func(pc *peerConn, f frameIn) {
			if f.WsKind == "ping" || ((f.WsKind == "" || f.WsKind == "binary") && f.Typ == 1 && f.Cmd == 1) {
				return // never answers heartbeats, stays connected
			}
			if f.WsKind != "" && f.WsKind != "binary" {
				return
			}
			if f.Typ == 1 {
				pc.Send(respFrame(f, 0, f.Body))
			}
		}
		cfg := defaultCfg()
		cfg.KeepaliveRaw, cfg.KeepaliveTimeoutRaw = 3*time.Millisecond, 6*time.Millisecond
		cfg.ReadQueue, cfg.WriteQueue = 1024, 1024
		cl, err := t.NewClient(p, cfg)
		if err != nil {
			t.Check("setup", false, "dial: %v", err)
			return
		}
		stop := time.Now().Add(1500 * time.Millisecond)
		var wg sync.WaitGroup
		for g := 0; g < 16; g++ {
			wg.Add(1)
			go func() {
				defer wg.Done()
				for time.Now().Before(stop) {
					func() {
						defer func() { recover() }()
						cl.Do(contextBG(), &clientRequest{Cmd: 100, Body: &control.AuthRequest{Token: "x"}}, reqTimeout(t.U(2)))
					}()
				}
			}()
		}
		done := make(chan struct{})
		go func() { wg.Wait(); close(done) }()
		select {
		case <-done:
		case <-time.After(1500*time.Millisecond + t.U(60)):
			t.Check("do_terminates", false, "request calls blocked while keepalive recycled an answering connection again and again")
		}
		t.Check("do_terminates", p.Dials() >= 3, "keepalive (3 ms / 6 ms) against a peer that never answers heartbeats led to only %d connections in 1.5 s", p.Dials())
		doClose(t, cl, 60)
	}})

	// C17 (WebSocket): the peer sends ping control frames all the time while several goroutines write requests: the pong answers and the data
	// frames leave through one writer
	register(&scenario{Name: "c17/ws-peer-pings-during-writes", Props: []string{"C17", "C15"}, Quick: true, Transports: []string{"ws"}, Run: func(t *T) {
		p := newPeer(t, t.Transport, t.Version)
		defer p.Shutdown()
		stopPing := make(chan struct{})
		p.onConn = func(pc *peerConn) {
			go func() {
				for i := 0; ; i++ {
					select {
					case <-stopPing:
						return
					case <-time.After(500 * time.Microsecond):
						if pc.WsControl(9, []byte(fmt.Sprintf("p%d", i))) != nil {
							return
						}
					}
				}
			}()
		}
		p.onFrame = func(pc *peerConn, f frameIn) {
			if f.WsKind != "" && f.WsKind != "binary" {
				return
			}
			if f.Typ == 1 {
				pc.Send(respFrame(f, 0, f.Body))
			}
		}
		cfg := defaultCfg()
		cfg.ReadQueue, cfg.WriteQueue = 4096, 1024
		cl, err := t.NewClient(p, cfg)
		if err != nil {
			t.Check("setup", false, "dial: %v", err)
			return
		}
		var failed int32
		stop := time.Now().Add(1200 * time.Millisecond)
		var wg sync.WaitGroup
		for g := 0; g < 4; g++ {
			wg.Add(1)
			go func() {
				defer wg.Done()
				for time.Now().Before(stop) {
					if _, err := cl.Do(contextBG(), &clientRequest{Cmd: 100, Body: &control.AuthRequest{Token: strings.Repeat("y", 300)}}, reqTimeout(t.U(20))); err != nil {
						atomic.AddInt32(&failed, 1)
					}
				}
			}()
		}
		wg.Wait()
		close(stopPing)
		t.Check("echo", atomic.LoadInt32(&failed) == 0 && p.Dials() == 1, "%d requests failed and %d connections were used while the peer was sending WebSocket pings every 0.5 ms", failed, p.Dials())
		doClose(t, cl, 60)
	}})

	// C17 (v2, TCP): a frame whose metadata block does not parse ends the connection; afterwards many goroutines encode and decode v2
	// frames at the same time (requests, responses, pushes) — the codec's shared pools must still hand each object to one user at a time
	register(&scenario{Name: "c17/v2-bad-metadata-then-traffic", Props: []string{"C17", "C11"}, Quick: true, Transports: []string{"tcp"}, Run: func(t *T) {
		if t.Version != 2 {
			return
		}
		p := newPeer(t, t.Transport, t.Version)
		defer p.Shutdown()
		var got int32
		p.onFrame = func(pc *peerConn, f frameIn) {
			if stdReply(pc, f) {
				return
			}
			switch {
			case f.Typ == 1 && f.Cmd == 199:
				// metadata_len 5, block 0x83 0x00 'a' 'b' 'c': a two-byte length prefix claiming more than the block holds
				bad := specFrame{typ: 3, cmd: 50, md: []byte{0x83, 0x00, 'a', 'b', 'c'}, body: []byte("x")}
				pc.SendRaw(specEncode(p.version, bad))
			case f.Typ == 1:
				pc.Send(pushFrame(50, f.Body[:min(len(f.Body), 40)]))
				pc.Send(respFrame(f, 0, f.Body))
			}
		}
		cfg := defaultCfg()
		cfg.ReadQueue, cfg.WriteQueue = 4096, 1024
		cfg.Handlers = map[uint32][]func(*protocol.Packet){50: {func(pk *protocol.Packet) { atomic.AddInt32(&got, 1) }}}
		cl, err := t.NewClient(p, cfg)
		if err != nil {
			t.Check("setup", false, "dial: %v", err)
			return
		}
		for round := 0; round < 3; round++ {
			t.DoAsync(cl, fmt.Sprintf("bad-md-%d", round), 199, 2)
			for k := 0; k < 100 && p.Dials() < round+2; k++ {
				time.Sleep(t.U(1) / 2)
			}
			t.Sleep(2)
			var wg sync.WaitGroup
			var failed int32
			for g := 0; g < 12; g++ {
				wg.Add(1)
				go func(g int) {
					defer wg.Done()
					for i := 0; i < 60; i++ {
						req := &clientRequest{Cmd: uint32(100 + g%3), Body: &control.AuthRequest{Token: strings.Repeat("z", 10+g*7), Metadata: map[string]string{"k": fmt.Sprint(g)}}}
						if _, err := cl.Do(contextBG(), req, reqTimeout(t.U(20))); err != nil {
							atomic.AddInt32(&failed, 1)
						}
					}
				}(g)
			}
			wg.Wait()
			t.Check("stream_local", failed == 0, "round %d: %d of 720 requests failed after a frame with an unparsable metadata block had ended the previous connection", round, failed)
		}
		doClose(t, cl, 60)
	}})

	// C20: a response of the largest legal size (body of 2^24-1 bytes) is returned over both transports alike
	register(&scenario{Name: "c20/max-size-response", Props: []string{"C20", "C03"}, Quick: true, TimeoutU: 600, Run: func(t *T) {
		p := newPeer(t, t.Transport, t.Version)
		defer p.Shutdown()
		sizes := []int{1<<24 - 1, 1<<24 - 6, 1<<24 - 12, 1 << 20}
		p.onFrame = func(pc *peerConn, f frameIn) {
			if stdReply(pc, f) {
				return
			}
			if f.Typ == 1 && f.Cmd >= 100 && int(f.Cmd)-100 < len(sizes) {
				body := make([]byte, sizes[f.Cmd-100])
				for i := 0; i < len(body); i += 4096 {
					body[i] = byte(i >> 12)
				}
				pc.Send(respFrame(f, 0, body))
			}
		}
		cfg := defaultCfg()
		cfg.MinGzip = 1 << 30
		cl, err := t.NewClient(p, cfg)
		if err != nil {
			t.Check("setup", false, "dial: %v", err)
			return
		}
		defer cl.Close(nil)
		var trace []string
		for i, n := range sizes {
			res, err := cl.Do(contextBG(), &clientRequest{Cmd: uint32(100 + i), Body: &control.AuthRequest{Token: "q"}}, reqTimeout(t.U(120)))
			switch {
			case err != nil:
				trace = append(trace, fmt.Sprintf("body %d -> error", n))
			default:
				trace = append(trace, fmt.Sprintf("body %d -> ok %d bytes fnv %x", n, len(res.Body), fnv64(res.Body)))
			}
		}
		t.Check("tcp_reading_spec", !strings.Contains(strings.Join(trace, ";"), "error"), "responses with bodies up to 2^24-1 bytes: %v", trace)
		t.ev("c20.trace", "canon", strings.Join(trace, " ; "), "connections", p.Dials())
	}})

	// C20: the peer closes (close packet on TCP, close frame 1000 on WebSocket, then the socket) while the client's receive queue is full of
	// pushes a slow subscriber has not taken yet: the client notices the loss and recovers, on both transports alike
	register(&scenario{Name: "c20/peer-close-behind-full-queue", Props: []string{"C20", "C08"}, Quick: true, Run: func(t *T) {
		p := newPeer(t, t.Transport, t.Version)
		defer p.Shutdown()
		release := make(chan struct{})
		p.onFrame = func(pc *peerConn, f frameIn) {
			if stdReply(pc, f) {
				return
			}
			if f.Typ == 1 && f.Cmd == 100 && pc.N == 1 {
				for i := 0; i < 12; i++ {
					pc.Send(pushFrame(50, []byte(fmt.Sprintf("p%02d", i))))
				}
				if pc.ws != nil {
					pc.WsControl(8, []byte{0x03, 0xe8})
				} else {
					pc.Send(pushFrame(0, nil))
				}
				go func() { time.Sleep(t.U(2)); pc.Drop() }()
				return
			}
			if f.Typ == 1 && f.Cmd >= 100 {
				pc.Send(respFrame(f, 0, f.Body))
			}
		}
		cfg := defaultCfg()
		cfg.ReadQueue = 2
		cfg.Handlers = map[uint32][]func(*protocol.Packet){50: {func(pk *protocol.Packet) { <-release }}}
		cl, err := t.NewClient(p, cfg)
		if err != nil {
			t.Check("setup", false, "dial: %v", err)
			return
		}
		defer cl.Close(nil)
		t.DoAsync(cl, "burst", 100, 3)
		t.Sleep(8)
		close(release)
		for k := 0; k < 120 && p.Dials() < 2; k++ {
			time.Sleep(t.U(1) / 2)
		}
		t.Join()
		recovered := p.Dials() >= 2
		r := t.Do(cl, "after", 101, 6)
		t.ev("c20.trace", "canon", fmt.Sprintf("recovered=%v after_reconnected=%d do-after=%v", recovered, min(1, int(atomic.LoadInt32(&t.afterRec))), r.Err == nil), "connections", min(2, p.Dials()))
		t.Check("serves_again", recovered && r.Err == nil, "peer-initiated close behind a full receive queue: recovered=%v, request afterwards: %v", recovered, r.Err)
	}})
}

func init() {
	// C12: frames accepted while the writer is stuck on a peer that does not read, in bursts of uneven sizes, and then NO further write:
	// once the peer reads again every accepted frame arrives, without waiting for some later write to push it out
	register(&scenario{Name: "c12/backlog-bursts-then-idle", Props: []string{"C12", "C07"}, Quick: true, Transports: []string{"tcp"}, Run: func(t *T) {
		for _, sizes := range [][]int{{20000, 20000}, {100, 20000, 300, 9000, 20000}, {12000, 12000, 12000, 12000, 12000}, {30000, 3000, 100}, {5000, 5000, 5000, 5000, 5000, 5000, 3000}} {
			p := newPeer(t, t.Transport, t.Version)
			p.onConn = func(pc *peerConn) { pc.Stall(true) }
			p.onFrame = func(pc *peerConn, f frameIn) {
				if stdReply(pc, f) {
					return
				}
				if f.Typ == 1 {
					pc.Send(respFrame(f, 0, f.Body[:min(len(f.Body), 4)]))
				}
			}
			cfg := defaultCfg()
			cfg.MinGzip = 1 << 30
			cfg.WriteQueue = 64
			cfg.ReadQueue = 1024
			cl, err := t.NewClient(p, cfg)
			if err != nil {
				t.Check("setup", false, "dial: %v", err)
				p.Shutdown()
				return
			}
			var wg sync.WaitGroup
			var okCalls int32
			issue := func(n int) {
				wg.Add(1)
				go func() {
					defer wg.Done()
					if _, err := cl.Do(contextBG(), &clientRequest{Cmd: 100, Body: &control.AuthRequest{Token: strings.Repeat("b", n)}}, reqTimeout(t.U(60))); err == nil {
						atomic.AddInt32(&okCalls, 1)
					}
				}()
				time.Sleep(2 * time.Millisecond)
			}
			for i := 0; i < 6; i++ { // fillers: the writer goroutine gets stuck in a socket write
				issue(1 << 20)
			}
			t.Sleep(2)
			for _, n := range sizes {
				issue(n)
			}
			t.Sleep(2)
			p.FirstConn().Stall(false)
			done := make(chan struct{})
			go func() { wg.Wait(); close(done) }()
			select {
			case <-done:
			case <-time.After(t.U(70)):
			}
			total := 6 + len(sizes)
			t.Check("exactly_once_in_order", int(atomic.LoadInt32(&okCalls)) == total, "burst %v behind a stuck writer, then no further write: %d of %d accepted requests were transmitted and answered once the peer read again", sizes, okCalls, total)
			cl.Close(nil)
			p.Shutdown()
		}
	}})
}
