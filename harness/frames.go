package main

import (
	"bytes"
	stdgzip "compress/gzip"
	"context"
	"encoding/binary"
	"encoding/hex"
	"fmt"
	"io"
	"sort"
	"strings"
	"sync/atomic"
	"time"

	protocol "github.com/longportapp/openapi-protocol/go"
	_ "github.com/longportapp/openapi-protocol/go/v1"
	_ "github.com/longportapp/openapi-protocol/go/v2"
)

// ---------- byte-string specs shared with the Lean driver ----------

// bspec is a byte string that can be written compactly on an operation line
type bspec struct {
	kind string // hex | rep | prng
	b    byte
	seed uint64
	n    int
	data []byte
}

func (s bspec) bytes() []byte {
	switch s.kind {
	case "rep":
		return bytes.Repeat([]byte{s.b}, s.n)
	case "prng":
		return prngBytes(s.seed, s.n)
	}
	return s.data
}
func (s bspec) String() string {
	switch s.kind {
	case "rep":
		return fmt.Sprintf("rep:%d:%d", s.b, s.n)
	case "prng":
		return fmt.Sprintf("prng:%d:%d", s.seed, s.n)
	}
	if len(s.data) == 0 {
		return "-"
	}
	return "hex:" + hex.EncodeToString(s.data)
}
func hexSpec(b []byte) bspec { return bspec{kind: "hex", data: b} }

func genBody(rg *rng, n int) bspec {
	if n > 4096 {
		if rg.intn(2) == 0 {
			return bspec{kind: "rep", b: byte(rg.intn(256)), n: n}
		}
		return bspec{kind: "prng", seed: rg.next() % 1000000, n: n}
	}
	switch rg.intn(3) {
	case 0:
		return bspec{kind: "rep", b: byte(rg.intn(256)), n: n}
	case 1:
		return hexSpec(rg.bytes(n))
	}
	// compressible text
	d := make([]byte, n)
	for i := range d {
		d[i] = "abcabcabd "[(i+rg.intn(2))%10]
	}
	return hexSpec(d)
}

// ---------- the standard library as gzip oracle ----------

// stdRead: what compress/gzip says about a stream: ("ok", payload) complete and checksum-valid;
// ("bad", _) an error after the header; ("none", _) header rejected
func stdRead(in []byte) (string, []byte) {
	zr, err := stdgzip.NewReader(bytes.NewReader(in))
	if err != nil {
		return "none", nil
	}
	out, err := io.ReadAll(zr)
	if err != nil {
		return "bad", out
	}
	return "ok", out
}

func gzrToken(in []byte) string {
	k, p := stdRead(in)
	if k == "ok" {
		return "ok:" + hexSpec(p).String()
	}
	return k
}

// ---------- packets ----------

type pkt struct {
	typ     string
	cmd     uint32
	rid     uint32
	to      uint16
	st      uint8
	verify  bool
	gzip    bool
	nonce   uint64
	sig     []byte
	pairs   [][2]item // insertion order
	body    bspec
	version int
}

func (p *pkt) build(codec protocol.CodecType) *protocol.Packet {
	md := &protocol.Metadata{Type: protocol.PacketType(p.typ), CmdCode: p.cmd, RequestId: p.rid, Timeout: p.to, StatusCode: p.st,
		Verify: p.verify, Gzip: p.gzip, Nonce: p.nonce, Signature: p.sig, Codec: codec}
	if p.pairs != nil {
		md.Values = map[string]string{}
		for _, kv := range p.pairs {
			md.Values[string(kv[0].bytes())] = string(kv[1].bytes())
		}
	}
	return &protocol.Packet{Metadata: md, Body: p.body.bytes()}
}

func (p *pkt) mdString() string {
	if len(p.pairs) == 0 {
		return "-"
	}
	s := make([]string, len(p.pairs))
	for i, kv := range p.pairs {
		s[i] = kv[0].String() + ":" + kv[1].String()
	}
	return strings.Join(s, ",")
}

func (p *pkt) packLine(thr int, gz string) string {
	v, g := 0, 0
	if p.verify {
		v = 1
	}
	if p.gzip {
		g = 1
	}
	l := fmt.Sprintf("pack v=%d thr=%d type=%s cmd=%d rid=%d to=%d st=%d verify=%d gzip=%d nonce=%d sig=%s md=%s body=%s",
		p.version, thr, p.typ, p.cmd, p.rid, p.to, p.st, v, g, p.nonce, hexSpec(p.sig).String(), p.mdString(), p.body.String())
	if gz != "" {
		l += " gz=" + gz
	}
	return l
}

func typeName(t protocol.PacketType) string {
	switch t {
	case protocol.RequestPacket, protocol.ResponsePacket, protocol.PushPacket:
		return string(t)
	}
	return "other"
}

func showPacket(p *protocol.Packet) string {
	b := func(x bool) int {
		if x {
			return 1
		}
		return 0
	}
	m := p.Metadata
	return fmt.Sprintf("type=%s cmd=%d rid=%d to=%d st=%d verify=%d gzip=%d nonce=%d sig=%s %s body=%s",
		typeName(m.Type), m.CmdCode, m.RequestId, m.Timeout, m.StatusCode, b(m.Verify), b(m.Gzip), m.Nonce, showBytes(m.Signature), showMap(m.Values), showBytes(p.Body))
}

// parents of the codec contexts: the frame codec is a function of the bytes and the packet, not of the life cycle of the context a
// connection was dialled with (a recovery dials with a deadline context that it cancels as soon as the dial returns; an application may
// cancel the context it gave to Dial): every third context has a cancelled parent, every third one a parent whose deadline has passed
var (
	ctxSeq          uint64
	cancelledParent = func() context.Context { c, cancel := context.WithCancel(context.Background()); cancel(); return c }()
	expiredParent   = func() context.Context {
		c, cancel := context.WithDeadline(context.Background(), time.Unix(1, 0))
		_ = cancel
		return c
	}()
)

func newCtx(version int, codec protocol.CodecType) *protocol.Context {
	parent := context.Background()
	switch atomic.AddUint64(&ctxSeq, 1) % 3 {
	case 1:
		parent = cancelledParent
	case 2:
		parent = expiredParent
	}
	c := protocol.NewContext(parent, protocol.ClientSide)
	c.Version = uint8(version)
	c.Codec = codec
	return c
}

func proto(version int) protocol.Protocol {
	p, err := protocol.GetProtocol(uint8(version))
	if err != nil {
		panic(err)
	}
	return p
}

// ---------- independent spec-derived encoder / header splitter (Go side) ----------

type specFrame struct {
	typ, verify, gzip, reserve, cmd int
	rid                             uint32
	to                              uint16
	st                              uint8
	md, body                        []byte
	nonce                           uint64
	sig                             []byte
}

func specEncode(version int, f specFrame) []byte {
	out := []byte{byte(f.typ + 16*f.verify + 32*f.gzip + 64*f.reserve), byte(f.cmd)}
	if f.typ == 1 || f.typ == 2 {
		out = binary.BigEndian.AppendUint32(out, f.rid)
	}
	if f.typ == 1 {
		out = binary.BigEndian.AppendUint16(out, f.to)
	}
	if f.typ == 2 {
		out = append(out, f.st)
	}
	if version == 2 {
		out = binary.BigEndian.AppendUint16(out, uint16(len(f.md)))
	}
	out = append(out, byte(len(f.body)>>16), byte(len(f.body)>>8), byte(len(f.body)))
	if version == 2 {
		out = append(out, f.md...)
	}
	out = append(out, f.body...)
	if f.verify == 1 {
		out = binary.BigEndian.AppendUint64(out, f.nonce)
		out = append(out, f.sig...)
	}
	return out
}

func (f specFrame) line(version int, body bspec) string {
	return fmt.Sprintf("spec.encode v=%d type=%d verify=%d gzip=%d reserve=%d cmd=%d rid=%d to=%d st=%d md=%s body=%s nonce=%d sig=%s",
		version, f.typ, f.verify, f.gzip, f.reserve, f.cmd, f.rid, f.to, f.st, hexSpec(f.md).String(), body.String(), f.nonce, hexSpec(f.sig).String())
}

// bodySection: where the layout puts the body of the frame at the head of bs (ok=false: header incomplete / unknown type)
func bodySection(version int, bs []byte) (off, n int, ok bool) {
	if len(bs) == 0 {
		return
	}
	t := int(bs[0] & 0xf)
	fixed := map[int]int{1: 8, 2: 7, 3: 2}[t]
	if fixed == 0 {
		return
	}
	mlw := 0
	if version == 2 {
		mlw = 2
	}
	hl := fixed + mlw + 3
	if len(bs) < hl {
		return
	}
	ml := 0
	if version == 2 {
		ml = int(bs[fixed])<<8 | int(bs[fixed+1])
	}
	bl := int(bs[fixed+mlw])<<16 | int(bs[fixed+mlw+1])<<8 | int(bs[fixed+mlw+2])
	if len(bs) < hl+ml+bl {
		return
	}
	return hl + ml, bl, true
}

// unpackBytesOp runs the one-shot decoder of the real code on a frame and emits the operation;
// frameSpec is how the frame is written on the line (may be a cat: of parts)
func unpackBytesOp(e *emitter, version int, codec protocol.CodecType, frame []byte, frameSpec string, class string) (int, string, *protocol.Packet) {
	var pk *protocol.Packet
	res := guard(func() string {
		p, err := proto(version).UnpackBytes(newCtx(version, codec), frame)
		if err != nil {
			return "err"
		}
		pk = p
		return "ok " + showPacket(p)
	})
	line := fmt.Sprintf("unpackbytes v=%d codec=%d hex=%s", version, codec, frameSpec)
	if len(frame) > 0 && frame[0]>>5&1 == 1 {
		if off, n, ok := bodySection(version, frame); ok {
			line += " gzr=" + gzrToken(frame[off:off+n])
		}
	}
	idx := e.op(line, res, class, true)
	if res == "panic" {
		e.fail(idx, "unpackbytes_total", "UnpackBytes panicked")
	}
	return idx, res, pk
}

func frameSpecOf(frame []byte) string { return hexSpec(frame).String() }

var bodyClassesQuick = []int{0, 1, 2, 255, 256, 1000, 1023, 1024, 1025, 65535, 65536}

func sortedKeys(m map[string]string) []string {
	ks := make([]string, 0, len(m))
	for k := range m {
		ks = append(ks, k)
	}
	sort.Strings(ks)
	return ks
}
