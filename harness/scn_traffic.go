package main

// Scenarios for C13 (push dispatch), C12 (outbound stream), C03's TCP half, C20 (transport equivalence).

import (
	"bytes"
	"encoding/json"
	"fmt"
	"sort"
	"strings"
	"sync"
	"sync/atomic"
	"time"

	control "github.com/longportapp/openapi-protobufs/gen/go/control"
	protocol "github.com/longportapp/openapi-protocol/go"
	"github.com/longportapp/openapi-protocol/go/verifhook"
	pb "google.golang.org/protobuf/proto"
)

func init() {
	// C13: pushes of 3 commands interleaved with responses and control packets; 0-3 handlers per command
	pushScenario := func(name string, quick bool, burst int, queue int, slow bool, acrossReconnect bool) {
		register(&scenario{Name: name, Props: []string{"C13", "C17"}, Quick: quick, Run: func(t *T) {
			p := newPeer(t, t.Transport, t.Version)
			defer p.Shutdown()
			var mu sync.Mutex
			var log []string // handler invocations "cmd/handler/seq"
			handlers := map[uint32][]func(*protocol.Packet){}
			nh := map[uint32]int{50: 1, 51: 3, 52: 0, 53: 2}
			for cmd, n := range nh {
				for h := 0; h < n; h++ {
					cmd, h := cmd, h
					handlers[cmd] = append(handlers[cmd], func(pk *protocol.Packet) {
						if slow {
							time.Sleep(time.Millisecond)
						}
						mu.Lock()
						log = append(log, fmt.Sprintf("%d/%d/%s", cmd, h, pk.Body))
						mu.Unlock()
					})
				}
			}
			// control commands must never reach push subscribers
			for _, cmd := range []uint32{0, 1, 2, 3} {
				cmd := cmd
				handlers[cmd] = append(handlers[cmd], func(pk *protocol.Packet) {
					mu.Lock()
					log = append(log, fmt.Sprintf("CONTROL-%d", cmd))
					mu.Unlock()
				})
			}
			var sent []string // "cmd/seq" in send order, per connection
			var smu sync.Mutex
			sendBurst := func(pc *peerConn, f frameIn, n int, base int) {
				var buf []byte
				for i := 0; i < n; i++ {
					cmd := []int{50, 51, 52, 53}[(i+base)%4]
					body := []byte(fmt.Sprintf("c%d-%04d", pc.N, base+i))
					buf = append(buf, specEncode(p.version, pushFrame(cmd, body))...)
					smu.Lock()
					sent = append(sent, fmt.Sprintf("%d/%s", cmd, body))
					smu.Unlock()
					if pc.ws != nil {
						pc.SendRaw(specEncode(p.version, pushFrame(cmd, body)))
					}
					if i%7 == 3 { // interleave control pushes and a response nobody waits for
						ctl := specEncode(p.version, specFrame{typ: 3, cmd: 1 + i%3, body: []byte("ctl")})
						rsp := specEncode(p.version, specFrame{typ: 2, cmd: 60, rid: 999999, body: []byte("x")})
						if pc.ws != nil {
							pc.SendRaw(ctl)
							pc.SendRaw(rsp)
						} else {
							buf = append(buf, ctl...)
							buf = append(buf, rsp...)
						}
					}
				}
				if pc.ws == nil {
					pc.SendRaw(append(buf, specEncode(p.version, respFrame(f, 0, f.Body))...))
				} else {
					pc.Send(respFrame(f, 0, f.Body))
				}
			}
			var dropped int32
			p.onFrame = func(pc *peerConn, f frameIn) {
				if stdReply(pc, f) {
					return
				}
				switch {
				case f.Typ == 1 && f.Cmd == 100:
					sendBurst(pc, f, burst, int(f.Rid)*1000)
				case f.Typ == 1 && f.Cmd == 199 && atomic.CompareAndSwapInt32(&dropped, 0, 1):
					pc.Drop()
				case f.Typ == 1 && f.Cmd >= 100:
					pc.Send(respFrame(f, 0, f.Body))
				}
			}
			cfg := defaultCfg()
			cfg.Handlers = handlers
			cfg.ReadQueue = queue
			cl, err := t.NewClient(p, cfg)
			if err != nil {
				t.Check("setup", false, "dial: %v", err)
				return
			}
			defer cl.Close(nil)
			t.Do(cl, "burst-1", 100, 20)
			t.Do(cl, "burst-2", 100, 20)
			if acrossReconnect {
				t.DoAsync(cl, "loss", 199, 2)
				t.Sleep(10)
				t.Do(cl, "burst-3", 100, 20)
			}
			t.Sleep(6)
			mu.Lock()
			defer mu.Unlock()
			drops := t.Warns("drop")
			// expected: for every sent push, in send order, every handler of its command in subscription order
			want := []string{}
			for _, s := range sent {
				var cmd int
				fmt.Sscanf(s, "%d/", &cmd)
				body := s[strings.Index(s, "/")+1:]
				for h := 0; h < nh[uint32(cmd)]; h++ {
					want = append(want, fmt.Sprintf("%d/%d/%s", cmd, h, body))
				}
			}
			for _, l := range log {
				if strings.HasPrefix(l, "CONTROL") {
					t.Check("control_never_to_subscribers", false, "a control packet was delivered to a push subscriber: %s", l)
				}
			}
			if drops == 0 {
				t.Check("dispatch_spec", strings.Join(log, " ") == strings.Join(want, " "), "handler invocations differ from the pushes sent (got %d, want %d; first difference at %d)", len(log), len(want), firstDiff(log, want))
			} else {
				// documented overflow: the invocation log must be a subsequence of the expectation, whole pushes missing, as many pushes missing as drop warnings
				i := 0
				missing := map[string]bool{}
				for _, w := range want {
					if i < len(log) && log[i] == w {
						i++
					} else {
						missing[w[strings.LastIndex(w, "/")+1:]+w[:strings.Index(w, "/")]] = true
					}
				}
				t.Check("dispatch_spec", i == len(log), "with %d logged drops the invocation log is not an order-preserving sub-sequence of the pushes sent (matched %d of %d)", drops, i, len(log))
				// drop warnings also count dropped responses / control packets, so they bound the missing pushes from above
				t.Check("loss_accounting", len(missing) <= drops, "%d pushes missing but only %d drop warnings were logged", len(missing), drops)
			}
			if queue >= burst*2+10 {
				t.Check("loss_accounting", drops == 0, "%d packets dropped although the receive queue (%d) is larger than everything sent", drops, queue)
			}
		}})
	}
	pushScenario("c13/small-burst", true, 12, 256, false, false)
	pushScenario("c13/large-burst", true, 200, 1024, false, false)
	pushScenario("c13/slow-handlers", true, 60, 512, true, false)
	pushScenario("c13/overflow", true, 300, 8, true, false)
	pushScenario("c13/across-reconnect", true, 30, 256, false, true)

	// C13/D15: frames arriving right after the dial (before the dispatcher/queue exists) must not be dropped as "channel full"
	register(&scenario{Name: "c13/early-push", Props: []string{"C13"}, Quick: true, Run: func(t *T) {
		lost := 0
		for round := 0; round < 25; round++ {
			p := newPeer(t, t.Transport, t.Version)
			p.onConn = func(pc *peerConn) { // the moment the connection exists
				for i := 0; i < 3; i++ {
					pc.Send(pushFrame(50, []byte{byte(i)}))
				}
			}
			p.onFrame = func(pc *peerConn, f frameIn) { stdReply(pc, f) }
			var got int32
			cfg := defaultCfg()
			cfg.Handlers = map[uint32][]func(*protocol.Packet){50: {func(*protocol.Packet) { atomic.AddInt32(&got, 1) }}}
			cl, err := t.NewClient(p, cfg)
			if err != nil {
				p.Shutdown()
				continue
			}
			t.Sleep(1)
			if atomic.LoadInt32(&got) != 3 {
				lost++
			}
			cl.Close(nil)
			p.Shutdown()
		}
		t.Check("loss_accounting", lost == 0 || t.Warns("drop") == 0, "%d of 25 connections lost pushes sent right after the connection was accepted, logged as 'channel full' although nothing overflowed (%d drop warnings)", lost, t.Warns("drop"))
		t.Check("dispatch_spec", lost == 0, "%d of 25 connections lost pushes sent right after the connection was accepted", lost)
	}})

	// C12: concurrent writers; the peer's raw byte log must be handshake + whole frames, per-writer order preserved, each accepted write once
	outScenario := func(name string, quick bool, writers, per int, sizes []int, wq int, gz int, stall bool) {
		props := []string{"C12", "C17", "C07", "C19"}
		if strings.Contains(name, "gzip") {
			props = append(props, "C10") // compressed bodies through the client's write path: the receiver inflates once and sees the body
		}
		if stall {
			props = append(props, "C06") // a stalled peer must not hang request calls
		}
		var codec protocol.CodecType
		if strings.HasSuffix(name, "-json") {
			codec = protocol.CodecJSON
		}
		register(&scenario{Name: name, Props: props, Quick: quick, Codec: codec, Run: func(t *T) {
			p := newPeer(t, t.Transport, t.Version)
			defer p.Shutdown()
			p.onConn = func(pc *peerConn) {
				if stall {
					pc.Stall(true)
				}
			}
			p.onFrame = func(pc *peerConn, f frameIn) {
				if stdReply(pc, f) {
					return
				}
				if f.Typ == 1 && !stall {
					pc.Send(respFrame(f, 0, f.Body[:min(len(f.Body), 8)]))
				}
			}
			cfg := defaultCfg()
			cfg.WriteQueue = wq
			cfg.ReadQueue = 4096 // the answers of many concurrent callers must not overflow the receive queue (that loss is permitted, and not this scenario's subject)
			cfg.MinGzip = gz
			cfg.ReqTimeoutU = 40
			cl, err := t.NewClient(p, cfg)
			if err != nil {
				t.Check("setup", false, "dial: %v", err)
				return
			}
			defer cl.Close(nil)
			var wg sync.WaitGroup
			var mu sync.Mutex
			accepted := map[int][]int{} // writer -> sequence numbers whose Do did not fail with "write queue full"
			full, slowest := 0, time.Duration(0)
			var unanswered []string // accepted calls that did not return their answer although the peer answers every request at once
			for w := 0; w < writers; w++ {
				wg.Add(1)
				go func(w int) {
					defer wg.Done()
					for i := 0; i < per; i++ {
						n := sizes[(w+i)%len(sizes)]
						body := make([]byte, n)
						for k := range body {
							body[k] = "abcdefghijklmnopqrstuvwxyz0123456789"[(w*31+i*7+k*k)%36]
						}
						if strings.Contains(name, "gzip") {
							// poorly compressible text: the compressed body is itself far above the threshold
							r := &rng{s: uint64(w*100003 + i*7919 + 1)}
							for k := range body {
								body[k] = "abcdefghijklmnopqrstuvwxyzABCDEFGHIJKLMNOPQRSTUVWXYZ0123456789+/"[r.next()%64]
							}
						}
						if n >= 8 {
							copy(body, []byte(fmt.Sprintf("%03d-%04d", w, i)))
						}
						tag := int32(w*10000 + i)
						st := time.Now()
						toU := 40
						if stall {
							toU = 2
						}
						_, err := cl.Do(contextBG(), &clientRequest{Cmd: uint32(100 + w%3), Body: &control.AuthRequest{Token: string(body), Metadata: map[string]string{"t": fmt.Sprint(tag)}}}, reqTimeout(t.U(toU)))
						d := time.Since(st)
						mu.Lock()
						if err != nil && strings.Contains(err.Error(), "write queue full") {
							full++
							if d > slowest {
								slowest = d
							}
						} else {
							accepted[w] = append(accepted[w], i)
							if err != nil && !stall {
								unanswered = append(unanswered, fmt.Sprintf("writer %d request %d: %v", w, i, err))
							}
						}
						mu.Unlock()
					}
				}(w)
			}
			wg.Wait()
			t.Sleep(6)
			pc := p.FirstConn()
			if stall {
				t.Check("enqueue_nonblocking", full > 0, "a stalled peer with a write queue of %d never produced a 'write queue full' error", wq)
				// a caller blocked inside Write stays there until the queue drains, which a stalled peer never lets happen (the scenario then ends
				// in the watchdog): the bound only has to separate "returned" from "stuck", and it includes marshalling and packing a large
				// body under the memory traffic of 48 concurrent callers
				t.Check("timing:enqueue_nonblocking", slowest < t.U(20), "a 'write queue full' error took %v: the caller was blocked", slowest)
				return
			}
			raw := pc.Raw()
			if t.Transport == "tcp" {
				hs := t.handshake().Pack()
				t.Check("handshake_first", len(raw) >= 2 && raw[0] == hs[0] && raw[1] == hs[1], "the first two bytes sent are %x, the requested handshake is %x", raw[:min(2, len(raw))], hs)
				fs, used, ok := splitFrames(p.version, raw[2:], 1)
				t.Check("stream_shape", ok && used == len(raw)-2, "the byte stream after the handshake is not a sequence of whole frames (parsed %d frames, %d of %d bytes)", len(fs), used, len(raw)-2)
			} else {
				q := string(pc.hs)
				t.Check("ws_url_announces_version", strings.Contains(q, fmt.Sprintf("version=%d", t.Version)), "the WebSocket URL query %q does not announce version %d", q, t.Version)
				bad := 0
				for _, e := range t.events {
					if e.Kind == "peer.ws_message_not_one_frame" {
						bad++
					}
				}
				t.Check("ws_one_message_per_frame", bad == 0, "%d WebSocket messages were not exactly one frame", bad)
				txt := 0
				for _, e := range t.events {
					if e.Kind == "peer.ws_frame_in_text_message" {
						txt++
					}
				}
				t.Check("ws_binary_message", txt == 0, "%d frames travelled as WebSocket text messages (frames are binary messages, whatever the body codec)", txt)
			}
			// the peer answers every request frame it receives at once and the deadline is 40 units: an accepted call that fails lost its answer
			t.Check("no_lost_wakeup", len(unanswered) == 0 || t.Warns("drop") > 0, "%d calls were accepted by the transport, answered by the peer at once, and still failed (first: %s)", len(unanswered), strings.Join(unanswered[:min(1, len(unanswered))], ""))
			// C19 at client level: the request ids the peer saw on this connection are pairwise distinct, whatever writes failed in between
			ridSeen := map[uint32]int{}
			for _, f := range pc.Frames() {
				if f.Typ == 1 && (f.WsKind == "" || f.WsKind == "binary") {
					ridSeen[f.Rid]++
				}
			}
			dupIds := 0
			for _, k := range ridSeen {
				if k > 1 {
					dupIds++
				}
			}
			t.Check("ids_from_one", dupIds == 0, "%d request ids were sent twice on one connection (%d request frames)", dupIds, len(ridSeen))
			// every accepted write exactly once, per-writer order preserved
			seen := map[int][]int{}
			for _, f := range pc.Frames() {
				if f.Typ != 1 || f.Cmd < 100 {
					continue
				}
				body := f.Body
				if f.Gzip == 1 {
					if k, pl := stdRead(body); k == "ok" {
						body = pl
					}
				}
				var a control.AuthRequest
				if codec == protocol.CodecJSON {
					if json.Unmarshal(body, &a) != nil {
						t.Check("stream_shape", false, "a frame body does not decode as JSON (torn frame?)")
						continue
					}
				} else if pb.Unmarshal(body, &a) != nil {
					t.Check("stream_shape", false, "a frame body does not decode (torn frame?)")
					continue
				}
				var tag int
				fmt.Sscan(a.Metadata["t"], &tag)
				seen[tag/10000] = append(seen[tag/10000], tag%10000)
			}
			for w := 0; w < writers; w++ {
				t.Check("exactly_once_in_order", fmt.Sprint(seen[w]) == fmt.Sprint(accepted[w]), "writer %d: accepted %v, transmitted %v", w, abbreviate(accepted[w]), abbreviate(seen[w]))
				t.Check("exactly_once_in_order", sort.IntsAreSorted(seen[w]), "writer %d: frames not in the order they were accepted", w)
			}
		}})
	}
	outScenario("c12/writers-4-small", true, 4, 30, []int{1, 8, 100}, 64, 0, false)
	outScenario("c12/writers-4-small-json", true, 4, 12, []int{1, 8, 100, 3000}, 64, 0, false)
	outScenario("c12/backlog-midsize", true, 24, 6, []int{9000, 20000, 30000, 50000}, 64, 1<<30, false)
	outScenario("c12/writers-16-mixed", true, 16, 12, []int{1, 40, 3000, 70000}, 64, 1024, false)
	outScenario("c12/big-frames", true, 3, 3, []int{1 << 20, 2500000}, 16, 1<<30, false)
	outScenario("c12/queue-1", true, 6, 20, []int{10, 500}, 1, 0, false)
	outScenario("c12/queue-1-gzip", true, 6, 20, []int{3000, 8000}, 1, 1024, false)
	outScenario("c12/stalled-peer", true, 48, 2, []int{1 << 19}, 2, 1<<30, true)

	// C03 TCP half: the peer writes a stream of frames in a chosen segmentation, waiting for the client to consume each segment
	for _, rbs := range []int{0, 1, 64} {
		rbs := rbs
		segName := "c03/tcp-segmentation"
		if rbs > 0 {
			segName = fmt.Sprintf("c03/tcp-segmentation-readbuf%d", rbs)
		}
		register(&scenario{Name: segName, Props: []string{"C03"}, Quick: true, Transports: []string{"tcp"}, Run: func(t *T) {
			p := newPeer(t, t.Transport, t.Version)
			defer p.Shutdown()
			var mu sync.Mutex
			var got []string
			var heldPk []*protocol.Packet // the application keeps the packets: they must not change when later input arrives
			show := func(pk *protocol.Packet) string {
				return fmt.Sprintf("%x/%d/%x", pk.Body, pk.Metadata.Nonce, pk.Metadata.Signature)
			}
			p.onFrame = func(pc *peerConn, f frameIn) { stdReply(pc, f) }
			cfg := defaultCfg()
			cfg.ReadQueue = 4096
			cfg.ReadBuffer = rbs
			cfg.Handlers = map[uint32][]func(*protocol.Packet){50: {func(pk *protocol.Packet) {
				mu.Lock()
				got = append(got, show(pk))
				heldPk = append(heldPk, pk)
				mu.Unlock()
			}}}
			cl, err := t.NewClient(p, cfg)
			if err != nil {
				t.Check("setup", false, "dial: %v", err)
				return
			}
			defer cl.Close(nil)
			pc := p.FirstConn()
			var stream []byte
			var want []string
			for i := 0; i < 40; i++ {
				body := t.rg.bytes(t.rg.pick([]int{0, 1, 2, 7, 30, 200, 300, 595, 3000, 5000, 20000}))
				f := pushFrame(50, body)
				if i%5 == 0 {
					f.verify, f.nonce, f.sig = 1, t.rg.next(), t.rg.bytes(16)
				}
				if t.Version == 2 && i%3 == 0 {
					f.md = append(encStr([]byte("k")), encStr(t.rg.bytes(t.rg.intn(20)))...)
				}
				stream = append(stream, specEncode(p.version, f)...)
				want = append(want, fmt.Sprintf("%x/%d/%x", body, f.nonce, f.sig))
			}
			// segmentation: random small chunks; after each chunk wait for the reader's hook event so the read chunks are known
			pos := 0
			reads := 0
			for pos < len(stream) {
				n := 1 + t.rg.intn(t.rg.pick([]int{2, 5, 17, 64, 700, 700, 3000, 9000}))
				if pos+n > len(stream) {
					n = len(stream) - pos
				}
				after := verifhook.Seq()
				pc.SendRaw(stream[pos : pos+n])
				pos += n
				if _, ok := verifhook.WaitEvent("conn.read", after, t.U(20)); ok {
					reads++
				}
			}
			t.Sleep(4)
			mu.Lock()
			defer mu.Unlock()
			t.Check("tcp_reading_spec", strings.Join(got, ",") == strings.Join(want, ","), "packets delivered (%d) differ from the frames sent (%d) under a %d-read segmentation; first difference at %d", len(got), len(want), reads, firstDiff(got, want))
			t.Check("tcp_reading_spec", t.Warns("drop") == 0, "packets dropped although the queue did not overflow")
			for i, pk := range heldPk {
				if i < len(got) && show(pk) != got[i] {
					t.Check("tcp_reading_spec", false, "packet %d changed after it was delivered (body/nonce/signature now %.80s, at delivery %.80s): it shares memory with the connection's read buffer", i, show(pk), got[i])
					break
				}
			}
		}})
	}

	// C20: the same script over both transports yields the same application-level trace; each run prints its canonical trace,
	// the comparison across transports is done by the batch (trace_equiv) — here: the per-transport part
	register(&scenario{Name: "c20/script", Props: []string{"C20"}, Quick: true, Run: func(t *T) {
		p := newPeer(t, t.Transport, t.Version)
		defer p.Shutdown()
		var trace []string
		var mu sync.Mutex
		add := func(s string) { mu.Lock(); trace = append(trace, s); mu.Unlock() }
		var step int32
		p.onFrame = func(pc *peerConn, f frameIn) {
			if stdReply(pc, f) {
				return
			}
			if f.Typ != 1 {
				return
			}
			switch f.Cmd {
			case 100:
				pc.Send(respFrame(f, 0, []byte("ok")))
			case 101:
				pc.Send(respFrame(f, 7, errBody(77, "boom")))
			case 102:
				pc.Send(pushFrame(50, []byte("p1")))
				pc.Send(pushFrame(50, []byte("p2")))
				pc.Send(respFrame(f, 0, []byte("after-push")))
			case 103: // peer heartbeat request, then the answer
				if pc.ws != nil {
					pc.WsControl(9, []byte("hb"))
				} else {
					pc.Send(specFrame{typ: 1, cmd: 1, rid: 4242, body: []byte("hb")})
				}
				time.Sleep(t.U(1))
				pc.Send(respFrame(f, 0, []byte("after-ping")))
			case 104: // undecodable frame, then the answer (the connection must be recycled on both transports)
				if atomic.AddInt32(&step, 1) == 1 {
					pc.SendRaw([]byte{0x0e, 0x01, 0x02, 0x03, 0x04, 0x05, 0x06})
				}
				time.Sleep(t.U(1))
				pc.Send(respFrame(f, 0, []byte("after-garbage")))
			case 105: // peer-initiated close with a reason
				if pc.ws != nil {
					pc.WsControl(8, append([]byte{0x03, 0xe8}, []byte("bye")...))
				} else {
					b, _ := pb.Marshal(&control.Close{Code: control.Close_Code(1000), Reason: "bye"})
					pc.Send(pushFrame(0, b))
				}
			case 106:
				pc.Drop()
			case 107: // unsolicited heartbeat answers with ordinary and extreme heartbeat ids (uint32 ids travel as int32 in the body)
				for _, id := range []uint32{5, 0x7fffffff, 0x80000000, 0xfffffffe} {
					v := int32(id)
					b, _ := pb.Marshal(&control.Heartbeat{Timestamp: 1, HeartbeatId: &v})
					if pc.ws != nil {
						pc.WsControl(10, b)
					} else {
						pc.Send(specFrame{typ: 2, cmd: 1, rid: id, body: b})
					}
				}
				time.Sleep(t.U(1))
				pc.Send(respFrame(f, 0, []byte("after-pongs")))
			case 108: // a burst of pushes behind a slow subscriber, then an abrupt drop: everything received must still be delivered
				for i := 0; i < 12; i++ {
					pc.Send(pushFrame(51, []byte(fmt.Sprintf("b%02d", i))))
				}
				time.Sleep(t.U(2))
				pc.Drop()
			}
		}
		cfg := defaultCfg()
		first51 := int32(0)
		cfg.ReadQueue = 64
		cfg.Handlers = map[uint32][]func(*protocol.Packet){50: {func(pk *protocol.Packet) { add("push:" + string(pk.Body)) }},
			51: {func(pk *protocol.Packet) {
				if atomic.CompareAndSwapInt32(&first51, 0, 1) {
					time.Sleep(t.U(8)) // the rest of the burst queues up behind this call; the drop happens meanwhile
				}
				add("push:" + string(pk.Body))
			}}}
		cl, err := t.NewClient(p, cfg)
		if err != nil {
			t.Check("setup", false, "dial: %v", err)
			return
		}
		for _, cmd := range []uint32{100, 101, 102, 103, 107, 104, 100, 105, 100, 108, 100, 106, 100} {
			r := t.Do(cl, fmt.Sprintf("cmd-%d-%d", cmd, len(trace)), cmd, 6)
			switch {
			case r.Err == nil:
				add(fmt.Sprintf("do %d -> ok %s", cmd, r.Res.Body))
			default:
				if lb, ok := r.Err.(*protocol.LBError); ok {
					add(fmt.Sprintf("do %d -> status %d code %d %s", cmd, lb.Status, lb.Code, lb.Message))
				} else {
					kind := "error"
					if strings.Contains(r.ErrStr, "timeout") {
						kind = "timeout"
					}
					add(fmt.Sprintf("do %d -> %s", cmd, kind))
				}
			}
			if cmd >= 104 && cmd != 107 {
				t.Sleep(14) // recovery window
			}
		}
		cl.Close(nil)
		pongIds := []string{}
		for _, e := range t.events {
			if e.Kind == "cb.pong" {
				pongIds = append(pongIds, fmt.Sprint(e.F["rid"]))
			}
		}
		add("pongs " + strings.Join(pongIds, ","))
		add(fmt.Sprintf("callbacks ping=%d after_reconnected=%d on_close=%d", atomic.LoadInt32(&t.pingCb), atomic.LoadInt32(&t.afterRec), atomic.LoadInt32(&t.onClose)))
		mu.Lock()
		canon := strings.Join(trace, " ; ")
		mu.Unlock()
		t.ev("c20.trace", "canon", canon, "connections", p.Dials())
		// ws control mapping, field by field (on WebSocket only)
		if t.Transport == "ws" {
			pings := 0
			for _, e := range t.events {
				if e.Kind == "cb.ping" && fmt.Sprint(e.F["body"]) == fmt.Sprintf("%x", "hb") {
					pings++
				}
			}
			t.Check("ws_control_mapping", pings == 1, "a WebSocket ping was surfaced %d times as a heartbeat request with its payload", pings)
		}
	}})

	// WebSocket heartbeats: the client's heartbeat is a ping frame carrying the heartbeat message; the pong surfaces as a
	// heartbeat response whose request id is the heartbeat id
	register(&scenario{Name: "c20/ws-heartbeat-mapping", Props: []string{"C20", "C15"}, Quick: true, Transports: []string{"ws"}, Run: func(t *T) {
		p := newPeer(t, t.Transport, t.Version)
		defer p.Shutdown()
		p.onFrame = func(pc *peerConn, f frameIn) { stdReply(pc, f) }
		cfg := defaultCfg()
		cfg.KeepaliveU, cfg.KeepaliveTimeoutU = 2, 6
		cl, err := t.NewClient(p, cfg)
		if err != nil {
			t.Check("setup", false, "dial: %v", err)
			return
		}
		defer cl.Close(nil)
		t.Sleep(11)
		pc := p.FirstConn()
		ids := []string{}
		for _, f := range pc.Frames() {
			if f.WsKind == "ping" {
				var hb control.Heartbeat
				ok := pb.Unmarshal(f.Body, &hb) == nil && hb.HeartbeatId != nil
				t.Check("ws_control_mapping", ok, "a client heartbeat did not arrive as a ping frame carrying the heartbeat message")
				ids = append(ids, fmt.Sprint(hb.GetHeartbeatId()))
			}
			t.Check("ws_control_mapping", !(f.WsKind == "binary" && f.Cmd == 1), "a heartbeat packet travelled as a binary message instead of a ping control frame")
		}
		pongs := []string{}
		for _, e := range t.events {
			if e.Kind == "cb.pong" {
				pongs = append(pongs, fmt.Sprint(e.F["rid"]))
			}
		}
		t.Check("ws_control_mapping", len(ids) >= 3 && strings.Join(pongs, ",") == strings.Join(ids[:len(pongs)], ","), "pong callbacks carried request ids %v, heartbeat ids sent were %v", pongs, ids)
	}})
}

func firstDiff(a, b []string) int {
	for i := 0; i < len(a) && i < len(b); i++ {
		if a[i] != b[i] {
			return i
		}
	}
	return min(len(a), len(b))
}

func abbreviate(x []int) string {
	if len(x) <= 12 {
		return fmt.Sprint(x)
	}
	return fmt.Sprintf("%v…(%d)", x[:12], len(x))
}

var _ = bytes.Equal
