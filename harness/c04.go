package main

import (
	"bytes"
	"encoding/hex"
	"encoding/json"
	"fmt"
	"strings"
	"time"

	"github.com/Allenxuxu/ringbuffer"
	control "github.com/longportapp/openapi-protobufs/gen/go/control"
	protocol "github.com/longportapp/openapi-protocol/go"
	pb "google.golang.org/protobuf/proto"
)

func init() { codecGens["C04"] = genC04 }

func allocBound(n int) uint64 { return uint64(4*(n*1032+512) + 65536) }

// hostile / malformed inputs derived from a valid frame
func mutations(rg *rng, version int, frame []byte) [][]byte {
	out := [][]byte{}
	hl := 0
	switch frame[0] & 0xf {
	case 1:
		hl = 11
	case 2:
		hl = 10
	case 3:
		hl = 5
	}
	if version == 2 {
		hl += 2
	}
	set := func(off int, vals ...byte) {
		m := append([]byte{}, frame...)
		copy(m[off:], vals)
		out = append(out, m)
	}
	if hl > 0 && len(frame) >= hl {
		bl := int(frame[hl-3])<<16 | int(frame[hl-2])<<8 | int(frame[hl-1])
		// body length field: 0, max, actual±1
		set(hl-3, 0, 0, 0)
		set(hl-3, 0xff, 0xff, 0xff)
		set(hl-3, byte((bl+1)>>16), byte((bl+1)>>8), byte(bl+1))
		if bl > 0 {
			set(hl-3, byte((bl-1)>>16), byte((bl-1)>>8), byte(bl-1))
		}
		if version == 2 {
			ml := int(frame[hl-5])<<8 | int(frame[hl-4])
			set(hl-5, 0, 0)
			set(hl-5, 0xff, 0xff)
			set(hl-5, byte((ml+1)>>8), byte(ml+1))
			if ml > 0 {
				set(hl-5, byte((ml-1)>>8), byte(ml-1))
			}
		}
		// header claiming the maximum with nothing behind
		m := append([]byte{}, frame[:hl]...)
		m[hl-3], m[hl-2], m[hl-1] = 0xff, 0xff, 0xff
		out = append(out, m)
		if version == 2 {
			m2 := append([]byte{}, frame[:hl]...)
			m2[hl-5], m2[hl-4] = 0xff, 0xff
			out = append(out, m2)
		}
	}
	// flag flips, type nibble changes, random byte mutations
	for _, x := range []byte{0x10, 0x20, 0x40, 0x80, 0x01, 0x02, 0x03, 0x07, 0x0f} {
		m := append([]byte{}, frame...)
		m[0] ^= x
		out = append(out, m)
	}
	for i := 0; i < 6; i++ {
		m := append([]byte{}, frame...)
		m[rg.intn(len(m))] = byte(rg.intn(256))
		out = append(out, m)
	}
	return out
}

func genC04(e *emitter, tier string, seed uint64) map[string]interface{} {
	defer flushUnstable(e, "C04")
	rg := &rng{seed ^ 0x04}
	thorough := tier == "thorough"
	maxAlloc := uint64(0)

	oneShot := func(version int, data []byte, class string) {
		var alloc uint64
		var idx int
		alloc = allocOf(func() { idx, _, _ = unpackBytesOp(e, version, protocol.CodecProtobuf, data, frameSpecOf(data), class) })
		// the op itself formats strings; measure the decode alone
		alloc = allocOf(func() {
			guard(func() string {
				proto(version).UnpackBytes(newCtx(version, protocol.CodecProtobuf), data)
				return ""
			})
		})
		if alloc > maxAlloc {
			maxAlloc = alloc
		}
		if alloc > allocBound(len(data)) {
			e.fail(idx, fmt.Sprintf("alloc_oneshot:v%d", version), fmt.Sprintf("UnpackBytes of %d bytes allocated %d bytes (bound %d)", len(data), alloc, allocBound(len(data))))
		}
	}
	streaming := func(version int, data []byte, chunks []int, class string) {
		capacity := rg.pick([]int{1, 3, 8, 64, 4096})
		pre := rg.intn(capacity + 1)
		gzs := gzEntriesOfStream(version, data)
		sr := runStream(version, protocol.CodecProtobuf, capacity, pre, chunks, data)
		line := fmt.Sprintf("stream v=%d codec=1 cap=%d pre=%d chunks=%s hex=%s%s", version, capacity, pre, chunkList(chunks), hexSpec(data).String(), gztToken(gzs))
		idx := e.op(line, sr.text, class, true)
		if sr.panic {
			e.fail(idx, fmt.Sprintf("stream_total:v%d", version), "streaming decoder panicked")
		}
		if strings.HasPrefix(sr.text, "NOPROGRESS") {
			e.fail(idx, fmt.Sprintf("progress:v%d", version), "a call reported a packet without consuming a byte")
		}
		// allocation of a single Unpack call on the whole input buffered at once: bounded by what is buffered
		rb := ringbuffer.NewWithData(append([]byte{}, data...))
		if len(data) > 0 {
			ctx := newCtx(version, protocol.CodecProtobuf)
			alloc := allocOf(func() {
				guard(func() string { proto(version).Unpack(ctx, rb); return "" })
			})
			if alloc > maxAlloc {
				maxAlloc = alloc
			}
			if alloc > allocBound(len(data)) {
				e.fail(idx, fmt.Sprintf("alloc_stream:v%d", version), fmt.Sprintf("Unpack with %d bytes buffered allocated %d bytes (bound %d)", len(data), alloc, allocBound(len(data))))
			}
		}
	}

	nf := 25
	if thorough {
		nf = 300
	}
	for i := 0; i < nf; i++ {
		version := 1 + i%2
		frame, _ := genValidFrame(rg, version, true)
		inputs := mutations(rg, version, frame)
		// every truncation point
		for cut := 0; cut <= len(frame); cut++ {
			if thorough || cut < 40 || cut > len(frame)-30 {
				inputs = append(inputs, frame[:cut])
			}
		}
		for _, in := range inputs {
			oneShot(version, in, "oneshot/mutated-valid")
			streaming(version, in, partitions(rg, len(in), 0), "stream/mutated-valid/whole")
			if len(in) <= 200 {
				streaming(version, in, partitions(rg, len(in), 1), "stream/mutated-valid/1-byte")
			}
			streaming(version, append(append([]byte{}, in...), frame...), partitions(rg, len(in)+len(frame), 2), "stream/mutated-then-valid/random")
		}
	}
	// random bytes (first byte biased to known types so that the parsers get past byte 0)
	nr := 1500
	if thorough {
		nr = 25000
	}
	for i := 0; i < nr; i++ {
		version := 1 + i%2
		d := rg.bytes(rg.intn(80))
		if len(d) > 0 && i%3 != 0 {
			d[0] = d[0]&0xd0 | byte(1+rg.intn(3)) // gzip bit cleared: a random body is never a gzip stream anyway
		} else if len(d) > 0 {
			d[0] &^= 0x20
		}
		if len(d) > 6 && i%5 == 0 { // small plausible lengths
			d[len(d)%6+1] = byte(rg.intn(4))
		}
		oneShot(version, d, "oneshot/random")
		streaming(version, d, partitions(rg, len(d), i%3), "stream/random")
	}
	// metadata block decoder and handshake decoder on random bytes
	for i := 0; i < nr; i++ {
		d := rg.bytes(rg.intn(50))
		res, _ := decodeRes(d)
		idx := e.op("md.decode hex=hex:"+hex.EncodeToString(d), res, "metadata/random", len(d) > 0)
		if res == "panic" {
			e.fail(idx, "metadata_total", "UnmarshalValues panicked")
		}
		if i%10 == 0 {
			var h protocol.Handshake
			hd := rg.bytes(rg.intn(6))
			r := guard(func() string {
				if err := h.Unpack(hd); err != nil {
					return "err"
				}
				return fmt.Sprintf("ok %d %d %d %d", h.Version, h.Codec, h.Platform, h.Reserve)
			})
			idx := e.op("hs.unpack hex=hex:"+hex.EncodeToString(hd), r, "handshake/random", true)
			if r == "panic" {
				e.fail(idx, "handshake_total", "Handshake.Unpack panicked")
			}
		}
	}
	// gzip decoder: hostile trailers (the rest is C10's generator)
	tiny := stdCompress([]byte("hello"))
	for _, v := range []uint32{0, 4, 6, 1 << 16, 1 << 20, 5000000, 1<<24 - 1, 1 << 24, 1 << 28} {
		gzDecOp(e, withISIZE(tiny, v), "gzip/isize-hostile")
	}
	for i := 0; i < 200; i++ {
		d := rg.bytes(rg.intn(40))
		if len(d) > 3 {
			d[0], d[1], d[2] = 0x1f, 0x8b, 8
		}
		gzDecOp(e, d, "gzip/random")
	}
	perrRun := func(st int, codec protocol.CodecType, typ protocol.PacketType, body []byte) {
		// the decoder of the error body is an oracle for the model: what the real proto/json decoder says
		dec := "none"
		var ce control.Error
		switch codec {
		case protocol.CodecProtobuf:
			if pb.Unmarshal(body, &ce) == nil {
				dec = fmt.Sprintf("%d:%s", ce.GetCode(), hex.EncodeToString([]byte(ce.GetMsg())))
			}
		case protocol.CodecJSON:
			if json.Unmarshal(body, &ce) == nil {
				dec = fmt.Sprintf("%d:%s", ce.GetCode(), hex.EncodeToString([]byte(ce.GetMsg())))
			}
		}
		p := protocol.Packet{Metadata: &protocol.Metadata{Type: typ, StatusCode: uint8(st), Codec: codec}, Body: body}
		var lb *protocol.LBError
		res := guard(func() string {
			err := p.Err()
			if err == nil {
				return "nil"
			}
			l, ok := err.(*protocol.LBError)
			if !ok {
				return "other-error"
			}
			lb = l
			msg := hex.EncodeToString([]byte(l.Message))
			if l.Message == "unknown error, cant unmarshal body" {
				msg = "FALLBACK"
			}
			return fmt.Sprintf("err status=%d code=%d msg=%s", l.Status, l.Code, msg)
		})
		idx := e.op(fmt.Sprintf("perr type=%s st=%d codec=%d body=%s dec=%s", typeName(typ), st, codec, hexSpec(body).String(), dec), res, "packet-err", true)
		switch {
		case res == "panic":
			e.fail(idx, "err_total", "Packet.Err panicked")
		case (typ != protocol.ResponsePacket || st == 0) && res != "nil":
			e.fail(idx, "err_mapping", "success / non-response surfaced as error: "+res)
		case typ == protocol.ResponsePacket && st != 0 && (lb == nil || lb.Status != uint8(st)):
			e.fail(idx, "err_mapping", "non-zero status not surfaced as typed error with that status: "+res)
		case lb != nil && dec == "none" && (lb.Code != 500 || lb.Message != "unknown error, cant unmarshal body"):
			e.fail(idx, "err_mapping", "undecodable error body did not give the code-500 fallback: "+res)
		}
	}
	// the statuses around the defined range (0..8 are defined, 9 is the first that is not) and the largest ones, with every codec and both
	// kinds of packet, for the three bodies a gateway really sends: nothing, an error message without text, an error message with text
	for _, st := range []int{0, 1, 2, 3, 4, 5, 6, 7, 8, 9, 10, 11, 15, 16, 17, 127, 128, 254, 255} {
		for _, codec := range []protocol.CodecType{protocol.CodecProtobuf, protocol.CodecJSON, protocol.CodecUnknown, 7} {
			for _, typ := range []protocol.PacketType{protocol.ResponsePacket, protocol.PushPacket} {
				for _, ce := range []*control.Error{nil, {Code: uint64(st)}, {Code: 4000 + uint64(st), Msg: "denied"}} {
					var body []byte
					if ce != nil {
						if codec == protocol.CodecJSON {
							body, _ = json.Marshal(ce)
						} else {
							body, _ = pb.Marshal(ce)
						}
					}
					perrRun(st, codec, typ, body)
				}
			}
		}
	}
	// typed error extraction: Packet.Err on every status x (valid error body | garbage | empty) x codec x type
	for st := 0; st < 256; st++ {
		for k := 0; k < 4; k++ {
			codec := []protocol.CodecType{protocol.CodecProtobuf, protocol.CodecJSON, protocol.CodecUnknown, 7}[rg.intn(4)]
			typ := []protocol.PacketType{protocol.ResponsePacket, protocol.ResponsePacket, protocol.ResponsePacket, protocol.PushPacket, protocol.RequestPacket, ""}[rg.intn(6)]
			var body []byte
			switch k {
			case 0:
				ce := &control.Error{Code: uint64(rg.intn(100000)), Msg: []string{"", "denied", "bad ünïcode", "x y"}[rg.intn(4)]}
				if codec == protocol.CodecJSON {
					body, _ = json.Marshal(ce)
				} else {
					body, _ = pb.Marshal(ce)
				}
			case 1:
				body = rg.bytes(1 + rg.intn(20))
			case 3:
				// damaged only after a valid field has been decoded
				ce := &control.Error{Code: uint64(1 + rg.intn(100000)), Msg: []string{"denied", "boom", "x y z"}[rg.intn(3)]}
				if codec == protocol.CodecJSON {
					body, _ = json.Marshal(ce)
					switch rg.intn(6) {
					case 0, 1, 2:
						body = append(body, []byte{'}', ',', 'x'}[rg.intn(3)])
					case 3: // an extra member (decodable), another member case (decodable), the code as text (not decodable) — the oracle below is encoding/json
						body = []byte(fmt.Sprintf(`{"code":%d,"trace_id":"t-1","msg":%q}`, ce.Code, ce.Msg))
					case 4:
						body = []byte(fmt.Sprintf(`{"Code":%d,"MSG":%q}`, ce.Code, ce.Msg))
					default:
						body = []byte(fmt.Sprintf(`{"code":"%d","msg":%q}`, ce.Code, ce.Msg))
					}
				} else {
					body, _ = pb.Marshal(ce)
					switch rg.intn(4) {
					case 3:
						body = append(body, 0x78, 0x01, 0x82, 0x01, 0x02, 'h', 'i') // unknown fields: decodable (the oracle below is the protobuf decoder)
					case 0:
						body = append(body, 0x07)
					case 1:
						body = body[:len(body)-1]
					default:
						body = append(body, 0x1a, 0x7f)
					}
				}
			}
			perrRun(st, codec, typ, body)
		}
	}
	// after an error the context can be used again (an application may keep a connection whose bad frame was consumed whole): polled with
	// an EMPTY buffer the decoder asks for more data — it does not report a packet out of nothing — and the next frame decodes
	for _, version := range []int{1, 2} {
		for round := 0; round < 6; round++ {
			ctx := newCtx(version, protocol.CodecProtobuf)
			body := bytes.Repeat([]byte{'g', byte(round)}, 40)
			bad := specEncode(version, specFrame{typ: 1 + round%3, cmd: 9, rid: uint32(round + 1), gzip: 1, body: append([]byte{0x1f, 0x8b, 8, 0, 0, 0, 0, 0, 0, 0xff}, []byte("this is not deflate data")...)})
			good := specEncode(version, specFrame{typ: 3, cmd: 50, body: body})
			res := guard(func() string {
				rb := ringbuffer.New(16)
				rb.Write(bad)
				if _, done, err := proto(version).Unpack(ctx, rb); err == nil {
					return fmt.Sprintf("the frame with a corrupt compressed body was accepted (done=%v)", done)
				}
				otherPoolUsers(version)
				empty := ringbuffer.New(16)
				if pk, done, err := proto(version).Unpack(ctx, empty); done || pk != nil {
					return fmt.Sprintf("polled with an EMPTY buffer after an error the decoder reported a packet (err=%v): %s", err, showPacket(pk))
				}
				otherPoolUsers(version)
				rb2 := ringbuffer.New(16)
				rb2.Write(good)
				pk, done, err := proto(version).Unpack(ctx, rb2)
				if err != nil || !done || !bytes.Equal(pk.Body, body) || rb2.Length() != 0 {
					return fmt.Sprintf("the next well-formed frame on the same context: done=%v err=%v left=%d", done, err, rb2.Length())
				}
				return "ok"
			})
			idx := e.op(fmt.Sprintf("gz.note roundtrip after-error v=%d round=%d", version, round), "ok", "after-error", true)
			if res != "ok" {
				e.fail(idx, fmt.Sprintf("stream_total:v%d:after-error", version), res)
			}
		}
	}
	// totality under concurrency: the decoders of several connections run at the same time (one reader goroutine per connection in the
	// client); valid gzip-flagged frames, truncated ones and corrupt ones mixed — no panic, valid frames decode, calls return
	{
		const G, N = 8, 80
		mkFrame := func(version int, n int) ([]byte, []byte) {
			body := bytes.Repeat([]byte{byte('a' + n%26), byte(n)}, n/2+1)
			f := specEncode(version, specFrame{typ: 3, cmd: 50 + n%100, gzip: 1, body: stdCompress(body)})
			return f, body
		}
		bad := make([]string, G)
		done := make(chan int, G)
		for g := 0; g < G; g++ {
			go func(g int) {
				defer func() {
					if x := recover(); x != nil {
						bad[g] = fmt.Sprintf("goroutine %d: a decoder panicked under concurrent use: %v", g, x)
					}
					done <- g
				}()
				for i := 0; i < N; i++ {
					version := 1 + (g+i)%2
					f, body := mkFrame(version, 10+((g*131+i*17)%4000))
					switch i % 5 {
					case 3: // a corrupt stream: must be an error, not a panic
						c := append([]byte{}, f...)
						c[len(c)-6] ^= 0x55
						proto(version).UnpackBytes(newCtx(version, protocol.CodecProtobuf), c)
						continue
					case 4: // truncated
						proto(version).UnpackBytes(newCtx(version, protocol.CodecProtobuf), f[:len(f)-3])
						continue
					}
					var q *protocol.Packet
					var err error
					if i%2 == 0 {
						q, err = proto(version).UnpackBytes(newCtx(version, protocol.CodecProtobuf), f)
					} else {
						var ok bool
						q, ok, err = proto(version).Unpack(newCtx(version, protocol.CodecProtobuf), ringbuffer.NewWithData(append([]byte{}, f...)))
						if err == nil && !ok {
							err = fmt.Errorf("need more data on a whole frame")
						}
					}
					if err != nil || q == nil || !bytes.Equal(q.Body, body) {
						bad[g] = fmt.Sprintf("goroutine %d frame %d (v%d): a valid gzip-flagged frame did not decode to its body: err=%v", g, i, version, err)
						return
					}
				}
			}(g)
		}
		stuck := ""
		for k := 0; k < G; k++ {
			select {
			case <-done:
			case <-time.After(60 * time.Second):
				stuck = "a decoder call did not return within 60 s under concurrent use"
			}
		}
		idx := e.op("gz.note concurrent decode goroutines=8 frames=80", "done", "concurrent", true)
		if stuck != "" {
			e.fail(idx, "unpack_total_concurrent", stuck)
		}
		for _, b := range bad {
			if b != "" {
				e.fail(idx, "unpack_total_concurrent", b)
				break
			}
		}
	}
	return map[string]interface{}{"max_alloc_single_decode_call": maxAlloc}
}

// gzEntriesOfStream walks a byte stream frame by frame with the independent layout splitter and returns the
// standard reader's verdict for every body section whose frame carries the gzip flag (the model's oracle table)
func gzEntriesOfStream(version int, data []byte) []gzEntry {
	out := []gzEntry{}
	pos := 0
	for pos < len(data) && len(out) < 8 {
		off, n, ok := bodySection(version, data[pos:])
		if !ok {
			break
		}
		if data[pos]>>5&1 == 1 {
			out = append(out, gzEntryFor(data[pos+off:pos+off+n]))
		}
		next := pos + off + n
		if data[pos]>>4&1 == 1 {
			next += 24
		}
		if next <= pos {
			break
		}
		pos = next
	}
	return out
}
