package main

import (
	"bytes"
	"fmt"
	"strings"
	"sync"

	"github.com/Allenxuxu/ringbuffer"
	protocol "github.com/longportapp/openapi-protocol/go"
)

func init() { codecGens["C11"] = genC11 }

type conn struct {
	version int
	codec   protocol.CodecType
	ctx     *protocol.Context
	rb      *ringbuffer.RingBuffer
	// shadow: an isolated connection that only ever sees this connection's stream chunks
	sctx *protocol.Context
	srb  *ringbuffer.RingBuffer
}

func newConn(version int, codec protocol.CodecType) *conn {
	return &conn{version: version, codec: codec, ctx: newCtx(version, codec), rb: ringbuffer.New(16), sctx: newCtx(version, codec), srb: ringbuffer.New(16)}
}

// drain: write the chunk, call Unpack until it no longer reports a packet; text in the `sfeed` format
func drain(version int, ctx *protocol.Context, rb *ringbuffer.RingBuffer, chunk []byte) (string, bool) {
	rb.Write(chunk)
	calls := []string{}
	failed := false
	for {
		var pk *protocol.Packet
		var done bool
		var err error
		r := guard(func() string { pk, done, err = proto(version).Unpack(ctx, rb); return "ok" })
		s := "more"
		switch {
		case r == "panic":
			s, failed = "panic", true
		case err != nil:
			s, failed = "err", true
		case done:
			s = "pkt " + showPacket(pk)
			// the application keeps the packet (its later state is checked by retainedChanged) and tags it, as a relay would
			retained = append(retained, pk)
			retainedText = append(retainedText, showPacket(pk))
			if len(retained) > 64 {
				retained, retainedText = retained[1:], retainedText[1:]
			}
		}
		calls = append(calls, fmt.Sprintf("%s len=%d", s, rb.Length()))
		if failed || !done {
			break
		}
	}
	return fmt.Sprintf("[w%d: %s]", len(chunk), strings.Join(calls, "; ")), failed
}

// packets delivered by the streaming decoders of the histories, kept by the "application"
var retained []*protocol.Packet
var retainedText []string

// retainedChanged: a delivered packet is the application's: it does not change when the connection (or any other) receives more
// input, and tagging it (SetMetadata) does not show up in packets decoded elsewhere
func retainedChanged() string {
	for i, pk := range retained {
		if now := showPacket(pk); now != retainedText[i] {
			return fmt.Sprintf("a delivered packet changed afterwards: was %.160s, is %.160s", retainedText[i], now)
		}
	}
	return ""
}

func tagRetained() {
	defer func() { recover() }()
	if n := len(retained); n > 0 && retained[n-1].Metadata != nil && retained[n-1].Metadata.Values != nil {
		retained[n-1].SetMetadata("zz-tag", "relayed")
		retainedText[n-1] = showPacket(retained[n-1])
	}
}

func historyCase(e *emitter, rg *rng, nops int) {
	e.op("hist.reset", "ok", "reset", false)
	conns := []*conn{newConn(1, protocol.CodecProtobuf), newConn(2, protocol.CodecJSON), newConn(1+rg.intn(2), protocol.CodecProtobuf)}
	pendingTail := make([][]byte, len(conns)) // the rest of a frame fed partially
	for i := 0; i < nops; i++ {
		ci := rg.intn(len(conns))
		c := conns[ci]
		switch rg.intn(8) {
		case 0, 1: // stream: a whole valid frame, a partial frame, the tail of a partial frame, or garbage
			var chunk []byte
			class := "hist/stream-valid"
			switch {
			case pendingTail[ci] != nil && rg.intn(3) != 0:
				chunk, pendingTail[ci] = pendingTail[ci], nil
				class = "hist/stream-tail"
			case pendingTail[ci] == nil && rg.intn(3) == 0:
				f, g := genValidFrame(rg, c.version, true)
				for g != nil {
					f, g = genValidFrame(rg, c.version, true)
				}
				cut := 1 + rg.intn(len(f)-1)
				chunk, pendingTail[ci] = f[:cut], f[cut:]
				class = "hist/stream-partial"
			case pendingTail[ci] == nil && c.version == 2 && rg.intn(5) == 0:
				// a well-framed v2 frame whose metadata block does not parse (a two-byte length prefix claiming more than the block holds)
				chunk = specEncode(2, specFrame{typ: 1 + rg.intn(3), cmd: rg.intn(256), rid: uint32(rg.next()), md: []byte{0x83, 0x00, 'a', 'b', 'c'}, body: rg.bytes(rg.intn(9))})
				class = "hist/stream-bad-metadata"
			case pendingTail[ci] == nil && rg.intn(5) == 0:
				// a well-framed, gzip-flagged frame whose compressed body is corrupt: the decode fails AFTER the whole frame was consumed
				f, g := genValidFrame(rg, c.version, true)
				for tries := 0; g == nil && tries < 40; tries++ {
					f, g = genValidFrame(rg, c.version, true)
				}
				if off, n, ok := bodySection(c.version, f); g != nil && ok && n > 12 {
					f[off+10+rg.intn(n-10)] ^= 0x5a
				}
				chunk = f
				class = "hist/stream-corrupt-gzip"
			case pendingTail[ci] == nil && rg.intn(6) == 0:
				chunk = rg.bytes(1 + rg.intn(12))
				chunk[0] = chunk[0]&0xd0 | byte(4+rg.intn(10)) // unknown type nibble: the decode fails
				class = "hist/stream-garbage"
			case pendingTail[ci] == nil:
				chunk, _ = genValidFrame(rg, c.version, true)
			default:
				continue
			}
			gzs := []gzEntry{}
			// oracle entries: any complete gzip-flagged frame in (what this connection has been fed); cheap approximation:
			// entries for frames starting at the chunk start or completing with this tail
			gzs = append(gzs, gzEntriesOfStream(c.version, chunk)...)
			if class == "hist/stream-tail" {
				gzs = append(gzs, tailGz...)
			}
			text, failed := drain(c.version, c.ctx, c.rb, chunk)
			stext, sfailed := drain(c.version, c.sctx, c.srb, chunk)
			idx := e.op(fmt.Sprintf("sfeed ctx=%d v=%d codec=%d hex=%s%s", ci, c.version, c.codec, hexSpec(chunk).String(), gztToken(gzs)), text, class, true)
			if text != stext {
				e.fail(idx, fmt.Sprintf("stream_local:v%d", c.version), "streaming result differs from the same connection's stream decoded in isolation: "+text[:min(160, len(text))]+" vs "+stext[:min(160, len(stext))])
			}
			if d := retainedChanged(); d != "" {
				e.fail(idx, fmt.Sprintf("delivered_packets_stable:v%d", c.version), d)
				retained, retainedText = nil, nil
			}
			if strings.Contains(text, "7a7a2d746167") || strings.Contains(stext, "7a7a2d746167") {
				e.fail(idx, fmt.Sprintf("stream_local:v%d", c.version), "a packet decoded from the wire carries a metadata entry that the application had set on ANOTHER packet: "+text[:min(200, len(text))])
			}
			tagRetained()
			if failed {
				c.rb = ringbuffer.New(16)
				pendingTail[ci] = nil
			}
			if sfailed {
				c.srb = ringbuffer.New(16)
			}
		case 2, 3, 4: // one-shot decode on this connection's context: valid, mutated or truncated frame
			f, _ := genValidFrame(rg, c.version, true)
			class := "hist/oneshot-valid"
			switch rg.intn(6) {
			case 4: // a message that is not a frame at all: text whose first byte has type nibble 0
				f = append([]byte{byte(0x10 + 0x10*rg.intn(15))}, []byte(" not a frame")...)
				class = "hist/oneshot-text"
			case 5: // type nibble 0 with flags set, a plausible rest
				f[0] = f[0] & 0xf0
				class = "hist/oneshot-type0"
			case 0:
				f = f[:rg.intn(len(f))]
				class = "hist/oneshot-truncated"
			case 1:
				f[rg.intn(len(f))] ^= byte(1 + rg.intn(255))
				class = "hist/oneshot-mutated"
			}
			var res string
			res = guard(func() string {
				p, err := proto(c.version).UnpackBytes(c.ctx, f)
				if err != nil {
					return "err"
				}
				return "ok " + showPacket(p)
			})
			iso := guard(func() string {
				p, err := proto(c.version).UnpackBytes(newCtx(c.version, c.codec), f)
				if err != nil {
					return "err"
				}
				return "ok " + showPacket(p)
			})
			line := fmt.Sprintf("unpackbytes v=%d codec=%d hex=%s", c.version, c.codec, frameSpecOf(f))
			if len(f) > 0 && f[0]>>5&1 == 1 {
				if off, n, ok := bodySection(c.version, f); ok {
					line += " gzr=" + gzrToken(f[off:off+n])
				}
			}
			idx := e.op(line, res, class, true)
			if res != iso {
				e.fail(idx, fmt.Sprintf("unpackBytes_pure:v%d", c.version), "one-shot decode on a used context differs from the decode in isolation: "+res[:min(200, len(res))]+" vs "+iso[:min(200, len(iso))])
			}
		default: // pack on this connection's context
			p := &pkt{version: c.version, typ: []string{"request", "response", "push", "request", "response", "push", "other"}[rg.intn(7)], cmd: uint32(rg.intn(256)), rid: uint32(rg.next()), to: uint16(rg.next()), st: uint8(rg.next()),
				verify: rg.intn(3) == 0, body: genBody(rg, rg.pick([]int{0, 1, 5, 40}))}
			if p.verify {
				p.nonce, p.sig = rg.next(), rg.bytes(16)
			}
			if c.version == 2 && rg.intn(2) == 0 {
				p.pairs = genPairs(rg, 1+rg.intn(3))
			}
			thr := []int{0, 0, 1}[rg.intn(3)]
			run := func(ctx *protocol.Context) (string, *protocol.Packet) {
				pk := p.build(c.codec)
				var out string
				out = guard(func() string {
					f, err := proto(c.version).Pack(ctx, pk, protocol.GzipSize(thr))
					if err != nil {
						return "err"
					}
					g := 0
					if pk.Metadata.Gzip {
						g = 1
					}
					return fmt.Sprintf("ok %s gzip=%d", showBytes(f), g)
				})
				return out, pk
			}
			res, pk := run(c.ctx)
			iso, _ := run(newCtx(c.version, c.codec))
			gz := ""
			if thr != 0 && len(p.body.bytes()) >= thr {
				gz = hexSpec(pk.Body).String()
			}
			idx := e.op(p.packLine(thr, gz), res, "hist/pack", true)
			if res != iso {
				e.fail(idx, fmt.Sprintf("pack_pure:v%d", c.version), "Pack on a used context differs from Pack in isolation")
			}
		}
	}
}

var tailGz []gzEntry

func genC11(e *emitter, tier string, seed uint64) map[string]interface{} {
	gzPoolIndependence(e, &rng{seed ^ 0x1111})
	rg := &rng{seed ^ 0x11}
	thorough := tier == "thorough"
	// gzip entries for tails are unknown at tail time (the frame started in an earlier chunk): avoid gzip in partial frames by
	// regenerating until the partial frame is not flagged — genValidFrame flags ~20%; the `sfeed` oracle default (reject) would disagree
	n := 120
	if thorough {
		n = 1500
	}
	for i := 0; i < n; i++ {
		historyCase(e, rg, 20+rg.intn(60))
	}
	// histories over ONE packet object: packed, its exported metadata map edited the way a relay or a retry edits it (index assignment of the
	// same length, of another length, delete + add with the number of pairs unchanged, the map replaced, Set), packed again on the same and on
	// another context — every frame is a function of the packet as it is at that moment; nothing of an earlier Pack survives in the packet
	for i := 0; i < n/2; i++ {
		ctx := newCtx(2, protocol.CodecProtobuf)
		pkv, err := protocol.NewPush(ctx, uint32(50+rg.intn(100)), rg.bytes(rg.pick([]int{0, 3, 40})))
		if err != nil {
			continue
		}
		pk := &pkv
		for j, np := 0, 1+rg.intn(4); j < np; j++ {
			pk.SetMetadata(fmt.Sprintf("k%d", j), string(rg.bytes(1+rg.intn(12))))
		}
		steps := []string{}
		for st := 0; st < 5; st++ {
			keys := sortedKeys(pk.Metadata.Values)
			switch op := rg.intn(5); {
			case op == 0 && len(keys) > 0:
				k := keys[rg.intn(len(keys))]
				pk.Metadata.Values[k] = string(bytes.Repeat([]byte{byte('A' + st)}, len(pk.Metadata.Values[k])))
				steps = append(steps, "overwrite-same-length")
			case op == 1 && len(keys) > 0:
				pk.Metadata.Values[keys[rg.intn(len(keys))]] = string(rg.bytes(1 + rg.intn(30)))
				steps = append(steps, "overwrite")
			case op == 2 && len(keys) > 0:
				delete(pk.Metadata.Values, keys[rg.intn(len(keys))])
				pk.Metadata.Values[fmt.Sprintf("n%d", st)] = "new"
				steps = append(steps, "delete+add")
			case op == 3:
				nm := map[string]string{fmt.Sprintf("r%d", st): "replaced"}
				for k, v := range pk.Metadata.Values {
					nm[k] = v
				}
				pk.Metadata.Values = nm
				steps = append(steps, "replace-map")
			default:
				pk.SetMetadata(fmt.Sprintf("S%d", rg.intn(3)), string(rg.bytes(rg.intn(9))))
				steps = append(steps, "Set")
			}
			body := append([]byte{}, pk.Body...)
			useCtx := ctx
			if st%2 == 1 {
				useCtx = newCtx(2, protocol.CodecProtobuf)
			}
			frame, err := proto(2).Pack(useCtx, pk)
			pk.Body = body
			fv, _ := protocol.NewPush(newCtx(2, protocol.CodecProtobuf), pk.Metadata.CmdCode, append([]byte{}, body...))
			fv.Metadata.Values = map[string]string{}
			for k, v := range pk.Metadata.Values {
				fv.Metadata.Values[k] = v
			}
			want, errW := proto(2).Pack(newCtx(2, protocol.CodecProtobuf), &fv)
			if (err == nil) != (errW == nil) || !bytes.Equal(frame, want) {
				idx := e.op(fmt.Sprintf("gz.note repack-history steps=%s", strings.Join(steps, "+")), "ok", "repack-history", true)
				e.fail(idx, "pack_pure:v2", fmt.Sprintf("one packet packed, then edited (%s) and packed again gives (err=%v) %s; a fresh packet with the same fields and the current metadata map %s gives (err=%v) %s", strings.Join(steps, ", "), err, showBytes(frame), showMap(pk.Metadata.Values), errW, showBytes(want)))
				break
			}
		}
	}
	e.op("gz.note repack-histories", "ok", "repack-history", true)
	// N goroutines with private contexts running the same mixed workload: every result equals the sequential one (supporting)
	G := 8
	if thorough {
		G = 32
	}
	frames := make([][]byte, 64)
	wants := make([]string, 64)
	for i := range frames {
		v := 1 + i%2
		frames[i], _ = genValidFrame(rg, v, true)
		p, err := proto(v).UnpackBytes(newCtx(v, protocol.CodecProtobuf), frames[i])
		if err != nil {
			wants[i] = "err"
		} else {
			wants[i] = showPacket(p)
		}
	}
	var wg sync.WaitGroup
	var mu sync.Mutex
	bad := ""
	for g := 0; g < G; g++ {
		wg.Add(1)
		go func(g int) {
			defer wg.Done()
			defer func() {
				if x := recover(); x != nil {
					mu.Lock()
					bad = fmt.Sprintf("goroutine %d: codec panicked under concurrent use: %v", g, x)
					mu.Unlock()
				}
			}()
			ctxs := map[int]*protocol.Context{1: newCtx(1, protocol.CodecProtobuf), 2: newCtx(2, protocol.CodecProtobuf)}
			for i := 0; i < 400; i++ {
				k := (g*13 + i) % len(frames)
				v := 1 + k%2
				var got string
				if i%3 == 0 { // streaming, in two chunks, on a private ring
					rb := ringbuffer.New(8)
					f := frames[k]
					cut := 1 + (i % (len(f) - 1))
					rb.Write(f[:cut])
					proto(v).Unpack(ctxs[v], rb)
					rb.Write(f[cut:])
					p, done, err := proto(v).Unpack(ctxs[v], rb)
					if err != nil || !done {
						got = "err"
					} else {
						got = showPacket(p)
					}
				} else {
					p, err := proto(v).UnpackBytes(ctxs[v], frames[k])
					if err != nil {
						got = "err"
					} else {
						got = showPacket(p)
					}
				}
				if got != wants[k] {
					mu.Lock()
					bad = fmt.Sprintf("goroutine %d op %d frame %d: %s", g, i, k, got[:min(120, len(got))])
					mu.Unlock()
				}
				// a pack in between recycles pooled headers with other content
				pk := &protocol.Packet{Metadata: &protocol.Metadata{Type: protocol.ResponsePacket, RequestId: uint32(i), StatusCode: uint8(g), CmdCode: 7}, Body: bytes.Repeat([]byte{byte(i)}, i%9)}
				proto(v).Pack(ctxs[v], pk)
				// … and a compressed one, whose result is checked: each goroutine's frame decodes to its own body
				if i%3 == 0 {
					body := bytes.Repeat([]byte{byte(g), byte(i), 'q'}, 400+g*13)
					pz := &protocol.Packet{Metadata: &protocol.Metadata{Type: protocol.PushPacket, CmdCode: 9}, Body: append([]byte{}, body...)}
					fz, err := proto(v).Pack(newCtx(v, protocol.CodecProtobuf), pz, protocol.GzipSize(64))
					var qz *protocol.Packet
					if err == nil {
						qz, err = proto(v).UnpackBytes(newCtx(v, protocol.CodecProtobuf), fz)
					}
					if err != nil || qz == nil || !bytes.Equal(qz.Body, body) {
						mu.Lock()
						bad = fmt.Sprintf("goroutine %d op %d: a compressed frame packed while other goroutines use the codec does not decode to its own body (err=%v)", g, i, err)
						mu.Unlock()
					}
				}
			}
		}(g)
	}
	wg.Wait()
	idx := e.op(fmt.Sprintf("gz.note concurrent-codec goroutines=%d", G), "ok", "concurrent", true)
	if bad != "" {
		e.fail(idx, "concurrent_isolated", bad)
	}
	return map[string]interface{}{}
}
