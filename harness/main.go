// harness: runs the real openapi-protocol code (built from /repo's working tree with
// -tags verif) on generated operations and prints canonical results, one per line, in the
// same line protocol as the Lean model driver (DESIGN.md Appendix D).
//
//	harness codec <prop> <tier> <seed> <dir>    writes <dir>/ops.txt, go.out, props.txt, meta.json
package main

import (
	"fmt"
	"os"
	"strconv"
)

func main() {
	if len(os.Args) < 2 {
		fmt.Fprintln(os.Stderr, "usage: harness codec <prop> <tier> <seed> <dir> | …")
		os.Exit(2)
	}
	switch os.Args[1] {
	case "codec":
		if len(os.Args) != 6 {
			fmt.Fprintln(os.Stderr, "usage: harness codec <prop> <tier> <seed> <dir>")
			os.Exit(2)
		}
		seed, err := strconv.ParseUint(os.Args[4], 10, 64)
		if err != nil {
			fmt.Fprintln(os.Stderr, "bad seed")
			os.Exit(2)
		}
		os.Exit(runCodec(os.Args[2], os.Args[3], seed, os.Args[5]))
	default:
		if f, ok := extraCommands[os.Args[1]]; ok {
			os.Exit(f(os.Args[2:]))
		}
		fmt.Fprintln(os.Stderr, "unknown command", os.Args[1])
		os.Exit(2)
	}
}

var extraCommands = map[string]func([]string) int{}
