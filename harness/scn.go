package main

// Scenario engine for the client properties (DESIGN.md "Scenario engine", Appendix C).
//   harness scn <name> <transport> <version> <seed>      runs ONE scenario in this process, prints a JSON result
//   harness client <prop> <tier> <seed> <dir>            runs the property's scenario batch (each scenario in a
//                                                        subprocess under a watchdog, 16 in parallel)

import (
	"context"
	"encoding/json"
	"fmt"
	"os"
	"os/exec"
	"path/filepath"
	"runtime"
	"sort"
	"strconv"
	"strings"
	"sync"
	"sync/atomic"
	"time"

	control "github.com/longportapp/openapi-protobufs/gen/go/control"
	protocol "github.com/longportapp/openapi-protocol/go"
	"github.com/longportapp/openapi-protocol/go/client"
	"github.com/longportapp/openapi-protocol/go/verifhook"
	pb "google.golang.org/protobuf/proto"
)

func init() {
	extraCommands["scn"] = cmdScn
	extraCommands["client"] = cmdClient
}

var unit = 50 * time.Millisecond // every duration in a scenario is a multiple of this

type event struct {
	T    float64                `json:"t"`
	Kind string                 `json:"k"`
	F    map[string]interface{} `json:"f,omitempty"`
}

type verdict struct {
	Key    string `json:"key"`
	OK     bool   `json:"ok"`
	Detail string `json:"detail,omitempty"`
}

type doResult struct {
	ID     string
	Err    error
	Res    *protocol.Packet
	Start  time.Time
	End    time.Time
	ErrStr string
}

// T is the context of one running scenario
type T struct {
	Name      string
	Transport string
	Version   int
	Seed      uint64
	rg        *rng
	t0        time.Time
	mu        sync.Mutex
	events    []event
	verdicts  []verdict
	warns     map[string]int
	dos       map[string]*doResult
	wg        sync.WaitGroup
	onClose   int32
	afterRec  int32
	cl        client.Client
	pingCb    int32
	pongCb    int32
	kept      []*protocol.Packet
	keptText  []string
	Codec     protocol.CodecType
}

func (t *T) ev(kind string, kv ...interface{}) {
	f := map[string]interface{}{}
	for i := 0; i+1 < len(kv); i += 2 {
		f[fmt.Sprint(kv[i])] = kv[i+1]
	}
	t.mu.Lock()
	t.events = append(t.events, event{T: time.Since(t.t0).Seconds(), Kind: kind, F: f})
	t.mu.Unlock()
}

// Check records one monitor verdict; key identifies the property clause (and, for known findings, the history)
func (t *T) Check(key string, ok bool, format string, a ...interface{}) {
	t.mu.Lock()
	t.verdicts = append(t.verdicts, verdict{Key: key, OK: ok, Detail: fmt.Sprintf(format, a...)})
	t.mu.Unlock()
}

func (t *T) U(n int) time.Duration { return time.Duration(n) * unit }
func (t *T) Sleep(n int)           { time.Sleep(t.U(n)) }

// capturing logger: counts the warnings the properties speak of
type capLogger struct{ t *T }

func (l capLogger) SetLevel(string)               {}
func (l capLogger) Info(string)                   {}
func (l capLogger) Debug(string)                  {}
func (l capLogger) Error(m string)                { l.t.ev("log.error", "msg", m) }
func (l capLogger) Warn(m string)                 { l.count(m) }
func (l capLogger) Infof(string, ...interface{})  {}
func (l capLogger) Debugf(string, ...interface{}) {}
func (l capLogger) Errorf(f string, a ...interface{}) {
	l.t.ev("log.error", "msg", fmt.Sprintf(f, a...))
}
func (l capLogger) Warnf(f string, a ...interface{}) { l.count(fmt.Sprintf(f, a...)) }
func (l capLogger) count(m string) {
	k := "other"
	switch {
	case strings.Contains(m, "drop packet"):
		k = "drop"
	case strings.Contains(m, "duplicate response"):
		k = "duplicate"
	case strings.Contains(m, "no receiver"):
		k = "no_receiver"
	}
	l.t.mu.Lock()
	l.t.warns[k]++
	l.t.mu.Unlock()
	l.t.ev("warn", "kind", k, "msg", m)
}

func (t *T) Warns(k string) int { t.mu.Lock(); defer t.mu.Unlock(); return t.warns[k] }

type clientCfg struct {
	ReqTimeoutU, DialTimeoutU, AuthTimeoutU int
	KeepaliveU, KeepaliveTimeoutU           int
	MaxReconnect                            int
	Token                                   bool
	ReadQueue, WriteQueue                   int
	MinGzip                                 int
	Handlers                                map[uint32][]func(*protocol.Packet)
	TimeoutOptionFirst                      bool          // pass KeepaliveTimeout before Keepalive (a legal option order)
	KeepaliveRaw, KeepaliveTimeoutRaw       time.Duration // exact durations (override the unit-based ones)
	AfterRecSleepU                          int           // the after-reconnect callback takes this long
	HandshakeVersion                        int           // handshake version announced by Dial (default: the scenario's version)
	ReadBuffer                              int           // client.ReadBufferSize
	URLSuffix                               string        // appended to the peer's URL (a user query)
}

func defaultCfg() clientCfg {
	return clientCfg{ReqTimeoutU: 6, DialTimeoutU: 4, AuthTimeoutU: 6}
}

func (t *T) handshake() *protocol.Handshake {
	c := t.Codec
	if c == 0 {
		c = protocol.CodecProtobuf
	}
	return &protocol.Handshake{Version: uint8(t.Version), Codec: c, Platform: protocol.PlatformOpenapi}
}

// NewClient creates the client under test and dials the peer
func (t *T) NewClient(p *Peer, cfg clientCfg) (client.Client, error) {
	cl := client.New(client.WithLogger(capLogger{t}))
	for cmd, hs := range cfg.Handlers {
		for _, h := range hs {
			cl.Subscribe(cmd, h)
		}
	}
	cl.OnClose(func(err error) {
		atomic.AddInt32(&t.onClose, 1)
		t.ev("cb.on_close", "err", fmt.Sprint(err))
	})
	cl.AfterReconnected(func() {
		atomic.AddInt32(&t.afterRec, 1)
		t.ev("cb.after_reconnected")
		if cfg.AfterRecSleepU > 0 {
			time.Sleep(t.U(cfg.AfterRecSleepU))
		}
	})
	cl.OnPing(func(p *protocol.Packet) {
		atomic.AddInt32(&t.pingCb, 1)
		t.ev("cb.ping", "rid", p.Metadata.RequestId, "body", fmt.Sprintf("%x", p.Body))
	})
	cl.OnPong(func(p *protocol.Packet) {
		atomic.AddInt32(&t.pongCb, 1)
		t.ev("cb.pong", "rid", p.Metadata.RequestId, "body", fmt.Sprintf("%x", p.Body))
	})
	opts := []client.DialOption{client.DialTimeout(t.U(cfg.DialTimeoutU)), client.AuthTimeout(t.U(cfg.AuthTimeoutU))}
	if cfg.KeepaliveRaw > 0 {
		opts = append(opts, client.Keepalive(cfg.KeepaliveRaw), client.KeepaliveTimeout(cfg.KeepaliveTimeoutRaw))
	} else if cfg.KeepaliveU > 0 && cfg.TimeoutOptionFirst {
		opts = append(opts, client.KeepaliveTimeout(t.U(cfg.KeepaliveTimeoutU)), client.Keepalive(t.U(cfg.KeepaliveU)))
	} else if cfg.KeepaliveU > 0 {
		opts = append(opts, client.Keepalive(t.U(cfg.KeepaliveU)), client.KeepaliveTimeout(t.U(cfg.KeepaliveTimeoutU)))
	} else {
		opts = append(opts, client.Keepalive(time.Hour), client.KeepaliveTimeout(2*time.Hour))
	}
	if cfg.MaxReconnect > 0 {
		opts = append(opts, client.MaxReconnect(cfg.MaxReconnect))
	}
	if cfg.Token {
		n := 0
		opts = append(opts, client.WithAuthTokenGetter(func() (string, error) { n++; return fmt.Sprintf("token-%d", n), nil }))
	}
	if cfg.ReadQueue > 0 {
		opts = append(opts, client.ReadQueueSize(cfg.ReadQueue))
	}
	if cfg.WriteQueue > 0 {
		opts = append(opts, client.WriteQueueSize(cfg.WriteQueue))
	}
	if cfg.MinGzip > 0 {
		opts = append(opts, client.MinGzipSize(cfg.MinGzip))
	}
	if cfg.ReadBuffer > 0 {
		opts = append(opts, client.ReadBufferSize(cfg.ReadBuffer))
	}
	t.cl = cl
	t.ev("api.dial.start")
	before := p.Dials()
	err := cl.Dial(context.Background(), p.URL()+cfg.URLSuffix, t.handshake(), opts...)
	t.ev("api.dial.end", "err", fmt.Sprint(err))
	if err == nil {
		// a TCP dial without authentication returns as soon as the kernel completed the connection: let the scripted peer's
		// accept loop register it before the scenario goes on (a listener closed too early would reset it)
		for i := 0; i < 400 && p.Dials() == before; i++ {
			time.Sleep(5 * time.Millisecond)
		}
	}
	return cl, err
}

// Do issues one request synchronously and records it under id; the body carries the caller tag
func (t *T) Do(cl client.Client, id string, cmd uint32, timeoutU int) *doResult {
	r := &doResult{ID: id, Start: time.Now()}
	t.ev("api.do.start", "id", id, "cmd", cmd)
	func() {
		defer func() {
			if x := recover(); x != nil {
				r.Err = fmt.Errorf("PANIC: %v", x)
				t.Check("no_panic:Do", false, "Do panicked: %v", x)
			}
		}()
		r.Res, r.Err = cl.Do(context.Background(), &client.Request{Cmd: cmd, Body: &control.Heartbeat{Timestamp: int64(len(id)), HeartbeatId: tagOf(id)}}, client.RequestTimeout(t.U(timeoutU)))
	}()
	r.End = time.Now()
	t.retain(r.Res)
	if r.Err != nil {
		r.ErrStr = r.Err.Error()
	}
	rid := int64(-1)
	if r.Res != nil && r.Res.Metadata != nil {
		rid = int64(r.Res.Metadata.RequestId)
	}
	t.ev("api.do.end", "id", id, "err", r.ErrStr, "rid", rid, "ms", r.End.Sub(r.Start).Milliseconds())
	t.mu.Lock()
	t.dos[id] = r
	t.mu.Unlock()
	return r
}

// DoAsync runs Do in a goroutine; Join waits for all
func (t *T) DoAsync(cl client.Client, id string, cmd uint32, timeoutU int) {
	t.wg.Add(1)
	go func() { defer t.wg.Done(); t.Do(cl, id, cmd, timeoutU) }()
}
func (t *T) Join()                      { t.wg.Wait() }
func (t *T) Result(id string) *doResult { t.mu.Lock(); defer t.mu.Unlock(); return t.dos[id] }

// JoinTimeout waits for the async calls; false when they have not all returned within n units
func (t *T) JoinTimeout(n int) bool {
	done := make(chan struct{})
	go func() { t.wg.Wait(); close(done) }()
	select {
	case <-done:
		return true
	case <-time.After(t.U(n)):
		return false
	}
}

// the caller tag travels in the heartbeat id of the request body
func tagOf(id string) *int32 {
	h := int32(fnv1a([]byte(id)) & 0x7fffffff)
	return &h
}
func tagOfBody(body []byte) int32 {
	var hb control.Heartbeat
	if pb.Unmarshal(body, &hb) == nil && hb.HeartbeatId != nil {
		return hb.GetHeartbeatId()
	}
	var hj control.Heartbeat
	if json.Unmarshal(body, &hj) == nil && hj.HeartbeatId != nil { // JSON codec
		return hj.GetHeartbeatId()
	}
	return -1
}

func authBody(session string, expiresIn time.Duration) []byte {
	b, _ := pb.Marshal(&control.AuthResponse{SessionId: session, Expires: time.Now().Add(expiresIn).UnixNano() / int64(time.Millisecond)})
	return b
}
func errBody(code uint64, msg string) []byte {
	b, _ := pb.Marshal(&control.Error{Code: code, Msg: msg})
	return b
}

// goroutines of the library (client package) currently alive
func libGoroutines() (int, string) {
	buf := make([]byte, 4<<20)
	n := runtime.Stack(buf, true)
	cnt := 0
	var sample []string
	for _, g := range strings.Split(string(buf[:n]), "\n\n") {
		if strings.Contains(g, "openapi-protocol/go/client.") && !strings.Contains(g, "main.(*T)") && !strings.Contains(g, "main.scn") {
			cnt++
			lines := strings.Split(g, "\n")
			for _, l := range lines {
				if strings.Contains(l, "openapi-protocol/go/client.") {
					sample = append(sample, strings.TrimSpace(l))
					break
				}
			}
		}
	}
	sort.Strings(sample)
	return cnt, strings.Join(sample, " | ")
}

type scenario struct {
	Name string
	Run  func(t *T)
	// Props this scenario serves, and whether it is part of the quick tier
	Props []string
	Quick bool
	// transports it runs on ("tcp", "ws"); versions
	Transports []string
	TimeoutU   int // watchdog, in units (default 400 = 20 s)
	Codec      protocol.CodecType
}

var scenarios = map[string]*scenario{}

func register(s *scenario) {
	if len(s.Transports) == 0 {
		s.Transports = []string{"tcp", "ws"}
	}
	if s.TimeoutU == 0 {
		s.TimeoutU = 400
	}
	scenarios[s.Name] = s
}

type scnResult struct {
	Name      string    `json:"name"`
	Transport string    `json:"transport"`
	Version   int       `json:"version"`
	Seed      uint64    `json:"seed"`
	Verdicts  []verdict `json:"verdicts"`
	Events    []event   `json:"events"`
	Hooks     []string  `json:"hooks"`
	Status    string    `json:"status"` // ok | panic | watchdog | crashed
	Detail    string    `json:"detail,omitempty"`
	WallS     float64   `json:"wall_s"`
	// MaxStallMs: the longest time this process itself was not scheduled (a goroutine sleeping 5 ms at a time woke up that much too
	// late). Real-time premises of the scenarios ("the peer answers within the timeout") are only as good as the machine: a stall of
	// the order of a unit means the run says nothing about the library's timing
	MaxStallMs float64 `json:"max_stall_ms"`
}

// cmdScn runs one scenario in this process
func cmdScn(args []string) int {
	if len(args) < 4 {
		fmt.Fprintln(os.Stderr, "usage: harness scn <name> <transport> <version> <seed>")
		return 2
	}
	s, ok := scenarios[args[0]]
	if !ok {
		fmt.Fprintln(os.Stderr, "unknown scenario", args[0])
		return 2
	}
	version, _ := strconv.Atoi(args[2])
	seed, _ := strconv.ParseUint(args[3], 10, 64)
	if os.Getenv("OAP_HOOK_LOG") == "0" {
		// race-detector runs: the hook log's mutex would add happens-before edges between the very goroutines under observation
		verifhook.SetLogging(false)
	}
	if u := os.Getenv("OAP_UNIT_MS"); u != "" {
		if ms, err := strconv.Atoi(u); err == nil && ms > 0 {
			unit = time.Duration(ms) * time.Millisecond
		}
	}
	t := &T{Name: s.Name, Transport: args[1], Version: version, Seed: seed, rg: &rng{seed}, t0: time.Now(), warns: map[string]int{}, dos: map[string]*doResult{}, Codec: s.Codec}
	res := scnResult{Name: s.Name, Transport: args[1], Version: version, Seed: seed, Status: "ok"}
	done := make(chan struct{})
	var maxStall int64 // ns
	go func() {        // stall monitor
		for {
			select {
			case <-done:
				return
			default:
			}
			t0 := time.Now()
			time.Sleep(5 * time.Millisecond)
			if late := int64(time.Since(t0) - 5*time.Millisecond); late > atomic.LoadInt64(&maxStall) {
				atomic.StoreInt64(&maxStall, late)
			}
		}
	}()
	go func() {
		defer close(done)
		defer func() {
			if x := recover(); x != nil {
				buf := make([]byte, 1<<16)
				n := runtime.Stack(buf, false)
				res.Status = "panic"
				res.Detail = fmt.Sprintf("%v\n%s", x, buf[:n])
			}
		}()
		s.Run(t)
		t.checkRetained()
	}()
	select {
	case <-done:
	case <-time.After(time.Duration(s.TimeoutU) * unit):
		buf := make([]byte, 1<<20)
		n := runtime.Stack(buf, true)
		res.Status = "watchdog"
		res.Detail = trimStacks(string(buf[:n]))
	}
	t.mu.Lock()
	res.Verdicts = append([]verdict{}, t.verdicts...)
	res.Events = append([]event{}, t.events...)
	t.mu.Unlock()
	for _, e := range verifhook.Dump() {
		a := make([]string, len(e.Args))
		for i, x := range e.Args {
			a[i] = strconv.FormatUint(x, 10)
		}
		res.Hooks = append(res.Hooks, fmt.Sprintf("%d g%d %s %s", e.Seq, e.Gid, e.Label, strings.Join(a, ",")))
	}
	res.WallS = time.Since(t.t0).Seconds()
	res.MaxStallMs = float64(atomic.LoadInt64(&maxStall)) / 1e6
	js, _ := json.Marshal(res)
	os.Stdout.Write(js)
	os.Stdout.Write([]byte("\n"))
	return 0
}

// keep only the goroutines inside the library or waiting in a scenario
func trimStacks(s string) string {
	out := []string{}
	for _, g := range strings.Split(s, "\n\n") {
		if strings.Contains(g, "openapi-protocol/go/client.") {
			lines := strings.Split(g, "\n")
			if len(lines) > 14 {
				lines = lines[:14]
			}
			out = append(out, strings.Join(lines, "\n"))
		}
	}
	if len(out) > 12 {
		out = out[:12]
	}
	return strings.Join(out, "\n\n")
}

type job struct {
	s         *scenario
	transport string
	version   int
	seed      uint64
}

// cmdClient runs the scenario batch of one property
func cmdClient(args []string) int {
	if len(args) != 4 {
		fmt.Fprintln(os.Stderr, "usage: harness client <prop> <tier> <seed> <dir>")
		return 2
	}
	prop, tier, dir := args[0], args[1], args[3]
	seed, _ := strconv.ParseUint(args[2], 10, 64)
	_ = os.MkdirAll(dir, 0o755)
	names := []string{}
	for n, s := range scenarios {
		for _, p := range s.Props {
			if p == prop && (tier == "thorough" || s.Quick) {
				names = append(names, n)
			}
		}
	}
	sort.Strings(names)
	jobs := []job{}
	reps := 1
	if tier == "thorough" {
		reps = 4
	}
	for r := 0; r < reps; r++ {
		for _, n := range names {
			s := scenarios[n]
			for _, tr := range s.Transports {
				versions := []int{1}
				if tier == "thorough" || strings.Contains(n, "/v2") {
					versions = []int{1, 2}
				}
				for _, v := range versions {
					jobs = append(jobs, job{s, tr, v, seed + uint64(r)*7919})
				}
			}
		}
	}
	results := make([]scnResult, len(jobs))
	self, _ := os.Executable()
	var wg sync.WaitGroup
	par := 12
	if p := os.Getenv("OAP_PARALLEL"); p != "" {
		if n, err := strconv.Atoi(p); err == nil && n > 0 {
			par = n
		}
	}
	sem := make(chan struct{}, par)
	runOne := func(j job, unitMs int) scnResult {
		ctx, cancel := context.WithTimeout(context.Background(), time.Duration(j.s.TimeoutU)*time.Duration(unitMs)*time.Millisecond+10*time.Second)
		defer cancel()
		bin := self
		if b := os.Getenv("OAP_SCN_BIN"); b != "" {
			bin = b // the race-detector build of this harness (C17)
		}
		cmd := exec.CommandContext(ctx, bin, "scn", j.s.Name, j.transport, strconv.Itoa(j.version), strconv.FormatUint(j.seed, 10))
		cmd.Env = append(os.Environ(), fmt.Sprintf("OAP_UNIT_MS=%d", unitMs), "GOMAXPROCS=4", "GORACE=halt_on_error=0 exitcode=0")
		var stderrBuf strings.Builder
		cmd.Stderr = &stderrBuf
		out, err := cmd.Output()
		stderr := stderrBuf.String()
		var r scnResult
		lines := strings.Split(strings.TrimSpace(string(out)), "\n")
		if jerr := json.Unmarshal([]byte(lines[len(lines)-1]), &r); jerr != nil {
			r = scnResult{Name: j.s.Name, Transport: j.transport, Version: j.version, Seed: j.seed, Status: "crashed"}
			// a crash of a race-detector run that was preceded by a report inside the library is a race witness first
			if strings.Contains(stderr, "WARNING: DATA RACE") {
				for _, rep := range strings.Split(stderr, "==================") {
					if strings.Contains(rep, "WARNING: DATA RACE") && strings.Contains(rep, "openapi-protocol/go/") {
						r.Status = "race"
						if len(rep) > 5000 {
							rep = rep[:5000]
						}
						r.Detail = rep
						return r
					}
				}
			}
			// in a race-detector run a library panic that concurrency alone explains (two writers, send on a closed channel) is a witness too
			if os.Getenv("OAP_SCN_BIN") != "" && (strings.Contains(stderr, "concurrent write to websocket connection") || strings.Contains(stderr, "send on closed channel") ||
				strings.Contains(stderr, "concurrent map")) && strings.Contains(stderr, "openapi-protocol/go/") {
				r.Status = "race"
				if len(stderr) > 5000 {
					stderr = stderr[:2500] + "\n…\n" + stderr[len(stderr)-2500:]
				}
				r.Detail = "WARNING: DATA RACE (witnessed by its consequence) " + stderr
				return r
			}
			if len(stderr) > 6000 {
				stderr = stderr[:3000] + "\n…\n" + stderr[len(stderr)-3000:]
			}
			r.Detail = fmt.Sprintf("process ended without a result (%v): %s", err, stderr)
			return r
		}
		// race detector reports whose stacks are inside the library
		if strings.Contains(stderr, "WARNING: DATA RACE") {
			for _, rep := range strings.Split(stderr, "==================") {
				if strings.Contains(rep, "WARNING: DATA RACE") && strings.Contains(rep, "openapi-protocol/go/") {
					r.Status = "race"
					if len(rep) > 5000 {
						rep = rep[:5000]
					}
					r.Detail = rep
					break
				}
			}
		}
		return r
	}
	for i, j := range jobs {
		wg.Add(1)
		sem <- struct{}{}
		go func(i int, j job) {
			defer wg.Done()
			defer func() { <-sem }()
			results[i] = runOne(j, int(unit/time.Millisecond))
		}(i, j)
	}
	wg.Wait()
	// flake control: a scenario whose only failed verdicts are real-time bounds is re-run alone with the unit doubled. So is a scenario
	// with failed verdicts during which this machine stalled the scenario process itself for a unit or more (measured by the stall
	// monitor): with the process frozen for that long, "the peer answered in time" and every deadline of the script mean nothing. The
	// re-run is alone (no other scenario competes) and slower; if the machine stalls that one too, once more with four times the unit.
	// A failure of the library shows again on the quiet re-run; the stalls observed are kept in the result
	retried := 0
	for i, r := range results {
		onlyTiming := r.Status == "ok"
		failed := 0
		for _, v := range r.Verdicts {
			if !v.OK {
				failed++
				if !strings.HasPrefix(v.Key, "timing:") {
					onlyTiming = false
				}
			}
		}
		unitMs := int(unit / time.Millisecond)
		// the monitor under-approximates (it sees the lateness of ONE sleeping goroutine, not the sum of the delays of the writer, the
		// peer's answer and the reader): half a unit measured means the slack of a unit or two the timing premises have is gone
		stalled := (r.Status == "ok" || r.Status == "watchdog") && r.MaxStallMs >= float64(unitMs)/2
		if (failed > 0 && onlyTiming) || ((failed > 0 || r.Status == "watchdog") && stalled) {
			retried++
			results[i] = runOne(jobs[i], 2*unitMs)
			r2 := results[i]
			f2 := r2.Status != "ok"
			for _, v := range r2.Verdicts {
				f2 = f2 || !v.OK
			}
			if f2 && r2.MaxStallMs >= float64(unitMs) {
				retried++
				results[i] = runOne(jobs[i], 4*unitMs)
			}
		}
	}
	f, _ := os.Create(filepath.Join(dir, "results.jsonl"))
	nver, nfail := 0, 0
	for _, r := range results {
		js, _ := json.Marshal(r)
		f.Write(js)
		f.Write([]byte("\n"))
		for _, v := range r.Verdicts {
			nver++
			if !v.OK {
				nfail++
			}
		}
	}
	f.Close()
	meta := map[string]interface{}{"property": prop, "scenarios": len(jobs), "names": names, "verdicts": nver, "failed_verdicts": nfail, "timing_retries": retried}
	js, _ := json.MarshalIndent(meta, "", " ")
	os.WriteFile(filepath.Join(dir, "meta.json"), js, 0o644)
	return 0
}

// doTagged: a Do whose request body carries an explicit tag (not recorded as a named call)
func doTagged(t *T, cl client.Client, cmd uint32, tag int32, timeoutU int) (*protocol.Packet, error) {
	res, err := cl.Do(context.Background(), &client.Request{Cmd: cmd, Body: &control.Heartbeat{Timestamp: 1, HeartbeatId: &tag}}, client.RequestTimeout(t.U(timeoutU)))
	t.retain(res)
	return res, err
}

// retain: the application keeps (a sample of) the packets a call returned; checkRetained at the end of the scenario verifies that they
// are still what they were — a returned packet must not share memory with buffers the connection reuses for later traffic
func (t *T) retain(pk *protocol.Packet) {
	if pk == nil || pk.Metadata == nil {
		return
	}
	t.mu.Lock()
	if len(t.kept) < 2000 {
		t.kept = append(t.kept, pk)
		t.keptText = append(t.keptText, fmt.Sprintf("%d/%x/%x", pk.Metadata.RequestId, pk.Body, pk.Metadata.Signature))
	}
	t.mu.Unlock()
}

func (t *T) checkRetained() {
	t.mu.Lock()
	kept, text := t.kept, t.keptText
	t.mu.Unlock()
	for i, pk := range kept {
		if now := fmt.Sprintf("%d/%x/%x", pk.Metadata.RequestId, pk.Body, pk.Metadata.Signature); now != text[i] {
			t.Check("do_returns_own_id", false, "a response returned by a call changed afterwards (request id/body/signature were %.120s, are %.120s): it shares memory with a buffer the connection reuses", text[i], now)
			t.Check("tcp_reading_spec", false, "a returned response changed afterwards: %.100s -> %.100s", text[i], now)
			t.Check("no_lost_wakeup", false, "the response a call returned was overwritten afterwards: %.100s -> %.100s", text[i], now)
			return
		}
	}
}

type clientRequest = client.Request

func contextBG() context.Context                      { return context.Background() }
func reqTimeout(d time.Duration) client.RequestOption { return client.RequestTimeout(d) }
