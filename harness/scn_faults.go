package main

// Scenarios for C06 (request calls always terminate and never crash) — fault suite; several also serve C08/C14/C16/C17.

import (
	"fmt"
	"strings"
	"sync/atomic"
	"time"
)

// bound on a Do under faults: 2*(request + dial + auth timeout) + slack, in units
func doBoundU(cfg clientCfg, reqU int) int { return 2*(reqU+cfg.DialTimeoutU+cfg.AuthTimeoutU) + 20 }

// calls issued before / during / after a fault; every one must return (response or error) within the bound and never panic
func faultScenario(name string, quick bool, props []string, token bool, fault func(t *T, p *Peer, pc *peerConn, f frameIn)) {
	recoverU := 30
	if strings.Contains(name, "refuse") {
		recoverU = 100 // the peer listens again after 50 units; attempts are 1 s (20 units) apart
	}
	register(&scenario{Name: name, Props: props, Quick: quick, Run: func(t *T) {
		p := newPeer(t, t.Transport, t.Version)
		defer p.Shutdown()
		var faulted int32
		p.onFrame = func(pc *peerConn, f frameIn) {
			if f.Typ == 1 && f.Cmd == 100 && atomic.CompareAndSwapInt32(&faulted, 0, 1) {
				fault(t, p, pc, f)
				return
			}
			if stdReply(pc, f) {
				return
			}
			if f.Typ == 1 && f.Cmd >= 100 {
				pc.Send(respFrame(f, 0, f.Body))
			}
		}
		cfg := defaultCfg()
		cfg.Token = token
		cl, err := t.NewClient(p, cfg)
		if err != nil {
			t.Check("setup", false, "dial: %v", err)
			return
		}
		bound := doBoundU(cfg, 6)
		// before / during: the first cmd-100 request triggers the fault; two more are in flight concurrently
		t.DoAsync(cl, "during-1", 100, 6)
		t.DoAsync(cl, "during-2", 101, 6)
		t.DoAsync(cl, "during-3", 101, 6)
		t.Sleep(1)
		for i := 0; i < 6; i++ { // after: issued while the client recovers (or has given up)
			t.DoAsync(cl, fmt.Sprintf("after-%d", i), 101, 6)
			t.Sleep(3)
		}
		ok := t.JoinTimeout(bound + 40)
		t.Check("do_terminates", ok, "request calls still blocked %d units after the fault (bound %d)", bound+40, bound)
		if !ok {
			return
		}
		for id, r := range t.dos {
			d := r.End.Sub(r.Start)
			t.Check("timing:do_bound", d <= t.U(bound), "%s took %v (bound %v)", id, d, t.U(bound))
		}
		// the client serves requests again after the recovery (C08) unless the fault is permanent
		t.Sleep(recoverU)
		r := t.Do(cl, "final", 102, 6)
		t.Check("serves_again", r.Err == nil, "after the fault and the recovery window a request fails: %v", r.Err)
		done := make(chan struct{})
		go func() { cl.Close(nil); close(done) }()
		select {
		case <-done:
		case <-time.After(t.U(bound)):
			t.Check("close_prompt", false, "Close did not return")
		}
	}})
}

func init() {
	all := []string{"C06", "C08", "C17"}
	faultScenario("c06/peer-silent", true, all, false, func(t *T, p *Peer, pc *peerConn, f frameIn) {})
	faultScenario("c06/peer-drops", true, all, false, func(t *T, p *Peer, pc *peerConn, f frameIn) { pc.Drop() })
	faultScenario("c06/peer-drops-auth", true, all, true, func(t *T, p *Peer, pc *peerConn, f frameIn) { pc.Drop() })
	faultScenario("c06/close-packet", true, all, false, func(t *T, p *Peer, pc *peerConn, f frameIn) {
		if pc.ws != nil {
			pc.WsControl(8, []byte{0x03, 0xe8, 'b', 'y', 'e'}) // close frame, code 1000
			return
		}
		pc.Send(pushFrame(0, nil))
	})
	faultScenario("c06/garbage", true, all, false, func(t *T, p *Peer, pc *peerConn, f frameIn) {
		pc.SendRaw([]byte{0x0f, 0xff, 0x00, 0x01, 0x02, 0x03, 0x04, 0x05, 0x06, 0x07, 0x08, 0x09})
	})
	faultScenario("c06/refuse-dials", true, all, false, func(t *T, p *Peer, pc *peerConn, f frameIn) {
		p.Refuse(true)
		pc.Drop()
		go func() { time.Sleep(t.U(50)); p.Refuse(false) }()
	})
	faultScenario("c06/refuse-dials-auth", false, all, true, func(t *T, p *Peer, pc *peerConn, f frameIn) {
		p.Refuse(true)
		pc.Drop()
		go func() { time.Sleep(t.U(50)); p.Refuse(false) }()
	})
	// drop after k bytes of the response frame, for every k
	for k := 0; k <= 12; k++ {
		k := k
		faultScenario(fmt.Sprintf("c06/drop-after-%d-bytes", k), k%4 == 1, []string{"C06", "C17"}, false, func(t *T, p *Peer, pc *peerConn, f frameIn) {
			raw := specEncode(pc.p.version, respFrame(f, 0, []byte("0123456789")))
			if pc.ws != nil {
				pc.Drop()
				return
			}
			if k > len(raw) {
				pc.SendRaw(raw)
			} else {
				pc.SendRaw(raw[:k])
			}
			time.Sleep(t.U(1))
			pc.Drop()
		})
	}
}
