package main

import (
	"context"
	"fmt"
	"sort"
	"strings"
	"sync"

	protocol "github.com/longportapp/openapi-protocol/go"
)

func init() { codecGens["C19"] = genC19 }

func genC19(e *emitter, tier string, seed uint64) map[string]interface{} {
	rg := &rng{seed ^ 0x19}
	thorough := tier == "thorough"
	n := 400
	if thorough {
		n = 5000
	}
	for i := 0; i < n; i++ {
		ctx := protocol.NewContext(context.Background(), protocol.ClientSide)
		ctx.Codec = protocol.CodecProtobuf
		other := protocol.NewContext(context.Background(), protocol.ClientSide) // an independent context, used in between
		items, outs := []string{}, []string{}
		issued := 0
		bad := ""
		for k := 0; k < 1+rg.intn(20); k++ {
			opts := []protocol.PacketOption{}
			ostr := []string{}
			var callerRid uint32
			for j := 0; j < rg.intn(4); j++ {
				switch rg.intn(3) {
				case 0:
					opts = append(opts, protocol.WithVerify(7, []byte{1, 2}))
					ostr = append(ostr, "v")
				case 1:
					id := uint32(rg.intn(1000))
					opts = append(opts, protocol.WithRequestId(id))
					ostr = append(ostr, fmt.Sprintf("r%d", id))
					callerRid = id
				case 2:
					c := uint8(rg.intn(256))
					opts = append(opts, protocol.WithStatusCode(c))
					ostr = append(ostr, fmt.Sprintf("s%d", c))
				}
			}
			if rg.intn(3) == 0 {
				other.NextReqId()
			}
			var p protocol.Packet
			kind := ""
			switch rg.intn(6) {
			case 0:
				p, _ = protocol.NewRequest(ctx, 9, []byte("x"), opts...)
				kind = "req"
			case 1:
				p = protocol.MustNewRequest(ctx, 9, []byte("x"), opts...)
				kind = "req"
			case 2:
				c := uint8(rg.intn(256))
				p, _ = protocol.NewResponse(ctx, 9, c, []byte("x"), opts...)
				kind = fmt.Sprintf("resp%d", c)
			case 3:
				c := uint8(rg.intn(256))
				p = protocol.MustNewResponse(ctx, 9, c, []byte("x"), opts...)
				kind = fmt.Sprintf("resp%d", c)
			case 4:
				p, _ = protocol.NewPush(ctx, 9, []byte("x"), opts...)
				kind = "push"
			case 5:
				p = protocol.MustNewPush(ctx, 9, []byte("x"), opts...)
				kind = "push"
			}
			if kind == "req" {
				issued++
				if p.Metadata.RequestId != uint32(issued) {
					bad = fmt.Sprintf("request #%d got id %d (options %v)", issued, p.Metadata.RequestId, ostr)
				}
			} else if p.Metadata.RequestId != callerRid {
				bad = fmt.Sprintf("%s constructor changed the caller's id: %d != %d", kind, p.Metadata.RequestId, callerRid)
			}
			v := 0
			if p.Metadata.Verify {
				v = 1
			}
			items = append(items, strings.Join(append([]string{kind}, ostr...), "+"))
			outs = append(outs, fmt.Sprintf("%d,%d,%d", p.Metadata.RequestId, p.Metadata.StatusCode, v))
		}
		next := ctx.NextReqId()
		idx := e.op("newpkts seq="+strings.Join(items, ";"), fmt.Sprintf("next=%d ", next)+strings.Join(outs, " "), "constructors", true)
		if bad != "" {
			e.fail(idx, "request_id_not_overridable", bad)
		}
		if next != uint32(issued+1) {
			e.fail(idx, "ids_sequential", fmt.Sprintf("after %d requests the next id is %d", issued, next))
		}
	}
	// G goroutines x M calls on one context: the multiset of ids must be exactly {1..G*M}
	for _, gm := range [][2]int{{2, 1000}, {8, 2000}, {64, 500}} {
		G, M := gm[0], gm[1]
		if thorough {
			M *= 5
		}
		ctx := protocol.NewContext(context.Background(), protocol.ClientSide)
		ids := make([][]uint32, G)
		var wg sync.WaitGroup
		for g := 0; g < G; g++ {
			wg.Add(1)
			go func(g int) {
				defer wg.Done()
				for i := 0; i < M; i++ {
					var id uint32
					if i%2 == 0 {
						p, _ := protocol.NewRequest(ctx, 1, []byte{}, protocol.WithRequestId(uint32(i)))
						id = p.Metadata.RequestId
					} else {
						id = ctx.NextReqId()
					}
					ids[g] = append(ids[g], id)
				}
			}(g)
		}
		wg.Wait()
		all := []int{}
		bad := ""
		for g := range ids {
			for i, id := range ids[g] {
				all = append(all, int(id))
				if i > 0 && ids[g][i-1] >= id {
					bad = "ids seen by one goroutine are not increasing"
				}
			}
		}
		sort.Ints(all)
		for i, id := range all {
			if id != i+1 {
				bad = fmt.Sprintf("multiset of ids is not 1..%d (position %d holds %d)", G*M, i, id)
				break
			}
		}
		idx := e.op(fmt.Sprintf("ids.note goroutines=%d calls=%d", G, M), "ok", "concurrent", true)
		if bad != "" {
			e.fail(idx, "ids_distinct_concurrent", bad)
		}
	}
	// constructors that FAIL (a body the connection's codec cannot marshal) in between and at the same time as constructors that succeed: an id
	// that was handed out stays handed out — a failed call may leave a gap, it never makes a later request repeat an id
	for _, g := range []int{1, 8} {
		ctx := protocol.NewContext(context.Background(), protocol.ClientSide)
		ctx.Handshake(&protocol.Handshake{Version: 1, Codec: protocol.CodecJSON, Platform: protocol.PlatformOpenapi})
		ids := make([][]uint32, g)
		var wg sync.WaitGroup
		for k := 0; k < g; k++ {
			wg.Add(1)
			go func(k int) {
				defer wg.Done()
				for i := 0; i < 3000; i++ {
					var body interface{} = []byte{}
					if (i+k)%3 == 0 {
						body = make(chan int) // not marshalable
					}
					if pk, err := protocol.NewRequest(ctx, 1, body); err == nil {
						ids[k] = append(ids[k], pk.Metadata.RequestId)
					}
				}
			}(k)
		}
		wg.Wait()
		seen := map[uint32]int{}
		bad := ""
		for k := range ids {
			last := uint32(0)
			for _, id := range ids[k] {
				seen[id]++
				if id <= last && bad == "" {
					bad = fmt.Sprintf("%d goroutine(s) mixing failing and succeeding request constructors: goroutine %d got id %d after id %d", g, k, id, last)
				}
				last = id
			}
		}
		for id, n := range seen {
			if n > 1 && bad == "" {
				bad = fmt.Sprintf("%d goroutine(s) mixing failing and succeeding request constructors: id %d was stamped on %d packets", g, id, n)
			}
		}
		idx := e.op(fmt.Sprintf("ids.note failing-constructors goroutines=%d", g), "ok", "failing-constructors", true)
		if bad != "" {
			e.fail(idx, "ids_distinct_concurrent", bad)
		}
	}
	// a context whose PARENT is itself a protocol context (a gateway hands the accepted connection's context to the dial of its upstream
	// connection; a per-request child context): the new connection context is a connection context of its own — its ids start at 1 and
	// neither side's traffic shows in the other's ids, sequentially and with both in use at the same time
	for round := 0; round < 3; round++ {
		parent := protocol.NewContext(context.Background(), protocol.ServerSide)
		for i := 0; i < 3+round; i++ {
			_, _ = protocol.NewRequest(parent, 1, []byte{})
		}
		child := protocol.NewContext(parent, protocol.ClientSide)
		grand := protocol.NewContext(child, protocol.ClientSide)
		bad := ""
		for i := 1; i <= 5 && bad == ""; i++ {
			a, _ := protocol.NewRequest(child, 1, []byte{})
			b := protocol.MustNewRequest(parent, 1, []byte{})
			c, _ := protocol.NewRequest(grand, 1, []byte{})
			if int(a.Metadata.RequestId) != i || int(b.Metadata.RequestId) != 3+round+i || int(c.Metadata.RequestId) != i {
				bad = fmt.Sprintf("contexts created with another protocol context as parent: request %d on the child got id %d, on the grandchild id %d (want %d on both), the parent's next request id %d (want %d)", i, a.Metadata.RequestId, c.Metadata.RequestId, i, b.Metadata.RequestId, 3+round+i)
			}
		}
		if bad == "" {
			const G, M = 4, 500
			var wg sync.WaitGroup
			got := make([][]uint32, 2*G)
			for g := 0; g < 2*G; g++ {
				wg.Add(1)
				go func(g int) {
					defer wg.Done()
					ctx := parent
					if g%2 == 1 {
						ctx = child
					}
					for i := 0; i < M; i++ {
						pk, _ := protocol.NewRequest(ctx, 1, []byte{})
						got[g] = append(got[g], pk.Metadata.RequestId)
					}
				}(g)
			}
			wg.Wait()
			for side, base := range []int{3 + round + 5, 5} {
				all := []int{}
				for g := side; g < 2*G; g += 2 {
					for _, id := range got[g] {
						all = append(all, int(id))
					}
				}
				sort.Ints(all)
				for i, id := range all {
					if id != base+i+1 {
						bad = fmt.Sprintf("parent and child context used by %d goroutines each: the ids of %s are not %d..%d (position %d holds %d)", G, []string{"the parent", "the child"}[side], base+1, base+G*M, i, id)
						break
					}
				}
			}
		}
		idx := e.op(fmt.Sprintf("ids.note derived-contexts round=%d", round), "ok", "derived-contexts", true)
		if bad != "" {
			e.fail(idx, "contexts_independent", bad)
		}
	}
	// the same with an option slice that the goroutines SHARE (read-only for them) and that has spare capacity: a constructor that appends its
	// own option to the caller's slice writes into that shared spare element, and a call can pick up another call's id
	for _, gm := range [][2]int{{4, 2000}, {16, 2000}} {
		G, M := gm[0], gm[1]
		ctx := protocol.NewContext(context.Background(), protocol.ClientSide)
		common := make([]protocol.PacketOption, 0, 4)
		common = append(common, protocol.WithRequestId(7))
		ids := make([][]uint32, G)
		var wg sync.WaitGroup
		for g := 0; g < G; g++ {
			wg.Add(1)
			go func(g int) {
				defer wg.Done()
				for i := 0; i < M; i++ {
					var pk protocol.Packet
					if (i+g)%2 == 0 {
						pk, _ = protocol.NewRequest(ctx, 1, []byte{}, common...)
					} else {
						pk = protocol.MustNewRequest(ctx, 1, []byte{}, common...)
					}
					ids[g] = append(ids[g], pk.Metadata.RequestId)
				}
			}(g)
		}
		wg.Wait()
		all := []int{}
		for g := range ids {
			for _, id := range ids[g] {
				all = append(all, int(id))
			}
		}
		sort.Ints(all)
		bad := ""
		for i, id := range all {
			if id != i+1 {
				bad = fmt.Sprintf("%d goroutines x %d request constructors given one shared option slice (len 1, cap 4): the multiset of ids is not 1..%d (position %d holds %d)", G, M, G*M, i, id)
				break
			}
		}
		idx := e.op(fmt.Sprintf("ids.note shared-options goroutines=%d calls=%d", G, M), "ok", "concurrent-shared-options", true)
		if bad != "" {
			e.fail(idx, "ids_distinct_concurrent", bad)
		}
	}
	return map[string]interface{}{}
}
