package main

import (
	"bytes"
	"fmt"
	"github.com/longportapp/openapi-protocol/go/verifhook"
	"runtime"
	"strings"
	"sync"
	"time"

	"github.com/Allenxuxu/ringbuffer"
	protocol "github.com/longportapp/openapi-protocol/go"
)

func init() { codecGens["C01"] = genC01 }

const maxBody = 1<<24 - 1

func hdrLenOf(version int, typ string) int {
	hl := map[string]int{"request": 11, "response": 10, "push": 5}[typ]
	if version == 2 {
		hl += 2
	}
	return hl
}

func genPairs(rg *rng, n int) [][2]item {
	out := [][2]item{}
	seen := map[string]bool{}
	for j := 0; j < n; j++ {
		k, v := genItem(rg, true, j), genItem(rg, false, j)
		if k.n > 32767 || v.n > 32767 { // keep the map inside the valid domain here
			continue
		}
		kb := strings.ToLower(string(k.bytes()))
		if len(kb) == 0 || seen[kb] {
			continue
		}
		seen[kb] = true
		out = append(out, [2]item{k, v})
	}
	return out
}

func mdSize(pairs [][2]item) int {
	n := 0
	for _, kv := range pairs {
		n += len(encStr(kv[0].bytes())) + len(encStr(kv[1].bytes()))
	}
	return n
}

// equivalence "≃" of the property: compares a decoded packet with the packet that was encoded
func equivalent(p *pkt, orig []byte, q *protocol.Packet) string {
	m := q.Metadata
	if typeName(m.Type) != p.typ {
		return fmt.Sprintf("type %s != %s", typeName(m.Type), p.typ)
	}
	if m.CmdCode != p.cmd&0xff {
		return fmt.Sprintf("cmd %d != %d", m.CmdCode, p.cmd)
	}
	if (p.typ == "request" || p.typ == "response") && m.RequestId != p.rid {
		return fmt.Sprintf("request id %d != %d", m.RequestId, p.rid)
	}
	if p.typ == "request" && m.Timeout != p.to {
		return fmt.Sprintf("timeout %d != %d", m.Timeout, p.to)
	}
	if p.typ == "response" && m.StatusCode != p.st {
		return fmt.Sprintf("status %d != %d", m.StatusCode, p.st)
	}
	if m.Verify != p.verify {
		return "verify flag differs"
	}
	if p.verify {
		if m.Nonce != p.nonce {
			return fmt.Sprintf("nonce %d != %d", m.Nonce, p.nonce)
		}
		if !bytes.Equal(m.Signature, p.sig) {
			return fmt.Sprintf("signature %x != %x", m.Signature, p.sig)
		}
	}
	if p.version == 2 {
		want := map[string]string{}
		for _, kv := range p.pairs {
			want[strings.ToLower(string(kv[0].bytes()))] = string(kv[1].bytes())
		}
		if showMap(m.Values) != showMap(want) {
			return "metadata differs: " + showMap(m.Values)[:min(200, len(showMap(m.Values)))] + " want " + showMap(want)[:min(200, len(showMap(want)))]
		}
	}
	if !bytes.Equal(q.Body, orig) {
		return fmt.Sprintf("body differs (len %d vs %d)", len(q.Body), len(orig))
	}
	return ""
}

func min(a, b int) int {
	if a < b {
		return a
	}
	return b
}

// one packet through Pack -> UnpackBytes / Unpack, emitted as operations, with the property evaluated on the real code
func roundtripCase(e *emitter, p *pkt, thr int, inDomain bool, class string) {
	orig := p.body.bytes()
	pk := p.build(protocol.CodecProtobuf)
	var frame []byte
	res := guard(func() string {
		f, err := proto(p.version).Pack(newCtx(p.version, protocol.CodecProtobuf), pk, protocol.GzipSize(thr))
		if err != nil {
			return "err"
		}
		frame = f
		g := 0
		if pk.Metadata.Gzip {
			g = 1
		}
		return fmt.Sprintf("ok %s gzip=%d", showBytes(f), g)
	})
	engaged := thr != 0 && len(orig) >= thr
	gz := ""
	if engaged && res != "panic" {
		if len(pk.Body) <= 300000 {
			gz = hexSpec(pk.Body).String()
		} else {
			gz = fmt.Sprintf("rep:0:%d", len(pk.Body)) // only its length matters: the result is an error (over the limit)
		}
	}
	idx := e.op(p.packLine(thr, gz), res, class, true)
	if res == "panic" {
		e.fail(idx, "pack_no_panic:v"+fmt.Sprint(p.version), "Pack panicked")
		return
	}
	if engaged {
		if k, payload := stdRead(pk.Body); k != "ok" || !bytes.Equal(payload, orig) {
			e.fail(idx, "gzip_oracle_sound", "Compress produced a stream the standard reader does not map back to the body: "+k)
		}
	}
	if !inDomain {
		return
	}
	// pack_error_iff
	effective := len(orig)
	if engaged {
		effective = len(pk.Body)
	}
	known := p.typ == "request" || p.typ == "response" || p.typ == "push"
	wantErr := !known || effective > maxBody
	if wantErr != (res == "err") {
		e.fail(idx, fmt.Sprintf("pack_error_iff:v%d", p.version), fmt.Sprintf("type=%s effective body %d: %s", p.typ, effective, res[:min(60, len(res))]))
		return
	}
	if res == "err" {
		return
	}
	if engaged != pk.Metadata.Gzip || engaged != (frame[0]>>5&1 == 1) {
		e.fail(idx, fmt.Sprintf("gzip_flag_iff:v%d", p.version), fmt.Sprintf("thr=%d len=%d engaged=%v flag=%v bit=%d", thr, len(orig), engaged, pk.Metadata.Gzip, frame[0]>>5&1))
	}
	// decode, one-shot
	fs := frameSpecOf(frame)
	if !engaged && len(orig) > 4096 {
		hl := hdrLenOf(p.version, p.typ)
		tl := 0
		if p.verify {
			tl = 24
		}
		ml := len(frame) - hl - len(orig) - tl
		fs = "cat:hex:" + fmt.Sprintf("%x", frame[:hl+ml]) + "+" + p.body.String()
		if tl > 0 {
			fs += "+hex:" + fmt.Sprintf("%x", frame[len(frame)-tl:])
		}
	}
	i2, r2, q := unpackBytesOp(e, p.version, protocol.CodecProtobuf, frame, fs, class+"/decode")
	key := fmt.Sprintf("roundtrip_oneshot:v%d", p.version)
	if q == nil {
		e.fail(i2, key, "a frame produced by Pack is rejected by UnpackBytes: "+r2)
	} else if d := equivalent(p, orig, q); d != "" {
		e.fail(i2, key+kindOf(p), d)
	}
	// decode, streaming (direct evaluation on the real code; the model side is C03's `stream` op)
	var q2 *protocol.Packet
	r3 := guard(func() string {
		rb := ringbuffer.NewWithData(append([]byte{}, frame...))
		pk2, done, err := proto(p.version).Unpack(newCtx(p.version, protocol.CodecProtobuf), rb)
		if err != nil {
			return "err"
		}
		if !done {
			return "more"
		}
		if rb.Length() != 0 {
			return fmt.Sprintf("left=%d", rb.Length())
		}
		q2 = pk2
		return "ok"
	})
	key = fmt.Sprintf("roundtrip_stream:v%d", p.version)
	if q2 == nil {
		e.fail(idx, key, "streaming decode of a frame produced by Pack: "+r3)
	} else if d := equivalent(p, orig, q2); d != "" {
		e.fail(idx, key+kindOf(p), d)
	}
	// the same through the streaming entry point fed in TWO pieces on one context (every cut of small frames; the cuts around the
	// header fields and the last bytes of larger ones), followed by the first byte of a next frame
	cuts := []int{}
	if len(frame) <= 400 {
		for c := 1; c < len(frame); c++ {
			cuts = append(cuts, c)
		}
	} else {
		for _, c := range []int{1, 2, 3, 5, 8, 11, 12, 13, 15, 16, 17, len(frame) / 2, len(frame) - 25, len(frame) - 17, len(frame) - 16, len(frame) - 9, len(frame) - 8, len(frame) - 2, len(frame) - 1} {
			if c > 0 && c < len(frame) {
				cuts = append(cuts, c)
			}
		}
	}
	for _, c := range cuts {
		var q3 *protocol.Packet
		r4 := guard(func() string {
			ctx := newCtx(p.version, protocol.CodecProtobuf)
			rb := ringbuffer.New(64)
			rb.Write(frame[:c])
			if _, done, err := proto(p.version).Unpack(ctx, rb); err != nil || done {
				return fmt.Sprintf("first piece (%d of %d bytes): done=%v err=%v", c, len(frame), done, err)
			}
			otherPoolUsers(p.version) // other connections use the codec between the two pieces
			rb.Write(frame[c:])
			rb.Write(frame[:1]) // the first byte of the next frame is already there
			pk3, done, err := proto(p.version).Unpack(ctx, rb)
			if err != nil || !done {
				return fmt.Sprintf("second piece: done=%v err=%v", done, err)
			}
			if rb.Length() != 1 {
				return fmt.Sprintf("left=%d (want the 1 byte of the next frame)", rb.Length())
			}
			// later input reuses the ring: the delivered packet must not change
			for round := 0; round < 3; round++ {
				if free := rb.Capacity() - rb.Length(); free > 0 {
					rb.Write(bytes.Repeat([]byte{0xA5}, free))
					rb.Retrieve(free)
				}
			}
			q3 = pk3
			return "ok"
		})
		if q3 == nil {
			e.fail(idx, key+":cut", fmt.Sprintf("frame of %d bytes fed in two pieces cut at %d: %s", len(frame), c, r4))
			break
		} else if d := equivalent(p, orig, q3); d != "" {
			e.fail(idx, key+":cut"+kindOf(p), fmt.Sprintf("cut at %d: %s", c, d))
			break
		}
	}
}

func kindOf(p *pkt) string {
	s := ""
	if p.verify {
		s += "+verify"
	}
	if len(p.pairs) > 0 {
		s += "+md"
	}
	return s
}

func genC01(e *emitter, tier string, seed uint64) map[string]interface{} {
	defer flushUnstable(e, "C01")
	rg := &rng{seed ^ 0x01}
	thorough := tier == "thorough"
	types := []string{"request", "response", "push"}
	lens := append([]int{}, bodyClassesQuick...)
	reps := 1
	if thorough {
		reps = 6
	}
	mk := func(version int, typ string, verify bool, npairs int, n int) *pkt {
		p := &pkt{version: version, typ: typ, cmd: uint32(rg.intn(256)), rid: uint32(rg.next()), to: uint16(rg.next()), st: uint8(rg.next()), verify: verify, body: genBody(rg, n)}
		if rg.intn(4) == 0 {
			p.rid = []uint32{0, 1, 0xffffffff, 0x80000000, 0x01020304}[rg.intn(5)]
			p.to = []uint16{0, 1, 0xffff, 0x0102}[rg.intn(4)]
			p.st = []uint8{0, 1, 5, 255}[rg.intn(4)]
			p.cmd = []uint32{0, 1, 2, 3, 255}[rg.intn(5)]
		}
		if verify {
			p.nonce = rg.next()
			p.sig = rg.bytes(16)
			if rg.intn(5) == 0 {
				p.nonce = []uint64{0, 1, 0xffffffffffffffff, 0x0102030405060708}[rg.intn(4)]
			}
		}
		if version == 2 && npairs > 0 {
			p.pairs = genPairs(rg, npairs)
			for mdSize(p.pairs) > 65535 && len(p.pairs) > 0 {
				p.pairs = p.pairs[:len(p.pairs)-1]
			}
		} else if version == 2 && rg.intn(2) == 0 {
			p.pairs = [][2]item{} // empty, non-nil map
		}
		return p
	}
	for rep := 0; rep < reps; rep++ {
		for _, version := range []int{1, 2} {
			for _, typ := range types {
				for _, verify := range []bool{false, true} {
					for _, npairs := range []int{0, 1 + rg.intn(6)} {
						if version == 1 && npairs > 0 {
							continue
						}
						for _, n := range lens {
							thrs := []int{0, 1, n - 1, n, n + 1, 1024, -1}
							if !thorough {
								thrs = []int{0, thrs[1+rg.intn(6)], thrs[1+rg.intn(6)]}
							}
							for _, thr := range thrs {
								p := mk(version, typ, verify, npairs, n)
								roundtripCase(e, p, thr, true, fmt.Sprintf("v%d/%s/len%s", version, typ, classOfLen(n)))
							}
						}
					}
				}
			}
		}
	}
	// big metadata (close to the 65535 budget) with verify: the trailer must land after metadata + body
	for i := 0; i < 6*reps; i++ {
		p := mk(2, types[rg.intn(3)], true, 0, rg.pick([]int{0, 1, 300, 70000}))
		p.pairs = [][2]item{{item{rep: true, b: 'k', n: 1 + rg.intn(20)}, item{rep: true, b: 'v', n: 32000 + rg.intn(767)}},
			{item{rep: true, b: 'q', n: 1 + rg.intn(20)}, item{rep: true, b: 'w', n: 30000 + rg.intn(2000)}}}
		roundtripCase(e, p, []int{0, 1}[rg.intn(2)], true, "v2/big-metadata")
	}
	// metadata blocks landing exactly on / just below the 65535-byte budget (in domain), and just above it (outside the
	// domain: pairs are dropped silently; model/code agreement only)
	for _, total := range []int{65533, 65534, 65535, 65536, 65537, 65540} {
		for rep2 := 0; rep2 < 2; rep2++ {
			p := mk(2, types[rg.intn(3)], rep2 == 0, 0, rg.pick([]int{0, 3, 300}))
			// "a"->v1 (2-byte prefix), "m"->v2, "z-last"->"end": sizes chosen so that the sorted block has exactly `total` bytes
			last := len(encStr([]byte("z-last"))) + len(encStr([]byte("end")))
			fixed := len(encStr([]byte("a"))) + 2 + len(encStr([]byte("m"))) + 2 + last
			rest := total - fixed
			v1n := rest / 2
			v2n := rest - v1n // both <= 32767
			p.pairs = [][2]item{{item{data: []byte("z-last")}, item{data: []byte("end")}},
				{item{data: []byte("a")}, item{rep: true, b: 'A', n: v1n}}, {item{data: []byte("m")}, item{rep: true, b: 'M', n: v2n}}}
			if mdSize(p.pairs) != total {
				panic(fmt.Sprintf("generator: metadata size %d, wanted %d", mdSize(p.pairs), total))
			}
			roundtripCase(e, p, 0, total <= 65535, fmt.Sprintf("v2/metadata-at-budget/%d", total))
			// the sorted-LAST pair is a big one (two-byte prefix): a budget check that miscounts prefixes lets it through
			p2 := mk(2, types[rg.intn(3)], rep2 == 0, 0, rg.pick([]int{0, 3, 300}))
			fixed2 := len(encStr([]byte("a"))) + len(encStr([]byte("x"))) + len(encStr([]byte("m"))) + 2 + len(encStr([]byte("z"))) + 2
			rest2 := total - fixed2
			p2.pairs = [][2]item{{item{data: []byte("z")}, item{rep: true, b: 'Z', n: rest2 - rest2/2}}, {item{data: []byte("a")}, item{data: []byte("x")}},
				{item{data: []byte("m")}, item{rep: true, b: 'M', n: rest2 / 2}}}
			overBudgetCase(e, p2, total)
			for _, kl := range []int{127, 128} {
				for _, vl := range []int{127, 128, 3} {
					p3 := mk(2, types[rg.intn(3)], false, 0, 4)
					lastK := append([]byte("z"), bytes.Repeat([]byte("k"), kl-1)...)
					lastV := bytes.Repeat([]byte("w"), vl)
					lastSize := len(encStr(lastK)) + len(encStr(lastV))
					fixed3 := len(encStr([]byte("a"))) + 2 + len(encStr([]byte("m"))) + 2 + lastSize
					rest3 := total - fixed3
					p3.pairs = [][2]item{{item{data: lastK}, item{data: lastV}}, {item{data: []byte("a")}, item{rep: true, b: 'A', n: rest3 - rest3/2}}, {item{data: []byte("m")}, item{rep: true, b: 'M', n: rest3 / 2}}}
					overBudgetCase(e, p3, total)
				}
			}
		}
	}
	// unrepresentable packets: unknown type
	for _, version := range []int{1, 2} {
		for _, typ := range []string{"", "other", "Request", "PUSH"} {
			p := mk(version, "request", rg.intn(2) == 0, 1, rg.pick([]int{0, 5, 300}))
			p.typ = typ
			if typ != "other" && typ != "" {
				p.typ = "other" // any string that is not one of the three
			}
			roundtripCase(e, p, 0, true, "unknown-type")
		}
	}
	// the 2^24 boundary: 2^24-1 fits, 2^24 does not; compressed form decides when gzip is engaged (the quick tier plays the two compressed
	// cases on either side of the limit: a body of exactly 2^24-1 bytes and one of 2^24 bytes, whose compressed forms both fit)
	{
		type bcase struct {
			n, thr int
			kind   string
		}
		cases := []bcase{{maxBody, 1, "rep"}, {maxBody + 1, 1, "rep"}}
		if thorough {
			cases = []bcase{{maxBody, 0, "rep"}, {maxBody, 1, "rep"}, {maxBody + 1, 0, "rep"}, {maxBody + 1, 1, "rep"}, {maxBody, 1, "prng"}, {maxBody - 1, 0, "prng"}, {maxBody + 100, 1024, "rep"}}
		}
		for _, version := range []int{1, 2} {
			for _, c := range cases {
				p := mk(version, types[rg.intn(3)], rg.intn(2) == 0, 1, 0)
				if c.kind == "rep" {
					p.body = bspec{kind: "rep", b: byte(rg.intn(256)), n: c.n}
				} else {
					p.body = bspec{kind: "prng", seed: rg.next() % 1000, n: c.n}
				}
				roundtripCase(e, p, c.thr, true, "boundary-2^24")
			}
		}
	}
	// bodies that are themselves gzip data, or merely start with the gzip magic, with compression on and off: content is content
	for _, version := range []int{1, 2} {
		for _, n := range []int{18, 40, 1084, 5000} {
			inner := stdCompress(genBody(rg, n*4).bytes())
			magic := append([]byte{0x1f, 0x8b, 0x08, 0x00}, rg.bytes(n)...)
			for _, b := range [][]byte{inner, magic} {
				for _, thr := range []int{0, 1, len(b), len(b) + 1} {
					p := mk(version, types[rg.intn(3)], false, 0, 1)
					p.body = hexSpec(b)
					roundtripCase(e, p, thr, true, fmt.Sprintf("v%d/body-looks-like-gzip", version))
				}
			}
		}
	}
	// one v2 packet packed, edited and packed again (the way a relay or a retry edits the exported metadata map: index assignment, delete,
	// add, the map replaced): the second frame carries the packet as it is NOW — nothing remembered from the first Pack
	for i := 0; i < 24*reps; i++ {
		p := mk(2, types[rg.intn(3)], rg.intn(2) == 0, 2+rg.intn(3), rg.pick([]int{0, 5, 300}))
		pk := p.build(protocol.CodecProtobuf)
		ctx := newCtx(2, protocol.CodecProtobuf)
		if _, err := proto(2).Pack(ctx, pk); err != nil {
			continue
		}
		keys := sortedKeys(pk.Metadata.Values)
		step := "none"
		if len(keys) > 0 {
			switch i % 4 {
			case 0:
				pk.Metadata.Values[keys[0]] = string(bytes.Repeat([]byte{'Z'}, len(pk.Metadata.Values[keys[0]])))
				step = "overwrite-same-length"
			case 1:
				pk.Metadata.Values[keys[len(keys)-1]] = "other-value"
				step = "overwrite"
			case 2:
				delete(pk.Metadata.Values, keys[0])
				pk.Metadata.Values["added"] = "x"
				step = "delete+add"
			case 3:
				nm := map[string]string{"replaced": "yes"}
				for k, v := range pk.Metadata.Values {
					nm[k] = v
				}
				pk.Metadata.Values = nm
				step = "replace-map"
			}
		}
		pk.Body = append([]byte{}, p.body.bytes()...)
		fresh := p.build(protocol.CodecProtobuf)
		fresh.Metadata.Values = map[string]string{}
		for k, v := range pk.Metadata.Values {
			fresh.Metadata.Values[k] = v
		}
		wantFrame, errW := proto(2).Pack(newCtx(2, protocol.CodecProtobuf), fresh)
		frame, err := proto(2).Pack(ctx, pk)
		idx := e.op(fmt.Sprintf("gz.note repack step=%s", step), "ok", "repack", true)
		if (err == nil) != (errW == nil) || !bytes.Equal(frame, wantFrame) {
			e.fail(idx, "roundtrip_oneshot:v2+md", fmt.Sprintf("a packet packed, edited (%s) and packed again gives (err=%v) %s; a fresh packet with the same fields and the current metadata map %s gives (err=%v) %s", step, err, showBytes(frame), showMap(pk.Metadata.Values), errW, showBytes(wantFrame)))
		}
	}
	// outside the domain: model and code must still agree (no property claim): cmd > 255, signature != 16 bytes, gzip preset
	for i := 0; i < 60*reps; i++ {
		p := mk(1+rg.intn(2), types[rg.intn(3)], true, 1, rg.pick([]int{0, 3, 100}))
		switch i % 3 {
		case 0:
			p.cmd = 256 + uint32(rg.intn(100000))
		case 1:
			p.sig = rg.bytes(rg.pick([]int{0, 1, 15, 17, 40}))
		case 2:
			p.gzip = true
		}
		roundtripCase(e, p, 0, false, "outside-domain")
	}
	// the round trip holds for every caller when several goroutines encode and decode at the same time (each with its own context and
	// packets; the codec's pools are the only shared state): compressed and plain bodies, both versions, both decoders
	{
		const G, N = 16, 100
		type job struct {
			p    *pkt
			thr  int
			orig []byte
		}
		jobs := make([][]job, G)
		for g := 0; g < G; g++ {
			for i := 0; i < N; i++ {
				p := mk(1+(g+i)%2, types[(g+i)%3], i%4 == 0, (g+i)%3, rg.pick([]int{40, 9000, 70000, 70000, 300000}))
				jobs[g] = append(jobs[g], job{p, []int{1, 1, 1024, 0}[i%4], p.body.bytes()})
			}
		}
		bad := make([]string, G)
		var wg sync.WaitGroup
		for g := 0; g < G; g++ {
			wg.Add(1)
			go func(g int) {
				defer wg.Done()
				defer func() {
					if x := recover(); x != nil {
						bad[g] = fmt.Sprintf("goroutine %d: the codec panicked under concurrent use: %v", g, x)
					}
				}()
				for i, j := range jobs[g] {
					ctx := newCtx(j.p.version, protocol.CodecProtobuf)
					f, err := proto(j.p.version).Pack(ctx, j.p.build(protocol.CodecProtobuf), protocol.GzipSize(j.thr))
					if err != nil {
						bad[g] = fmt.Sprintf("goroutine %d packet %d: Pack failed: %v", g, i, err)
						return
					}
					var q *protocol.Packet
					if i%2 == 0 {
						q, err = proto(j.p.version).UnpackBytes(newCtx(j.p.version, protocol.CodecProtobuf), f)
					} else {
						var done bool
						q, done, err = proto(j.p.version).Unpack(newCtx(j.p.version, protocol.CodecProtobuf), ringbuffer.NewWithData(append([]byte{}, f...)))
						if err == nil && !done {
							err = fmt.Errorf("need more data on a whole frame")
						}
					}
					if err != nil {
						bad[g] = fmt.Sprintf("goroutine %d packet %d (v%d, %d body bytes, threshold %d): its own frame does not decode: %v", g, i, j.p.version, len(j.orig), j.thr, err)
						return
					}
					if d := equivalent(j.p, j.orig, q); d != "" {
						bad[g] = fmt.Sprintf("goroutine %d packet %d (v%d, %d body bytes, threshold %d): %s", g, i, j.p.version, len(j.orig), j.thr, d)
						return
					}
				}
			}(g)
		}
		wg.Wait()
		idx := e.op("gz.note concurrent roundtrip goroutines=16 packets=100", "done", "concurrent", true)
		for _, b := range bad {
			if b != "" {
				e.fail(idx, "roundtrip_concurrent", b)
				break
			}
		}
	}
	// forced schedule (hook `pack:after-compress`, one processor): caller A is parked between the compression of its body and the
	// assembly of its frame while caller B packs a compressed packet of its own; A's frame must still carry A's body
	for _, version := range []int{1, 2} {
		pa := mk(version, "request", false, 0, 5000)
		pb2 := mk(version, "push", false, 0, 7000)
		pa.body, pb2.body = bspec{kind: "prng", seed: 11, n: 5000}, bspec{kind: "prng", seed: 22, n: 7000}
		origA := pa.body.bytes()
		var frameA []byte
		var errA error
		res := guard(func() string {
			old := runtime.GOMAXPROCS(1)
			defer runtime.GOMAXPROCS(old)
			verifhook.Reset()
			verifhook.Hold("pack:after-compress")
			done := make(chan struct{})
			go func() {
				defer close(done)
				defer func() { recover() }()
				frameA, errA = proto(version).Pack(newCtx(version, protocol.CodecProtobuf), pa.build(protocol.CodecProtobuf), protocol.GzipSize(1))
			}()
			if !verifhook.WaitParked("pack:after-compress", 1, 5*time.Second) {
				verifhook.Reset()
				<-done
				return "hook-not-reached"
			}
			verifhook.Detach("pack:after-compress")
			for i := 0; i < 4; i++ {
				proto(version).Pack(newCtx(version, protocol.CodecProtobuf), pb2.build(protocol.CodecProtobuf), protocol.GzipSize(1))
			}
			verifhook.ReleaseDetached("pack:after-compress")
			<-done
			verifhook.Reset()
			return "ok"
		})
		idx := e.op(fmt.Sprintf("gz.note concurrent forced-schedule v=%d", version), "done", "concurrent", true)
		switch {
		case res != "ok":
			e.fail(idx, "roundtrip_concurrent", "forced schedule could not be set up: "+res)
		case errA != nil || frameA == nil:
			e.fail(idx, "roundtrip_concurrent", fmt.Sprintf("Pack of the parked caller failed: %v", errA))
		default:
			q, err := proto(version).UnpackBytes(newCtx(version, protocol.CodecProtobuf), frameA)
			if err != nil {
				e.fail(idx, "roundtrip_concurrent", fmt.Sprintf("v%d: the frame of a caller that was descheduled between compressing its body and assembling its frame (another caller packed meanwhile) does not decode: %v", version, err))
			} else if d := equivalent(pa, origA, q); d != "" {
				e.fail(idx, "roundtrip_concurrent", fmt.Sprintf("v%d: a caller descheduled between compressing its body and assembling its frame got another caller's bytes: %s", version, d))
			}
		}
	}
	return map[string]interface{}{}
}

func classOfLen(n int) string {
	switch {
	case n == 0:
		return "0"
	case n < 256:
		return "<256"
	case n < 65536:
		return "<64K"
	case n < 1<<24:
		return "<16M"
	}
	return ">=16M"
}

// overBudgetCase: a v2 packet whose map may exceed the metadata budget. In the domain (total <= 65535) it is an ordinary round trip;
// above it pairs are dropped silently (an observation, not a violation) — but what is sent must still decode to the same body and
// to a SUB-map of the metadata: "never bytes that decode to something else".
func overBudgetCase(e *emitter, p *pkt, total int) {
	if mdSize(p.pairs) != total {
		panic(fmt.Sprintf("generator: metadata size %d, wanted %d", mdSize(p.pairs), total))
	}
	if total <= 65535 {
		roundtripCase(e, p, 0, true, fmt.Sprintf("v2/metadata-at-budget-big-last/%d", total))
		return
	}
	orig := p.body.bytes()
	pk := p.build(protocol.CodecProtobuf)
	var frame []byte
	res := guard(func() string {
		f, err := proto(2).Pack(newCtx(2, protocol.CodecProtobuf), pk)
		if err != nil {
			return "err"
		}
		frame = f
		return fmt.Sprintf("ok %s gzip=0", showBytes(f))
	})
	idx := e.op(p.packLine(0, ""), res, "v2/over-budget-metadata", true)
	if frame == nil {
		return
	}
	q, err := proto(2).UnpackBytes(newCtx(2, protocol.CodecProtobuf), frame)
	if err != nil {
		e.fail(idx, "over_budget_decodes_to_something_else", "a packet with an over-budget metadata map was encoded to bytes the decoder rejects")
		return
	}
	if !bytes.Equal(q.Body, orig) {
		e.fail(idx, "over_budget_decodes_to_something_else", fmt.Sprintf("over-budget metadata (%d bytes): the frame decodes to a different body (%d vs %d bytes)", total, len(q.Body), len(orig)))
		return
	}
	for k, v := range q.Metadata.Values {
		found := false
		for _, kv := range p.pairs {
			if strings.ToLower(string(kv[0].bytes())) == k && string(kv[1].bytes()) == v {
				found = true
			}
		}
		if !found {
			e.fail(idx, "over_budget_decodes_to_something_else", "decoded metadata holds a pair that is not in the input map")
			return
		}
	}
}
