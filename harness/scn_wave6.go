package main

import (
	"fmt"
	"runtime"
	"sync"
	"time"
)

func init() {
	// C08: "uses the stored session iff it is unexpired" — the library treats a session as expired ten seconds before its announced
	// expiry. Sessions that expire 7 s and 13 s after they were granted sit on the two sides of that margin: after a loss right after
	// the grant the first must be replaced by a fresh authentication, the second must be resumed. (The recovery happens within a
	// second of the grant; a decision closer than 2 s to the margin is not judged.)
	register(&scenario{Name: "c08/expiry-margin", Props: []string{"C08"}, Quick: true, Run: func(t *T) {
		p := newPeer(t, t.Transport, t.Version)
		defer p.Shutdown()
		var mu sync.Mutex
		firstReq := map[int]string{}
		grantedAt, firstAt := map[int]time.Time{}, map[int]time.Time{}
		grants := []time.Duration{7 * time.Second, 13 * time.Second, 7 * time.Second, 13 * time.Second, time.Hour}
		p.onFrame = func(pc *peerConn, f frameIn) {
			if stdReply2(pc, f) {
				return
			}
			if f.Typ != 1 {
				return
			}
			mu.Lock()
			if _, ok := firstReq[pc.N]; !ok && f.Cmd != 1 {
				firstReq[pc.N] = fmt.Sprintf("cmd%d", f.Cmd)
				firstAt[pc.N] = time.Now()
			}
			mu.Unlock()
			switch f.Cmd {
			case 2, 3:
				g := time.Hour
				if pc.N-1 < len(grants) {
					g = grants[pc.N-1]
				}
				mu.Lock()
				grantedAt[pc.N] = time.Now()
				mu.Unlock()
				pc.Send(respFrame(f, 0, authBody(fmt.Sprintf("session-%d", pc.N), g)))
			case 100:
				pc.Send(respFrame(f, 0, f.Body))
			case 199:
				pc.Drop()
			}
		}
		cfg := defaultCfg()
		cfg.Token = true
		cl, err := t.NewClient(p, cfg)
		if err != nil {
			t.Check("setup", false, "dial: %v", err)
			return
		}
		defer cl.Close(nil)
		lossAt := map[int]time.Time{}
		for i := 0; i < 4; i++ {
			mu.Lock()
			lossAt[i+1] = time.Now()
			mu.Unlock()
			t.DoAsync(cl, fmt.Sprintf("loss-%d", i), 199, 2)
			for k := 0; k < 100 && p.Dials() < i+2; k++ {
				time.Sleep(t.U(1) / 2)
			}
			t.Sleep(3)
			r := t.Do(cl, fmt.Sprintf("after-%d", i), 100, 6)
			t.Check("serves_again", r.Err == nil, "request after loss %d: %v", i, r.Err)
		}
		t.Join()
		mu.Lock()
		defer mu.Unlock()
		for n := 2; n <= p.Dials() && n <= 5; n++ {
			g := grants[n-2]
			// time between the grant on connection n-1 and its loss: must leave 2 s of slack to the margin on either side
			if ga, ok := grantedAt[n-1]; !ok || lossAt[n-1].Sub(ga) > time.Second || firstAt[n].Sub(ga) > 2*time.Second {
				continue
			}
			want := "cmd3"
			if g < 10*time.Second {
				want = "cmd2"
			}
			t.Check("uses_session_iff_unexpired", firstReq[n] == want, "connection #%d replaced one whose session had been granted for %v less than a second before the loss: its first request is %q, want %q (a session counts as expired 10 s before its announced expiry: 7 s is inside that margin, 13 s outside)", n, g, firstReq[n], want)
		}
	}})
}

func init() {
	// C04 through the TCP reader: a header that ANNOUNCES the largest body (v2: and the largest metadata block), one further byte, then
	// nothing — what the client allocates while it digests those few bytes is bounded by the input supplied, not by the length fields
	register(&scenario{Name: "c04/v2-announce-and-withhold", Props: []string{"C04"}, Quick: true, Transports: []string{"tcp"}, Run: func(t *T) {
		p := newPeer(t, t.Transport, t.Version)
		defer p.Shutdown()
		hostile := []byte{0x03, 0x64, 0xff, 0xff, 0xff, 0x00} // v1 push, cmd 100, body_len 0xffffff, one body byte
		if t.Version == 2 {
			hostile = []byte{0x03, 0x64, 0xff, 0xff, 0xff, 0xff, 0xff, 0x00} // v2 push: metadata_len 0xffff, body_len 0xffffff, one byte
		}
		p.onFrame = func(pc *peerConn, f frameIn) {
			if stdReply(pc, f) {
				return
			}
			if f.Typ == 1 && f.Cmd == 100 {
				pc.Send(respFrame(f, 0, f.Body))
			}
		}
		cl, err := t.NewClient(p, defaultCfg())
		if err != nil {
			t.Check("setup", false, "dial: %v", err)
			return
		}
		defer cl.Close(nil)
		// an honest large frame first: the read path has seen big frames, pools and buffers are warm
		big := make([]byte, 100000)
		pc := p.FirstConn()
		frame := specEncode(p.version, pushFrame(50, big))
		for off := 0; off < len(frame); off += 1000 {
			end := off + 1000
			if end > len(frame) {
				end = len(frame)
			}
			pc.SendRaw(frame[off:end])
		}
		if r := t.Do(cl, "warm", 100, 20); r.Err != nil {
			t.Check("setup", false, "request after the honest large frame: %v", r.Err)
			return
		}
		runtime.GC()
		var m0, m1 runtime.MemStats
		runtime.ReadMemStats(&m0)
		pc.SendRaw(hostile)
		t.Sleep(4)
		runtime.ReadMemStats(&m1)
		grown := m1.TotalAlloc - m0.TotalAlloc
		t.Check("alloc_bounded_by_input", grown < 1<<20, "the peer sent %d bytes (a v%d header announcing a body of 16777215 bytes, one further byte, then nothing): %d bytes were allocated in the process while the client digested them (want well under 1 MiB: allocation follows the bytes supplied, not the length field)", len(hostile), p.version, grown)
	}})
}
