package main

import (
	"bytes"
	"fmt"
	"runtime"
	"strings"
	"sync"
	"sync/atomic"
	"time"

	control "github.com/longportapp/openapi-protobufs/gen/go/control"
	protocol "github.com/longportapp/openapi-protocol/go"
	"github.com/longportapp/openapi-protocol/go/client"
	"github.com/longportapp/openapi-protocol/go/verifhook"
	pb "google.golang.org/protobuf/proto"
)

func init() {
	// C08: "uses the stored session iff it is unexpired" — the library treats a session as expired ten seconds before its announced
	// expiry. Sessions that expire 7 s and 13 s after they were granted sit on the two sides of that margin: after a loss right after
	// the grant the first must be replaced by a fresh authentication, the second must be resumed. (The recovery happens within a
	// second of the grant; a decision closer than 2 s to the margin is not judged.)
	register(&scenario{Name: "c08/expiry-margin", Props: []string{"C08"}, Quick: true, Run: func(t *T) {
		p := newPeer(t, t.Transport, t.Version)
		defer p.Shutdown()
		var mu sync.Mutex
		firstReq := map[int]string{}
		grantedAt, firstAt := map[int]time.Time{}, map[int]time.Time{}
		grants := []time.Duration{7 * time.Second, 13 * time.Second, 7 * time.Second, 13 * time.Second, time.Hour}
		p.onFrame = func(pc *peerConn, f frameIn) {
			if stdReply2(pc, f) {
				return
			}
			if f.Typ != 1 {
				return
			}
			mu.Lock()
			if _, ok := firstReq[pc.N]; !ok && f.Cmd != 1 {
				firstReq[pc.N] = fmt.Sprintf("cmd%d", f.Cmd)
				firstAt[pc.N] = time.Now()
			}
			mu.Unlock()
			switch f.Cmd {
			case 2, 3:
				g := time.Hour
				if pc.N-1 < len(grants) {
					g = grants[pc.N-1]
				}
				mu.Lock()
				grantedAt[pc.N] = time.Now()
				mu.Unlock()
				pc.Send(respFrame(f, 0, authBody(fmt.Sprintf("session-%d", pc.N), g)))
			case 100:
				pc.Send(respFrame(f, 0, f.Body))
			case 199:
				pc.Drop()
			}
		}
		cfg := defaultCfg()
		cfg.Token = true
		cl, err := t.NewClient(p, cfg)
		if err != nil {
			t.Check("setup", false, "dial: %v", err)
			return
		}
		defer cl.Close(nil)
		lossAt := map[int]time.Time{}
		for i := 0; i < 4; i++ {
			mu.Lock()
			lossAt[i+1] = time.Now()
			mu.Unlock()
			t.DoAsync(cl, fmt.Sprintf("loss-%d", i), 199, 2)
			for k := 0; k < 100 && p.Dials() < i+2; k++ {
				time.Sleep(t.U(1) / 2)
			}
			t.Sleep(3)
			r := t.Do(cl, fmt.Sprintf("after-%d", i), 100, 6)
			t.Check("serves_again", r.Err == nil, "request after loss %d: %v", i, r.Err)
		}
		t.Join()
		mu.Lock()
		defer mu.Unlock()
		for n := 2; n <= p.Dials() && n <= 5; n++ {
			g := grants[n-2]
			// time between the grant on connection n-1 and its loss: must leave 2 s of slack to the margin on either side
			if ga, ok := grantedAt[n-1]; !ok || lossAt[n-1].Sub(ga) > time.Second || firstAt[n].Sub(ga) > 2*time.Second {
				continue
			}
			want := "cmd3"
			if g < 10*time.Second {
				want = "cmd2"
			}
			t.Check("uses_session_iff_unexpired", firstReq[n] == want, "connection #%d replaced one whose session had been granted for %v less than a second before the loss: its first request is %q, want %q (a session counts as expired 10 s before its announced expiry: 7 s is inside that margin, 13 s outside)", n, g, firstReq[n], want)
		}
	}})
}

func init() {
	// C04 through the TCP reader: a header that ANNOUNCES the largest body (v2: and the largest metadata block), one further byte, then
	// nothing — what the client allocates while it digests those few bytes is bounded by the input supplied, not by the length fields
	register(&scenario{Name: "c04/v2-announce-and-withhold", Props: []string{"C04"}, Quick: true, Transports: []string{"tcp"}, Run: func(t *T) {
		p := newPeer(t, t.Transport, t.Version)
		defer p.Shutdown()
		hostile := []byte{0x03, 0x64, 0xff, 0xff, 0xff, 0x00} // v1 push, cmd 100, body_len 0xffffff, one body byte
		if t.Version == 2 {
			hostile = []byte{0x03, 0x64, 0xff, 0xff, 0xff, 0xff, 0xff, 0x00} // v2 push: metadata_len 0xffff, body_len 0xffffff, one byte
		}
		p.onFrame = func(pc *peerConn, f frameIn) {
			if stdReply(pc, f) {
				return
			}
			if f.Typ == 1 && f.Cmd == 100 {
				pc.Send(respFrame(f, 0, f.Body))
			}
		}
		cl, err := t.NewClient(p, defaultCfg())
		if err != nil {
			t.Check("setup", false, "dial: %v", err)
			return
		}
		defer cl.Close(nil)
		// an honest large frame first: the read path has seen big frames, pools and buffers are warm
		big := make([]byte, 100000)
		pc := p.FirstConn()
		frame := specEncode(p.version, pushFrame(50, big))
		for off := 0; off < len(frame); off += 1000 {
			end := off + 1000
			if end > len(frame) {
				end = len(frame)
			}
			pc.SendRaw(frame[off:end])
		}
		if r := t.Do(cl, "warm", 100, 20); r.Err != nil {
			t.Check("setup", false, "request after the honest large frame: %v", r.Err)
			return
		}
		runtime.GC()
		var m0, m1 runtime.MemStats
		runtime.ReadMemStats(&m0)
		pc.SendRaw(hostile)
		t.Sleep(4)
		runtime.ReadMemStats(&m1)
		grown := m1.TotalAlloc - m0.TotalAlloc
		t.Check("alloc_bounded_by_input", grown < 1<<20, "the peer sent %d bytes (a v%d header announcing a body of 16777215 bytes, one further byte, then nothing): %d bytes were allocated in the process while the client digested them (want well under 1 MiB: allocation follows the bytes supplied, not the length field)", len(hostile), p.version, grown)
	}})
}

func init() {
	// C15 under write load (TCP): the peer answers two heartbeats, then hangs — it neither answers nor reads any more, the socket stays
	// open — while the application keeps sending large requests: socket buffers and the write queue fill up. Detection must not depend on
	// the heartbeat getting a place in that queue: the dead peer is recycled within interval + timeout (+ slack) all the same
	register(&scenario{Name: "c15/hung-peer-under-write-load", Props: []string{"C15", "C06", "C14"}, Quick: true, Transports: []string{"tcp"}, Run: func(t *T) {
		p := newPeer(t, t.Transport, t.Version)
		defer p.Shutdown()
		var mu sync.Mutex
		pings := 0
		var hungAt time.Time
		hung := make(chan struct{})
		p.onFrame = func(pc *peerConn, f frameIn) {
			if pc.N != 1 {
				stdReply(pc, f)
				if f.Typ == 1 && f.Cmd >= 100 {
					pc.Send(respFrame(f, 0, nil))
				}
				return
			}
			if f.Typ == 1 && f.Cmd == 1 {
				mu.Lock()
				pings++
				n := pings
				mu.Unlock()
				if n <= 2 {
					pc.Send(respFrame(f, 0, f.Body))
				}
				if n == 3 { // the third heartbeat has arrived and stays unanswered: from now on the peer does not even read
					mu.Lock()
					hungAt = time.Now()
					mu.Unlock()
					pc.Stall(true)
					close(hung)
				}
			}
		}
		cfg := defaultCfg()
		cfg.KeepaliveU, cfg.KeepaliveTimeoutU = 3, 6
		cfg.MinGzip = 1 << 30
		cl, err := t.NewClient(p, cfg)
		if err != nil {
			t.Check("setup", false, "dial: %v", err)
			return
		}
		body := make([]byte, 1<<20)
		for k := range body {
			body[k] = byte('a' + k%26)
		}
		stop := make(chan struct{})
		var wg sync.WaitGroup
		for w := 0; w < 12; w++ {
			wg.Add(1)
			go func() {
				defer wg.Done()
				select { // the write load starts once a heartbeat is outstanding at a peer that has stopped reading
				case <-hung:
				case <-stop:
					return
				}
				for {
					select {
					case <-stop:
						return
					default:
					}
					_, _ = cl.Do(contextBG(), &clientRequest{Cmd: 100, Body: &control.AuthRequest{Token: string(body)}}, reqTimeout(t.U(2)))
					time.Sleep(t.U(1) / 10)
				}
			}()
		}
		select {
		case <-hung:
		case <-time.After(t.U(60)):
			t.Check("setup", false, "the peer never saw three heartbeats")
			close(stop)
			cl.Close(nil)
			return
		}
		deadline := time.Now().Add(t.U(3 + 6 + 3 + 40))
		for time.Now().Before(deadline) && p.Dials() < 2 {
			time.Sleep(t.U(1) / 4)
		}
		second := time.Now()
		// Close with the senders still at it (and, if the dead peer was not detected, with everything still wedged): it returns promptly
		closed := make(chan struct{})
		go func() { cl.Close(nil); close(closed) }()
		select {
		case <-closed:
		case <-time.After(t.U(40)):
			t.Check("close_prompt", false, "Close did not return within 40 units (hung peer, 12 senders of 1 MiB requests, %d connection(s) so far)", p.Dials())
		}
		close(stop)
		done := make(chan struct{})
		go func() { wg.Wait(); close(done) }()
		select {
		case <-done:
		case <-time.After(t.U(30)):
			t.Check("do_terminates", false, "request calls issued against the hung peer (request timeout 2 units) have not returned 30 units after the senders were told to stop")
		}
		mu.Lock()
		h := hungAt
		mu.Unlock()
		lat := second.Sub(h)
		t.Check("detects_dead", p.Dials() >= 2 && lat <= t.U(3+6+12), "a peer that answered two heartbeats, left the third unanswered and stopped reading (socket open) while 12 goroutines then kept sending 1 MiB requests: %d connection(s) after %.1f units (interval 3, timeout 6: recycle expected within interval + timeout + slack)", p.Dials(), float64(lat)/float64(t.U(1)))
	}})

	// C19 across a recovery with heartbeats on BOTH connections: the heartbeat ids and the request ids of one connection come from that
	// connection's own counter — on the second connection they start at 1 again and never repeat, whatever was issued on the first one
	register(&scenario{Name: "c19/heartbeats-then-recovery", Props: []string{"C19", "C15"}, Quick: true, Run: func(t *T) {
		p := newPeer(t, t.Transport, t.Version)
		defer p.Shutdown()
		p.onFrame = func(pc *peerConn, f frameIn) {
			if f.WsKind == "ping" {
				pc.WsControl(10, f.Body)
				return
			}
			if f.WsKind != "" && f.WsKind != "binary" {
				return
			}
			if f.Typ == 1 {
				pc.Send(respFrame(f, 0, f.Body))
			}
		}
		cfg := defaultCfg()
		cfg.KeepaliveU, cfg.KeepaliveTimeoutU = 2, 20
		cl, err := t.NewClient(p, cfg)
		if err != nil {
			t.Check("setup", false, "dial: %v", err)
			return
		}
		defer cl.Close(nil)
		idsOn := func(pc *peerConn) []uint32 {
			var ids []uint32
			for _, f := range pc.Frames() {
				if f.Typ == 1 && (f.WsKind == "" || f.WsKind == "binary") {
					ids = append(ids, f.Rid)
				} else if f.WsKind == "ping" {
					if id, ok := heartbeatIDOf(f.Body); ok {
						ids = append(ids, id)
					}
				}
			}
			return ids
		}
		// first connection: a few calls and at least three heartbeats
		for i := 0; i < 4; i++ {
			doTagged(t, cl, 100, int32(i), 6)
		}
		for k := 0; k < 80; k++ {
			n := 0
			for _, f := range p.FirstConn().Frames() {
				if f.WsKind == "ping" || (f.Typ == 1 && f.Cmd == 1) {
					n++
				}
			}
			if n >= 3 {
				break
			}
			time.Sleep(t.U(1) / 2)
		}
		p.FirstConn().Drop()
		for k := 0; k < 200 && p.Dials() < 2; k++ {
			time.Sleep(t.U(1) / 4)
		}
		t.Sleep(1)
		// second connection: calls interleaved with heartbeats, more calls than ids were used on the first connection
		for i := 0; i < 14; i++ {
			doTagged(t, cl, 100, int32(100+i), 6)
			if i%4 == 3 {
				t.Sleep(2)
			}
		}
		t.Sleep(3)
		conns := p.Conns()
		if len(conns) < 2 {
			t.Check("setup", false, "the client did not recover")
			return
		}
		for ci, pc := range conns[:2] {
			ids := idsOn(pc)
			ok := len(ids) > 0
			for i, id := range ids {
				if int(id) != i+1 {
					ok = false
				}
			}
			t.Check("ids_from_one", ok, "connection %d: the ids of requests and heartbeats as the peer saw them, in order, are %v (want 1, 2, 3, … — one counter per connection, starting at 1)", ci+1, ids)
		}
	}})
}

// heartbeatIDOf: the heartbeat id carried in a (protobuf) heartbeat body
func heartbeatIDOf(body []byte) (uint32, bool) {
	var hb control.Heartbeat
	if pb.Unmarshal(body, &hb) != nil || hb.HeartbeatId == nil {
		return 0, false
	}
	return uint32(hb.GetHeartbeatId()), true
}

func init() {
	// C16/C14 (TCP): the peer closes the client's FIRST connection at once, and the conn's reader notices and closes the conn while the
	// client is still inside Dial, before it has registered its close callback (forced: Dial is parked at the handshake write until the
	// reader has exited). Dial returns all the same, the loss is recovered, Close returns, and nothing is left running
	register(&scenario{Name: "c16/first-conn-closed-before-registration", Props: []string{"C16", "C14", "C06"}, Quick: true, Transports: []string{"tcp"}, Run: func(t *T) {
		p := newPeer(t, t.Transport, t.Version)
		defer p.Shutdown()
		p.onAccept = func(pc *peerConn) {
			if pc.N == 1 {
				pc.Drop()
			}
		}
		p.onFrame = func(pc *peerConn, f frameIn) {
			if stdReply(pc, f) {
				return
			}
			if f.Typ == 1 && f.Cmd >= 100 {
				pc.Send(respFrame(f, 0, f.Body))
			}
		}
		verifhook.Hold("conn.write:before-enqueue")
		seq := verifhook.Seq()
		type dialed struct {
			cl  client.Client
			err error
		}
		dialDone := make(chan dialed, 1)
		go func() {
			cl, err := t.NewClient(p, defaultCfg())
			dialDone <- dialed{cl, err}
		}()
		parked := verifhook.WaitParked("conn.write:before-enqueue", 1, t.U(40))
		_, exited := verifhook.WaitEvent("conn.reader:exit", seq, t.U(40))
		verifhook.Release("conn.write:before-enqueue")
		if !parked || !exited {
			t.Check("setup", true, "window not forced (parked=%v reader exited=%v): the scenario runs unforced", parked, exited)
		}
		var d dialed
		select {
		case d = <-dialDone:
		case <-time.After(t.U(60)):
			n, where := libGoroutines()
			t.Check("client_threads_exit", false, "Dial has not returned 60 units after the handshake write was released (the peer had closed the first connection before the client registered its close callback); %d library goroutine(s): %s", n, where)
			t.Check("do_terminates", false, "Dial (dial timeout %d units) has not returned 60 units after the handshake write was released: the peer had closed the first connection before the client registered its close callback; every later call would block behind it", defaultCfg().DialTimeoutU)
			return
		}
		if d.err == nil && d.cl != nil {
			for k := 0; k < 120 && p.Dials() < 2; k++ {
				time.Sleep(t.U(1) / 2)
			}
			t.Check("one_recovery_per_loss", p.Dials() >= 2, "the first connection was closed by the peer during Dial: no second connection within 60 units")
			closed := make(chan struct{})
			go func() { d.cl.Close(nil); close(closed) }()
			select {
			case <-closed:
			case <-time.After(t.U(40)):
				t.Check("close_prompt", false, "Close did not return within 40 units")
				return
			}
		}
		t.Sleep(3)
		n, where := libGoroutines()
		t.Check("client_threads_exit", n == 0, "%d library goroutine(s) alive after Dial on a connection the peer closed at once, recovery and Close: %s", n, where)
		t.Check("sockets_released", p.Open() == 0, "%d socket(s) still open at the peer", p.Open())
	}})
}

func init() {
	// C17/C13 (both protocol versions — "/v2" in the name puts version 2 into the quick tier): pushes sent in separate segments to a
	// subscriber that is still reading the previous body when the next segment arrives, while callers get answers on the same connection.
	// A delivered body is the application's: nothing of the connection may write to it any more (the race detector sees a reader that
	// reuses the memory; the content check sees the overwritten bytes)
	register(&scenario{Name: "c17/v2-slow-subscriber-bodies", Props: []string{"C17", "C13", "C07"}, Quick: true, Run: func(t *T) {
		p := newPeer(t, t.Transport, t.Version)
		defer p.Shutdown()
		p.onFrame = func(pc *peerConn, f frameIn) {
			if stdReply(pc, f) {
				return
			}
			if f.Typ == 1 && f.Cmd >= 100 {
				pc.Send(respFrame(f, 0, f.Body))
			}
		}
		var mu sync.Mutex
		var got []string
		cfg := defaultCfg()
		cfg.ReadQueue = 64
		cfg.MinGzip = 1 << 30
		cfg.Handlers = map[uint32][]func(*protocol.Packet){50: {func(pk *protocol.Packet) {
			// read the body slowly: first half, wait, second half
			h1 := fnv64(pk.Body[:len(pk.Body)/2])
			time.Sleep(t.U(1))
			h2 := fnv64(pk.Body[len(pk.Body)/2:])
			mu.Lock()
			got = append(got, fmt.Sprintf("%d:%x:%x", len(pk.Body), h1, h2))
			mu.Unlock()
		}}}
		cl, err := t.NewClient(p, cfg)
		if err != nil {
			t.Check("setup", false, "dial: %v", err)
			return
		}
		defer cl.Close(nil)
		pc := p.FirstConn()
		var want []string
		for i := 0; i < 6; i++ {
			body := bytes.Repeat([]byte{byte('A' + i)}, 900+i*37)
			want = append(want, fmt.Sprintf("%d:%x:%x", len(body), fnv64(body[:len(body)/2]), fnv64(body[len(body)/2:])))
			pc.Send(pushFrame(50, body))
			if i%2 == 1 {
				doTagged(t, cl, 100, int32(i), 10)
			}
			time.Sleep(t.U(1) / 3)
		}
		for k := 0; k < 60; k++ {
			mu.Lock()
			n := len(got)
			mu.Unlock()
			if n >= len(want) {
				break
			}
			time.Sleep(t.U(1) / 2)
		}
		mu.Lock()
		defer mu.Unlock()
		t.Check("dispatch_spec", fmt.Sprint(got) == fmt.Sprint(want), "six pushes sent a third of a unit apart to a subscriber that takes a unit per body: the subscriber read (length:hash of first half:hash of second half) %v, the peer sent %v", got, want)
	}})
}

func init() {
	// C13 while a recovery is RUNNING: a burst of pushes is queued behind a slow handler, the connection is lost, and the re-dials are
	// refused for a while — the dispatcher works through the queue while the client is recovering. Frames received before the loss are
	// delivered all the same, exactly once, in order (the only permitted loss is the logged overflow)
	register(&scenario{Name: "c13/burst-then-drop-slow-recovery", Props: []string{"C13", "C08"}, Quick: true, Run: func(t *T) {
		p := newPeer(t, t.Transport, t.Version)
		defer p.Shutdown()
		p.onFrame = func(pc *peerConn, f frameIn) {
			if stdReply(pc, f) {
				return
			}
			if f.Typ == 1 && f.Cmd == 100 && pc.N == 1 {
				for i := 0; i < 30; i++ {
					pc.Send(pushFrame(50, []byte(fmt.Sprintf("q%02d", i))))
				}
				time.Sleep(t.U(2))
				p.Refuse(true)
				pc.Drop()
				go func() { time.Sleep(t.U(14)); p.Refuse(false) }()
			}
		}
		var mu sync.Mutex
		var got []string
		n := 0
		cfg := defaultCfg()
		cfg.ReadQueue = 128
		cfg.Handlers = map[uint32][]func(*protocol.Packet){50: {func(pk *protocol.Packet) {
			mu.Lock()
			n++
			k := n
			mu.Unlock()
			if k <= 5 {
				time.Sleep(t.U(1)) // five slow deliveries: the loss and the first failed re-dials happen meanwhile
			}
			mu.Lock()
			got = append(got, string(pk.Body))
			mu.Unlock()
		}}}
		cl, err := t.NewClient(p, cfg)
		if err != nil {
			t.Check("setup", false, "dial: %v", err)
			return
		}
		defer cl.Close(nil)
		t.DoAsync(cl, "burst", 100, 3)
		t.Sleep(12)
		t.Join()
		mu.Lock()
		defer mu.Unlock()
		want := []string{}
		for i := 0; i < 30; i++ {
			want = append(want, fmt.Sprintf("q%02d", i))
		}
		if t.Warns("drop") == 0 {
			t.Check("dispatch_spec", fmt.Sprint(got) == fmt.Sprint(want), "30 pushes were received before the connection was lost (no overflow logged) and the re-dials were refused for 14 units: %d were delivered while the client was recovering: %v", len(got), got)
		}
	}})
}

// ---- wave 7 ----

func init() {
	// C13/C10: a burst of gzip-COMPRESSED pushes behind a slow subscriber: each is delivered with its own content, in order, although later
	// frames are decompressed while earlier packets are still queued (a delivered body is not the decompressor's scratch memory)
	register(&scenario{Name: "c13/gzip-burst-slow-subscriber", Props: []string{"C13", "C10", "C17"}, Quick: true, Run: func(t *T) {
		p := newPeer(t, t.Transport, t.Version)
		defer p.Shutdown()
		p.onFrame = func(pc *peerConn, f frameIn) { stdReply(pc, f) }
		var mu sync.Mutex
		var got []string
		cfg := defaultCfg()
		cfg.ReadQueue = 64
		cfg.Handlers = map[uint32][]func(*protocol.Packet){50: {func(pk *protocol.Packet) {
			time.Sleep(t.U(1) / 4)
			mu.Lock()
			got = append(got, fmt.Sprintf("%d:%x", len(pk.Body), fnv64(pk.Body)))
			mu.Unlock()
		}}, 51: {func(pk *protocol.Packet) {
			mu.Lock()
			got = append(got, fmt.Sprintf("51/%d:%x", len(pk.Body), fnv64(pk.Body)))
			mu.Unlock()
		}}}
		cl, err := t.NewClient(p, cfg)
		if err != nil {
			t.Check("setup", false, "dial: %v", err)
			return
		}
		defer cl.Close(nil)
		pc := p.FirstConn()
		var want []string
		for i := 0; i < 12; i++ {
			content := bytes.Repeat([]byte(fmt.Sprintf("payload-%02d;", i)), 40+i)
			cmd, pre := 50, ""
			if i%5 == 4 {
				cmd, pre = 51, "51/"
			}
			want = append(want, fmt.Sprintf("%s%d:%x", pre, len(content), fnv64(content)))
			pc.Send(specFrame{typ: 3, cmd: cmd, gzip: 1, body: stdCompress(content)})
		}
		for k := 0; k < 80; k++ {
			mu.Lock()
			n := len(got)
			mu.Unlock()
			if n >= len(want) {
				break
			}
			time.Sleep(t.U(1) / 2)
		}
		mu.Lock()
		defer mu.Unlock()
		if t.Warns("drop") == 0 {
			t.Check("dispatch_spec", fmt.Sprint(got) == fmt.Sprint(want), "twelve gzip-compressed pushes in one burst to subscribers of which one takes a quarter unit per frame: delivered (length:hash) %v, sent %v", got, want)
		}
	}})

	// C15 echo with a backlog (TCP): a heartbeat request of the peer waits in the receive queue behind a slow push handler while further
	// bytes arrive on the socket; the answer the client finally writes echoes the request's id AND its body
	register(&scenario{Name: "c15/echo-behind-slow-handler", Props: []string{"C15", "C07"}, Quick: true, Transports: []string{"tcp"}, Run: func(t *T) {
		p := newPeer(t, t.Transport, t.Version)
		defer p.Shutdown()
		var mu sync.Mutex
		echoes := map[uint32][]byte{}
		p.onFrame = func(pc *peerConn, f frameIn) {
			if f.Typ == 2 && f.Cmd == 1 {
				mu.Lock()
				echoes[f.Rid] = append([]byte{}, f.Body...)
				mu.Unlock()
				return
			}
			stdReply(pc, f)
		}
		cfg := defaultCfg()
		cfg.ReadQueue = 64
		cfg.Handlers = map[uint32][]func(*protocol.Packet){50: {func(pk *protocol.Packet) { time.Sleep(t.U(2)) }}}
		cl, err := t.NewClient(p, cfg)
		if err != nil {
			t.Check("setup", false, "dial: %v", err)
			return
		}
		defer cl.Close(nil)
		pc := p.FirstConn()
		bodies := map[uint32][]byte{}
		for i := 0; i < 4; i++ {
			pc.Send(pushFrame(50, bytes.Repeat([]byte{byte('p' + i)}, 300)))
			rid := uint32(7000 + i)
			b := bytes.Repeat([]byte{byte('H' + i)}, 64+i)
			bodies[rid] = b
			pc.Send(specFrame{typ: 1, cmd: 1, rid: rid, to: 5, body: b})
			time.Sleep(t.U(1) / 2)
			pc.Send(pushFrame(52, bytes.Repeat([]byte{'e'}, 500))) // nobody subscribes: just more bytes through the read buffer
			time.Sleep(t.U(1) / 2)
		}
		for k := 0; k < 60; k++ {
			mu.Lock()
			n := len(echoes)
			mu.Unlock()
			if n >= len(bodies) {
				break
			}
			time.Sleep(t.U(1) / 2)
		}
		mu.Lock()
		defer mu.Unlock()
		ok, detail := len(echoes) == len(bodies), ""
		for rid, b := range bodies {
			if !bytes.Equal(echoes[rid], b) {
				ok = false
				detail += fmt.Sprintf(" [heartbeat %d: sent %d bytes of %q, the answer carries %d bytes starting %q]", rid, len(b), b[:1], len(echoes[rid]), firstBytes(echoes[rid], 4))
			}
		}
		t.Check("echo", ok, "four heartbeat requests of the peer, each queued behind a push whose handler takes two units, with further traffic arriving meanwhile: %d answered;%s", len(echoes), detail)
	}})

	// C16/C10: a legal compressed push whose content inflates to more than 2^24 bytes (about 17 KiB on the wire; the frame limit is on the
	// compressed body): it is delivered whole, and after Close nothing of the connection is left running
	register(&scenario{Name: "c16/huge-inflating-push-then-close", Props: []string{"C16", "C10", "C04"}, Quick: true, Transports: []string{"tcp"}, TimeoutU: 600, Run: func(t *T) {
		p := newPeer(t, t.Transport, t.Version)
		defer p.Shutdown()
		p.onFrame = func(pc *peerConn, f frameIn) { stdReply(pc, f) }
		var mu sync.Mutex
		var lens []int
		cfg := defaultCfg()
		cfg.Handlers = map[uint32][]func(*protocol.Packet){50: {func(pk *protocol.Packet) {
			mu.Lock()
			lens = append(lens, len(pk.Body))
			mu.Unlock()
		}}}
		cl, err := t.NewClient(p, cfg)
		if err != nil {
			t.Check("setup", false, "dial: %v", err)
			return
		}
		pc := p.FirstConn()
		sizes := []int{1 << 20, 1<<24 + 4096, 17 << 20}
		for _, n := range sizes {
			pc.Send(specFrame{typ: 3, cmd: 50, gzip: 1, body: stdCompress(make([]byte, n))})
		}
		for k := 0; k < 200; k++ {
			mu.Lock()
			n := len(lens)
			mu.Unlock()
			if n >= len(sizes) {
				break
			}
			time.Sleep(t.U(1) / 2)
		}
		closed := make(chan struct{})
		go func() { cl.Close(nil); close(closed) }()
		select {
		case <-closed:
		case <-time.After(t.U(40)):
			t.Check("close_prompt", false, "Close did not return within 40 units")
		}
		t.Sleep(4)
		mu.Lock()
		t.Check("dispatch_spec", fmt.Sprint(lens) == fmt.Sprint(sizes), "compressed pushes whose contents have %v bytes were delivered with %v bytes", sizes, lens)
		mu.Unlock()
		n, where := libGoroutines()
		t.Check("client_threads_exit", n == 0, "%d library goroutine(s) alive after Close (the connection had decoded compressed pushes inflating to 1 MiB, 16 MiB + 4 KiB and 17 MiB): %s", n, where)
	}})

	// C17 (both versions): concurrent calls that carry request metadata — in version 2 every frame packs a metadata block — against an echo
	// peer that checks each request's metadata against its body; under the race detector the block a frame is built from belongs to that frame
	register(&scenario{Name: "c17/v2-concurrent-metadata", Props: []string{"C17", "C05", "C11"}, Quick: true, Run: func(t *T) {
		p := newPeer(t, t.Transport, t.Version)
		defer p.Shutdown()
		var bad int32
		var firstBad atomic.Value
		p.onFrame = func(pc *peerConn, f frameIn) {
			if stdReply(pc, f) {
				return
			}
			if f.Typ == 1 && f.Cmd == 100 {
				if p.version == 2 {
					tag := tagOfBody(f.Body)
					md := &protocol.Metadata{}
					_ = md.UnmarshalValues(f.Md)
					want := fmt.Sprintf("caller-%d", tag)
					if md.Values["x-caller"] != want || md.Values["x-pad"] != strings.Repeat("p", int(tag%50)+130) {
						if atomic.AddInt32(&bad, 1) == 1 {
							firstBad.Store(fmt.Sprintf("request tagged %d carries metadata x-caller=%q, x-pad of %d bytes (want %q, %d bytes)", tag, md.Values["x-caller"], len(md.Values["x-pad"]), want, int(tag%50)+130))
						}
					}
				}
				pc.Send(respFrame(f, 0, f.Body))
			}
		}
		cfg := defaultCfg()
		cfg.ReadQueue = 1024
		cl, err := t.NewClient(p, cfg)
		if err != nil {
			t.Check("setup", false, "dial: %v", err)
			return
		}
		defer cl.Close(nil)
		var wg sync.WaitGroup
		var failed int32
		for g := 0; g < 8; g++ {
			wg.Add(1)
			go func(g int) {
				defer wg.Done()
				for i := 0; i < 40; i++ {
					tag := int32(g*1000 + i)
					_, err := cl.Do(contextBG(), &clientRequest{Cmd: 100, Body: &control.Heartbeat{Timestamp: 1, HeartbeatId: &tag},
						Metadata: map[string]string{"x-caller": fmt.Sprintf("caller-%d", tag), "x-pad": strings.Repeat("p", int(tag%50)+130)}}, reqTimeout(t.U(20)))
					if err != nil {
						atomic.AddInt32(&failed, 1)
					}
				}
			}(g)
		}
		wg.Wait()
		fb, _ := firstBad.Load().(string)
		t.Check("do_returns_own_id", atomic.LoadInt32(&bad) == 0 && atomic.LoadInt32(&failed) == 0, "8 goroutines x 40 calls with per-call metadata: %d request frames carried another call's metadata (%s), %d calls failed", atomic.LoadInt32(&bad), fb, atomic.LoadInt32(&failed))
	}})

	// C19: the heartbeat id is drawn and the heartbeat is written on ONE connection. The keepalive goroutine is parked right after it has
	// drawn the id (yield point keepalive:ping-id); the connection is dropped and the client given time; then the goroutine goes on. Every
	// connection's ids, as the peer sees them, still are 1, 2, 3, … of that connection's own counter
	register(&scenario{Name: "c19/ping-id-then-loss", Props: []string{"C19", "C15"}, Quick: true, Run: func(t *T) {
		p := newPeer(t, t.Transport, t.Version)
		defer p.Shutdown()
		p.onFrame = func(pc *peerConn, f frameIn) {
			if f.WsKind == "ping" {
				pc.WsControl(10, f.Body)
				return
			}
			if f.WsKind != "" && f.WsKind != "binary" {
				return
			}
			if f.Typ == 1 {
				pc.Send(respFrame(f, 0, f.Body))
			}
		}
		cfg := defaultCfg()
		cfg.KeepaliveU, cfg.KeepaliveTimeoutU = 3, 30
		cl, err := t.NewClient(p, cfg)
		if err != nil {
			t.Check("setup", false, "dial: %v", err)
			return
		}
		defer cl.Close(nil)
		for i := 0; i < 5; i++ {
			doTagged(t, cl, 100, int32(i), 6)
		}
		verifhook.Hold("keepalive:ping-id")
		if !verifhook.WaitParked("keepalive:ping-id", 1, t.U(40)) {
			verifhook.Release("keepalive:ping-id")
			t.Check("setup", false, "no heartbeat within 40 units")
			return
		}
		p.FirstConn().Drop()
		t.Sleep(6) // a recovery that does not need the lock the parked goroutine may hold would complete now
		verifhook.Release("keepalive:ping-id")
		for k := 0; k < 200 && p.Dials() < 2; k++ {
			time.Sleep(t.U(1) / 4)
		}
		t.Sleep(2)
		for i := 0; i < 4; i++ {
			doTagged(t, cl, 100, int32(100+i), 6)
		}
		t.Sleep(4)
		conns := p.Conns()
		if len(conns) < 2 {
			t.Check("setup", false, "the client did not recover")
			return
		}
		for ci, pc := range conns {
			var ids []uint32
			for _, f := range pc.Frames() {
				if f.Typ == 1 && (f.WsKind == "" || f.WsKind == "binary") {
					ids = append(ids, f.Rid)
				} else if f.WsKind == "ping" {
					if id, ok := heartbeatIDOf(f.Body); ok {
						ids = append(ids, id)
					}
				}
			}
			ok := true
			for i, id := range ids {
				if int(id) != i+1 {
					ok = false
				}
			}
			t.Check("ids_from_one", ok, "connection %d: the ids of requests and heartbeats as the peer saw them, in order, are %v (want 1, 2, 3, …: an id is written to the connection whose counter it was drawn from)", ci+1, ids)
		}
	}})
}

func firstBytes(b []byte, n int) []byte {
	if len(b) < n {
		return b
	}
	return b[:n]
}
