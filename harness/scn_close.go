package main

// Scenarios for C14 (Close is final and safe) and C16 (resources released).

import (
	"fmt"
	"sync"
	"sync/atomic"
	"time"

	protocol "github.com/longportapp/openapi-protocol/go"
	"github.com/longportapp/openapi-protocol/go/verifhook"
)

// after Close returned: no new connection, no frame, no after-reconnect callback, exactly one on-close callback
func closeMonitor(t *T, p *Peer, closedAt time.Time, dialsAtClose int, framesAtClose int, afterAtClose int32, waitU int) {
	t.Sleep(waitU)
	frames := 0
	for _, pc := range p.Conns() {
		frames += len(pc.Frames())
	}
	t.Check("close_final:no_dial", p.Dials() == dialsAtClose, "%d connection attempt(s) reached the peer after Close returned", p.Dials()-dialsAtClose)
	t.Check("close_final:no_frame", frames <= framesAtClose, "%d frame(s) sent after Close returned", frames-framesAtClose)
	t.Check("close_final:no_after_reconnected", atomic.LoadInt32(&t.afterRec) == afterAtClose, "after-reconnect callback ran %d time(s) after Close returned", atomic.LoadInt32(&t.afterRec)-afterAtClose)
	t.Check("on_close_once", atomic.LoadInt32(&t.onClose) == 1, "close callback ran %d times", atomic.LoadInt32(&t.onClose))
}

func doClose(t *T, cl interface{ Close(error) error }, boundU int) (time.Time, bool) {
	done := make(chan struct{})
	go func() {
		defer func() {
			if x := recover(); x != nil {
				t.Check("close_no_panic", false, "Close panicked: %v", x)
			}
			close(done)
		}()
		cl.Close(nil)
	}()
	select {
	case <-done:
		return time.Now(), true
	case <-time.After(t.U(boundU)):
		t.Check("close_prompt", false, "Close did not return within %d units", boundU)
		return time.Now(), false
	}
}

func framesSeen(p *Peer) int {
	n := 0
	for _, pc := range p.Conns() {
		n += len(pc.Frames())
	}
	return n
}

func closeScenario(name string, quick bool, cfgf func(*clientCfg), prepare func(t *T, p *Peer, cl interface {
	Close(error) error
}) bool) {
	register(&scenario{Name: name, Props: []string{"C14", "C16", "C17"}, Quick: quick, Run: func(t *T) {
		p := newPeer(t, t.Transport, t.Version)
		defer p.Shutdown()
		p.onFrame = func(pc *peerConn, f frameIn) {
			if stdReply(pc, f) {
				return
			}
			switch {
			case f.Typ == 1 && f.Cmd == 100:
				pc.Send(respFrame(f, 0, f.Body))
			case f.Typ == 1 && f.Cmd == 110: // answer + burst of pushes (keeps reader and dispatcher busy)
				pc.Send(respFrame(f, 0, f.Body))
				for i := 0; i < 40; i++ {
					pc.Send(pushFrame(50, []byte{byte(i)}))
				}
			case f.Typ == 1 && f.Cmd == 120: // silent
			case f.Typ == 1 && f.Cmd == 130: // drop
				pc.Drop()
			}
		}
		cfg := defaultCfg()
		cfg.Handlers = map[uint32][]func(*protocol.Packet){50: {func(*protocol.Packet) { time.Sleep(2 * time.Millisecond) }}}
		if cfgf != nil {
			cfgf(&cfg)
		}
		cl, err := t.NewClient(p, cfg)
		if err != nil {
			t.Check("setup", false, "dial: %v", err)
			return
		}
		if !prepare(t, p, cl) {
			return
		}
		dials, frames, after := p.Dials(), framesSeen(p), atomic.LoadInt32(&t.afterRec)
		at, ok := doClose(t, cl, 40)
		if !ok {
			return
		}
		// frames already in the transport when Close was called may still be flushed: count again right after Close returned
		time.Sleep(t.U(1) / 5)
		frames2 := framesSeen(p)
		if frames2 > frames {
			frames = frames2
		}
		closeMonitor(t, p, at, dials, frames, after, 40)
		t.Join()
		t.Sleep(2)
		n, where := libGoroutines()
		t.Check("client_threads_exit", n == 0, "%d library goroutine(s) still alive after Close + quiescence: %s", n, where)
		t.Check("sockets_released", p.Open() == 0, "%d socket(s) still open at the peer", p.Open())
		// a second Close must be harmless
		func() {
			defer func() {
				if x := recover(); x != nil {
					t.Check("close_no_panic", false, "second Close panicked: %v", x)
				}
			}()
			cl.Close(nil)
		}()
		t.Check("on_close_once", atomic.LoadInt32(&t.onClose) == 1, "close callback ran %d times after a second Close", atomic.LoadInt32(&t.onClose))
	}})
}

type closer = interface{ Close(error) error }

func init() {
	closeScenario("c14/idle", true, nil, func(t *T, p *Peer, cl closer) bool { t.Sleep(1); return true })
	closeScenario("c14/requests-in-flight", true, nil, func(t *T, p *Peer, cl closer) bool {
		for i := 0; i < 4; i++ {
			t.DoAsync(t.cl, fmt.Sprintf("inflight-%d", i), 120, 8)
		}
		t.Sleep(1)
		return true
	})
	closeScenario("c14/incoming-traffic", true, func(c *clientCfg) { c.ReadQueue = 8 }, func(t *T, p *Peer, cl closer) bool {
		t.DoAsync(t.cl, "burst-1", 110, 8)
		t.DoAsync(t.cl, "burst-2", 110, 8)
		time.Sleep(t.U(1) / 4)
		return true
	})
	closeScenario("c14/after-peer-drop", true, nil, func(t *T, p *Peer, cl closer) bool {
		t.DoAsync(t.cl, "drop", 130, 4)
		time.Sleep(t.U(1) / 10) // the loss is being noticed right now
		return true
	})
	// a call with a long deadline is unanswered when the connection is lost: the recovery has to wait for the client lock that call
	// holds, and Close must not queue behind both until the call's deadline
	closeScenario("c14/after-peer-drop-with-long-call", true, nil, func(t *T, p *Peer, cl closer) bool {
		t.DoAsync(t.cl, "long", 120, 120)
		t.Sleep(1)
		t.DoAsync(t.cl, "drop", 130, 4)
		t.Sleep(2) // the loss has been noticed; a recovery is pending
		return true
	})
	closeScenario("c14/during-failing-reconnects", true, nil, func(t *T, p *Peer, cl closer) bool {
		p.Refuse(true)
		p.DropAll()
		t.Sleep(25) // between failed attempts (the code sleeps 1 s between them)
		return true
	})
	closeScenario("c14/during-failing-reconnects-2", false, nil, func(t *T, p *Peer, cl closer) bool {
		p.Refuse(true)
		p.DropAll()
		t.Sleep(3) // right after the first failed attempt
		return true
	})
	closeScenario("c14/hit-max-about-to-fire", true, func(c *clientCfg) { c.MaxReconnect = 1 }, func(t *T, p *Peer, cl closer) bool {
		p.Refuse(true)
		p.DropAll()
		t.Sleep(19) // the second attempt (which hits the maximum) is due at ~20 units
		return true
	})
	// Close while a re-dial is pending and slow (WebSocket: the HTTP upgrade of connection #2 is withheld until after Close returned):
	// either the re-dial sees the signal or Close closes the connection it installed — no frame, no open connection afterwards
	register(&scenario{Name: "c14/close-during-slow-dial", Props: []string{"C14", "C16"}, Quick: true, Transports: []string{"ws"}, Run: func(t *T) {
		p := newPeer(t, t.Transport, t.Version)
		defer p.Shutdown()
		release := make(chan struct{})
		p.slowUpgrade = func(n int) {
			if n == 2 {
				<-release
			}
		}
		p.onFrame = func(pc *peerConn, f frameIn) {
			if stdReply(pc, f) {
				return
			}
			if f.Typ == 1 && f.Cmd == 130 {
				pc.Drop()
			}
		}
		cfg := defaultCfg()
		cfg.Token = true
		cfg.DialTimeoutU = 30
		cl, err := t.NewClient(p, cfg)
		if err != nil {
			close(release)
			t.Check("setup", false, "dial: %v", err)
			return
		}
		t.DoAsync(cl, "drop", 130, 2)
		// wait until the re-dial is pending at the peer
		ok := false
		for i := 0; i < 200 && !ok; i++ {
			time.Sleep(t.U(1) / 5)
			ok = p.Dials() >= 2
		}
		if !ok {
			close(release)
			t.Check("setup", false, "the client did not start a re-dial")
			return
		}
		closed := make(chan time.Time, 1)
		go func() { cl.Close(nil); closed <- time.Now() }()
		time.Sleep(t.U(6))
		close(release) // the slow dial completes now
		var at time.Time
		select {
		case at = <-closed:
		case <-time.After(t.U(80)):
			t.Check("close_prompt", false, "Close did not return")
			return
		}
		t.Sleep(20)
		// after Close returned: connection #2 must carry no frame and must not stay open
		for _, pc := range p.Conns() {
			if pc.N >= 2 {
				nf := 0
				for _, f := range pc.Frames() {
					if f.At.After(at.Add(t.U(1))) {
						nf++
					}
				}
				t.Check("close_final:no_frame", nf == 0, "connection #%d (whose dial completed after Close was called) received %d frame(s) more than a unit after Close had returned", pc.N, nf)
				t.Check("close_final:conn_closed", pc.Ended(), "connection #%d, installed by the re-dial that completed after Close was called, is still open", pc.N)
			}
		}
		t.Check("on_close_once", atomic.LoadInt32(&t.onClose) == 1, "close callback ran %d times", atomic.LoadInt32(&t.onClose))
		t.Check("close_final:no_after_reconnected", atomic.LoadInt32(&t.afterRec) == 0, "after-reconnect callback ran after Close")
		t.Join()
		// C16: whatever the re-dial that overlapped Close produced has been released
		n, where := libGoroutines()
		for i := 0; i < 40 && n > 0; i++ { // a retry goroutine may be inside its one-second back-off when Close returns
			t.Sleep(1)
			n, where = libGoroutines()
		}
		t.Check("client_threads_exit", n == 0, "%d library goroutine(s) alive after Close overlapped a slow re-dial: %s", n, where)
		t.Check("sockets_released", p.Open() == 0, "%d socket(s) still open at the peer after Close overlapped a slow re-dial", p.Open())
	}})

	// Close while the recovery is authenticating: the successful answer to the resume request is already queued behind a busy
	// push handler of the new connection; it is drained after Close returned — the reconnect must not be reported
	for _, trigger := range []string{"close-packet", "drop"} {
		trigger := trigger
		register(&scenario{Name: "c14/close-during-authenticating-" + trigger, Props: []string{"C14", "C08"}, Quick: true, Run: func(t *T) {
			p := newPeer(t, t.Transport, t.Version)
			defer p.Shutdown()
			gate := make(chan struct{})
			var inHandler int32
			p.onFrame = func(pc *peerConn, f frameIn) {
				if f.WsKind != "" && f.WsKind != "binary" {
					stdReply(pc, f)
					return
				}
				if f.Typ != 1 {
					return
				}
				switch {
				case f.Cmd == 2:
					pc.Send(respFrame(f, 0, authBody("session-A", time.Hour)))
				case f.Cmd == 3 && pc.N >= 2: // a push first (its handler blocks), then the successful answer
					pc.Send(pushFrame(50, []byte("busy")))
					pc.Send(respFrame(f, 0, authBody("session-B", time.Hour)))
				case f.Cmd == 130:
					if trigger == "drop" {
						pc.Drop()
					} else if pc.ws != nil {
						pc.WsControl(8, []byte{0x03, 0xe8})
					} else {
						pc.Send(pushFrame(0, nil))
					}
				}
			}
			cfg := defaultCfg()
			cfg.Token = true
			cfg.AuthTimeoutU = 40
			cfg.Handlers = map[uint32][]func(*protocol.Packet){50: {func(*protocol.Packet) {
				atomic.StoreInt32(&inHandler, 1)
				<-gate
			}}}
			cl, err := t.NewClient(p, cfg)
			if err != nil {
				close(gate)
				t.Check("setup", false, "dial: %v", err)
				return
			}
			t.DoAsync(cl, "loss", 130, 2)
			for i := 0; i < 300 && atomic.LoadInt32(&inHandler) == 0; i++ {
				time.Sleep(t.U(1) / 5)
			}
			if atomic.LoadInt32(&inHandler) == 0 {
				close(gate)
				t.Check("setup", false, "the recovery did not reach its authenticating phase with the handler busy")
				return
			}
			start := time.Now()
			at, ok := doClose(t, cl, 100)
			took := at.Sub(start)
			if !ok {
				close(gate)
				return
			}
			t.Check("timing:close_prompt", took <= t.U(8), "Close took %v while a recovery was authenticating (auth timeout %v): it must not wait for the recovery's request", took, t.U(cfg.AuthTimeoutU))
			after := atomic.LoadInt32(&t.afterRec)
			t.Sleep(6)
			close(gate) // the closed connection's dispatcher drains its queue now: the resume request 'succeeds'
			t.Sleep(10)
			t.Check("close_final:no_after_reconnected", atomic.LoadInt32(&t.afterRec) == after, "the reconnect was reported %d time(s) after Close had returned", atomic.LoadInt32(&t.afterRec)-after)
			t.Check("on_close_once", atomic.LoadInt32(&t.onClose) == 1, "close callback ran %d times", atomic.LoadInt32(&t.onClose))
			t.Join()
		}})
	}

	// Close while a recovery is waiting for the answer to its resume request AND a second notifier of the same loss arrives:
	// the late notifier must not queue for the write lock behind the recovery's request (a pending writer would block Close's
	// read lock until the auth timeout). Forced with the gate at the entry of reconnecting (one notifier released at a time).
	register(&scenario{Name: "c14/close-vs-late-loss-notifier", Props: []string{"C14", "C06"}, Quick: true, Run: func(t *T) {
		p := newPeer(t, t.Transport, t.Version)
		defer p.Shutdown()
		resume := make(chan struct{}, 4)
		p.onFrame = func(pc *peerConn, f frameIn) {
			if f.WsKind != "" && f.WsKind != "binary" {
				stdReply(pc, f)
				return
			}
			if f.Typ != 1 {
				return
			}
			switch {
			case f.Cmd == 2:
				pc.Send(respFrame(f, 0, authBody("session-A", time.Hour)))
			case f.Cmd == 3: // the resume request: never answered
				resume <- struct{}{}
			case f.Cmd == 130:
				pc.Drop()
			}
		}
		cfg := defaultCfg()
		cfg.Token = true
		cfg.AuthTimeoutU = 60
		cl, err := t.NewClient(p, cfg)
		if err != nil {
			t.Check("setup", false, "dial: %v", err)
			return
		}
		verifhook.Hold("reconnecting:enter")
		defer verifhook.Release("reconnecting:enter")
		t.DoAsync(cl, "loss", 130, 2)
		if !verifhook.WaitParked("reconnecting:enter", 2, t.U(40)) {
			t.Check("setup", false, "the loss was not reported by two notifiers")
			return
		}
		verifhook.ReleaseOne("reconnecting:enter") // the first notifier starts the recovery
		select {
		case <-resume:
		case <-time.After(t.U(40)):
			t.Check("setup", false, "the recovery did not send its resume request")
			return
		}
		verifhook.ReleaseOne("reconnecting:enter") // the late notifier arrives while the resume request is in flight
		t.Sleep(2)
		start := time.Now()
		at, ok := doClose(t, cl, 100)
		if ok {
			took := at.Sub(start)
			t.Check("close_prompt", took <= t.U(20), "Close took %v (auth timeout %v): it waited behind a late loss notifier queued for the write lock, i.e. for the recovery's unanswered request", took, t.U(cfg.AuthTimeoutU))
		}
		verifhook.Release("reconnecting:enter")
		t.Join()
	}})

	// the client gives up on its own: the close callback must run exactly once with the hit-max error, nothing may panic
	register(&scenario{Name: "c14/hit-max-gives-up", Props: []string{"C14", "C08", "C16"}, Quick: true, Run: func(t *T) {
		p := newPeer(t, t.Transport, t.Version)
		defer p.Shutdown()
		p.onFrame = func(pc *peerConn, f frameIn) { stdReply(pc, f) }
		cfg := defaultCfg()
		cfg.MaxReconnect = 2
		cl, err := t.NewClient(p, cfg)
		if err != nil {
			t.Check("setup", false, "dial: %v", err)
			return
		}
		p.Refuse(true)
		p.DropAll()
		t.Sleep(70) // 2 failed attempts (1 s apart) + the give-up
		t.Check("hitmax_reported", atomic.LoadInt32(&t.onClose) == 1, "after MaxReconnect failed attempts the close callback ran %d times (want once, with the hit-max error)", atomic.LoadInt32(&t.onClose))
		hit := false
		for _, e := range t.events {
			if e.Kind == "cb.on_close" && fmt.Sprint(e.F["err"]) == "hit max reconnect count" {
				hit = true
			}
		}
		t.Check("hitmax_reported", hit, "the close callback did not carry the hit-max-reconnect error")
		p.Refuse(false)
		dials := p.Dials()
		t.Sleep(30)
		t.Check("close_final:no_dial", p.Dials() == dials, "a client that gave up dialled again")
		func() {
			defer func() {
				if x := recover(); x != nil {
					t.Check("close_no_panic", false, "user Close after the client gave up panicked: %v", x)
				}
			}()
			cl.Close(nil)
		}()
		t.Check("on_close_once", atomic.LoadInt32(&t.onClose) == 1, "close callback ran %d times", atomic.LoadInt32(&t.onClose))
		t.Sleep(2)
		n, where := libGoroutines()
		t.Check("client_threads_exit", n == 0, "%d library goroutine(s) alive after the client gave up: %s", n, where)
	}})

	// writer between the transport's closed() check and the queue send while the connection is closed (gate)
	register(&scenario{Name: "c14/write-vs-close-gate", Props: []string{"C14", "C17"}, Quick: true, Run: func(t *T) {
		p := newPeer(t, t.Transport, t.Version)
		defer p.Shutdown()
		p.onFrame = func(pc *peerConn, f frameIn) { stdReply(pc, f) }
		cl, err := t.NewClient(p, defaultCfg())
		if err != nil {
			t.Check("setup", false, "dial: %v", err)
			return
		}
		verifhook.Hold("conn.write:before-enqueue")
		t.DoAsync(cl, "parked-writer", 100, 6)
		if !verifhook.WaitParked("conn.write:before-enqueue", 1, t.U(10)) {
			verifhook.Release("conn.write:before-enqueue")
			t.Check("setup", false, "writer did not reach the yield point")
			return
		}
		// the peer drops: the reader closes the connection while the writer sits between the check and the send
		p.DropAll()
		t.Sleep(4)
		verifhook.Release("conn.write:before-enqueue")
		ok := t.JoinTimeout(60)
		t.Check("do_terminates", ok, "the parked writer never returned")
		if r := t.Result("parked-writer"); r != nil && r.Err != nil {
			t.Check("close_no_panic", !containsPanic(r.ErrStr), "sending on the closed connection: %s", r.ErrStr)
		}
		doClose(t, cl, 60)
	}})

	// C16: cycles — the number of library goroutines and open sockets after N cycles is flat in N
	for _, kind := range []string{"dial-close", "dial-drop-recover", "dial-close-packet", "failed-dial"} {
		kind := kind
		register(&scenario{Name: "c16/cycles-" + kind, Props: []string{"C16"}, Quick: true, TimeoutU: 1600, Run: func(t *T) {
			measure := func(n int) (int, int, string) {
				var peers []*Peer
				var wg sync.WaitGroup
				for i := 0; i < n; i++ {
					wg.Add(1)
					go func() {
						defer wg.Done()
						p := newPeer(t, t.Transport, t.Version)
						peersMu.Lock()
						peers = append(peers, p)
						peersMu.Unlock()
						var once int32
						p.onFrame = func(pc *peerConn, f frameIn) {
							if f.Typ == 1 && f.Cmd == 100 && atomic.CompareAndSwapInt32(&once, 0, 1) {
								switch kind {
								case "dial-drop-recover":
									pc.Drop()
								case "dial-close-packet":
									if pc.ws != nil {
										pc.WsControl(8, []byte{0x03, 0xe8})
									} else {
										pc.Send(pushFrame(0, nil))
									}
								}
								return
							}
							if stdReply(pc, f) {
								return
							}
							if f.Typ == 1 {
								pc.Send(respFrame(f, 0, f.Body))
							}
						}
						if kind == "failed-dial" {
							p.Refuse(true)
						}
						cfg := defaultCfg()
						cl, err := t.NewClient(p, cfg)
						if kind == "failed-dial" {
							if err == nil {
								t.Check("setup", false, "dial to a refusing peer succeeded")
							}
							cl.Close(nil)
							return
						}
						if err != nil {
							t.Check("setup", false, "dial: %v", err)
							return
						}
						if kind != "dial-close" {
							doTagged(t, cl, 100, 1, 3) // triggers the loss
							t.Sleep(8)                 // recovery
							if _, err := doTagged(t, cl, 101, 2, 6); err != nil {
								t.Check("serves_again", false, "after the recovery a request fails: %v", err)
							}
						}
						cl.Close(nil)
					}()
					if i%4 == 3 {
						wg.Wait()
					}
				}
				wg.Wait()
				t.Sleep(6)
				open := 0
				for _, p := range peers {
					open += p.Open()
					p.Shutdown()
				}
				g, where := libGoroutines()
				return g, open, where
			}
			g1, o1, w1 := measure(2)
			g2, o2, w2 := measure(10)
			t.Check("bounded_live:goroutines", g2 <= g1 && g2 <= 2, "library goroutines after 2 cycles: %d (%s), after 10 more: %d (%s) — grows with the number of cycles", g1, w1, g2, w2)
			t.Check("bounded_live:sockets", o1 == 0 && o2 == 0, "sockets still open at the peers after quiescence: %d then %d", o1, o2)
		}})
	}
}

var peersMu sync.Mutex

func containsPanic(s string) bool { return len(s) >= 5 && s[:5] == "PANIC" }
