package main

import (
	"bufio"
	"crypto/sha256"
	"encoding/hex"
	"encoding/json"
	"fmt"
	"os"
	"path/filepath"
	"sort"
	"strings"
)

// rng: splitmix64, the same generator as the Lean driver's `prng:` bodies
type rng struct{ s uint64 }

func (r *rng) next() uint64 {
	r.s += 0x9e3779b97f4a7c15
	z := r.s
	z = (z ^ (z >> 30)) * 0xbf58476d1ce4e5b9
	z = (z ^ (z >> 27)) * 0x94d049bb133111eb
	return z ^ (z >> 31)
}
func (r *rng) intn(n int) int {
	if n <= 0 {
		return 0
	}
	return int(r.next() % uint64(n))
}
func (r *rng) pick(xs []int) int { return xs[r.intn(len(xs))] }
func (r *rng) bytes(n int) []byte {
	b := make([]byte, n)
	for i := 0; i < n; {
		z := r.next()
		for k := 0; k < 8 && i < n; k++ {
			b[i] = byte(z)
			z >>= 8
			i++
		}
	}
	return b
}
func prngBytes(seed uint64, n int) []byte { r := &rng{seed}; return r.bytes(n) }

func fnv1a(b []byte) uint64 {
	h := uint64(0xcbf29ce484222325)
	for _, c := range b {
		h = (h ^ uint64(c)) * 0x100000001b3
	}
	return h
}

func showBytes(b []byte) string {
	if len(b) <= 64 {
		return "hex:" + hex.EncodeToString(b)
	}
	return fmt.Sprintf("len:%d,fnv:%d", len(b), fnv1a(b))
}

// emitter collects operations, real-code results, property verdicts and the measured distribution
type emitter struct {
	prop     string
	ops, out *bufio.Writer
	props    *bufio.Writer
	n        int
	fails    int
	classes  map[string]int // input distribution
	distinct map[[8]byte]bool
	samples  []string
	fo, fr   *os.File
	fp       *os.File
}

func newEmitter(prop, dir string) *emitter {
	_ = os.MkdirAll(dir, 0o755)
	fo, _ := os.Create(filepath.Join(dir, "ops.txt"))
	fr, _ := os.Create(filepath.Join(dir, "go.out"))
	fp, _ := os.Create(filepath.Join(dir, "props.txt"))
	return &emitter{prop: prop, ops: bufio.NewWriterSize(fo, 1<<20), out: bufio.NewWriterSize(fr, 1<<20), props: bufio.NewWriter(fp),
		classes: map[string]int{}, distinct: map[[8]byte]bool{}, fo: fo, fr: fr, fp: fp}
}

// op records one operation line, the real code's canonical result, its class (for the
// distribution) and whether it is non-trivial (for distinct_nontrivial)
func (e *emitter) op(line, result, class string, nontrivial bool) int {
	if strings.ContainsAny(line, "\n") || strings.ContainsAny(result, "\n") {
		panic("newline in op/result")
	}
	e.ops.WriteString(line)
	e.ops.WriteByte('\n')
	e.out.WriteString(result)
	e.out.WriteByte('\n')
	e.classes[class]++
	if nontrivial {
		h := sha256.Sum256([]byte(line))
		var k [8]byte
		copy(k[:], h[:8])
		e.distinct[k] = true
	}
	if len(e.samples) < 12 && (e.n%997 == 0 || len(e.samples) < 3) {
		s := line + "  =>  " + result
		if len(s) > 400 {
			s = s[:400] + "…"
		}
		e.samples = append(e.samples, s)
	}
	e.n++
	return e.n - 1
}

// fail records that the property itself (evaluated on the real code) failed on op #idx
func (e *emitter) fail(idx int, name, detail string) {
	e.fails++
	fmt.Fprintf(e.props, "FAIL %d %s %s\n", idx, name, strings.ReplaceAll(detail, "\n", " "))
}

// note records an informational line (known-finding match keys etc.)
func (e *emitter) note(s string) { fmt.Fprintf(e.props, "NOTE %s\n", strings.ReplaceAll(s, "\n", " ")) }

func (e *emitter) close(dir string, extra map[string]interface{}) {
	e.ops.Flush()
	e.out.Flush()
	e.props.Flush()
	e.fo.Close()
	e.fr.Close()
	e.fp.Close()
	keys := []string{}
	for k := range e.classes {
		keys = append(keys, k)
	}
	sort.Strings(keys)
	m := map[string]interface{}{"property": e.prop, "ops": e.n, "distinct_nontrivial": len(e.distinct), "classes": e.classes,
		"direct_property_failures": e.fails, "samples": e.samples}
	for k, v := range extra {
		m[k] = v
	}
	js, _ := json.MarshalIndent(m, "", " ")
	_ = os.WriteFile(filepath.Join(dir, "meta.json"), js, 0o644)
}

type codecGen func(e *emitter, tier string, seed uint64) map[string]interface{}

var codecGens = map[string]codecGen{}

func runCodec(prop, tier string, seed uint64, dir string) int {
	g, ok := codecGens[prop]
	if !ok {
		fmt.Fprintln(os.Stderr, "no codec generator for", prop)
		return 2
	}
	e := newEmitter(prop, dir)
	extra := g(e, tier, seed)
	e.close(dir, extra)
	return 0
}

// safely runs f, converting a panic into the verdict "panic"
func guard(f func() string) (res string) {
	defer func() {
		if r := recover(); r != nil {
			res = "panic"
		}
	}()
	return f()
}
