package main

// Scenarios for C05 (responses matched to the right request) and C07 (a response that arrives in time is never lost)

import (
	"fmt"
	"sync"
	"sync/atomic"
	"time"

	protocol "github.com/longportapp/openapi-protocol/go"
	"github.com/longportapp/openapi-protocol/go/verifhook"
)

// stdReply answers the control requests every scenario needs: auth (2), reconnect (3), heartbeat (1, TCP)
func stdReply(pc *peerConn, f frameIn) bool {
	if f.WsKind == "ping" {
		pc.WsControl(10, f.Body) // pong with the same payload
		return true
	}
	if f.WsKind != "" && f.WsKind != "binary" {
		return true
	}
	if f.Typ != 1 {
		return false
	}
	switch f.Cmd {
	case 2, 3:
		pc.Send(respFrame(f, 0, authBody("session-1", time.Hour)))
		return true
	case 1:
		pc.Send(respFrame(f, 0, f.Body))
		return true
	}
	return false
}

func init() {
	// k concurrent callers; the peer collects all k requests, then answers in a seed-chosen permutation with
	// duplicates, unknown ids and (optionally) answers after the deadline in between
	for _, k := range []int{1, 2, 4, 8, 32} {
		k := k
		register(&scenario{Name: fmt.Sprintf("c05/permute-k%d", k), Props: []string{"C05", "C17"}, Quick: k != 32, Run: func(t *T) {
			p := newPeer(t, t.Transport, t.Version)
			defer p.Shutdown()
			var mu sync.Mutex
			var reqs []frameIn
			var conn *peerConn
			all := make(chan struct{})
			p.onFrame = func(pc *peerConn, f frameIn) {
				if stdReply(pc, f) {
					return
				}
				if f.Typ == 1 && f.Cmd == 100 {
					mu.Lock()
					reqs = append(reqs, f)
					conn = pc
					if len(reqs) == k {
						close(all)
					}
					mu.Unlock()
				}
			}
			cfg := defaultCfg()
			cfg.ReadQueue, cfg.WriteQueue = 1024, 128 // the property excludes receive-queue overflow
			cl, err := t.NewClient(p, cfg)
			if err != nil {
				t.Check("setup", false, "dial: %v", err)
				return
			}
			defer cl.Close(nil)
			for i := 0; i < k; i++ {
				t.DoAsync(cl, fmt.Sprintf("call-%d", i), 100, 12)
			}
			select {
			case <-all:
			case <-time.After(t.U(10)):
				t.Check("setup", false, "peer saw only %d of %d requests", len(reqs), k)
				return
			}
			// answer in a random permutation, with noise
			perm := make([]int, k)
			for i := range perm {
				perm[i] = i
			}
			for i := k - 1; i > 0; i-- {
				j := t.rg.intn(i + 1)
				perm[i], perm[j] = perm[j], perm[i]
			}
			for _, i := range perm {
				f := reqs[i]
				if t.rg.intn(3) == 0 { // unsolicited response with an id nobody waits for
					conn.Send(specFrame{typ: 2, cmd: 100, rid: f.Rid + 1000 + uint32(t.rg.intn(1000)), body: []byte("unknown")})
				}
				conn.Send(respFrame(f, 0, f.Body))
				if t.rg.intn(3) == 0 { // duplicate with a different body: must be dropped, never delivered elsewhere
					conn.Send(respFrame(f, 0, []byte("duplicate")))
				}
			}
			if !t.JoinTimeout(20) {
				t.Check("do_returns:C05", false, "calls did not return")
				return
			}
			// late responses for ids already answered / returned
			for _, f := range reqs {
				conn.Send(respFrame(f, 0, []byte("late")))
			}
			t.Sleep(2)
			for i := 0; i < k; i++ {
				id := fmt.Sprintf("call-%d", i)
				r := t.Result(id)
				if r.Err != nil {
					t.Check("do_returns_own_id", false, "%s: %v", id, r.Err)
					continue
				}
				var mine *frameIn
				for j := range reqs {
					if tagOfBody(reqs[j].Body) == *tagOf(id) {
						mine = &reqs[j]
					}
				}
				switch {
				case mine == nil:
					t.Check("setup", false, "no request frame with the tag of %s", id)
				case r.Res.Metadata.RequestId != mine.Rid:
					t.Check("do_returns_own_id", false, "%s sent id %d, got the response with id %d", id, mine.Rid, r.Res.Metadata.RequestId)
				case tagOfBody(r.Res.Body) != *tagOf(id):
					t.Check("first_wins", false, "%s got a response body that is not the first answer to its own request: %q", id, r.Res.Body)
				default:
					t.Check("do_returns_own_id", true, "")
				}
			}
			// one more call afterwards: late/duplicate responses must not satisfy it
			r := t.Do(cl, "after", 101, 3)
			t.Check("do_returns_own_id", r.Err != nil, "a call nobody answered returned a response (id %v)", r.Res)
		}})
	}

	// all 256 status codes x {valid error body, garbage, empty}, on a protobuf-codec and on a JSON-codec connection
	for _, cd := range []protocol.CodecType{protocol.CodecProtobuf, protocol.CodecJSON} {
		cd := cd
		register(&scenario{Name: "c05/status-mapping" + map[protocol.CodecType]string{protocol.CodecProtobuf: "", protocol.CodecJSON: "-json"}[cd], Codec: cd, Props: []string{"C05", "C06"}, Quick: true, Run: func(t *T) {
			p := newPeer(t, t.Transport, t.Version)
			defer p.Shutdown()
			p.onFrame = func(pc *peerConn, f frameIn) {
				if stdReply(pc, f) {
					return
				}
				if f.Typ == 1 && f.Cmd >= 100 {
					st := uint8(f.To) // the scenario smuggles nothing: status chosen from the caller tag below
					_ = st
					tag := tagOfBody(f.Body)
					status := uint8(tag & 0xff)
					kind := (tag >> 8) & 3
					var body []byte
					switch kind {
					case 0:
						body = errBody(uint64(1000+int(status)), fmt.Sprintf("msg-%d", status))
						if cd == protocol.CodecJSON {
							body = []byte(fmt.Sprintf(`{"code":%d,"msg":"msg-%d"}`, 1000+int(status), status))
						}
					case 1:
						body = []byte{0xff, 0xfe, 0x00, 0x13, 0x37}
					case 3:
						// an error body that is damaged only AFTER a valid code / message field: it does not decode, so it is the fallback
						body = errBody(uint64(1000+int(status)), fmt.Sprintf("msg-%d", status))
						switch status % 4 {
						case 3:
							body = append(body, 0x78, 0x01, 0x82, 0x01, 0x02, 'h', 'i') // unknown fields 15 (varint) and 16 (bytes): still a decodable error body
						case 0:
							body = append(body, 0x07) // stray byte: illegal wire type
						case 1:
							body = body[:len(body)-1] // truncated inside the message
						default:
							body = append([]byte{0x08, 0x2a, 0x17}, body...) // a code field, then an illegal tag
						}
						if cd == protocol.CodecJSON {
							switch status % 4 {
							case 0:
								body = []byte(fmt.Sprintf(`{"code":%d,"msg":"msg-%d"}}`, 1000+int(status), status))
							case 1: // an extra member: still a decodable error body
								body = []byte(fmt.Sprintf(`{"code":%d,"trace_id":"abc","msg":"msg-%d"}`, 1000+int(status), status))
							case 2: // member names in another case: encoding/json matches case-insensitively
								body = []byte(fmt.Sprintf(`{"Code":%d,"MSG":"msg-%d"}`, 1000+int(status), status))
							default: // the code written as text: not decodable into a number
								body = []byte(fmt.Sprintf(`{"code":"%d","msg":"msg-%d"}`, 1000+int(status), status))
							}
						}
					}
					pc.Send(respFrame(f, status, body))
				}
			}
			cl, err := t.NewClient(p, defaultCfg())
			if err != nil {
				t.Check("setup", false, "dial: %v", err)
				return
			}
			defer cl.Close(nil)
			for st := 0; st < 256; st++ {
				for kind := 0; kind < 4; kind++ {
					tag := int32(st | kind<<8)
					res, err := doTagged(t, cl, 100, tag, 8)
					key := "err_mapping"
					if st == 0 {
						t.Check(key, err == nil && res != nil, "status 0 surfaced as %v", err)
						continue
					}
					lb, ok := err.(*protocol.LBError)
					switch {
					case !ok:
						t.Check(key, false, "status %d surfaced as %T %v (want *LBError)", st, err, err)
					case lb.Status != uint8(st):
						t.Check(key, false, "status %d surfaced with status %d", st, lb.Status)
					case kind == 0 && (lb.Code != uint64(1000+st) || lb.Message != fmt.Sprintf("msg-%d", st)):
						t.Check(key, false, "status %d: code/message %d %q", st, lb.Code, lb.Message)
					case kind == 3 && cd != protocol.CodecJSON && st%4 == 3 && (lb.Code != uint64(1000+st) || lb.Message != fmt.Sprintf("msg-%d", st)):
						t.Check(key, false, "status %d, protobuf error body with unknown extra fields: code/message %d %q (the body decodes: want its code and message)", st, lb.Code, lb.Message)
					case kind == 3 && cd != protocol.CodecJSON && st%4 == 3:
						t.Check(key, true, "")
					case kind == 3 && cd == protocol.CodecJSON && (st%4 == 1 || st%4 == 2) && (lb.Code != uint64(1000+st) || lb.Message != fmt.Sprintf("msg-%d", st)):
						t.Check(key, false, "status %d, JSON error body with an extra member / other member case: code/message %d %q (the body decodes: want its code and message)", st, lb.Code, lb.Message)
					case kind == 3 && cd == protocol.CodecJSON && (st%4 == 1 || st%4 == 2):
						t.Check(key, true, "")
					case kind != 0 && kind != 2 && (lb.Code != 500 || lb.Message != "unknown error, cant unmarshal body"):
						t.Check(key, false, "status %d garbage body: code/message %d %q (want the 500 fallback)", st, lb.Code, lb.Message)
					default:
						t.Check(key, true, "")
					}
				}
			}
		}})
	}

	// many callers for a long time: ids must never collide, every call gets its own answer (supports C19's atomic generator)
	register(&scenario{Name: "c05/heavy-concurrency", Props: []string{"C05", "C19"}, Quick: true, Transports: []string{"tcp"}, TimeoutU: 1200, Run: func(t *T) {
		p := newPeer(t, t.Transport, t.Version)
		defer p.Shutdown()
		var mu sync.Mutex
		seen := map[uint32]int{}
		p.onFrame = func(pc *peerConn, f frameIn) {
			if stdReply(pc, f) {
				return
			}
			if f.Typ == 1 {
				mu.Lock()
				seen[f.Rid]++
				mu.Unlock()
				pc.Send(respFrame(f, 0, f.Body))
			}
		}
		cfg := defaultCfg()
		cfg.ReadQueue, cfg.WriteQueue = 4096, 1024
		cl, err := t.NewClient(p, cfg)
		if err != nil {
			t.Check("setup", false, "dial: %v", err)
			return
		}
		defer cl.Close(nil)
		var wg sync.WaitGroup
		var misrouted, failed int32
		for g := 0; g < 64; g++ {
			wg.Add(1)
			go func(g int) {
				defer wg.Done()
				for i := 0; i < 700; i++ {
					tag := int32(g*100000 + i)
					res, err := doTagged(t, cl, 100, tag, 40)
					if err != nil {
						atomic.AddInt32(&failed, 1)
					} else if tagOfBody(res.Body) != tag {
						atomic.AddInt32(&misrouted, 1)
					}
				}
			}(g)
		}
		wg.Wait()
		mu.Lock()
		dup := 0
		for _, n := range seen {
			if n > 1 {
				dup++
			}
		}
		mu.Unlock()
		t.Check("do_returns_own_id", misrouted == 0, "%d of 44800 calls returned another call's response", misrouted)
		t.Check("do_returns_own_id", dup == 0, "%d request ids were used by two calls on one connection", dup)
		t.Check("do_returns", failed == 0, "%d of 44800 answered calls failed", failed)
	}})

	// C07: the response is dispatched while the caller is parked right after the request was handed to the transport
	for _, k := range []int{1, 3} {
		k := k
		register(&scenario{Name: fmt.Sprintf("c07/answer-before-wait-k%d", k), Props: []string{"C07", "C05"}, Quick: true, Run: func(t *T) {
			p := newPeer(t, t.Transport, t.Version)
			defer p.Shutdown()
			p.onFrame = func(pc *peerConn, f frameIn) {
				if stdReply(pc, f) {
					return
				}
				if f.Typ == 1 && f.Cmd == 100 {
					pc.Send(respFrame(f, 0, f.Body)) // immediate answer
				}
			}
			cl, err := t.NewClient(p, defaultCfg())
			if err != nil {
				t.Check("setup", false, "dial: %v", err)
				return
			}
			defer cl.Close(nil)
			after := verifhook.Seq()
			verifhook.Hold("conn.write:enqueued")
			for i := 0; i < k; i++ {
				t.DoAsync(cl, fmt.Sprintf("call-%d", i), 100, 10)
			}
			if !verifhook.WaitParked("conn.write:enqueued", k, t.U(10)) {
				verifhook.Release("conn.write:enqueued")
				t.Check("setup", false, "callers did not reach the yield point after the hand-over to the transport")
				return
			}
			// wait until every answer has been read and dispatched by the client
			seen := 0
			for seen < k {
				e, ok := verifhook.WaitEvent("resp:lookup", after, t.U(10))
				if !ok {
					break
				}
				after = e.Seq
				seen++
			}
			verifhook.Release("conn.write:enqueued")
			if seen < k {
				t.Check("setup", false, "only %d of %d answers were dispatched while the callers were parked", seen, k)
			}
			if !t.JoinTimeout(30) {
				t.Check("no_lost_wakeup", false, "calls did not return")
				return
			}
			for i := 0; i < k; i++ {
				r := t.Result(fmt.Sprintf("call-%d", i))
				t.Check("no_lost_wakeup", r.Err == nil && r.Res != nil && tagOfBody(r.Res.Body) == *tagOf(r.ID),
					"the response was dispatched before the deadline, while the caller had not started waiting, and the call returned: %v", r.Err)
			}
		}})
	}

	// C07: a call whose answer and deadline are both there when it starts to wait (either outcome is right for that call) must not
	// affect later calls: each of those is answered one unit after it was sent, long before its deadline
	register(&scenario{Name: "c07/photo-finish-then-calls", Props: []string{"C07"}, Quick: true, Run: func(t *T) {
		p := newPeer(t, t.Transport, t.Version)
		defer p.Shutdown()
		p.onFrame = func(pc *peerConn, f frameIn) {
			if stdReply(pc, f) {
				return
			}
			if f.Typ == 1 && f.Cmd == 100 {
				pc.Send(respFrame(f, 0, f.Body))
			}
			if f.Typ == 1 && f.Cmd == 101 {
				go func() { time.Sleep(t.U(1)); pc.Send(respFrame(f, 0, f.Body)) }()
			}
		}
		cl, err := t.NewClient(p, defaultCfg())
		if err != nil {
			t.Check("setup", false, "dial: %v", err)
			return
		}
		defer cl.Close(nil)
		ties, lost, slowest := 0, 0, time.Duration(0)
		firstLost := ""
		for round := 0; round < 6; round++ {
			after := verifhook.Seq()
			verifhook.Hold("conn.write:enqueued")
			name := fmt.Sprintf("tie-%d", round)
			t.DoAsync(cl, name, 100, 2)
			if !verifhook.WaitParked("conn.write:enqueued", 1, t.U(10)) {
				verifhook.Release("conn.write:enqueued")
				t.Check("setup", false, "the caller did not reach the yield point after the hand-over to the transport")
				return
			}
			_, ok := verifhook.WaitEvent("resp:lookup", after, t.U(10))
			t.Sleep(3) // the deadline of the parked call (2 units) passes as well
			verifhook.Release("conn.write:enqueued")
			if !ok || !t.JoinTimeout(30) {
				t.Check("setup", false, "the answer of the parked call was not dispatched, or the call did not return")
				return
			}
			if t.Result(name).Err == nil {
				ties++
			}
			for i := 0; i < 6; i++ {
				t1 := time.Now()
				r := t.Do(cl, fmt.Sprintf("judged-%d-%d", round, i), 101, 40)
				d := time.Since(t1)
				if d > slowest {
					slowest = d
				}
				if r.Err != nil || r.Res == nil || tagOfBody(r.Res.Body) != *tagOf(r.ID) {
					lost++
					if firstLost == "" {
						firstLost = fmt.Sprintf("round %d call %d returned after %v: %v", round, i, d.Round(time.Millisecond), r.Err)
					}
				}
			}
		}
		t.Check("no_lost_wakeup", lost == 0, "%d of 36 calls answered one unit after they were sent (deadline 40 units, live connection) did not return their answer; they followed calls whose answer and deadline were both due when they started to wait (%d of 6 of those returned the answer): %s", lost, ties, firstLost)
		t.ev("c07.photo", "ties_answered", ties, "slowest_ms", slowest.Milliseconds())
	}})

	// support: fast peer, many requests, no gates
	register(&scenario{Name: "c07/fast-peer", Props: []string{"C07", "C05", "C17"}, Quick: true, Run: func(t *T) {
		p := newPeer(t, t.Transport, t.Version)
		defer p.Shutdown()
		p.onFrame = func(pc *peerConn, f frameIn) {
			if stdReply(pc, f) {
				return
			}
			if f.Typ == 1 {
				pc.Send(respFrame(f, 0, f.Body))
			}
		}
		cl, err := t.NewClient(p, defaultCfg())
		if err != nil {
			t.Check("setup", false, "dial: %v", err)
			return
		}
		defer cl.Close(nil)
		var wg sync.WaitGroup
		lost := int32(0)
		var mu sync.Mutex
		for g := 0; g < 8; g++ {
			wg.Add(1)
			go func(g int) {
				defer wg.Done()
				for i := 0; i < 100; i++ {
					tag := int32(g*1000 + i)
					res, err := doTagged(t, cl, 100, tag, 20)
					if err != nil || tagOfBody(res.Body) != tag {
						mu.Lock()
						lost++
						mu.Unlock()
					}
				}
			}(g)
		}
		wg.Wait()
		t.Check("no_lost_wakeup", lost == 0, "%d of 800 immediately answered requests failed or got another call's response", lost)
	}})
}

func init() {
	// C05 own_connection (D16): a response queued on the OLD connection behind a slow handler is drained after the client has
	// recovered; a new call that reuses the id on the NEW connection must not receive it
	register(&scenario{Name: "c05/stale-response-after-reconnect", Props: []string{"C05", "C08"}, Quick: true, Run: func(t *T) {
		p := newPeer(t, t.Transport, t.Version)
		defer p.Shutdown()
		gate := make(chan struct{})
		var inHandler int32
		p.onFrame = func(pc *peerConn, f frameIn) {
			if stdReply(pc, f) {
				return
			}
			if f.Typ != 1 {
				return
			}
			switch {
			case pc.N == 1 && f.Cmd == 100:
				pc.Send(respFrame(f, 0, f.Body))
			case pc.N == 1 && f.Cmd == 150: // push (slow handler), then a response for the NEXT ids, then drop
				pc.Send(pushFrame(50, []byte("slow")))
				for d := uint32(0); d < 4; d++ {
					pc.Send(specFrame{typ: 2, cmd: 100, rid: d + 1, body: []byte("stale-from-conn-1")})
				}
				time.Sleep(t.U(1))
				pc.Drop()
			case pc.N >= 2 && f.Cmd == 100:
				pc.Send(respFrame(f, 0, f.Body))
			case pc.N >= 2 && f.Cmd == 101: // never answered on the new connection
			}
		}
		cfg := defaultCfg()
		cfg.Handlers = map[uint32][]func(*protocol.Packet){50: {func(*protocol.Packet) {
			atomic.StoreInt32(&inHandler, 1)
			<-gate
		}}}
		cl, err := t.NewClient(p, cfg)
		if err != nil {
			t.Check("setup", false, "dial: %v", err)
			return
		}
		defer cl.Close(nil)
		t.Do(cl, "warmup", 100, 6)
		t.DoAsync(cl, "trigger", 150, 2)
		for i := 0; i < 100 && atomic.LoadInt32(&inHandler) == 0; i++ {
			time.Sleep(t.U(1) / 5)
		}
		if atomic.LoadInt32(&inHandler) == 0 {
			close(gate)
			t.Check("setup", false, "the slow handler was never entered")
			return
		}
		t.Sleep(12) // the client recovers on connection 2 while the old dispatcher sits in the handler
		if p.Dials() < 2 {
			close(gate)
			t.Check("setup", false, "the client did not recover while the old dispatcher was busy (dials=%d)", p.Dials())
			return
		}
		t.DoAsync(cl, "new-call-a", 101, 8) // ids 1.. on the new connection, never answered there
		t.DoAsync(cl, "new-call-b", 101, 8)
		t.Sleep(2)
		close(gate) // the old dispatcher drains its queue now
		t.Join()
		for _, id := range []string{"new-call-a", "new-call-b"} {
			r := t.Result(id)
			t.Check("own_connection", r.Res == nil, "%s was never answered on its own connection but returned a response (%q) that arrived on the previous connection", id, bodyOf(r.Res))
		}
	}})

	// C06 (D7): keepalive-triggered recycling while requests are in flight: the waiters are failed by the recovery; no call may panic
	register(&scenario{Name: "c06/keepalive-recycle-inflight", Props: []string{"C06", "C15", "C17"}, Quick: true, Run: func(t *T) {
		p := newPeer(t, t.Transport, t.Version)
		defer p.Shutdown()
		p.onFrame = func(pc *peerConn, f frameIn) {
			if f.WsKind == "ping" || (f.Typ == 1 && f.Cmd == 1) {
				return // never answers heartbeats, stays connected
			}
			if stdReply(pc, f) {
				return
			}
		}
		cfg := defaultCfg()
		cfg.KeepaliveU, cfg.KeepaliveTimeoutU = 2, 4
		cl, err := t.NewClient(p, cfg)
		if err != nil {
			t.Check("setup", false, "dial: %v", err)
			return
		}
		stop := time.Now().Add(t.U(50))
		var wg sync.WaitGroup
		for g := 0; g < 6; g++ {
			wg.Add(1)
			go func(g int) {
				defer wg.Done()
				for i := 0; time.Now().Before(stop); i++ {
					t.Do(cl, fmt.Sprintf("g%d-%d", g, i), 120, 3)
					time.Sleep(time.Duration(g+1) * t.U(1) / 7)
				}
			}(g)
		}
		done := make(chan struct{})
		go func() { wg.Wait(); close(done) }()
		select {
		case <-done:
		case <-time.After(t.U(150)):
			t.Check("do_terminates", false, "request calls blocked during keepalive-triggered recycling")
			return
		}
		t.Check("do_terminates", true, "")
		doClose(t, cl, 60)
	}})
}

func bodyOf(p *protocol.Packet) string {
	if p == nil {
		return ""
	}
	return string(p.Body)
}
