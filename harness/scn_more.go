package main

// Scenarios added after the seeded-change campaign (section 11 of DESIGN.md): each targets a window the first suites did not reach.

import (
	"encoding/hex"
	"fmt"
	"runtime"
	"strings"
	"sync"
	"sync/atomic"
	"time"

	control "github.com/longportapp/openapi-protobufs/gen/go/control"
	protocol "github.com/longportapp/openapi-protocol/go"
	"github.com/longportapp/openapi-protocol/go/verifhook"
	pb "google.golang.org/protobuf/proto"
)

func init() {
	// C13: a burst is received and queued, the handler is slow, the peer drops: everything that was received must still be
	// delivered (the only permitted loss is the logged queue overflow)
	register(&scenario{Name: "c13/burst-then-drop", Props: []string{"C13", "C20"}, Quick: true, Run: func(t *T) {
		p := newPeer(t, t.Transport, t.Version)
		defer p.Shutdown()
		p.onFrame = func(pc *peerConn, f frameIn) {
			if stdReply(pc, f) {
				return
			}
			if f.Typ == 1 && f.Cmd == 100 {
				for i := 0; i < 40; i++ {
					pc.Send(pushFrame(50, []byte(fmt.Sprintf("p%02d", i))))
				}
				time.Sleep(t.U(2))
				pc.Drop()
			}
		}
		var mu sync.Mutex
		var got []string
		first := int32(0)
		cfg := defaultCfg()
		cfg.ReadQueue = 128
		cfg.Handlers = map[uint32][]func(*protocol.Packet){50: {func(pk *protocol.Packet) {
			if atomic.CompareAndSwapInt32(&first, 0, 1) {
				time.Sleep(t.U(8)) // the burst queues up behind this call; the connection is lost meanwhile
			}
			mu.Lock()
			got = append(got, string(pk.Body))
			mu.Unlock()
		}}}
		cl, err := t.NewClient(p, cfg)
		if err != nil {
			t.Check("setup", false, "dial: %v", err)
			return
		}
		defer cl.Close(nil)
		t.DoAsync(cl, "burst", 100, 3)
		t.Sleep(24)
		t.Join()
		mu.Lock()
		defer mu.Unlock()
		want := []string{}
		for i := 0; i < 40; i++ {
			want = append(want, fmt.Sprintf("p%02d", i))
		}
		if t.Warns("drop") == 0 {
			t.Check("dispatch_spec", strings.Join(got, ",") == strings.Join(want, ","), "40 pushes were received before the connection was lost (no overflow logged); %d were delivered: %v", len(got), abbrevS(got))
		}
	}})

	// C06: conn.Write fails on a HEALTHY connection (the encoded body exceeds the frame limit): the call returns the error promptly,
	// nothing is torn down, the next call is served
	register(&scenario{Name: "c06/write-error-on-healthy-conn", Props: []string{"C06", "C01"}, Quick: true, Transports: []string{"tcp"}, Run: func(t *T) {
		p := newPeer(t, t.Transport, t.Version)
		defer p.Shutdown()
		p.onFrame = func(pc *peerConn, f frameIn) {
			if stdReply(pc, f) {
				return
			}
			if f.Typ == 1 {
				pc.Send(respFrame(f, 0, []byte("ok")))
			}
		}
		cfg := defaultCfg()
		cfg.MinGzip = 1 << 30
		cl, err := t.NewClient(p, cfg)
		if err != nil {
			t.Check("setup", false, "dial: %v", err)
			return
		}
		big := strings.Repeat("x", 1<<24+10)
		done := make(chan error, 1)
		go func() {
			_, err := cl.Do(contextBG(), &clientRequest{Cmd: 100, Body: &control.AuthRequest{Token: big}}, reqTimeout(t.U(10)))
			done <- err
		}()
		select {
		case err := <-done:
			t.Check("do_terminates", err != nil, "a request whose body exceeds the frame limit did not return an error")
		case <-time.After(t.U(120)):
			t.Check("do_terminates", false, "a request call whose write was refused by the transport (body over the limit) never returned")
			return
		}
		r := t.Do(cl, "after", 101, 10)
		t.Check("do_terminates", r.Err == nil, "after a refused write on a healthy connection the next request failed: %v", r.Err)
		t.Check("one_connection", p.Dials() == 1, "a refused write tore the healthy connection down (%d connections)", p.Dials())
		doClose(t, cl, 60)
	}})

	// C07/C05: a caller picks its connection, is descheduled (gate), the connection is lost and replaced meanwhile; when it resumes it
	// must not disturb the waiter of a live call that uses the same request id on the new connection
	register(&scenario{Name: "c07/stale-caller-vs-reused-id", Props: []string{"C07", "C05"}, Quick: true, Run: func(t *T) {
		p := newPeer(t, t.Transport, t.Version)
		defer p.Shutdown()
		hold := make(chan struct{})
		p.onFrame = func(pc *peerConn, f frameIn) {
			if stdReply(pc, f) {
				return
			}
			if f.Typ != 1 {
				return
			}
			switch {
			case f.Cmd == 100:
				pc.Send(respFrame(f, 0, f.Body))
			case f.Cmd == 140: // answered only when the scenario says so
				go func() { <-hold; pc.Send(respFrame(f, 0, f.Body)) }()
			case f.Cmd == 199:
				pc.Drop()
			}
		}
		cl, err := t.NewClient(p, defaultCfg())
		if err != nil {
			close(hold)
			t.Check("setup", false, "dial: %v", err)
			return
		}
		defer cl.Close(nil)
		t.Do(cl, "warmup", 100, 6) // id 1 on connection 1: the stale caller will take id 2 there
		verifhook.Hold("client.Do:conn-picked")
		t.DoAsync(cl, "stale", 100, 10)
		if !verifhook.WaitParked("client.Do:conn-picked", 1, t.U(20)) {
			verifhook.Release("client.Do:conn-picked")
			close(hold)
			t.Check("setup", false, "the caller did not reach the yield point after picking its connection")
			return
		}
		verifhook.Detach("client.Do:conn-picked") // the stale caller stays parked, later callers pass freely
		// lose connection 1 from the peer side; the client recovers on connection 2 if it can (on the unchanged code the
		// recovery's dial waits for the parked caller, which holds the read lock)
		p.DropAll()
		recovered := false
		for i := 0; i < 60 && !recovered; i++ {
			time.Sleep(t.U(1) / 5)
			recovered = p.Dials() >= 2
		}
		if !recovered {
			// the stale caller blocks the recovery (as designed): let it go first, then run the rest on the new connection
			verifhook.ReleaseDetached("client.Do:conn-picked")
			for i := 0; i < 200 && p.Dials() < 2; i++ {
				time.Sleep(t.U(1) / 5)
			}
		}
		t.Sleep(2)
		t.Do(cl, "new-1", 100, 10)      // id 1 on connection 2
		t.DoAsync(cl, "new-2", 140, 20) // id 2 on connection 2, answered later
		t.Sleep(3)
		if recovered {
			verifhook.ReleaseDetached("client.Do:conn-picked") // the stale caller resumes now: it registers id 2 for the dead connection, its write fails
			t.Sleep(3)
		}
		close(hold) // the peer answers new-2 now, well before its deadline
		t.Join()
		r := t.Result("new-2")
		t.Check("no_lost_wakeup", r != nil && r.Err == nil, "the response to a live call arrived on its connection before the deadline but the call returned: %v (a stale caller of the previous connection had used the same request id)", errOf(r))
	}})

	// C16/C14: Close lands between the retry loop's closed-check and its dial (gate at the attempt's start): the attempt must not
	// install a connection nobody closes
	register(&scenario{Name: "c16/close-between-check-and-dial", Props: []string{"C16", "C14"}, Quick: true, Run: func(t *T) {
		p := newPeer(t, t.Transport, t.Version)
		defer p.Shutdown()
		p.onFrame = func(pc *peerConn, f frameIn) { stdReply(pc, f) }
		cl, err := t.NewClient(p, defaultCfg())
		if err != nil {
			t.Check("setup", false, "dial: %v", err)
			return
		}
		verifhook.Hold("reconnect:attempt")
		p.DropAll()
		if !verifhook.WaitParked("reconnect:attempt", 1, t.U(40)) {
			verifhook.Release("reconnect:attempt")
			t.Check("setup", false, "the recovery did not reach the start of its attempt")
			return
		}
		at, ok := doClose(t, cl, 60)
		verifhook.Release("reconnect:attempt")
		if !ok {
			return
		}
		t.Sleep(34) // the failed attempt sleeps its 1 s back-off before the loop sees the closed signal
		late := 0
		for _, pc := range p.Conns() {
			if pc.N >= 2 && !pc.Ended() {
				late++
			}
		}
		t.Check("sockets_released", p.Open() == 0, "%d socket(s) open at the peer after Close: an attempt that had passed its closed-check installed a connection nobody closes (%d)", p.Open(), late)
		n, where := libGoroutines()
		t.Check("client_threads_exit", n == 0, "%d library goroutine(s) alive after Close: %s", n, where)
		_ = at
	}})

	// C15 (TCP): the peer's heartbeat request is echoed also while a recovery is authenticating
	register(&scenario{Name: "c15/echo-during-recovery", Props: []string{"C15"}, Quick: true, Transports: []string{"tcp"}, Run: func(t *T) {
		p := newPeer(t, t.Transport, t.Version)
		defer p.Shutdown()
		var echoed int32
		p.onFrame = func(pc *peerConn, f frameIn) {
			switch {
			case f.Typ == 2 && f.Cmd == 1 && f.Rid == 7777:
				if string(f.Body) == "during-recovery" {
					atomic.AddInt32(&echoed, 1)
				}
			case f.Typ == 1 && f.Cmd == 2:
				pc.Send(respFrame(f, 0, authBody("session-A", time.Hour)))
			case f.Typ == 1 && f.Cmd == 3: // heartbeat request first, the answer to the resume request a little later
				pc.Send(specFrame{typ: 1, cmd: 1, rid: 7777, body: []byte("during-recovery")})
				go func() { time.Sleep(t.U(4)); pc.Send(respFrame(f, 0, authBody("session-B", time.Hour))) }()
			case f.Typ == 1 && f.Cmd == 199:
				pc.Drop()
			}
		}
		cfg := defaultCfg()
		cfg.Token = true
		cfg.AuthTimeoutU = 20
		cl, err := t.NewClient(p, cfg)
		if err != nil {
			t.Check("setup", false, "dial: %v", err)
			return
		}
		defer cl.Close(nil)
		t.DoAsync(cl, "loss", 199, 2)
		t.Sleep(16)
		t.Join()
		t.Check("echo", atomic.LoadInt32(&echoed) == 1, "a heartbeat request sent by the peer while the client was resuming its session was echoed %d times (want once, same id and body)", atomic.LoadInt32(&echoed))
	}})
}

func errOf(r *doResult) interface{} {
	if r == nil {
		return "no result"
	}
	return r.Err
}

func abbrevS(x []string) string {
	if len(x) <= 14 {
		return fmt.Sprint(x)
	}
	return fmt.Sprintf("%v…(%d)", x[:14], len(x))
}

func init() {
	// C12 (non-blocking admission) / C06: against a peer that reads nothing, bursts of callers are released into Write at the same
	// instant (all parked just before the admission decision); each must be admitted or refused at once, none may block
	register(&scenario{Name: "c12/simultaneous-writers-stalled-peer", Props: []string{"C12", "C06", "C17"}, Quick: true, Run: func(t *T) {
		p := newPeer(t, t.Transport, t.Version)
		defer p.Shutdown()
		p.onConn = func(pc *peerConn) { pc.Stall(true) }
		p.onFrame = func(pc *peerConn, f frameIn) { stdReply(pc, f) }
		cfg := defaultCfg()
		cfg.WriteQueue = 2
		cfg.MinGzip = 1 << 30
		cfg.ReqTimeoutU = 40
		cl, err := t.NewClient(p, cfg)
		if err != nil {
			t.Check("setup", false, "dial: %v", err)
			return
		}
		runtime.GOMAXPROCS(runtime.NumCPU())              // the batch runner limits scenario processes to 4; this one needs a processor per spinning caller
		rounds, burst := 8, maxInt(2, runtime.NumCPU()-2) // one spinning goroutine per processor
		body := make([]byte, 1<<20)
		for k := range body {
			body[k] = byte('a' + k%26)
		}
		var mu sync.Mutex
		returned, full, slowest := 0, 0, time.Duration(0)
		started := 0
		for r := 0; r < rounds; r++ {
			verifhook.HoldSpin("conn.write:before-enqueue")
			var rel time.Time
			for w := 0; w < burst; w++ {
				started++
				go func() {
					_, err := cl.Do(contextBG(), &clientRequest{Cmd: 100, Body: &control.AuthRequest{Token: string(body)}}, reqTimeout(t.U(2)))
					d := time.Since(rel)
					mu.Lock()
					returned++
					if err != nil && strings.Contains(err.Error(), "write queue full") {
						full++
						if d > slowest {
							slowest = d
						}
					}
					mu.Unlock()
				}()
			}
			verifhook.WaitParked("conn.write:before-enqueue", burst, t.U(20))
			rel = time.Now()
			verifhook.ReleaseSpin("conn.write:before-enqueue")
			t.Sleep(1)
		}
		// every call has a 2-unit deadline: all of them are back long before 12 units unless one is stuck inside Write
		for i := 0; i < 60; i++ {
			mu.Lock()
			done := returned == started
			mu.Unlock()
			if done {
				break
			}
			time.Sleep(t.U(1) / 5)
		}
		mu.Lock()
		t.Check("enqueue_nonblocking", returned == started, "%d of %d request calls released into Write at the same moment against a stalled peer (write queue 2) never returned: Write blocked them", started-returned, started)
		t.Check("enqueue_nonblocking", full > 0, "a stalled peer with a write queue of 2 never produced a 'write queue full' error")
		t.Check("timing:enqueue_nonblocking", slowest < t.U(20), "a 'write queue full' error took %v: the caller was blocked", slowest)
		stuck := returned != started
		mu.Unlock()
		if !stuck {
			cl.Close(nil)
		}
	}})
}

func maxInt(a, b int) int {
	if a > b {
		return a
	}
	return b
}

func init() {
	// C05/C19: bursts of callers released into Do's id draw at the same instant (spin gate just before NewRequest): with an id
	// generator that is one atomic operation no two calls of a connection share an id and every call gets its own answer
	register(&scenario{Name: "c05/simultaneous-callers", Props: []string{"C05", "C19", "C07"}, Quick: true, Transports: []string{"tcp"}, TimeoutU: 600, Run: func(t *T) {
		p := newPeer(t, t.Transport, t.Version)
		defer p.Shutdown()
		var mu sync.Mutex
		seen := map[uint32]int{}
		p.onFrame = func(pc *peerConn, f frameIn) {
			if stdReply(pc, f) {
				return
			}
			if f.Typ == 1 {
				mu.Lock()
				seen[f.Rid]++
				mu.Unlock()
				pc.Send(respFrame(f, 0, f.Body))
			}
		}
		cfg := defaultCfg()
		cfg.ReadQueue, cfg.WriteQueue = 4096, 1024
		cl, err := t.NewClient(p, cfg)
		if err != nil {
			t.Check("setup", false, "dial: %v", err)
			return
		}
		defer cl.Close(nil)
		runtime.GOMAXPROCS(runtime.NumCPU())
		rounds, burst := 150, maxInt(2, runtime.NumCPU()-2)
		var misrouted, failed int32
		for r := 0; r < rounds; r++ {
			verifhook.HoldSpin("client.Do:conn-picked")
			var wg sync.WaitGroup
			for g := 0; g < burst; g++ {
				wg.Add(1)
				go func(g int) {
					defer wg.Done()
					tag := int32(r*1000 + g)
					res, err := doTagged(t, cl, 100, tag, 40)
					if err != nil {
						atomic.AddInt32(&failed, 1)
					} else if tagOfBody(res.Body) != tag {
						atomic.AddInt32(&misrouted, 1)
					}
				}(g)
			}
			verifhook.WaitParked("client.Do:conn-picked", burst, t.U(20))
			verifhook.ReleaseSpin("client.Do:conn-picked")
			wg.Wait()
			if atomic.LoadInt32(&failed)+atomic.LoadInt32(&misrouted) > 0 {
				break // one bad round is the verdict; further rounds would only wait for more deadlines
			}
		}
		mu.Lock()
		dup := 0
		for _, n := range seen {
			if n > 1 {
				dup++
			}
		}
		mu.Unlock()
		t.Check("do_returns_own_id", misrouted == 0, "%d of %d calls released into the id draw at the same instant returned another call's response", misrouted, rounds*burst)
		t.Check("do_returns_own_id", dup == 0, "%d request ids were used by two calls on one connection", dup)
		t.Check("do_returns", failed == 0, "%d of %d answered calls failed", failed, rounds*burst)
		// C07: every one of these calls was answered at once, long before its deadline
		t.Check("no_lost_wakeup", failed == 0 && misrouted == 0, "%d of %d calls whose response arrived well before the deadline failed, %d returned a response that was not theirs (callers released into Do at the same instant)", failed, rounds*burst, misrouted)
	}})
}

func init() {
	// C13, model-scripted: random subscription tables (commands around the control boundary, shared and repeated handlers) and random
	// frame streams (pushes, responses nobody waits for, non-control requests, push-typed control commands); the Lean model
	// `Dispatch` is evaluated on the same script by the driver and its handler log must equal the observed invocation sequence
	for i := 0; i < 24; i++ {
		i := i
		register(&scenario{Name: fmt.Sprintf("c13/model-script-%02d", i), Props: []string{"C13"}, Quick: i < 6, Run: func(t *T) {
			rg := &rng{s: t.Seed*6151 + uint64(i)*92821 + 5}
			cmds := []int{1, 2, 3, 4, 5, 6, 50, 51, 200, 255}
			wide := []int{256 + 50, 65536 + 51, 256 + 4, 1<<24 + 200} // subscriptions above 255: never reached by frames of command (cmd & 0xff)
			p := newPeer(t, t.Transport, t.Version)
			defer p.Shutdown()
			var mu sync.Mutex
			var log []string
			handlers := map[uint32][]func(*protocol.Packet){}
			var subsS []string
			nextH := 0
			for _, c := range cmds {
				n := rg.intn(4)
				if n == 0 {
					continue
				}
				var hs []string
				for k := 0; k < n; k++ {
					h := nextH
					if nextH > 0 && rg.intn(4) == 0 {
						h = rg.intn(nextH) // the same handler subscribed again (to this or another command)
					} else {
						nextH++
					}
					handlers[uint32(c)] = append(handlers[uint32(c)], func(pk *protocol.Packet) {
						mu.Lock()
						log = append(log, fmt.Sprintf("%d.%s", h, pk.Body))
						mu.Unlock()
					})
					hs = append(hs, fmt.Sprint(h))
				}
				subsS = append(subsS, fmt.Sprintf("%d:%s", c, strings.Join(hs, ",")))
			}
			for _, c := range wide {
				h := nextH
				nextH++
				handlers[uint32(c)] = append(handlers[uint32(c)], func(pk *protocol.Packet) {
					mu.Lock()
					log = append(log, fmt.Sprintf("%d.%s", h, pk.Body))
					mu.Unlock()
				})
				subsS = append(subsS, fmt.Sprintf("%d:%d", c, h))
			}
			n := 40 + rg.intn(60)
			var framesS []string
			var wire [][]byte
			for k := 0; k < n; k++ {
				c := cmds[rg.intn(len(cmds))]
				body := []byte(fmt.Sprint(k))
				switch r := rg.intn(10); {
				case r < 7:
					framesS = append(framesS, fmt.Sprintf("p%d.%d", c, k))
					wire = append(wire, specEncode(p.version, pushFrame(c, body)))
				case r < 9:
					framesS = append(framesS, fmt.Sprintf("r%d.%d", c, k))
					wire = append(wire, specEncode(p.version, specFrame{typ: 2, cmd: c, rid: uint32(900000 + k), body: body}))
				default:
					if c <= 3 {
						c = 60 // a control request is a ping or a resume: keep those out of this stream
					}
					framesS = append(framesS, fmt.Sprintf("q%d.%d", c, k))
					wire = append(wire, specEncode(p.version, specFrame{typ: 1, cmd: c, rid: uint32(900000 + k), body: body}))
				}
			}
			p.onFrame = func(pc *peerConn, f frameIn) {
				if stdReply(pc, f) {
					return
				}
				if f.Typ == 1 && f.Cmd == 100 {
					if pc.ws != nil {
						for _, w := range wire {
							pc.SendRaw(w)
						}
					} else {
						var buf []byte
						for _, w := range wire {
							buf = append(buf, w...)
						}
						pc.SendRaw(buf)
					}
					pc.Send(respFrame(f, 0, f.Body))
				}
			}
			cfg := defaultCfg()
			cfg.Handlers = handlers
			cfg.ReadQueue = 1024
			cl, err := t.NewClient(p, cfg)
			if err != nil {
				t.Check("setup", false, "dial: %v", err)
				return
			}
			defer cl.Close(nil)
			t.Do(cl, "burst", 100, 20)
			t.Sleep(4)
			mu.Lock()
			obs := strings.Join(log, " ")
			mu.Unlock()
			t.ev("model.dispatch", "line", fmt.Sprintf("dispatch.run cap=1024 subs=%s frames=%s", strings.Join(subsS, ";"), strings.Join(framesS, ";")), "observed", obs, "ambiguous", false)
			t.Check("loss_accounting", t.Warns("drop") == 0, "%d packets dropped although the receive queue (1024) is larger than everything sent", t.Warns("drop"))
		}})
	}
}

func init() {
	// C16: a peer that is unresponsive but not dead (socket open, reads nothing, answers nothing). The connection is given up by Close, or
	// by a keepalive-triggered recovery followed by Close; its socket and goroutines must be released without any help from the peer
	// (observed in the kernel's socket table, because the scripted peer is not reading)
	for _, viaKeepalive := range []bool{false, true} {
		viaKeepalive := viaKeepalive
		name := "c16/unresponsive-peer-close"
		if viaKeepalive {
			name = "c16/unresponsive-peer-keepalive-recycle"
		}
		register(&scenario{Name: name, Props: []string{"C16", "C14"}, Quick: true, Run: func(t *T) {
			p := newPeer(t, t.Transport, t.Version)
			defer p.Shutdown()
			p.onConn = func(pc *peerConn) {
				if pc.N == 1 {
					pc.Stall(true)
				}
			}
			p.onFrame = func(pc *peerConn, f frameIn) {
				if stdReply(pc, f) {
					return
				}
				if f.Typ == 1 {
					pc.Send(respFrame(f, 0, f.Body))
				}
			}
			cfg := defaultCfg()
			if viaKeepalive {
				cfg.KeepaliveU, cfg.KeepaliveTimeoutU = 2, 4
			}
			cl, err := t.NewClient(p, cfg)
			if err != nil {
				t.Check("setup", false, "dial: %v", err)
				return
			}
			first := p.FirstConn()
			t.Do(cl, "unanswered", 100, 3)
			if viaKeepalive {
				// the silent peer is detected and replaced by connection 2, which answers
				for i := 0; i < 200 && p.Dials() < 2; i++ {
					time.Sleep(t.U(1) / 2)
				}
				t.Check("setup", p.Dials() >= 2, "keepalive did not replace the unresponsive connection")
				t.Sleep(4)
				st := first.kernelState()
				t.Check("sockets_released", st != "01", "the replaced connection's socket is still ESTABLISHED at the unresponsive peer (kernel state %q) after the recovery", st)
			}
			done := make(chan struct{})
			go func() { cl.Close(nil); close(done) }()
			select {
			case <-done:
			case <-time.After(t.U(60)):
				t.Check("close_prompt", false, "Close did not return within 60 units on an unresponsive peer")
			}
			t.Sleep(6)
			st := first.kernelState()
			t.Check("sockets_released", st != "01", "the socket of the unresponsive connection is still ESTABLISHED at the peer (kernel state %q) after Close", st)
			n, where := libGoroutines()
			t.Check("client_threads_exit", n == 0, "%d library goroutine(s) alive after Close on an unresponsive peer: %s", n, where)
		}})
	}

	// C08: the resume request has its own timeout (the auth timeout), independent of the dial timeout: a peer that answers it later than
	// the dial timeout but well within the auth timeout is recovered in ONE attempt
	register(&scenario{Name: "c08/slow-resume-answer", Props: []string{"C08"}, Quick: true, Run: func(t *T) {
		p := newPeer(t, t.Transport, t.Version)
		defer p.Shutdown()
		p.onFrame = func(pc *peerConn, f frameIn) {
			if f.WsKind != "" && f.WsKind != "binary" {
				stdReply(pc, f)
				return
			}
			if f.Typ != 1 {
				return
			}
			switch f.Cmd {
			case 2:
				pc.Send(respFrame(f, 0, authBody("session-A", time.Hour)))
			case 3:
				go func() { time.Sleep(t.U(8)); pc.Send(respFrame(f, 0, authBody("session-B", time.Hour))) }()
			case 100:
				pc.Send(respFrame(f, 0, f.Body))
			case 199:
				pc.Drop()
			}
		}
		cfg := defaultCfg()
		cfg.Token = true
		cfg.DialTimeoutU, cfg.AuthTimeoutU = 3, 30
		cl, err := t.NewClient(p, cfg)
		if err != nil {
			t.Check("setup", false, "dial: %v", err)
			return
		}
		defer cl.Close(nil)
		t.DoAsync(cl, "loss", 199, 3)
		t.Sleep(30)
		t.Join()
		t.Check("one_recovery_per_loss", p.Dials() == 2, "a resume answered after 8 units (dial timeout 3, auth timeout 30) took %d connections instead of 2: the resume request did not get the auth timeout", p.Dials())
		t.Check("after_cb_only_on_success", atomic.LoadInt32(&t.afterRec) == 1, "after-reconnect callback ran %d times", atomic.LoadInt32(&t.afterRec))
		r := t.Do(cl, "after", 100, 6)
		t.Check("serves_again", r.Err == nil, "request after the recovery: %v", r.Err)
	}})
}

func init() {
	// C15: detection latency at the boundary configuration timeout == interval. The peer answers three heartbeats (each after half an
	// interval, so that the healthy phase tolerates scheduling jitter) and then goes silent: the connection must be recycled within
	// interval + timeout (+ slack) of the last answer.
	for _, timeoutFirst := range []bool{false, true} {
		timeoutFirst := timeoutFirst
		nm := "c15/stops-after-3-timeout-eq-interval"
		if timeoutFirst {
			nm += "-option-order"
		}
		registerStopsAfter3(nm, timeoutFirst)
	}
}

func registerStopsAfter3(name string, timeoutFirst bool) {
	register(&scenario{Name: name, Props: []string{"C15"}, Quick: true, Run: func(t *T) {
		p := newPeer(t, t.Transport, t.Version)
		defer p.Shutdown()
		var mu sync.Mutex
		n := 0
		var lastAnswered, secondConn time.Time
		p.onConn = func(pc *peerConn) {
			if pc.N == 2 {
				mu.Lock()
				secondConn = time.Now()
				mu.Unlock()
			}
		}
		p.onFrame = func(pc *peerConn, f frameIn) {
			isPing := (f.WsKind == "ping") || (f.WsKind == "" || f.WsKind == "binary") && f.Typ == 1 && f.Cmd == 1
			if isPing && pc.N == 1 {
				mu.Lock()
				n++
				k := n
				mu.Unlock()
				if k <= 3 {
					go func() {
						time.Sleep(t.U(2))
						mu.Lock()
						lastAnswered = time.Now()
						mu.Unlock()
						if pc.ws != nil {
							pc.WsControl(10, f.Body)
						} else {
							pc.Send(respFrame(f, 0, f.Body))
						}
					}()
				}
				return
			}
			stdReply(pc, f)
		}
		cfg := defaultCfg()
		cfg.KeepaliveU, cfg.KeepaliveTimeoutU = 4, 4
		cfg.TimeoutOptionFirst = timeoutFirst
		cl, err := t.NewClient(p, cfg)
		if err != nil {
			t.Check("setup", false, "dial: %v", err)
			return
		}
		defer cl.Close(nil)
		for i := 0; i < 400; i++ {
			time.Sleep(t.U(1) / 4)
			mu.Lock()
			done := !secondConn.IsZero()
			mu.Unlock()
			if done {
				break
			}
		}
		mu.Lock()
		defer mu.Unlock()
		if secondConn.IsZero() {
			t.Check("detects_dead", false, "the peer stopped answering after 3 heartbeats (interval 4, timeout 4) and the connection was not recycled within 100 units")
			return
		}
		if n < 3 || lastAnswered.IsZero() {
			t.Check("setup", false, "the connection was recycled before the peer had answered three heartbeats")
			return
		}
		d := secondConn.Sub(lastAnswered)
		t.Check("timing:detects_dead", d <= t.U(9), "interval 4 units, timeout 4 units: the silent peer was detected %.1f units after its last answer (bound: interval + timeout = 8, + 1 slack)", float64(d)/float64(t.U(1)))
	}})

}

func init() {
	// C15 / C08: a keepalive verdict about the OLD connection must not recycle the NEW one. The keepalive goroutine is parked right after
	// its check declared connection 1 dead; meanwhile connection 1 is lost the ordinary way and the client recovers onto a healthy
	// connection 2; then the keepalive goroutine continues with its stale verdict.
	register(&scenario{Name: "c15/stale-keepalive-verdict", Props: []string{"C15", "C08"}, Quick: true, Run: func(t *T) {
		p := newPeer(t, t.Transport, t.Version)
		defer p.Shutdown()
		p.onFrame = func(pc *peerConn, f frameIn) {
			isPing := (f.WsKind == "ping") || (f.WsKind == "" || f.WsKind == "binary") && f.Typ == 1 && f.Cmd == 1
			if isPing && pc.N == 1 {
				return // connection 1 never answers heartbeats
			}
			if stdReply(pc, f) {
				return
			}
			if f.Typ == 1 && f.Cmd >= 100 {
				pc.Send(respFrame(f, 0, f.Body))
			}
		}
		cfg := defaultCfg()
		cfg.KeepaliveU, cfg.KeepaliveTimeoutU = 2, 4
		verifhook.Hold("keepalive:timeout")
		cl, err := t.NewClient(p, cfg)
		if err != nil {
			t.Check("setup", false, "dial: %v", err)
			return
		}
		defer cl.Close(nil)
		if !verifhook.WaitParked("keepalive:timeout", 1, t.U(60)) {
			t.Check("detects_dead", false, "a connection that never answers heartbeats was not declared dead within 60 units")
			return
		}
		// the ordinary loss of connection 1 and its recovery happen while the keepalive verdict is pending
		p.FirstConn().Drop()
		for i := 0; i < 300 && p.Dials() < 2; i++ {
			time.Sleep(t.U(1) / 5)
		}
		if p.Dials() < 2 {
			t.Check("setup", false, "the client did not recover from the loss of connection 1 while the keepalive goroutine was parked")
			return
		}
		t.Sleep(3)
		r := t.Do(cl, "on-conn-2", 100, 6)
		t.Check("setup", r.Err == nil, "request on the recovered connection: %v", r.Err)
		verifhook.Release("keepalive:timeout") // the stale verdict continues now
		t.Sleep(16)
		t.Check("no_false_positive", p.Dials() == 2, "a keepalive verdict about the lost connection 1 recycled the healthy connection 2 (%d connections in total)", p.Dials())
		t.Check("one_recovery_per_loss", atomic.LoadInt32(&t.afterRec) == 1, "one loss, %d after-reconnect callbacks", atomic.LoadInt32(&t.afterRec))
	}})
}

func init() {
	// C07 / C05: the peer answers request A twice (both answers in one write, so the duplicate is dispatched while A's caller is still
	// between taking its answer and unregistering); the NEXT call B is answered once, at once. B must return B's answer: neither a
	// left-over of A nor a timeout.
	register(&scenario{Name: "c07/duplicate-then-next-call", Props: []string{"C07", "C05"}, Quick: true, Run: func(t *T) {
		p := newPeer(t, t.Transport, t.Version)
		defer p.Shutdown()
		p.onFrame = func(pc *peerConn, f frameIn) {
			if stdReply(pc, f) {
				return
			}
			switch {
			case f.Typ == 1 && f.Cmd == 100:
				one := specEncode(p.version, respFrame(f, 0, f.Body))
				if pc.ws != nil {
					pc.SendRaw(one)
					pc.SendRaw(one)
				} else {
					pc.SendRaw(append(append([]byte{}, one...), one...))
				}
			case f.Typ == 1 && f.Cmd == 101:
				pc.Send(respFrame(f, 0, f.Body))
			}
		}
		cl, err := t.NewClient(p, defaultCfg())
		if err != nil {
			t.Check("setup", false, "dial: %v", err)
			return
		}
		defer cl.Close(nil)
		bad, lost := 0, 0
		first := ""
		for i := 0; i < 40; i++ {
			ta, tb := int32(1000+i), int32(5000+i)
			ra, ea := doTagged(t, cl, 100, ta, 20)
			rb, eb := doTagged(t, cl, 101, tb, 20)
			if ea != nil || tagOfBody(ra.Body) != ta {
				bad++
			}
			switch {
			case eb != nil:
				lost++
				if first == "" {
					first = fmt.Sprintf("pair %d: call B failed: %v", i, eb)
				}
			case tagOfBody(rb.Body) != tb:
				bad++
				if first == "" {
					first = fmt.Sprintf("pair %d: call B (tag %d) returned the response with tag %d", i, tb, tagOfBody(rb.Body))
				}
			}
		}
		t.Check("do_returns_own_id", bad == 0, "%d of 80 calls returned a response that was not theirs (%s)", bad, first)
		t.Check("no_lost_wakeup", lost == 0 && bad == 0, "after a request that was answered twice, %d of 40 following calls lost their own timely answer and %d got a foreign one (%s)", lost, bad, first)
	}})
}

func init() {
	// C20: the client's own keepalive with a gzip threshold below the size of a heartbeat body (everything the codec may compress is
	// compressed). The application-level view — the pong callbacks with the ids of the heartbeats sent — must be the same on both transports.
	register(&scenario{Name: "c20/keepalive-gzip-everything", Props: []string{"C20", "C15"}, Quick: true, Run: func(t *T) {
		p := newPeer(t, t.Transport, t.Version)
		defer p.Shutdown()
		p.onFrame = func(pc *peerConn, f frameIn) {
			if f.WsKind == "ping" {
				pc.WsControl(10, f.Body)
				return
			}
			if f.WsKind != "" && f.WsKind != "binary" {
				return
			}
			if f.Typ == 1 && f.Cmd == 1 {
				// answer with the heartbeat body as the peer understood it (decompressed when the frame was flagged gzip)
				body := f.Body
				if f.Gzip == 1 {
					if k, pl := stdRead(body); k == "ok" {
						body = pl
					}
				}
				pc.Send(respFrame(f, 0, body))
				return
			}
			stdReply(pc, f)
		}
		cfg := defaultCfg()
		cfg.KeepaliveU, cfg.KeepaliveTimeoutU = 2, 8
		cfg.MinGzip = 1
		cl, err := t.NewClient(p, cfg)
		if err != nil {
			t.Check("setup", false, "dial: %v", err)
			return
		}
		t.Sleep(11)
		cl.Close(nil)
		var pongs []string
		for _, e := range t.events {
			if e.Kind == "cb.pong" && len(pongs) < 3 {
				var hb control.Heartbeat
				raw, _ := hex.DecodeString(fmt.Sprint(e.F["body"]))
				id := "undecodable"
				if pb.Unmarshal(raw, &hb) == nil && hb.HeartbeatId != nil {
					id = fmt.Sprint(hb.GetHeartbeatId())
				}
				pongs = append(pongs, fmt.Sprintf("rid=%v body-id=%s", e.F["rid"], id))
			}
		}
		t.Check("heartbeat_shape", len(pongs) == 3, "only %d pong callbacks in 5 keepalive intervals", len(pongs))
		t.ev("c20.trace", "canon", "pongs "+strings.Join(pongs, " , "), "connections", p.Dials())
	}})
}

func init() {
	// C03 (TCP end to end): frames larger than the connection's read buffer (bodies of 1 MiB and 3 MiB are legal: the limit is 16 MiB - 1)
	// arrive in many reads and are delivered whole, in order, with the small frames around them
	// (the second registration runs the same history with both protocol versions in the quick tier: the largest legal v2 frame carries a
	// metadata block of 65535 bytes and the 24-byte nonce/signature trailer on top of the largest body)
	bigFrames := func(t *T) {
		p := newPeer(t, t.Transport, t.Version)
		defer p.Shutdown()
		var mu sync.Mutex
		var got []string
		sizes := []int{10, 65536, 1<<20 - 1, 1 << 20, 7, 3 << 20, 1<<20 + 1, 12, 1<<24 - 1, 5}
		var want []string
		var frames [][]byte
		for i, n := range sizes {
			body := make([]byte, n)
			for k := range body {
				body[k] = byte(k*7 + i*13 + k>>8)
			}
			want = append(want, fmt.Sprintf("%d:%x", n, fnv64(body)))
			f := pushFrame(50, body)
			if n == 1<<24-1 {
				// the largest legal frame: maximal body, signed, and (v2) a metadata block of the maximal size
				f.verify, f.nonce, f.sig = 1, 0x0102030405060708, []byte("0123456789abcdef")
				if p.version == 2 {
					v := strings.Repeat("m", 32767)
					f.md = append(append(encStr([]byte("a")), encStr([]byte(v))...), append(encStr([]byte("b")), encStr([]byte(v[:32760]))...)...)
				}
			}
			frames = append(frames, specEncode(p.version, f))
		}
		p.onFrame = func(pc *peerConn, f frameIn) {
			if stdReply(pc, f) {
				return
			}
			if f.Typ == 1 && f.Cmd == 100 {
				for _, fr := range frames {
					if len(fr) > 1<<24 && pc.ws == nil {
						// the largest frame arrives in two segments, the second being its last 5 bytes
						pc.SendRaw(fr[:len(fr)-5])
						time.Sleep(t.U(12)) // long enough for the client to have consumed the first segment on a loaded machine
						pc.SendRaw(fr[len(fr)-5:])
						continue
					}
					pc.SendRaw(fr)
				}
				pc.Send(respFrame(f, 0, f.Body))
			}
		}
		cfg := defaultCfg()
		cfg.ReadQueue = 64
		cfg.Handlers = map[uint32][]func(*protocol.Packet){50: {func(pk *protocol.Packet) {
			mu.Lock()
			got = append(got, fmt.Sprintf("%d:%x", len(pk.Body), fnv64(pk.Body)))
			mu.Unlock()
		}}}
		cl, err := t.NewClient(p, cfg)
		if err != nil {
			t.Check("setup", false, "dial: %v", err)
			return
		}
		defer cl.Close(nil)
		r := t.Do(cl, "burst", 100, 200)
		t.Sleep(4)
		mu.Lock()
		defer mu.Unlock()
		t.Check("tcp_reading_spec", r.Err == nil, "the response sent after the large frames never arrived: %v", r.Err)
		t.Check("tcp_reading_spec", strings.Join(got, " ") == strings.Join(want, " "), "frames delivered to the application %v differ from the frames the peer sent %v (body length:checksum)", got, want)
		t.Check("dispatch_spec", strings.Join(got, " ") == strings.Join(want, " "), "pushes delivered %v, sent %v", got, want)
	}
	register(&scenario{Name: "c03/tcp-big-frames", Props: []string{"C03", "C13"}, Quick: true, TimeoutU: 400, Run: bigFrames})
	register(&scenario{Name: "c03/v2-big-frames", Props: []string{"C03"}, Quick: true, TimeoutU: 400, Transports: []string{"tcp"}, Run: bigFrames})
}

func fnv64(b []byte) uint64 {
	h := uint64(0xcbf29ce484222325)
	for _, c := range b {
		h = (h ^ uint64(c)) * 0x100000001b3
	}
	return h
}

func init() {
	// C17: the keepalive goroutine reads the heartbeat bookkeeping on every tick while a recovery is waiting for its (delayed) resume
	// answer and then resets that bookkeeping: several ticks fall into the resume round trip (race-detector witness search)
	register(&scenario{Name: "c17/keepalive-during-resume", Props: []string{"C17", "C15"}, Quick: true, Run: func(t *T) {
		p := newPeer(t, t.Transport, t.Version)
		defer p.Shutdown()
		p.onFrame = func(pc *peerConn, f frameIn) {
			if f.WsKind == "ping" {
				pc.WsControl(10, f.Body)
				return
			}
			if f.WsKind != "" && f.WsKind != "binary" {
				return
			}
			if f.Typ != 1 {
				return
			}
			switch f.Cmd {
			case 1:
				pc.Send(respFrame(f, 0, f.Body))
			case 2:
				pc.Send(respFrame(f, 0, authBody("session-A", time.Hour)))
			case 3:
				go func() { time.Sleep(t.U(5)); pc.Send(respFrame(f, 0, authBody("session-B", time.Hour))) }()
			case 100:
				pc.Send(respFrame(f, 0, f.Body))
			case 199:
				pc.Drop()
			}
		}
		cfg := defaultCfg()
		cfg.Token = true
		cfg.KeepaliveU, cfg.KeepaliveTimeoutU = 1, 30
		cfg.AuthTimeoutU = 30
		cl, err := t.NewClient(p, cfg)
		if err != nil {
			t.Check("setup", false, "dial: %v", err)
			return
		}
		defer cl.Close(nil)
		t.Sleep(3)
		for i := 0; i < 3; i++ {
			t.DoAsync(cl, fmt.Sprintf("loss-%d", i), 199, 2)
			t.Sleep(12)
		}
		t.Join()
		r := t.Do(cl, "after", 100, 6)
		t.Check("no_false_positive", r.Err == nil, "request after three resumed recoveries: %v", r.Err)
	}})
}
