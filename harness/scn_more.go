package main

// Scenarios added after the seeded-change campaign (section 11 of DESIGN.md): each targets a window the first suites did not reach.

import (
	"fmt"
	"runtime"
	"strings"
	"sync"
	"sync/atomic"
	"time"

	control "github.com/longportapp/openapi-protobufs/gen/go/control"
	protocol "github.com/longportapp/openapi-protocol/go"
	"github.com/longportapp/openapi-protocol/go/verifhook"
)

func init() {
	// C13: a burst is received and queued, the handler is slow, the peer drops: everything that was received must still be
	// delivered (the only permitted loss is the logged queue overflow)
	register(&scenario{Name: "c13/burst-then-drop", Props: []string{"C13", "C20"}, Quick: true, Run: func(t *T) {
		p := newPeer(t, t.Transport, t.Version)
		defer p.Shutdown()
		p.onFrame = func(pc *peerConn, f frameIn) {
			if stdReply(pc, f) {
				return
			}
			if f.Typ == 1 && f.Cmd == 100 {
				for i := 0; i < 40; i++ {
					pc.Send(pushFrame(50, []byte(fmt.Sprintf("p%02d", i))))
				}
				time.Sleep(t.U(2))
				pc.Drop()
			}
		}
		var mu sync.Mutex
		var got []string
		first := int32(0)
		cfg := defaultCfg()
		cfg.ReadQueue = 128
		cfg.Handlers = map[uint32][]func(*protocol.Packet){50: {func(pk *protocol.Packet) {
			if atomic.CompareAndSwapInt32(&first, 0, 1) {
				time.Sleep(t.U(8)) // the burst queues up behind this call; the connection is lost meanwhile
			}
			mu.Lock()
			got = append(got, string(pk.Body))
			mu.Unlock()
		}}}
		cl, err := t.NewClient(p, cfg)
		if err != nil {
			t.Check("setup", false, "dial: %v", err)
			return
		}
		defer cl.Close(nil)
		t.DoAsync(cl, "burst", 100, 3)
		t.Sleep(24)
		t.Join()
		mu.Lock()
		defer mu.Unlock()
		want := []string{}
		for i := 0; i < 40; i++ {
			want = append(want, fmt.Sprintf("p%02d", i))
		}
		if t.Warns("drop") == 0 {
			t.Check("dispatch_spec", strings.Join(got, ",") == strings.Join(want, ","), "40 pushes were received before the connection was lost (no overflow logged); %d were delivered: %v", len(got), abbrevS(got))
		}
	}})

	// C06: conn.Write fails on a HEALTHY connection (the encoded body exceeds the frame limit): the call returns the error promptly,
	// nothing is torn down, the next call is served
	register(&scenario{Name: "c06/write-error-on-healthy-conn", Props: []string{"C06", "C01"}, Quick: true, Transports: []string{"tcp"}, Run: func(t *T) {
		p := newPeer(t, t.Transport, t.Version)
		defer p.Shutdown()
		p.onFrame = func(pc *peerConn, f frameIn) {
			if stdReply(pc, f) {
				return
			}
			if f.Typ == 1 {
				pc.Send(respFrame(f, 0, []byte("ok")))
			}
		}
		cfg := defaultCfg()
		cfg.MinGzip = 1 << 30
		cl, err := t.NewClient(p, cfg)
		if err != nil {
			t.Check("setup", false, "dial: %v", err)
			return
		}
		big := strings.Repeat("x", 1<<24+10)
		done := make(chan error, 1)
		go func() {
			_, err := cl.Do(contextBG(), &clientRequest{Cmd: 100, Body: &control.AuthRequest{Token: big}}, reqTimeout(t.U(10)))
			done <- err
		}()
		select {
		case err := <-done:
			t.Check("do_terminates", err != nil, "a request whose body exceeds the frame limit did not return an error")
		case <-time.After(t.U(120)):
			t.Check("do_terminates", false, "a request call whose write was refused by the transport (body over the limit) never returned")
			return
		}
		r := t.Do(cl, "after", 101, 10)
		t.Check("do_terminates", r.Err == nil, "after a refused write on a healthy connection the next request failed: %v", r.Err)
		t.Check("one_connection", p.Dials() == 1, "a refused write tore the healthy connection down (%d connections)", p.Dials())
		doClose(t, cl, 60)
	}})

	// C07/C05: a caller picks its connection, is descheduled (gate), the connection is lost and replaced meanwhile; when it resumes it
	// must not disturb the waiter of a live call that uses the same request id on the new connection
	register(&scenario{Name: "c07/stale-caller-vs-reused-id", Props: []string{"C07", "C05"}, Quick: true, Run: func(t *T) {
		p := newPeer(t, t.Transport, t.Version)
		defer p.Shutdown()
		hold := make(chan struct{})
		p.onFrame = func(pc *peerConn, f frameIn) {
			if stdReply(pc, f) {
				return
			}
			if f.Typ != 1 {
				return
			}
			switch {
			case f.Cmd == 100:
				pc.Send(respFrame(f, 0, f.Body))
			case f.Cmd == 140: // answered only when the scenario says so
				go func() { <-hold; pc.Send(respFrame(f, 0, f.Body)) }()
			case f.Cmd == 199:
				pc.Drop()
			}
		}
		cl, err := t.NewClient(p, defaultCfg())
		if err != nil {
			close(hold)
			t.Check("setup", false, "dial: %v", err)
			return
		}
		defer cl.Close(nil)
		t.Do(cl, "warmup", 100, 6) // id 1 on connection 1: the stale caller will take id 2 there
		verifhook.Hold("client.Do:conn-picked")
		t.DoAsync(cl, "stale", 100, 10)
		if !verifhook.WaitParked("client.Do:conn-picked", 1, t.U(20)) {
			verifhook.Release("client.Do:conn-picked")
			close(hold)
			t.Check("setup", false, "the caller did not reach the yield point after picking its connection")
			return
		}
		verifhook.Detach("client.Do:conn-picked") // the stale caller stays parked, later callers pass freely
		// lose connection 1 from the peer side; the client recovers on connection 2 if it can (on the unchanged code the
		// recovery's dial waits for the parked caller, which holds the read lock)
		p.DropAll()
		recovered := false
		for i := 0; i < 60 && !recovered; i++ {
			time.Sleep(t.U(1) / 5)
			recovered = p.Dials() >= 2
		}
		if !recovered {
			// the stale caller blocks the recovery (as designed): let it go first, then run the rest on the new connection
			verifhook.ReleaseDetached("client.Do:conn-picked")
			for i := 0; i < 200 && p.Dials() < 2; i++ {
				time.Sleep(t.U(1) / 5)
			}
		}
		t.Sleep(2)
		t.Do(cl, "new-1", 100, 10)      // id 1 on connection 2
		t.DoAsync(cl, "new-2", 140, 20) // id 2 on connection 2, answered later
		t.Sleep(3)
		if recovered {
			verifhook.ReleaseDetached("client.Do:conn-picked") // the stale caller resumes now: it registers id 2 for the dead connection, its write fails
			t.Sleep(3)
		}
		close(hold) // the peer answers new-2 now, well before its deadline
		t.Join()
		r := t.Result("new-2")
		t.Check("no_lost_wakeup", r != nil && r.Err == nil, "the response to a live call arrived on its connection before the deadline but the call returned: %v (a stale caller of the previous connection had used the same request id)", errOf(r))
	}})

	// C16/C14: Close lands between the retry loop's closed-check and its dial (gate at the attempt's start): the attempt must not
	// install a connection nobody closes
	register(&scenario{Name: "c16/close-between-check-and-dial", Props: []string{"C16", "C14"}, Quick: true, Run: func(t *T) {
		p := newPeer(t, t.Transport, t.Version)
		defer p.Shutdown()
		p.onFrame = func(pc *peerConn, f frameIn) { stdReply(pc, f) }
		cl, err := t.NewClient(p, defaultCfg())
		if err != nil {
			t.Check("setup", false, "dial: %v", err)
			return
		}
		verifhook.Hold("reconnect:attempt")
		p.DropAll()
		if !verifhook.WaitParked("reconnect:attempt", 1, t.U(40)) {
			verifhook.Release("reconnect:attempt")
			t.Check("setup", false, "the recovery did not reach the start of its attempt")
			return
		}
		at, ok := doClose(t, cl, 60)
		verifhook.Release("reconnect:attempt")
		if !ok {
			return
		}
		t.Sleep(34) // the failed attempt sleeps its 1 s back-off before the loop sees the closed signal
		late := 0
		for _, pc := range p.Conns() {
			if pc.N >= 2 && !pc.Ended() {
				late++
			}
		}
		t.Check("sockets_released", p.Open() == 0, "%d socket(s) open at the peer after Close: an attempt that had passed its closed-check installed a connection nobody closes (%d)", p.Open(), late)
		n, where := libGoroutines()
		t.Check("client_threads_exit", n == 0, "%d library goroutine(s) alive after Close: %s", n, where)
		_ = at
	}})

	// C15 (TCP): the peer's heartbeat request is echoed also while a recovery is authenticating
	register(&scenario{Name: "c15/echo-during-recovery", Props: []string{"C15"}, Quick: true, Transports: []string{"tcp"}, Run: func(t *T) {
		p := newPeer(t, t.Transport, t.Version)
		defer p.Shutdown()
		var echoed int32
		p.onFrame = func(pc *peerConn, f frameIn) {
			switch {
			case f.Typ == 2 && f.Cmd == 1 && f.Rid == 7777:
				if string(f.Body) == "during-recovery" {
					atomic.AddInt32(&echoed, 1)
				}
			case f.Typ == 1 && f.Cmd == 2:
				pc.Send(respFrame(f, 0, authBody("session-A", time.Hour)))
			case f.Typ == 1 && f.Cmd == 3: // heartbeat request first, the answer to the resume request a little later
				pc.Send(specFrame{typ: 1, cmd: 1, rid: 7777, body: []byte("during-recovery")})
				go func() { time.Sleep(t.U(4)); pc.Send(respFrame(f, 0, authBody("session-B", time.Hour))) }()
			case f.Typ == 1 && f.Cmd == 199:
				pc.Drop()
			}
		}
		cfg := defaultCfg()
		cfg.Token = true
		cfg.AuthTimeoutU = 20
		cl, err := t.NewClient(p, cfg)
		if err != nil {
			t.Check("setup", false, "dial: %v", err)
			return
		}
		defer cl.Close(nil)
		t.DoAsync(cl, "loss", 199, 2)
		t.Sleep(16)
		t.Join()
		t.Check("echo", atomic.LoadInt32(&echoed) == 1, "a heartbeat request sent by the peer while the client was resuming its session was echoed %d times (want once, same id and body)", atomic.LoadInt32(&echoed))
	}})
}

func errOf(r *doResult) interface{} {
	if r == nil {
		return "no result"
	}
	return r.Err
}

func abbrevS(x []string) string {
	if len(x) <= 14 {
		return fmt.Sprint(x)
	}
	return fmt.Sprintf("%v…(%d)", x[:14], len(x))
}

func init() {
	// C12 (non-blocking admission) / C06: against a peer that reads nothing, bursts of callers are released into Write at the same
	// instant (all parked just before the admission decision); each must be admitted or refused at once, none may block
	register(&scenario{Name: "c12/simultaneous-writers-stalled-peer", Props: []string{"C12", "C06", "C17"}, Quick: true, Run: func(t *T) {
		p := newPeer(t, t.Transport, t.Version)
		defer p.Shutdown()
		p.onConn = func(pc *peerConn) { pc.Stall(true) }
		p.onFrame = func(pc *peerConn, f frameIn) { stdReply(pc, f) }
		cfg := defaultCfg()
		cfg.WriteQueue = 2
		cfg.MinGzip = 1 << 30
		cfg.ReqTimeoutU = 40
		cl, err := t.NewClient(p, cfg)
		if err != nil {
			t.Check("setup", false, "dial: %v", err)
			return
		}
		runtime.GOMAXPROCS(runtime.NumCPU())              // the batch runner limits scenario processes to 4; this one needs a processor per spinning caller
		rounds, burst := 8, maxInt(2, runtime.NumCPU()-2) // one spinning goroutine per processor
		body := make([]byte, 1<<20)
		for k := range body {
			body[k] = byte('a' + k%26)
		}
		var mu sync.Mutex
		returned, full, slowest := 0, 0, time.Duration(0)
		started := 0
		for r := 0; r < rounds; r++ {
			verifhook.HoldSpin("conn.write:before-enqueue")
			var rel time.Time
			for w := 0; w < burst; w++ {
				started++
				go func() {
					_, err := cl.Do(contextBG(), &clientRequest{Cmd: 100, Body: &control.AuthRequest{Token: string(body)}}, reqTimeout(t.U(2)))
					d := time.Since(rel)
					mu.Lock()
					returned++
					if err != nil && strings.Contains(err.Error(), "write queue full") {
						full++
						if d > slowest {
							slowest = d
						}
					}
					mu.Unlock()
				}()
			}
			verifhook.WaitParked("conn.write:before-enqueue", burst, t.U(20))
			rel = time.Now()
			verifhook.ReleaseSpin("conn.write:before-enqueue")
			t.Sleep(1)
		}
		// every call has a 2-unit deadline: all of them are back long before 12 units unless one is stuck inside Write
		for i := 0; i < 60; i++ {
			mu.Lock()
			done := returned == started
			mu.Unlock()
			if done {
				break
			}
			time.Sleep(t.U(1) / 5)
		}
		mu.Lock()
		t.Check("enqueue_nonblocking", returned == started, "%d of %d request calls released into Write at the same moment against a stalled peer (write queue 2) never returned: Write blocked them", started-returned, started)
		t.Check("enqueue_nonblocking", full > 0, "a stalled peer with a write queue of 2 never produced a 'write queue full' error")
		t.Check("timing:enqueue_nonblocking", slowest < t.U(20), "a 'write queue full' error took %v: the caller was blocked", slowest)
		stuck := returned != started
		mu.Unlock()
		if !stuck {
			cl.Close(nil)
		}
	}})
}

func maxInt(a, b int) int {
	if a > b {
		return a
	}
	return b
}

func init() {
	// C05/C19: bursts of callers released into Do's id draw at the same instant (spin gate just before NewRequest): with an id
	// generator that is one atomic operation no two calls of a connection share an id and every call gets its own answer
	register(&scenario{Name: "c05/simultaneous-callers", Props: []string{"C05", "C19"}, Quick: true, Transports: []string{"tcp"}, TimeoutU: 600, Run: func(t *T) {
		p := newPeer(t, t.Transport, t.Version)
		defer p.Shutdown()
		var mu sync.Mutex
		seen := map[uint32]int{}
		p.onFrame = func(pc *peerConn, f frameIn) {
			if stdReply(pc, f) {
				return
			}
			if f.Typ == 1 {
				mu.Lock()
				seen[f.Rid]++
				mu.Unlock()
				pc.Send(respFrame(f, 0, f.Body))
			}
		}
		cfg := defaultCfg()
		cfg.ReadQueue, cfg.WriteQueue = 4096, 1024
		cl, err := t.NewClient(p, cfg)
		if err != nil {
			t.Check("setup", false, "dial: %v", err)
			return
		}
		defer cl.Close(nil)
		runtime.GOMAXPROCS(runtime.NumCPU())
		rounds, burst := 150, maxInt(2, runtime.NumCPU()-2)
		var misrouted, failed int32
		for r := 0; r < rounds; r++ {
			verifhook.HoldSpin("client.Do:conn-picked")
			var wg sync.WaitGroup
			for g := 0; g < burst; g++ {
				wg.Add(1)
				go func(g int) {
					defer wg.Done()
					tag := int32(r*1000 + g)
					res, err := doTagged(t, cl, 100, tag, 40)
					if err != nil {
						atomic.AddInt32(&failed, 1)
					} else if tagOfBody(res.Body) != tag {
						atomic.AddInt32(&misrouted, 1)
					}
				}(g)
			}
			verifhook.WaitParked("client.Do:conn-picked", burst, t.U(20))
			verifhook.ReleaseSpin("client.Do:conn-picked")
			wg.Wait()
		}
		mu.Lock()
		dup := 0
		for _, n := range seen {
			if n > 1 {
				dup++
			}
		}
		mu.Unlock()
		t.Check("do_returns_own_id", misrouted == 0, "%d of %d calls released into the id draw at the same instant returned another call's response", misrouted, rounds*burst)
		t.Check("do_returns_own_id", dup == 0, "%d request ids were used by two calls on one connection", dup)
		t.Check("do_returns", failed == 0, "%d of %d answered calls failed", failed, rounds*burst)
	}})
}

func init() {
	// C13, model-scripted: random subscription tables (commands around the control boundary, shared and repeated handlers) and random
	// frame streams (pushes, responses nobody waits for, non-control requests, push-typed control commands); the Lean model
	// `Dispatch` is evaluated on the same script by the driver and its handler log must equal the observed invocation sequence
	for i := 0; i < 24; i++ {
		i := i
		register(&scenario{Name: fmt.Sprintf("c13/model-script-%02d", i), Props: []string{"C13"}, Quick: i < 6, Run: func(t *T) {
			rg := &rng{s: t.Seed*6151 + uint64(i)*92821 + 5}
			cmds := []int{1, 2, 3, 4, 5, 6, 50, 51, 200, 255}
			p := newPeer(t, t.Transport, t.Version)
			defer p.Shutdown()
			var mu sync.Mutex
			var log []string
			handlers := map[uint32][]func(*protocol.Packet){}
			var subsS []string
			nextH := 0
			for _, c := range cmds {
				n := rg.intn(4)
				if n == 0 {
					continue
				}
				var hs []string
				for k := 0; k < n; k++ {
					h := nextH
					if nextH > 0 && rg.intn(4) == 0 {
						h = rg.intn(nextH) // the same handler subscribed again (to this or another command)
					} else {
						nextH++
					}
					handlers[uint32(c)] = append(handlers[uint32(c)], func(pk *protocol.Packet) {
						mu.Lock()
						log = append(log, fmt.Sprintf("%d.%s", h, pk.Body))
						mu.Unlock()
					})
					hs = append(hs, fmt.Sprint(h))
				}
				subsS = append(subsS, fmt.Sprintf("%d:%s", c, strings.Join(hs, ",")))
			}
			n := 40 + rg.intn(60)
			var framesS []string
			var wire [][]byte
			for k := 0; k < n; k++ {
				c := cmds[rg.intn(len(cmds))]
				body := []byte(fmt.Sprint(k))
				switch r := rg.intn(10); {
				case r < 7:
					framesS = append(framesS, fmt.Sprintf("p%d.%d", c, k))
					wire = append(wire, specEncode(p.version, pushFrame(c, body)))
				case r < 9:
					framesS = append(framesS, fmt.Sprintf("r%d.%d", c, k))
					wire = append(wire, specEncode(p.version, specFrame{typ: 2, cmd: c, rid: uint32(900000 + k), body: body}))
				default:
					if c <= 3 {
						c = 60 // a control request is a ping or a resume: keep those out of this stream
					}
					framesS = append(framesS, fmt.Sprintf("q%d.%d", c, k))
					wire = append(wire, specEncode(p.version, specFrame{typ: 1, cmd: c, rid: uint32(900000 + k), body: body}))
				}
			}
			p.onFrame = func(pc *peerConn, f frameIn) {
				if stdReply(pc, f) {
					return
				}
				if f.Typ == 1 && f.Cmd == 100 {
					if pc.ws != nil {
						for _, w := range wire {
							pc.SendRaw(w)
						}
					} else {
						var buf []byte
						for _, w := range wire {
							buf = append(buf, w...)
						}
						pc.SendRaw(buf)
					}
					pc.Send(respFrame(f, 0, f.Body))
				}
			}
			cfg := defaultCfg()
			cfg.Handlers = handlers
			cfg.ReadQueue = 1024
			cl, err := t.NewClient(p, cfg)
			if err != nil {
				t.Check("setup", false, "dial: %v", err)
				return
			}
			defer cl.Close(nil)
			t.Do(cl, "burst", 100, 20)
			t.Sleep(4)
			mu.Lock()
			obs := strings.Join(log, " ")
			mu.Unlock()
			t.ev("model.dispatch", "line", fmt.Sprintf("dispatch.run cap=1024 subs=%s frames=%s", strings.Join(subsS, ";"), strings.Join(framesS, ";")), "observed", obs, "ambiguous", false)
			t.Check("loss_accounting", t.Warns("drop") == 0, "%d packets dropped although the receive queue (1024) is larger than everything sent", t.Warns("drop"))
		}})
	}
}
