package main

// Scenarios for C08 (recovery re-establishes an authenticated session) and C15 (keepalive).

import (
	"fmt"
	"strings"
	"sync"
	"sync/atomic"
	"time"

	control "github.com/longportapp/openapi-protobufs/gen/go/control"
	pb "google.golang.org/protobuf/proto"
)

// what the peer saw as the first request on each connection: "auth:<token>" | "reconnect:<session>" | "other" | "none"
type connLog struct {
	mu    sync.Mutex
	first map[int]string
	all   map[int][]string
}

func (c *connLog) note(conn int, f frameIn) {
	c.mu.Lock()
	defer c.mu.Unlock()
	s := "other"
	switch {
	case f.Typ == 1 && f.Cmd == 2:
		var a control.AuthRequest
		pb.Unmarshal(f.Body, &a)
		s = "auth:" + a.GetToken()
	case f.Typ == 1 && f.Cmd == 3:
		var a control.ReconnectRequest
		pb.Unmarshal(f.Body, &a)
		s = "reconnect:" + a.GetSessionId()
	case f.Typ == 1 && f.Cmd == 1:
		return // heartbeats do not count
	}
	if _, ok := c.first[conn]; !ok {
		c.first[conn] = s
	}
	c.all[conn] = append(c.all[conn], s)
}

// outcome of the peer for one recovery attempt (after the initial connection #1)
//
//	refuse | drop | unauth | status7 | silent | ok
func recoveryScenario(name string, quick bool, outcomes []string, expired, token bool, maxRec int) {
	lossKind := "drop"
	if strings.Contains(name, "/close-packet-") {
		lossKind = "close-packet"
	} else if strings.Contains(name, "/garbage-") {
		lossKind = "garbage"
	}
	register(&scenario{Name: name, Props: []string{"C08", "C17", "C16"}, Quick: quick, TimeoutU: 900, Run: func(t *T) {
		p := newPeer(t, t.Transport, t.Version)
		defer p.Shutdown()
		cl := &connLog{first: map[int]string{}, all: map[int][]string{}}
		var attempt int32 // index into outcomes of the NEXT accepted connection
		outcomeOf := func(conn int) string {
			// connection #1 is the initial one; refused dials never become connections
			k := 0
			idx := 0
			for idx = 0; idx < len(outcomes); idx++ {
				if outcomes[idx] == "refuse" {
					continue
				}
				k++
				if k == conn-1 {
					return outcomes[idx]
				}
			}
			return "ok"
		}
		expiresIn := time.Hour
		if expired {
			expiresIn = 5 * time.Second // inside the 10 s safety margin: counts as expired
		}
		var firstSeen sync.Map
		p.onFrame = func(pc *peerConn, f frameIn) {
			if f.WsKind != "" && f.WsKind != "binary" {
				stdReply(pc, f)
				return
			}
			cl.note(pc.N, f)
			if f.Typ != 1 {
				return
			}
			// ONE CONNECTION AT A TIME: when a newer connection carries its first frame, every older one must be closed
			if _, seen := firstSeen.LoadOrStore(pc.N, true); !seen && pc.N >= 2 {
				go func(n int) {
					time.Sleep(t.U(4))
					for _, o := range p.Conns() {
						if o.N < n && !o.Ended() {
							t.Check("one_connection", false, "connection #%d was still open 4 units after connection #%d had carried its first frame (older connections must be closed before the new one is used)", o.N, n)
						}
					}
				}(pc.N)
			}
			if pc.N == 1 {
				switch f.Cmd {
				case 2:
					pc.Send(respFrame(f, 0, authBody("session-A", expiresIn)))
				case 100:
					pc.Send(respFrame(f, 0, f.Body))
				case 199: // the loss
					switch {
					case lossKind == "close-packet" && pc.ws != nil:
						pc.WsControl(8, []byte{0x03, 0xe8})
					case lossKind == "close-packet":
						pc.Send(pushFrame(0, nil))
					case lossKind == "garbage":
						pc.SendRaw([]byte{0x0f, 0xee, 0x01, 0x02, 0x03, 0x04, 0x05, 0x06})
					default:
						pc.Drop()
					}
				}
				return
			}
			o := outcomeOf(pc.N)
			switch f.Cmd {
			case 2, 3:
				switch {
				case o == "drop":
					pc.Drop()
				case o == "silent":
				case o == "status7":
					pc.Send(respFrame(f, 7, errBody(7, "internal")))
				case o == "unauth" && f.Cmd == 3:
					// "rejected as unauthenticated" is the status of the answer; its body may be a well-formed error message, text that is no
					// error message in the connection's codec, or empty
					body := errBody(401, "session invalid")
					if strings.Contains(name, "plain-body") {
						body = []byte("session not found")
					} else if strings.Contains(name, "empty-body") {
						body = nil
					}
					pc.Send(respFrame(f, 5, body))
				default:
					pc.Send(respFrame(f, 0, authBody(fmt.Sprintf("session-%d", pc.N), time.Hour)))
				}
			case 100:
				pc.Send(respFrame(f, 0, f.Body))
			}
		}
		cfg := defaultCfg()
		cfg.Token = token
		cfg.MaxReconnect = maxRec
		cfg.AuthTimeoutU = 4
		c, err := t.NewClient(p, cfg)
		if err != nil {
			t.Check("setup", false, "dial: %v", err)
			return
		}
		if r := t.Do(c, "before", 100, 6); r.Err != nil {
			t.Check("setup", false, "request before the loss: %v", r.Err)
			return
		}
		// refused dials: the peer stops listening for the leading refusals of the outcome list
		nRefuse := 0
		for _, o := range outcomes {
			if o == "refuse" {
				nRefuse++
			}
		}
		if nRefuse > 0 {
			p.Refuse(true)
			go func() { time.Sleep(time.Duration(nRefuse)*time.Second - t.U(8)); p.Refuse(false) }()
		}
		t.DoAsync(c, "loss", 199, 3)
		// expected number of attempts until success / give-up
		failing := 0
		for _, o := range outcomes {
			if o == "ok" || (o == "unauth" && token) {
				break
			}
			failing++
		}
		success := failing < len(outcomes) || maxRec == 0
		if maxRec > 0 && failing >= maxRec {
			success = false
		}
		wait := 30 + failing*(20+cfg.AuthTimeoutU+2)
		t.Sleep(wait)
		_ = attempt
		t.Join()
		after := atomic.LoadInt32(&t.afterRec)
		onClose := atomic.LoadInt32(&t.onClose)
		// which connection carried what
		cl.mu.Lock()
		firsts := []string{}
		for n := 2; n <= p.Dials(); n++ {
			firsts = append(firsts, cl.first[n])
		}
		cl.mu.Unlock()
		t.ev("recovery.observed", "firsts", strings.Join(firsts, " "), "after", after, "onClose", onClose, "dials", p.Dials())
		if !token {
			// no authentication configured: recovery is just a fresh connection
			t.Check("after_cb_only_on_success", (after >= 1) == success, "after-reconnect callback ran %d times, recovery success expected=%v", after, success)
		} else {
			for i, fst := range firsts {
				if fst == "" {
					continue
				}
				wantResume := !expired
				isResume := strings.HasPrefix(fst, "reconnect:")
				t.Check("uses_session_iff_unexpired", isResume == wantResume, "recovery connection %d started with %q (session expired=%v)", i+2, fst, expired)
				if isResume {
					t.Check("uses_session_iff_unexpired", fst == "reconnect:session-A", "the reconnect request carried %q, not the stored session", fst)
				}
			}
			// unauthenticated -> the same attempt continues with a full authentication (fresh token) on the same connection
			for n := 2; n <= p.Dials(); n++ {
				if outcomeOf(n) == "unauth" && !expired {
					cl.mu.Lock()
					seq := strings.Join(cl.all[n], " ")
					cl.mu.Unlock()
					t.Check("fallback_on_unauthenticated", strings.Contains(seq, "reconnect:session-A auth:token-"), "connection %d: session rejected as unauthenticated, requests seen: %q (want reconnect then auth with a fresh token)", n, seq)
				}
			}
			t.Check("after_cb_only_on_success", (after >= 1) == success, "after-reconnect callback ran %d times, recovery success expected=%v (first requests: %v)", after, success, firsts)
		}
		t.Check("after_cb_only_on_success", after <= 1, "one loss, %d after-reconnect callbacks", after)
		if maxRec > 0 && !success {
			t.Check("hitmax_reported", onClose == 1, "MaxReconnect=%d, %d failing attempts: close callback ran %d times", maxRec, failing, onClose)
		} else {
			t.Check("hitmax_reported", onClose == 0, "close callback ran although the recovery had not hit the maximum")
		}
		// one connection at a time: every older connection is closed
		openNow := p.Open()
		t.Check("one_connection", openNow <= 1, "%d connections open at once after the recovery", openNow)
		if success {
			r := t.Do(c, "after", 100, 6)
			t.Check("serves_again", r.Err == nil, "request after a successful recovery: %v", r.Err)
			// the request must travel on the newest connection
			conns := p.Conns()
			last := conns[len(conns)-1]
			found := false
			for _, f := range last.Frames() {
				if f.Cmd == 100 {
					found = true
				}
			}
			t.Check("one_connection", found, "the request after the recovery did not travel on the newest connection")
			dials := p.Dials()
			t.Sleep(30)
			t.Check("one_recovery_per_loss", p.Dials() == dials, "%d further connection(s) were opened after the recovery had succeeded (one loss must cause one recovery)", p.Dials()-dials)
		}
		c.Close(nil)
		// C16: a closed client leaves nothing behind — also no half-established connection of a failed attempt
		t.Sleep(6)
		n, where := libGoroutines()
		t.Check("client_threads_exit", n == 0, "%d library goroutine(s) alive after the recovery history and Close: %s", n, where)
		t.Check("sockets_released", p.Open() == 0, "%d socket(s) still open at the peer after Close (connections of failed attempts must be closed too)", p.Open())
	}})
}

func init() {
	recoveryScenario("c08/resume-ok", true, []string{"ok"}, false, true, 0)
	recoveryScenario("c08/expired-reauth", true, []string{"ok"}, true, true, 0)
	recoveryScenario("c08/no-auth", true, []string{"ok"}, false, false, 0)
	recoveryScenario("c08/unauthenticated-fallback", true, []string{"unauth"}, false, true, 0)
	recoveryScenario("c08/unauthenticated-fallback-plain-body", true, []string{"unauth"}, false, true, 0)
	recoveryScenario("c08/unauthenticated-fallback-empty-body", true, []string{"unauth"}, false, true, 0)
	recoveryScenario("c08/drop-then-ok", true, []string{"drop", "ok"}, false, true, 0)
	recoveryScenario("c08/refuse-then-ok", true, []string{"refuse", "ok"}, false, true, 0)
	recoveryScenario("c08/close-packet-resume-silent-then-ok", true, []string{"silent", "ok"}, false, true, 0)
	recoveryScenario("c08/garbage-resume-ok", true, []string{"ok"}, false, true, 0)
	recoveryScenario("c08/status7-then-ok", true, []string{"status7", "ok"}, false, true, 0)
	recoveryScenario("c08/silent-then-ok", true, []string{"silent", "ok"}, false, true, 0)
	recoveryScenario("c08/hitmax-2", true, []string{"drop", "drop", "drop"}, false, true, 2)
	recoveryScenario("c08/hitmax-1-refuse", false, []string{"refuse", "refuse"}, false, true, 1)
	recoveryScenario("c08/max3-succeeds-at-2", false, []string{"drop", "ok"}, false, true, 3)

	// C15 keepalive. interval 2 units, timeout 4 units.
	kaScenario := func(name string, quick bool, token bool, answer func(n int, conn int) bool, dropFirst bool, expectRecycle bool) {
		latencyU := 0 // peer answers after this many units
		if strings.Contains(name, "slow-peer") {
			latencyU = 3
		}
		register(&scenario{Name: name, Props: []string{"C15", "C17", "C08"}, Quick: quick, Run: func(t *T) {
			p := newPeer(t, t.Transport, t.Version)
			defer p.Shutdown()
			var mu sync.Mutex
			pings := map[int][]frameIn{}
			lastAnswered := time.Time{}
			var dropped int32
			p.onFrame = func(pc *peerConn, f frameIn) {
				isPing := (f.WsKind == "ping") || (f.WsKind == "" || f.WsKind == "binary") && f.Typ == 1 && f.Cmd == 1
				if isPing {
					mu.Lock()
					pings[pc.N] = append(pings[pc.N], f)
					n := len(pings[pc.N])
					mu.Unlock()
					if answer(n, pc.N) {
						mu.Lock()
						lastAnswered = time.Now()
						mu.Unlock()
						reply := func() {
							if pc.ws != nil {
								pc.WsControl(10, f.Body)
							} else {
								pc.Send(respFrame(f, 0, f.Body))
							}
						}
						if latencyU > 0 {
							go func() { time.Sleep(t.U(latencyU)); reply() }()
						} else {
							reply()
						}
					}
					return
				}
				if stdReply(pc, f) {
					return
				}
				if f.Typ == 1 && f.Cmd == 199 && atomic.CompareAndSwapInt32(&dropped, 0, 1) {
					pc.Drop()
				}
			}
			cfg := defaultCfg()
			cfg.Token = token
			cfg.KeepaliveU, cfg.KeepaliveTimeoutU = 2, 4
			if latencyU > 0 {
				cfg.KeepaliveTimeoutU = 8 // latency 3 > interval 2, well inside the timeout 8
			}
			cfg.TimeoutOptionFirst = strings.Contains(name, "option-order")
			c, err := t.NewClient(p, cfg)
			if err != nil {
				t.Check("setup", false, "dial: %v", err)
				return
			}
			defer c.Close(nil)
			if dropFirst { // an earlier recovery (slower than the keepalive timeout), then the keepalive must still behave
				p.Refuse(true)
				t.DoAsync(c, "loss", 199, 2)
				t.Sleep(8)
				p.Refuse(false)
				t.Sleep(34)
			}
			if strings.Contains(name, "after-recovery") && !dropFirst || strings.Contains(name, "first-conn-dead") {
				// the first connection is dead by script: wait for the (one, legitimate) keepalive-caused recovery
				for i := 0; i < 300 && p.Dials() < 2; i++ {
					time.Sleep(t.U(1) / 5)
				}
				if p.Dials() < 2 {
					t.Check("detects_dead", false, "the first connection never answers heartbeats and was not recycled within 60 units")
					return
				}
				t.Sleep(1)
			}
			dials0 := p.Dials()
			t0 := time.Now()
			t.Sleep(60) // 30 ticks
			mu.Lock()
			defer mu.Unlock()
			total := 0
			for conn, ps := range pings {
				total += len(ps)
				seen := map[uint32]bool{}
				for _, f := range ps {
					var hb control.Heartbeat
					if err := pb.Unmarshal(f.Body, &hb); err != nil || hb.HeartbeatId == nil {
						t.Check("heartbeat_shape", false, "conn %d: heartbeat body does not decode or carries no id", conn)
						continue
					}
					if f.WsKind == "" || f.WsKind == "binary" {
						t.Check("heartbeat_shape", uint32(hb.GetHeartbeatId()) == f.Rid, "conn %d: heartbeat body id %d != request id %d", conn, hb.GetHeartbeatId(), f.Rid)
						t.Check("heartbeat_shape", !seen[f.Rid], "conn %d: heartbeat request id %d reused", conn, f.Rid)
						seen[f.Rid] = true
					} else {
						id := uint32(hb.GetHeartbeatId())
						t.Check("heartbeat_shape", !seen[id], "conn %d: heartbeat id %d reused", conn, id)
						seen[id] = true
					}
				}
			}
			recycled := p.Dials() - dials0
			if !expectRecycle {
				t.Check("timing:heartbeat_rate", total >= 12, "only %d heartbeats in 30 intervals", total)
			}
			if expectRecycle {
				// on the fresh connection the client must send heartbeats again
				t.Check("detects_dead", len(pings) >= 2, "after recycling a dead connection no heartbeat was sent on the new connection (%d connections saw heartbeats)", len(pings))
				t.Check("detects_dead", recycled >= 1, "the peer stopped answering heartbeats and the connection was never recycled in 60 units (interval 2, timeout 4)")
				_ = t0
				_ = lastAnswered
			} else {
				t.Check("no_false_positive", recycled == 0, "a peer that answers every heartbeat (latency %d units, interval %d, timeout %d) saw %d keepalive-caused reconnect(s) over 30 intervals", latencyU, cfg.KeepaliveU, cfg.KeepaliveTimeoutU, recycled)
			}
			// C08: one loss, one recovery — a recovery must not itself cause further recoveries
			if strings.Contains(name, "recovers-once") {
				t.Check("one_recovery_per_loss", p.Dials() <= 2 && atomic.LoadInt32(&t.afterRec) <= 1, "one keepalive-detected loss led to %d connections and %d after-reconnect callbacks", p.Dials(), atomic.LoadInt32(&t.afterRec))
			}
		}})
	}
	always := func(n, conn int) bool { return true }
	kaScenario("c15/healthy", true, false, always, false, false)
	kaScenario("c15/healthy-auth", true, true, always, false, false)
	kaScenario("c15/healthy-after-recovery-noauth", true, false, always, true, false)
	kaScenario("c15/healthy-after-recovery-resume", true, true, always, true, false)
	kaScenario("c15/slow-peer", true, false, always, false, false)
	kaScenario("c15/slow-peer-after-recovery", true, false, func(n, conn int) bool { return conn > 1 }, false, false)
	kaScenario("c15/first-conn-dead-recovers-once", true, false, func(n, conn int) bool { return conn > 1 }, false, false)
	kaScenario("c15/dead-peer-option-order", true, false, func(n, conn int) bool { return false }, false, true)
	kaScenario("c15/dead-peer", true, false, func(n, conn int) bool { return false }, false, true)
	kaScenario("c15/stops-after-3", true, false, func(n, conn int) bool { return conn > 1 || n <= 3 }, false, true)

	// TCP: the client answers every heartbeat request of the peer with a response echoing id and body
	register(&scenario{Name: "c15/echo", Props: []string{"C15", "C20"}, Quick: true, Run: func(t *T) {
		p := newPeer(t, t.Transport, t.Version)
		defer p.Shutdown()
		p.onFrame = func(pc *peerConn, f frameIn) { stdReply(pc, f) }
		c, err := t.NewClient(p, defaultCfg())
		if err != nil {
			t.Check("setup", false, "dial: %v", err)
			return
		}
		defer c.Close(nil)
		pc := p.FirstConn()
		// the fourth and fifth heartbeat requests arrive with the gzip flag set (a compressed body shorter than the client's own threshold)
		// and, on v2, with a metadata entry: the echo must be a frame the peer can decode to the same body
		bodies := [][]byte{[]byte("ping-a"), {}, []byte("ping-c"), []byte("ping-gz-dddddddddddddddddddddddddddddd"), []byte("e")}
		for i, b := range bodies {
			if pc.ws != nil {
				pc.WsControl(9, b)
			} else if i >= 3 {
				pc.Send(specFrame{typ: 1, cmd: 1, rid: uint32(500 + i), gzip: 1, body: stdCompress(b)})
			} else {
				pc.Send(specFrame{typ: 1, cmd: 1, rid: uint32(500 + i), body: b})
			}
		}
		t.Sleep(4)
		echoes := 0
		for _, f := range pc.Frames() {
			if pc.ws != nil {
				if f.WsKind == "pong" {
					echoes++
				}
				continue
			}
			if f.Typ == 2 && f.Cmd == 1 {
				i := int(f.Rid) - 500
				body := f.Body
				if f.Gzip == 1 {
					k, pl := stdRead(body)
					t.Check("echo", k == "ok", "heartbeat response id %d is flagged gzip but its body is not a gzip stream (%s): the peer cannot decode the echo", f.Rid, k)
					body = pl
				}
				t.Check("echo", i >= 0 && i < len(bodies) && string(body) == string(bodies[i]), "heartbeat response id %d body %q does not echo the request", f.Rid, body)
				echoes++
			}
		}
		if pc.ws == nil {
			t.Check("echo", echoes == len(bodies), "%d heartbeat responses for %d heartbeat requests", echoes, len(bodies))
		}
		t.Check("ping_callback", int(atomic.LoadInt32(&t.pingCb)) == len(bodies), "ping callback ran %d times for %d heartbeat requests", atomic.LoadInt32(&t.pingCb), len(bodies))
	}})
}
