package main

// Scenarios added after the fifth wave of seeded changes (general statements of clauses of their properties; none refers to a patch).

import (
	"fmt"
	"strings"
	"sync"
	"sync/atomic"
	"time"

	control "github.com/longportapp/openapi-protobufs/gen/go/control"
	protocol "github.com/longportapp/openapi-protocol/go"
	"github.com/longportapp/openapi-protocol/go/verifhook"
	pb "google.golang.org/protobuf/proto"
)

func init() {
	// C13: a handler that subscribes a further handler from inside the dispatch (single dispatcher goroutine, no concurrent Subscribe):
	// the remaining handlers of that frame and all later frames are still delivered, in order
	register(&scenario{Name: "c13/handler-subscribes", Props: []string{"C13"}, Quick: true, Run: func(t *T) {
		p := newPeer(t, t.Transport, t.Version)
		defer p.Shutdown()
		var mu sync.Mutex
		var log []string
		add := func(s string) { mu.Lock(); log = append(log, s); mu.Unlock() }
		p.onFrame = func(pc *peerConn, f frameIn) {
			if stdReply(pc, f) {
				return
			}
			if f.Typ == 1 && f.Cmd == 100 {
				for i := 0; i < 4; i++ {
					pc.Send(pushFrame(50, []byte(fmt.Sprintf("a%d", i))))
					pc.Send(pushFrame(51, []byte(fmt.Sprintf("b%d", i))))
				}
				pc.Send(respFrame(f, 0, f.Body))
			}
		}
		cfg := defaultCfg()
		cfg.ReadQueue = 256
		cl, err := t.NewClient(p, cfg)
		if err != nil {
			t.Check("setup", false, "dial: %v", err)
			return
		}
		defer cl.Close(nil)
		var once sync.Once
		cl.Subscribe(50, func(pk *protocol.Packet) {
			add("h1:" + string(pk.Body))
			once.Do(func() {
				cl.Subscribe(51, func(pk *protocol.Packet) { add("h3:" + string(pk.Body)) })
			})
		})
		cl.Subscribe(50, func(pk *protocol.Packet) { add("h2:" + string(pk.Body)) })
		done := make(chan struct{})
		go func() { t.Do(cl, "burst", 100, 20); close(done) }()
		select {
		case <-done:
		case <-time.After(t.U(40)):
		}
		t.Sleep(3)
		mu.Lock()
		defer mu.Unlock()
		want := "h1:a0 h2:a0 h3:b0 h1:a1 h2:a1 h3:b1 h1:a2 h2:a2 h3:b2 h1:a3 h2:a3 h3:b3"
		t.Check("dispatch_spec", strings.Join(log, " ") == want, "a handler subscribed another one during dispatch; invocations: %v (want %s)", log, want)
	}})

	// C08: the server ends the connection with a close packet carrying each of the documented codes; whatever the code, an unexpired
	// session is presented again on the next connection (the session is the server's to reject, not the client's to forget)
	register(&scenario{Name: "c08/close-packet-codes", Props: []string{"C08"}, Quick: true, Transports: []string{"tcp"}, Run: func(t *T) {
		p := newPeer(t, t.Transport, t.Version)
		defer p.Shutdown()
		var mu sync.Mutex
		firstReq := map[int]string{}
		p.onFrame = func(pc *peerConn, f frameIn) {
			if stdReply2(pc, f) {
				return
			}
			if f.Typ != 1 {
				return
			}
			mu.Lock()
			if _, ok := firstReq[pc.N]; !ok && f.Cmd != 1 {
				firstReq[pc.N] = fmt.Sprintf("cmd%d", f.Cmd)
			}
			mu.Unlock()
			switch f.Cmd {
			case 2, 3:
				pc.Send(respFrame(f, 0, authBody(fmt.Sprintf("session-%d", pc.N), time.Hour)))
			case 100:
				pc.Send(respFrame(f, 0, f.Body))
			case 199:
				code := control.Close_Code(pc.N - 1)
				b, _ := pb.Marshal(&control.Close{Code: code, Reason: "bye"})
				pc.Send(pushFrame(0, b))
			}
		}
		cfg := defaultCfg()
		cfg.Token = true
		cl, err := t.NewClient(p, cfg)
		if err != nil {
			t.Check("setup", false, "dial: %v", err)
			return
		}
		defer cl.Close(nil)
		for i := 0; i < 7; i++ {
			t.DoAsync(cl, fmt.Sprintf("close-code-%d", i), 199, 2)
			for k := 0; k < 100 && p.Dials() < i+2; k++ {
				time.Sleep(t.U(1) / 2)
			}
			t.Sleep(3)
			r := t.Do(cl, fmt.Sprintf("after-%d", i), 100, 6)
			t.Check("serves_again", r.Err == nil, "request after the server closed the connection with close code %d: %v", i, r.Err)
		}
		t.Join()
		mu.Lock()
		defer mu.Unlock()
		for n := 2; n <= p.Dials(); n++ {
			t.Check("uses_session_iff_unexpired", firstReq[n] == "cmd3", "connection #%d (after a close packet with code %d): the first request is %q, want the resume request (the stored session is unexpired)", n, n-2, firstReq[n])
		}
	}})

	// C08 / C05: the documented use of the after-reconnect callback — issuing requests (re-subscribing) from inside it — works: the
	// connection is usable when the callback runs
	register(&scenario{Name: "c08/do-inside-after-reconnected", Props: []string{"C08", "C05"}, Quick: true, Run: func(t *T) {
		p := newPeer(t, t.Transport, t.Version)
		defer p.Shutdown()
		p.onFrame = func(pc *peerConn, f frameIn) {
			if stdReply(pc, f) {
				return
			}
			if f.Typ == 1 && f.Cmd == 199 {
				pc.Drop()
			} else if f.Typ == 1 {
				pc.Send(respFrame(f, 0, f.Body))
			}
		}
		for _, token := range []bool{false, true} {
			var inCb, inCbOK int32
			cfg := defaultCfg()
			cfg.Token = token
			cl, err := t.NewClient(p, cfg)
			if err != nil {
				t.Check("setup", false, "dial: %v", err)
				return
			}
			cl.AfterReconnected(func() {
				atomic.AddInt32(&t.afterRec, 1)
				atomic.AddInt32(&inCb, 1)
				if _, err := doTagged(t, cl, 100, 77, 10); err == nil {
					atomic.AddInt32(&inCbOK, 1)
				}
			})
			dials := p.Dials()
			t.DoAsync(cl, "loss", 199, 2)
			for k := 0; k < 100 && p.Dials() < dials+1; k++ {
				time.Sleep(t.U(1) / 2)
			}
			t.Sleep(8)
			t.Join()
			t.Check("serves_again", atomic.LoadInt32(&inCb) == 1 && atomic.LoadInt32(&inCbOK) == 1, "token getter=%v: the after-reconnect callback ran %d time(s); the request it issued succeeded %d time(s)", token, inCb, inCbOK)
			cl.Close(nil)
		}
	}})

	// C19 / C15: the keepalive goroutine is parked right after its tick looked at the connection; the connection is lost and the client
	// recovers; the heartbeat that goes out then belongs to the NEW connection's id sequence
	register(&scenario{Name: "c19/keepalive-ping-after-recovery", Props: []string{"C19", "C15"}, Quick: true, Run: func(t *T) {
		p := newPeer(t, t.Transport, t.Version)
		defer p.Shutdown()
		p.onFrame = func(pc *peerConn, f frameIn) {
			if f.WsKind == "ping" {
				pc.WsControl(10, f.Body)
				return
			}
			if f.WsKind != "" && f.WsKind != "binary" {
				return
			}
			if f.Typ == 1 {
				pc.Send(respFrame(f, 0, f.Body))
			}
		}
		cfg := defaultCfg()
		cfg.KeepaliveU, cfg.KeepaliveTimeoutU = 4, 20
		cl, err := t.NewClient(p, cfg)
		if err != nil {
			t.Check("setup", false, "dial: %v", err)
			return
		}
		defer cl.Close(nil)
		for i := 0; i < 9; i++ { // earlier traffic: the old connection's next id is well above 1
			doTagged(t, cl, 100, int32(i), 6)
		}
		verifhook.Hold("keepalive:check")
		if !verifhook.WaitParked("keepalive:check", 1, t.U(30)) {
			t.Check("setup", false, "no keepalive tick within 30 units")
			verifhook.Release("keepalive:check")
			return
		}
		p.FirstConn().Drop()
		for k := 0; k < 200 && p.Dials() < 2; k++ {
			time.Sleep(t.U(1) / 4)
		}
		t.Sleep(2)
		verifhook.Release("keepalive:check")
		t.Sleep(3)
		for i := 0; i < 3; i++ {
			doTagged(t, cl, 100, int32(100+i), 6)
		}
		t.Sleep(2)
		conns := p.Conns()
		if len(conns) < 2 {
			t.Check("setup", false, "the client did not recover")
			return
		}
		var ids []uint32
		for _, f := range conns[1].Frames() {
			if f.Typ == 1 && (f.WsKind == "" || f.WsKind == "binary") {
				ids = append(ids, f.Rid)
			} else if f.WsKind == "ping" { // WebSocket: the heartbeat travels as a ping frame, its id is in the heartbeat body
				var hb control.Heartbeat
				if pb.Unmarshal(f.Body, &hb) == nil && hb.HeartbeatId != nil {
					ids = append(ids, uint32(hb.GetHeartbeatId()))
				}
			}
		}
		ok := true
		for i, id := range ids {
			if id != uint32(i+1) {
				ok = false
			}
		}
		t.Check("ids_from_one", ok && len(ids) >= 3, "request ids seen on the connection that replaced the lost one (a keepalive tick was pending across the recovery): %v (want 1, 2, 3, …)", ids)
	}})

	// C15: a peer that stops answering heartbeats but keeps sending other traffic (pushes, its own heartbeat requests) is still dead as far
	// as keepalive is concerned: only heartbeat answers refresh the clock
	register(&scenario{Name: "c15/dead-heartbeats-but-chatty", Props: []string{"C15"}, Quick: true, Run: func(t *T) {
		p := newPeer(t, t.Transport, t.Version)
		defer p.Shutdown()
		stop := make(chan struct{})
		p.onConn = func(pc *peerConn) {
			if pc.N != 1 {
				return
			}
			go func() {
				for i := 0; ; i++ {
					select {
					case <-stop:
						return
					case <-time.After(t.U(1)):
						if pc.Ended() {
							return
						}
						pc.Send(pushFrame(50, []byte(fmt.Sprintf("chat-%d", i))))
						if pc.ws == nil {
							pc.Send(specFrame{typ: 1, cmd: 1, rid: uint32(9000 + i), body: []byte("peer-ping")})
						} else {
							pc.WsControl(9, []byte("peer-ping"))
						}
					}
				}
			}()
		}
		p.onFrame = func(pc *peerConn, f frameIn) {
			isPing := (f.WsKind == "ping") || (f.WsKind == "" || f.WsKind == "binary") && f.Typ == 1 && f.Cmd == 1
			if isPing {
				if pc.N == 1 {
					return // connection 1 never answers the client's heartbeats
				}
				if pc.ws != nil {
					pc.WsControl(10, f.Body)
				} else {
					pc.Send(respFrame(f, 0, f.Body))
				}
			}
		}
		cfg := defaultCfg()
		cfg.KeepaliveU, cfg.KeepaliveTimeoutU = 2, 4
		cfg.Handlers = map[uint32][]func(*protocol.Packet){50: {func(*protocol.Packet) {}}}
		cl, err := t.NewClient(p, cfg)
		if err != nil {
			t.Check("setup", false, "dial: %v", err)
			return
		}
		defer cl.Close(nil)
		defer close(stop)
		for k := 0; k < 120 && p.Dials() < 2; k++ {
			time.Sleep(t.U(1) / 2)
		}
		t.Check("detects_dead", p.Dials() >= 2, "a peer that never answers heartbeats but sends a push and a heartbeat request of its own every unit was not recycled within 60 units (interval 2, timeout 4)")
	}})

	// C15 (WebSocket): the re-dial itself is slow (the upgrade answer is withheld) and the peer answers heartbeats slower than one interval
	// but within the timeout: after the recovery the connection is healthy and must not be recycled — the time the dial took does not count
	// against the fresh connection
	register(&scenario{Name: "c15/slow-redial-then-slow-pongs", Props: []string{"C15"}, Quick: true, Transports: []string{"ws"}, Run: func(t *T) {
		p := newPeer(t, t.Transport, t.Version)
		defer p.Shutdown()
		p.slowUpgrade = func(n int) {
			if n == 2 {
				time.Sleep(t.U(7))
			}
		}
		p.onFrame = func(pc *peerConn, f frameIn) {
			if f.WsKind == "ping" {
				go func() { time.Sleep(t.U(5)); pc.WsControl(10, f.Body) }()
				return
			}
			if f.WsKind != "" && f.WsKind != "binary" {
				return
			}
			if f.Typ == 1 && f.Cmd == 199 {
				pc.Drop()
			} else if f.Typ == 1 {
				pc.Send(respFrame(f, 0, f.Body))
			}
		}
		cfg := defaultCfg()
		cfg.KeepaliveU, cfg.KeepaliveTimeoutU = 3, 8
		cfg.DialTimeoutU = 20
		cl, err := t.NewClient(p, cfg)
		if err != nil {
			t.Check("setup", false, "dial: %v", err)
			return
		}
		defer cl.Close(nil)
		t.DoAsync(cl, "loss", 199, 2)
		for k := 0; k < 200 && p.Dials() < 2; k++ {
			time.Sleep(t.U(1) / 2)
		}
		t.Sleep(50)
		t.Join()
		t.Check("no_false_positive", p.Dials() == 2, "after a recovery whose dial took 7 units, a peer answering every heartbeat after 5 units (interval 3, timeout 8) saw %d connections (want 2)", p.Dials())
	}})
}

// stdReply2: like stdReply but leaves auth/resume requests to the scenario
func stdReply2(pc *peerConn, f frameIn) bool {
	if f.WsKind == "ping" {
		pc.WsControl(10, f.Body)
		return true
	}
	if f.WsKind != "" && f.WsKind != "binary" {
		return true
	}
	if f.Typ == 1 && f.Cmd == 1 {
		pc.Send(respFrame(f, 0, f.Body))
		return true
	}
	return false
}

func init() {
	// C06: a request whose body cannot be encoded fails with an error (and nothing else happens); a later connection loss is recovered
	// and calls keep returning — the failed call left no lock behind
	register(&scenario{Name: "c06/unencodable-body-then-loss", Props: []string{"C06", "C14"}, Quick: true, Run: func(t *T) {
		p := newPeer(t, t.Transport, t.Version)
		defer p.Shutdown()
		p.onFrame = func(pc *peerConn, f frameIn) {
			if stdReply(pc, f) {
				return
			}
			if f.Typ == 1 && f.Cmd == 199 {
				pc.Drop()
			} else if f.Typ == 1 {
				pc.Send(respFrame(f, 0, f.Body))
			}
		}
		cl, err := t.NewClient(p, defaultCfg())
		if err != nil {
			t.Check("setup", false, "dial: %v", err)
			return
		}
		_, e1 := cl.Do(contextBG(), &clientRequest{Cmd: 100, Body: &control.AuthRequest{Token: "\xff\xfe invalid utf-8"}}, reqTimeout(t.U(6)))
		t.Check("do_terminates", e1 != nil, "a request whose protobuf body cannot be marshalled (invalid UTF-8 in a string field) returned no error")
		t.DoAsync(cl, "loss", 199, 2)
		t.Sleep(12)
		done := make(chan error, 1)
		go func() {
			_, err := doTagged(t, cl, 100, 5, 6)
			done <- err
		}()
		select {
		case err := <-done:
			t.Check("do_terminates", err == nil, "request after an unencodable request and a recovered loss: %v", err)
		case <-time.After(t.U(40)):
			t.Check("do_terminates", false, "a request issued after an unencodable request and a connection loss has not returned after 40 units (timeout 6): something still holds the client lock")
		}
		t.Join()
		doClose(t, cl, 60)
	}})

	// C07: a call times out on connection 1 (never answered); the connection is lost and replaced; the calls on connection 2 — whose ids
	// start again at 1 and so pass the timed-out call's id — all get their timely answers
	register(&scenario{Name: "c07/timeout-then-reconnect-same-ordinal", Props: []string{"C07", "C05"}, Quick: true, Run: func(t *T) {
		p := newPeer(t, t.Transport, t.Version)
		defer p.Shutdown()
		p.onFrame = func(pc *peerConn, f frameIn) {
			if stdReply(pc, f) {
				return
			}
			switch {
			case f.Typ == 1 && f.Cmd == 120: // never answered
			case f.Typ == 1 && f.Cmd == 199:
				pc.Drop()
			case f.Typ == 1:
				pc.Send(respFrame(f, 0, f.Body))
			}
		}
		cl, err := t.NewClient(p, defaultCfg())
		if err != nil {
			t.Check("setup", false, "dial: %v", err)
			return
		}
		defer cl.Close(nil)
		doTagged(t, cl, 100, 1, 6) // id 1
		doTagged(t, cl, 100, 2, 6) // id 2
		_, e3 := doTagged(t, cl, 120, 3, 2)
		t.Check("setup", e3 != nil, "the unanswered call returned no error")
		_, e4 := doTagged(t, cl, 120, 4, 2)
		_ = e4
		t.DoAsync(cl, "loss", 199, 2)
		for k := 0; k < 100 && p.Dials() < 2; k++ {
			time.Sleep(t.U(1) / 2)
		}
		t.Sleep(3)
		t.Join()
		lost := 0
		first := ""
		for i := 0; i < 8; i++ {
			tag := int32(50 + i)
			res, err := doTagged(t, cl, 100, tag, 6)
			if err != nil || tagOfBody(res.Body) != tag {
				lost++
				if first == "" {
					first = fmt.Sprintf("call %d on the new connection: %v", i+1, err)
				}
			}
		}
		t.Check("no_lost_wakeup", lost == 0, "%d of 8 calls on the replacement connection lost their timely answer (%s); calls with the same ordinals had timed out on the previous connection", lost, first)
	}})

	// C17 (TCP): a response arrives split over two reads and its second part never comes; the call times out and the user closes the client
	// from another goroutine, with no traffic in between (keepalive far away)
	register(&scenario{Name: "c17/close-after-partial-frame", Props: []string{"C17", "C14"}, Quick: true, Transports: []string{"tcp"}, Run: func(t *T) {
		p := newPeer(t, t.Transport, t.Version)
		defer p.Shutdown()
		p.onFrame = func(pc *peerConn, f frameIn) {
			if stdReply(pc, f) {
				return
			}
			if f.Typ == 1 && f.Cmd == 100 {
				whole := specEncode(p.version, respFrame(f, 0, []byte("0123456789abcdef")))
				pc.SendRaw(whole[:len(whole)-12])
			}
		}
		for i := 0; i < 6; i++ {
			cl, err := t.NewClient(p, defaultCfg())
			if err != nil {
				t.Check("setup", false, "dial: %v", err)
				return
			}
			doTagged(t, cl, 100, int32(i), 2)
			time.Sleep(t.U(1))
			done := make(chan struct{})
			go func() { cl.Close(nil); close(done) }()
			select {
			case <-done:
			case <-time.After(t.U(40)):
				t.Check("close_prompt", false, "Close did not return")
			}
		}
	}})
}
