package main

import (
	"bytes"
	stdgzip "compress/gzip"
	"context"
	"fmt"
	"strings"

	"github.com/Allenxuxu/ringbuffer"
	protocol "github.com/longportapp/openapi-protocol/go"
)

func init() { codecGens["C02"] = genC02 }

func stdCompress(b []byte) []byte {
	var buf bytes.Buffer
	w := stdgzip.NewWriter(&buf)
	w.Write(b)
	w.Close()
	return buf.Bytes()
}

// C02: (encoder) Go Pack bytes == independent spec encoder bytes, byte for byte;
// (decoder) spec-conformant frames over every nibble/flag/reserve/extreme are decoded to exactly the layout's field values.
func genC02(e *emitter, tier string, seed uint64) map[string]interface{} {
	defer flushUnstable(e, "C02")
	rg := &rng{seed ^ 0x02}
	thorough := tier == "thorough"
	types := []string{"request", "response", "push"}
	tnum := map[string]int{"request": 1, "response": 2, "push": 3}

	// ---- encoder direction ---- (run before AND after the decoder batch: afterwards the pooled headers hold stale decoded content)
	nEnc := 300
	if thorough {
		nEnc = 4000
	}
	lens := []int{0, 1, 2, 255, 256, 257, 300, 65535, 65536, 65537, 70000, 1 << 17}
	dirty := false // second run: every Pack directly follows a decode of a frame with all flags and reserve bits set (stale pooled header)
	encoderBatch := func(nEnc int) {
		for i := 0; i < nEnc; i++ {
			version := 1 + rg.intn(2)
			if dirty {
				df := specFrame{typ: 2, verify: 1, gzip: 0, reserve: 3, cmd: 255, rid: 0xffffffff, st: 255, body: []byte{1, 2, 3}, nonce: ^uint64(0), sig: bytes.Repeat([]byte{0xff}, 16)}
				if version == 2 {
					df.md = append(encStr([]byte("k")), encStr([]byte("v"))...)
				}
				proto(version).UnpackBytes(newCtx(version, protocol.CodecJSON), specEncode(version, df))
			}
			p := &pkt{version: version, typ: types[rg.intn(3)], cmd: uint32(rg.intn(256)), rid: uint32(rg.next()), to: uint16(rg.next()), st: uint8(rg.next()),
				verify: rg.intn(2) == 0, body: genBody(rg, rg.pick(lens))}
			if i%4 == 0 {
				p.rid = []uint32{0, 1, 0xffffffff, 0x01020304, 0xff000000}[rg.intn(5)]
				p.to = []uint16{0, 1, 0xffff, 0x0102, 0xff00}[rg.intn(5)]
				p.st = []uint8{0, 1, 255}[rg.intn(3)]
			}
			if p.verify {
				p.nonce, p.sig = rg.next(), rg.bytes(16)
			}
			if version == 2 && rg.intn(3) != 0 {
				p.pairs = genPairs(rg, 1+rg.intn(5))
				if rg.intn(6) == 0 { // metadata block >= 256 bytes so that swapped length bytes cannot hide
					p.pairs = append(p.pairs, [2]item{{rep: true, b: 'z', n: 3}, {rep: true, b: 'y', n: 300 + rg.intn(30000)}})
				}
				for mdSize(p.pairs) > 65535 && len(p.pairs) > 0 {
					p.pairs = p.pairs[:len(p.pairs)-1]
				}
			}
			thr := []int{0, 0, 1, 1024}[rg.intn(4)]
			orig := p.body.bytes()
			pk := p.build(protocol.CodecProtobuf)
			frame, err := proto(version).Pack(newCtx(version, protocol.CodecProtobuf), pk, protocol.GzipSize(thr))
			if err != nil {
				continue
			}
			engaged := thr != 0 && len(orig) >= thr
			gz := ""
			if engaged {
				gz = hexSpec(pk.Body).String()
			}
			g := 0
			if pk.Metadata.Gzip {
				g = 1
			}
			e.op(p.packLine(thr, gz), fmt.Sprintf("ok %s gzip=%d", showBytes(frame), g), "encoder/pack", true)
			// the frame the layout prescribes for this packet (wire body = pk.Body, metadata block = the code's own block)
			var md []byte
			if version == 2 {
				md = (&protocol.Metadata{Values: pk.Metadata.Values}).MarshalValues(65535)
			}
			v := 0
			if p.verify {
				v = 1
			}
			sf := specFrame{typ: tnum[p.typ], verify: v, gzip: g, reserve: 0, cmd: int(p.cmd), rid: p.rid, to: p.to, st: p.st, md: md, body: pk.Body, nonce: p.nonce, sig: p.sig}
			want := specEncode(version, sf)
			bodySpec := hexSpec(pk.Body)
			if !engaged {
				bodySpec = p.body
			}
			// result = the real code's bytes; the driver computes Spec.encode: equality is "Go bytes = Lean spec bytes"
			idx := e.op(sf.line(version, bodySpec), showBytes(frame), "encoder/spec", true)
			if !bytes.Equal(frame, want) {
				d := 0
				for d < len(frame) && d < len(want) && frame[d] == want[d] {
					d++
				}
				e.fail(idx, fmt.Sprintf("pack_conforms:v%d%s", version, kindOf(p)), fmt.Sprintf("Pack differs from the layout at byte %d (len %d vs %d)", d, len(frame), len(want)))
			}
		}

	}
	encoderBatch(nEnc)
	defer func() { dirty = true; encoderBatch(nEnc / 3) }()

	// ---- decoder direction ----
	u32s := []uint32{0, 1, 0xff, 0x100, 0xffff, 0x10000, 0x01020304, 0x7fffffff, 0x80000000, 0xffffffff}
	u16s := []uint16{0, 1, 0xff, 0x100, 0x0102, 0x7fff, 0x8000, 0xffff}
	u8s := []uint8{0, 1, 5, 127, 128, 255}
	plain := []byte("hello, world: 0123456789 0123456789")
	gzBody := stdCompress(plain)
	mdBlock := append(append(encStr([]byte("Key")), encStr([]byte("Val"))...), append(encStr([]byte("x")), encStr(bytes.Repeat([]byte("y"), 200))...)...)
	tcase := 0
	for _, version := range []int{1, 2} {
		for typ := 0; typ < 16; typ++ {
			for verify := 0; verify < 2; verify++ {
				for gzip := 0; gzip < 2; gzip++ {
					for reserve := 0; reserve < 4; reserve++ {
						variants := 2
						if thorough {
							variants = 10
						}
						for k := 0; k < variants; k++ {
							tcase++
							f := specFrame{typ: typ, verify: verify, gzip: gzip, reserve: reserve, cmd: int(u8s[rg.intn(len(u8s))]),
								rid: u32s[rg.intn(len(u32s))], to: u16s[rg.intn(len(u16s))], st: u8s[rg.intn(len(u8s))],
								nonce: []uint64{0, 1, 0x0102030405060708, 0xffffffffffffffff, rg.next()}[rg.intn(5)], sig: rg.bytes(16)}
							bodyOK := true
							var content []byte
							if gzip == 1 {
								switch rg.intn(4) {
								case 0: // not a gzip stream
									f.body = rg.bytes(rg.intn(30))
									bodyOK = false
									if k, _ := stdRead(f.body); k == "ok" {
										bodyOK = true
									}
								default:
									content = plain[:rg.intn(len(plain)+1)]
									f.body = stdCompress(content)
									_ = gzBody
								}
							} else {
								f.body = rg.bytes(rg.pick([]int{0, 1, 2, 255, 256, 300}))
								content = f.body
							}
							mdOK := true
							if version == 2 {
								switch rg.intn(4) {
								case 0:
									f.md = nil
								case 1:
									f.md = mdBlock
								case 2:
									f.md = append(encStr([]byte("K2")), encStr(rg.bytes(rg.intn(300)))...)
								case 3: // malformed block
									f.md = append([]byte{0x80, 0x05}, rg.bytes(6)...)
									mdOK = false
								}
							}
							frame := specEncode(version, f)
							e.op(f.line(version, hexSpec(f.body)), showBytes(frame), "decoder/spec", true)
							idx, res, q := unpackBytesOp(e, version, protocol.CodecJSON, frame, frameSpecOf(frame), fmt.Sprintf("decoder/type%d", typ))
							accept := typ >= 1 && typ <= 3 && bodyOK && mdOK
							key := fmt.Sprintf("decode_accepts:v%d", version)
							if !accept {
								key = fmt.Sprintf("decode_rejects:v%d", version)
							}
							if accept != (q != nil) {
								e.fail(idx, key, fmt.Sprintf("spec frame type=%d verify=%d gzip=%d reserve=%d bodyOK=%v mdOK=%v: %s", typ, verify, gzip, reserve, bodyOK, mdOK, res[:min(80, len(res))]))
								continue
							}
							if q == nil {
								continue
							}
							m := q.Metadata
							tn := map[int]string{1: "request", 2: "response", 3: "push"}[typ]
							bad := ""
							switch {
							case typeName(m.Type) != tn:
								bad = "type"
							case m.CmdCode != uint32(f.cmd):
								bad = "cmd"
							case typ != 3 && m.RequestId != f.rid:
								bad = "request id"
							case typ == 1 && m.Timeout != f.to:
								bad = "timeout"
							case typ == 2 && m.StatusCode != f.st:
								bad = "status"
							case m.Verify != (verify == 1) || m.Gzip != (gzip == 1):
								bad = "flags"
							case verify == 1 && (m.Nonce != f.nonce || !bytes.Equal(m.Signature, f.sig)):
								bad = "nonce/signature"
							case !bytes.Equal(q.Body, content):
								bad = "body"
							case m.Codec != protocol.CodecJSON:
								bad = "codec"
							}
							if version == 2 && bad == "" {
								md := &protocol.Metadata{}
								_ = md.UnmarshalValues(f.md)
								if showMap(md.Values) != showMap(m.Values) {
									bad = "metadata"
								}
							}
							if bad != "" {
								e.fail(idx, fmt.Sprintf("decode_fields:v%d:%s", version, strings.ReplaceAll(bad, " ", "_")), fmt.Sprintf("decoded %s differs from the layout's value (type=%d verify=%d gzip=%d reserve=%d)", bad, typ, verify, gzip, reserve))
							}
							// the streaming decoder must report the same packet, wherever the ring wraps: 3 random geometries per frame,
							// and for one frame per version x type EVERY offset of an exactly-fitting ring
							geos := [][2]int{{len(frame) + rg.intn(4), -1}, {16, -1}, {64, -1}}
							if verify == 1 && gzip == 0 && reserve == 0 && k == 0 {
								for pre := 0; pre <= len(frame); pre++ {
									geos = append(geos, [2]int{len(frame), pre})
								}
							}
							for _, geo := range geos {
								capacity, pre := geo[0], geo[1]
								if pre < 0 {
									pre = rg.intn(capacity + 1)
								}
								var gzs []gzEntry
								if gzip == 1 {
									gzs = []gzEntry{gzEntryFor(f.body)}
								}
								sr := runStream(version, protocol.CodecJSON, capacity, pre, []int{len(frame)}, frame)
								line := fmt.Sprintf("stream v=%d codec=2 cap=%d pre=%d chunks=%d hex=%s%s", version, capacity, pre, len(frame), hexSpec(frame).String(), gztToken(gzs))
								i3 := e.op(line, sr.text, "decoder/stream", true)
								if len(sr.packets) != 1 || sr.packets[0] != showPacket(q) {
									e.fail(i3, fmt.Sprintf("decode_accepts_stream:v%d", version), fmt.Sprintf("streaming decode of a spec frame (cap=%d pre=%d) differs from the layout's values", capacity, pre))
								}
							}
							// … and however the frame arrives: in two pieces (two random cuts per frame; EVERY cut for the frames with metadata
							// or a trailer of the first test case per version x type) the streaming decoder waits for the whole frame
							cutsTwo := []int{}
							if len(frame) > 1 {
								cutsTwo = append(cutsTwo, 1+rg.intn(len(frame)-1), 1+rg.intn(len(frame)-1))
								if k == 0 && reserve == 0 && (verify == 1 || len(f.md) > 0) && len(frame) <= 600 {
									for c := 1; c < len(frame); c++ {
										cutsTwo = append(cutsTwo, c)
									}
								}
							}
							for _, c := range cutsTwo {
								var gzs []gzEntry
								if gzip == 1 {
									gzs = []gzEntry{gzEntryFor(f.body)}
								}
								chunks := []int{c, len(frame) - c}
								sr := runStream(version, protocol.CodecJSON, 32, 5, chunks, frame)
								line := fmt.Sprintf("stream v=%d codec=2 cap=%d pre=%d chunks=%s hex=%s%s", version, 32, 5, chunkList(chunks), hexSpec(frame).String(), gztToken(gzs))
								i3 := e.op(line, sr.text, "decoder/stream-two-pieces", true)
								if len(sr.packets) != 1 || sr.packets[0] != showPacket(q) {
									e.fail(i3, fmt.Sprintf("decode_accepts_stream:v%d", version), fmt.Sprintf("streaming decode of a spec frame of %d bytes fed in two pieces cut at %d differs from the layout's values", len(frame), c))
									break
								}
							}
							// every strict prefix of a valid frame is rejected by the one-shot decoder
							if tcase%7 == 0 || thorough {
								for cut := 0; cut < len(frame); cut++ {
									if !thorough && cut > 40 && cut < len(frame)-30 {
										continue
									}
									i2, r2, _ := unpackBytesOp(e, version, protocol.CodecJSON, frame[:cut], frameSpecOf(frame[:cut]), "decoder/prefix")
									if r2 != "err" {
										e.fail(i2, fmt.Sprintf("decode_rejects_prefix:v%d", version), fmt.Sprintf("prefix of %d/%d bytes: %s", cut, len(frame), r2[:min(80, len(r2))]))
									}
								}
							}
						}
					}
				}
			}
		}
	}
	// v2 metadata maps whose encoding lands on 65533..65538 bytes, the sorted-last pair being a big one: the frame must stay
	// self-consistent (its metadata_len field is the length of the block it carries, at most 65535, whole pairs only)
	for total := 65533; total <= 65538; total++ {
		p2 := &pkt{version: 2, typ: "push", cmd: 9, body: genBody(rg, 5)}
		fixed2 := len(encStr([]byte("a"))) + len(encStr([]byte("x"))) + len(encStr([]byte("m"))) + 2 + len(encStr([]byte("z"))) + 2
		rest2 := total - fixed2
		p2.pairs = [][2]item{{item{data: []byte("z")}, item{rep: true, b: 'Z', n: rest2 - rest2/2}}, {item{data: []byte("a")}, item{data: []byte("x")}},
			{item{data: []byte("m")}, item{rep: true, b: 'M', n: rest2 / 2}}}
		overBudgetCase(e, p2, total)
		// the sorted-last pair has a key / value of exactly 127 or 128 bytes (the two sides of the length-prefix boundary)
		for _, kl := range []int{127, 128} {
			for _, vl := range []int{127, 128, 3} {
				p3 := &pkt{version: 2, typ: "request", cmd: 9, rid: 3, body: genBody(rg, 4)}
				lastK := append([]byte("z"), bytes.Repeat([]byte("k"), kl-1)...)
				lastV := bytes.Repeat([]byte("w"), vl)
				lastSize := len(encStr(lastK)) + len(encStr(lastV))
				fixed3 := len(encStr([]byte("a"))) + 2 + len(encStr([]byte("m"))) + 2 + lastSize
				rest3 := total - fixed3
				p3.pairs = [][2]item{{item{data: lastK}, item{data: lastV}}, {item{data: []byte("a")}, item{rep: true, b: 'A', n: rest3 - rest3/2}}, {item{data: []byte("m")}, item{rep: true, b: 'M', n: rest3 / 2}}}
				overBudgetCase(e, p3, total)
			}
		}
	}
	// the decoder direction on ONE streaming context after a frame that was consumed whole and REJECTED (flagged gzip, body not a gzip
	// stream): the spec frames that follow are decoded to the layout's values — the rejected frame leaves nothing behind in the context
	// (an application that survives a bad frame keeps its connection context; the bundled client closes the connection, others need not)
	for _, version := range []int{1, 2} {
		for round := 0; round < 4; round++ {
			ctx := protocol.NewContext(context.Background(), protocol.ClientSide)
			ctx.Handshake(&protocol.Handshake{Version: uint8(version), Codec: protocol.CodecProtobuf, Platform: protocol.PlatformOpenapi})
			pr, _ := protocol.GetProtocol(uint8(version))
			bad := specEncode(version, specFrame{typ: 1 + round%3, cmd: 9, rid: uint32(round + 7), to: 3, st: 4, gzip: 1, body: append([]byte{0x1f, 0x8b, 8, 0, 0, 0, 0, 0, 0, 0xff}, bytes.Repeat([]byte("not deflate"), 1+round*9)...)})
			follow := []specFrame{{typ: 3, cmd: 50, body: []byte("after")}, {typ: 2, cmd: 51, rid: 0xa1b2c3d4, st: 200, body: bytes.Repeat([]byte{7}, 70)}, {typ: 1, cmd: 52, rid: 1, to: 0xfffe, body: nil}}
			res := guard(func() string {
				rb := ringbuffer.New(8)
				_, _ = rb.Write(bad)
				if round%2 == 1 { // in two pieces: the header is parked in between
					rb = ringbuffer.New(8)
					_, _ = rb.Write(bad[:3])
					_, _, _ = pr.Unpack(ctx, rb)
					_, _ = rb.Write(bad[3:])
				}
				if _, done, err := pr.Unpack(ctx, rb); err == nil {
					return fmt.Sprintf("the frame flagged gzip with a body that is no gzip stream was accepted (done=%v)", done)
				}
				for i, f := range follow {
					frame := specEncode(version, f)
					rb2 := ringbuffer.New(8)
					_, _ = rb2.Write(frame)
					pk, done, err := pr.Unpack(ctx, rb2)
					if err != nil || !done || pk == nil {
						return fmt.Sprintf("spec frame %d after the rejected one: done=%v err=%v (the layout assigns type=%d cmd=%d, %d body bytes)", i, done, err, f.typ, f.cmd, len(f.body))
					}
					if int(pk.Metadata.CmdCode) != f.cmd || !(bytes.Equal(pk.Body, f.body) || len(pk.Body)+len(f.body) == 0) || rb2.Length() != 0 ||
						(f.typ != 3 && pk.Metadata.RequestId != f.rid) || (f.typ == 2 && pk.Metadata.StatusCode != f.st) || (f.typ == 1 && pk.Metadata.Timeout != f.to) {
						return fmt.Sprintf("spec frame %d after the rejected one decodes to %s, left=%d (the layout assigns type=%d cmd=%d rid=%d, %d body bytes)", i, showPacket(pk), rb2.Length(), f.typ, f.cmd, f.rid, len(f.body))
					}
				}
				return "ok"
			})
			idx := e.op(fmt.Sprintf("gz.note after-rejected v=%d round=%d", version, round), "ok", "decoder/after-rejected", true)
			if res != "ok" {
				e.fail(idx, fmt.Sprintf("decode_accepts_stream:v%d", version), res)
			}
		}
	}
	// gzip-flagged spec frames whose CONTENT is as large as a body can be, and larger (the layout limits the body SECTION — the compressed
	// bytes — to 2^24-1; what they inflate to is not limited by it): the decoders must hand out the whole content. Evaluated on the code
	// only (the byte-list model is not asked for 16 MiB contents); both decoders, both versions
	for _, version := range []int{1, 2} {
		for _, n := range []int{1<<24 - 1, 1 << 24, 1<<24 + 4099} {
			content := bytes.Repeat([]byte{byte(n % 251), byte(version)}, (n+1)/2)[:n]
			f := specFrame{typ: 3, verify: 0, gzip: 1, cmd: 7, body: stdCompress(content)}
			frame := specEncode(version, f)
			idx := e.op(fmt.Sprintf("gz.note large-content v=%d n=%d", version, n), "ok", "decoder/large-content", true)
			ctx := protocol.NewContext(context.Background(), protocol.ClientSide)
			ctx.Handshake(&protocol.Handshake{Version: uint8(version), Codec: protocol.CodecProtobuf, Platform: protocol.PlatformOpenapi})
			pr, _ := protocol.GetProtocol(uint8(version))
			if pk, err := pr.UnpackBytes(ctx, frame); err != nil || pk == nil || !bytes.Equal(pk.Body, content) {
				l := -1
				if pk != nil {
					l = len(pk.Body)
				}
				e.fail(idx, fmt.Sprintf("decode_accepts:v%d", version), fmt.Sprintf("spec frame flagged gzip whose body section (%d bytes) inflates to %d bytes: UnpackBytes err=%v, body has %d bytes (the layout assigns all %d)", len(f.body), n, err, l, n))
			}
			rb := ringbuffer.New(len(frame) + 64)
			_, _ = rb.Write(frame)
			ctx2 := protocol.NewContext(context.Background(), protocol.ClientSide)
			ctx2.Handshake(&protocol.Handshake{Version: uint8(version), Codec: protocol.CodecProtobuf, Platform: protocol.PlatformOpenapi})
			if pk, done, err := pr.Unpack(ctx2, rb); err != nil || !done || pk == nil || !bytes.Equal(pk.Body, content) {
				l := -1
				if pk != nil {
					l = len(pk.Body)
				}
				e.fail(idx, fmt.Sprintf("decode_accepts_stream:v%d", version), fmt.Sprintf("spec frame flagged gzip whose body section (%d bytes) inflates to %d bytes: Unpack done=%v err=%v, body has %d bytes (the layout assigns all %d)", len(f.body), n, done, err, l, n))
			}
		}
	}
	return map[string]interface{}{}
}
