package main

// C08, model-scripted: recovery scripts drawn from the property's quantifier domain (per-attempt outcomes over
// {dial refused, dropped before answer, unauthenticated, other error status, silence, success}, session expired/unexpired,
// with/without token getter, MaxReconnect 0..3, several losses in a row). The scenario plays the script attempt by attempt
// (the recovery goroutine is parked at the `reconnect:attempt` yield point while the peer is configured for that attempt),
// records what the real client did as a sequence of observable actions, and emits the script as a `reconnect.run` line for the
// Lean model (`Reconnect.recover`); the check compares the model's action sequence with the observed one.

import (
	"fmt"
	"strings"
	"sync"
	"sync/atomic"
	"time"

	control "github.com/longportapp/openapi-protobufs/gen/go/control"
	"github.com/longportapp/openapi-protocol/go/verifhook"
	pb "google.golang.org/protobuf/proto"
)

type recAttempt struct {
	dial          bool
	first, second string // ok | unauth | other | silent | drop
	// expiry (relative to the moment of the answer) of the session granted by an "ok" answer
	grant time.Duration
}

type recLoss struct {
	kind     string // drop | close-packet | garbage
	attempts []recAttempt
}

type recScript struct {
	token   bool
	maxRec  int
	initial time.Duration // expiry of the session granted by the first authentication
	losses  []recLoss
}

// directed scripts: the combinations the property text names, so that the quick tier always plays them
var directedRecScripts = []recScript{
	// session rejected as unauthenticated, the fallback authentication fails too, the next attempt succeeds
	{token: true, maxRec: 0, initial: time.Hour, losses: []recLoss{{kind: "drop", attempts: []recAttempt{
		{dial: true, first: "unauth", second: "other", grant: time.Hour}, {dial: true, first: "ok", second: "ok", grant: time.Hour}}}}},
	// expired session: full authentication fails once (silence), then succeeds; a second loss resumes the new session
	{token: true, maxRec: 0, initial: 3 * time.Second, losses: []recLoss{{kind: "drop", attempts: []recAttempt{
		{dial: true, first: "silent", second: "ok", grant: time.Hour}, {dial: true, first: "ok", second: "ok", grant: time.Hour}}},
		{kind: "close-packet", attempts: []recAttempt{{dial: true, first: "ok", second: "ok", grant: time.Hour}}}}},
	// MaxReconnect 2: attempts whose dial succeeds but whose resume fails count against the budget (error status, then silence)
	{token: true, maxRec: 2, initial: time.Hour, losses: []recLoss{{kind: "drop", attempts: []recAttempt{
		{dial: true, first: "other", second: "ok", grant: time.Hour}, {dial: true, first: "silent", second: "ok", grant: time.Hour},
		{dial: true, first: "ok", second: "ok", grant: time.Hour}}}}},
	// MaxReconnect 3: refused dial, dropped before the answer, then unauthenticated with a successful fallback
	{token: true, maxRec: 3, initial: time.Hour, losses: []recLoss{{kind: "garbage", attempts: []recAttempt{
		{dial: false, first: "silent", second: "ok", grant: time.Hour}, {dial: true, first: "drop", second: "ok", grant: time.Hour},
		{dial: true, first: "unauth", second: "ok", grant: time.Hour}}}}},
	// no token getter: two losses, a refused dial in between
	{token: false, maxRec: 0, initial: time.Hour, losses: []recLoss{{kind: "drop", attempts: []recAttempt{{dial: true, first: "ok", second: "ok", grant: time.Hour}}},
		{kind: "drop", attempts: []recAttempt{{dial: false, first: "silent", second: "ok", grant: time.Hour}, {dial: true, first: "ok", second: "ok", grant: time.Hour}}}}},
	// unauthenticated twice in a row (fallback fails by a drop, then by an unauthenticated answer), then success
	{token: true, maxRec: 0, initial: time.Hour, losses: []recLoss{{kind: "drop", attempts: []recAttempt{
		{dial: true, first: "unauth", second: "drop", grant: time.Hour}, {dial: true, first: "unauth", second: "unauth", grant: time.Hour},
		{dial: true, first: "ok", second: "ok", grant: time.Hour}}}}},
}

func genRecScript(rg *rng) recScript {
	s := recScript{token: rg.intn(5) != 0, maxRec: rg.intn(4)}
	grants := []time.Duration{time.Hour, time.Hour, 25 * time.Second, 3 * time.Second}
	s.initial = grants[rg.intn(len(grants))]
	fails := []string{"refuse", "drop", "other", "silent", "unauth"}
	nLoss := 1 + rg.intn(2)
	budget := 4 // failing attempts cost a second each
	for l := 0; l < nLoss; l++ {
		loss := recLoss{kind: []string{"drop", "drop", "close-packet", "garbage"}[rg.intn(4)]}
		nf := rg.intn(3)
		if nf > budget {
			nf = budget
		}
		budget -= nf
		for i := 0; i < nf; i++ {
			a := recAttempt{dial: true, first: fails[rg.intn(len(fails))], second: []string{"other", "silent", "drop", "unauth"}[rg.intn(4)], grant: time.Hour}
			if a.first == "refuse" {
				a.dial = false
				a.first = "silent"
			}
			loss.attempts = append(loss.attempts, a)
		}
		last := recAttempt{dial: true, first: "ok", second: "ok", grant: grants[rg.intn(len(grants))]}
		if rg.intn(3) == 0 {
			last.first = "unauth"
		}
		loss.attempts = append(loss.attempts, last)
		s.losses = append(s.losses, loss)
	}
	return s
}

func modelReq(o string, exp int64) string {
	switch o {
	case "ok":
		return fmt.Sprintf("ok%d", exp)
	case "unauth":
		return "unauth"
	case "other":
		return "other"
	}
	return "none" // silent or dropped before the answer
}

func init() {
	for i := 0; i < 48; i++ {
		i := i
		register(&scenario{Name: fmt.Sprintf("c08/model-script-%02d", i), Props: []string{"C08", "C16", "C19"}, Quick: i < 12, TimeoutU: 1200, Run: func(t *T) {
			rg := &rng{s: t.Seed*7919 + uint64(i)*104729 + 17}
			sc := genRecScript(rg)
			if i < len(directedRecScripts) {
				sc = directedRecScripts[i]
			}
			p := newPeer(t, t.Transport, t.Version)
			defer p.Shutdown()
			var mu sync.Mutex
			sessions := map[string]int64{}   // session id -> absolute expiry (ms)
			perConn := map[int]*recAttempt{} // connection number -> the attempt it belongs to
			seenOn := map[int][]string{}     // connection number -> observable requests, in order
			var cur *recAttempt              // script of the attempt being played (for the next accepted connection)
			nSess := 0
			grant := func(d time.Duration) []byte {
				nSess++
				id := fmt.Sprintf("s%d", nSess)
				exp := time.Now().Add(d).UnixNano() / int64(time.Millisecond)
				sessions[id] = exp
				b, _ := pb.Marshal(&control.AuthResponse{SessionId: id, Expires: exp})
				return b
			}
			lastGrant := map[int]int64{} // connection -> expiry granted on it (model's `ok<exp>`)
			p.onConn = func(pc *peerConn) {
				mu.Lock()
				if pc.N >= 2 && cur != nil {
					perConn[pc.N] = cur
				}
				mu.Unlock()
			}
			answer := func(pc *peerConn, f frameIn, o string, d time.Duration) {
				switch o {
				case "ok":
					mu.Lock()
					b := grant(d)
					lastGrant[pc.N] = sessions[fmt.Sprintf("s%d", nSess)]
					mu.Unlock()
					pc.Send(respFrame(f, 0, b))
				case "unauth":
					// the rejection's body varies with the connection: a well-formed error message, plain text that is no error message in
					// the connection's codec, nothing at all — "rejected as unauthenticated" is the STATUS of the answer, whatever its body
					switch pc.N % 3 {
					case 0:
						pc.Send(respFrame(f, 5, errBody(401, "session invalid")))
					case 1:
						pc.Send(respFrame(f, 5, []byte("session not found")))
					default:
						pc.Send(respFrame(f, 5, nil))
					}
				case "other":
					pc.Send(respFrame(f, 7, errBody(7, "internal")))
				case "drop":
					pc.Drop()
				case "silent":
				}
			}
			p.onFrame = func(pc *peerConn, f frameIn) {
				if f.WsKind != "" && f.WsKind != "binary" {
					stdReply(pc, f)
					return
				}
				if f.Typ != 1 {
					return
				}
				if pc.N == 1 {
					switch f.Cmd {
					case 2:
						mu.Lock()
						b := grant(sc.initial)
						mu.Unlock()
						pc.Send(respFrame(f, 0, b))
					case 100:
						pc.Send(respFrame(f, 0, f.Body))
					}
					return
				}
				mu.Lock()
				a := perConn[pc.N]
				sawResume := false
				for _, s := range seenOn[pc.N] {
					if strings.HasPrefix(s, "rec:") {
						sawResume = true
					}
				}
				switch f.Cmd {
				case 2:
					seenOn[pc.N] = append(seenOn[pc.N], "auth")
				case 3:
					var r control.ReconnectRequest
					pb.Unmarshal(f.Body, &r)
					seenOn[pc.N] = append(seenOn[pc.N], fmt.Sprintf("rec:%d", sessions[r.GetSessionId()]))
				}
				mu.Unlock()
				switch f.Cmd {
				case 2, 3:
					if a == nil {
						answer(pc, f, "ok", time.Hour)
						return
					}
					o := a.first
					if f.Cmd == 2 && sawResume {
						o = a.second
					}
					answer(pc, f, o, a.grant)
				case 100:
					pc.Send(respFrame(f, 0, f.Body))
				}
			}
			cfg := defaultCfg()
			cfg.Token = sc.token
			cfg.MaxReconnect = sc.maxRec
			cfg.AuthTimeoutU = 4
			verifhook.Hold("reconnect:attempt")
			c, err := t.NewClient(p, cfg)
			if err != nil {
				t.Check("setup", false, "dial: %v", err)
				return
			}
			if r := t.Do(c, "before", 100, 6); r.Err != nil {
				t.Check("setup", false, "request before the loss: %v", r.Err)
				return
			}
			mu.Lock()
			sessStr := "none"
			if sc.token {
				sessStr = fmt.Sprint(sessions["s1"])
			}
			mu.Unlock()
			failedLogs := func() int {
				n := 0
				t.mu.Lock()
				for _, e := range t.events {
					if e.Kind == "log.error" && strings.HasPrefix(fmt.Sprint(e.F["msg"]), "reconnect failed") {
						n++
					}
				}
				t.mu.Unlock()
				return n
			}
			var lossLines, obsLines []string
			refusing := false
			ambiguous := false
			closedByMax := false
			parkedSeen := 0
			for li, loss := range sc.losses {
				if closedByMax {
					break
				}
				after0, close0 := atomic.LoadInt32(&t.afterRec), atomic.LoadInt32(&t.onClose)
				conns := p.Conns()
				live := conns[len(conns)-1]
				switch {
				case loss.kind == "close-packet" && live.ws != nil:
					live.WsControl(8, []byte{0x03, 0xe8})
				case loss.kind == "close-packet":
					live.Send(pushFrame(0, nil))
				case loss.kind == "garbage":
					live.SendRaw([]byte{0x0f, 0xee, 0x01, 0x02, 0x03, 0x04, 0x05, 0x06})
				default:
					live.Drop()
				}
				var envs, obs []string
				result := "pending"
				for ai := 0; result == "pending" && ai < 12; ai++ {
					// the next attempt parks at the gate, or the recovery ended
					parked := false
					for w := 0; w < 400; w++ {
						if verifhook.WaitParked("reconnect:attempt", 1, t.U(1)/2) {
							parked = true
							break
						}
						if atomic.LoadInt32(&t.afterRec) > after0 || atomic.LoadInt32(&t.onClose) > close0 {
							break
						}
					}
					if !parked {
						break
					}
					parkedSeen++
					a := recAttempt{dial: true, first: "ok", second: "ok", grant: time.Hour}
					if ai < len(loss.attempts) {
						a = loss.attempts[ai]
					}
					mu.Lock()
					cur = &a
					mu.Unlock()
					if refusing != !a.dial {
						refusing = !a.dial
						p.Refuse(refusing)
					}
					dials0, failed0 := p.Dials(), failedLogs()
					now := time.Now().UnixNano() / int64(time.Millisecond)
					mu.Lock()
					for _, e := range sessions {
						if d := e - (now + 10000); d > -700 && d < 700 {
							ambiguous = true // a decision within 0.7 s of the expiry margin: the wall clock decides, not the script
						}
					}
					mu.Unlock()
					verifhook.ReleaseOne("reconnect:attempt")
					// the attempt is over when the next one parks, or the callback / the close ran
					over := false
					for w := 0; w < 600 && !over; w++ {
						time.Sleep(t.U(1) / 4)
						switch {
						case atomic.LoadInt32(&t.afterRec) > after0:
							result, over = "success", true
						case atomic.LoadInt32(&t.onClose) > close0:
							result, over = "hitmax", true
						case failedLogs() > failed0:
							over = true
						}
					}
					time.Sleep(t.U(1)) // let the peer log the attempt's last frame
					dialled := p.Dials() > dials0
					var o []string
					expGrant := int64(0)
					if dialled {
						mu.Lock()
						n := p.Dials()
						o = append(o, "dial", "up")
						o = append(o, seenOn[n]...)
						expGrant = lastGrant[n]
						mu.Unlock()
					} else if result != "hitmax" {
						o = append(o, "dial")
					}
					switch result {
					case "success":
						o = append(o, "AFTER")
					case "hitmax":
						o = append(o, "HITMAX")
					default:
						o = append(o, "sleep")
					}
					obs = append(obs, o...)
					d := 0
					if a.dial {
						d = 1
					}
					// which granted expiry belongs to which answer: a fallback authentication's grant is the second answer's
					f1, f2 := modelReq(a.first, expGrant), modelReq(a.second, expGrant)
					envs = append(envs, fmt.Sprintf("%d,%d,%s,%s", now, d, f1, f2))
				}
				lossLines = append(lossLines, strings.Join(envs, ";"))
				obsLines = append(obsLines, fmt.Sprintf("[%s] %s", strings.Join(obs, " "), result))
				t.ev("recovery.loss", "index", li, "kind", loss.kind, "observed", obsLines[len(obsLines)-1])
				switch result {
				case "success":
					r := t.Do(c, fmt.Sprintf("after-%d", li), 100, 6)
					t.Check("serves_again", r.Err == nil, "request after the successful recovery of loss %d: %v", li+1, r.Err)
					t.Check("one_connection", p.Open() <= 1, "%d connections open at once after the recovery of loss %d", p.Open(), li+1)
				case "hitmax":
					closedByMax = true
				default:
					t.Check("recovery_ends", false, "loss %d: the recovery neither succeeded nor hit the maximum within the script (observed %v)", li+1, obs)
					closedByMax = true
				}
			}
			verifhook.Release("reconnect:attempt")
			if refusing {
				p.Refuse(false)
			}
			tok := 0
			if sc.token {
				tok = 1
			}
			line := fmt.Sprintf("reconnect.run max=%d token=%d session=%s count=0 losses=%s", sc.maxRec, tok, sessStr, strings.Join(lossLines, "|"))
			t.ev("model.reconnect", "line", line, "observed", strings.Join(obsLines, " | "), "ambiguous", ambiguous)
			// C19 at client level: every connection has its own context — the request ids seen on it are 1, 2, 3, … in issue order
			for _, pc := range p.Conns() {
				want := uint32(1)
				for _, f := range pc.Frames() {
					if f.Typ == 1 && (f.WsKind == "" || f.WsKind == "binary") {
						if f.Rid != want {
							t.Check("ids_from_one", false, "connection #%d: request ids do not count 1, 2, 3, … from the start of the connection: saw %d where %d was due", pc.N, f.Rid, want)
							break
						}
						want++
					}
				}
			}
			after := atomic.LoadInt32(&t.afterRec)
			succ := 0
			for _, o := range obsLines {
				if strings.HasSuffix(o, "success") {
					succ++
				}
			}
			t.Check("after_cb_only_on_success", int(after) == succ, "%d after-reconnect callbacks for %d successful recoveries", after, succ)
			if closedByMax {
				t.Check("hitmax_reported", atomic.LoadInt32(&t.onClose) == 1, "the recovery gave up: close callback ran %d times", atomic.LoadInt32(&t.onClose))
			} else {
				t.Check("hitmax_reported", atomic.LoadInt32(&t.onClose) == 0, "close callback ran although no recovery had hit the maximum")
			}
			c.Close(nil)
			t.Sleep(6)
			n, where := libGoroutines()
			t.Check("client_threads_exit", n == 0, "%d library goroutine(s) alive after the recovery history and Close: %s", n, where)
			t.Check("sockets_released", p.Open() == 0, "%d socket(s) still open at the peer after Close", p.Open())
		}})
	}
}
