module oapverif/harness

go 1.17

require (
	github.com/Allenxuxu/ringbuffer v0.0.11
	github.com/gorilla/websocket v1.5.0
	github.com/longportapp/openapi-protobufs/gen/go v0.4.0
	github.com/longportapp/openapi-protocol/go v0.0.0
	google.golang.org/protobuf v1.28.1
)

require github.com/pkg/errors v0.9.1 // indirect

replace github.com/longportapp/openapi-protocol/go => /repo/go
