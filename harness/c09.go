package main

import (
	"bufio"
	"bytes"
	"encoding/hex"
	"fmt"
	"github.com/Allenxuxu/ringbuffer"
	"os"
	"sort"
	"strings"

	protocol "github.com/longportapp/openapi-protocol/go"
)

func init() {
	codecGens["C09"] = genC09
	extraCommands["canon"] = cmdCanon
}

// ---- canonical rendering of a metadata map (lower-cased keys, sorted) ----

func showMap(m map[string]string) string {
	if len(m) == 0 {
		return "map=-"
	}
	ks := make([]string, 0, len(m))
	for k := range m {
		ks = append(ks, k)
	}
	sort.Strings(ks)
	parts := make([]string, 0, len(ks))
	for _, k := range ks {
		parts = append(parts, hex.EncodeToString([]byte(k))+":"+hex.EncodeToString([]byte(m[k])))
	}
	return "map=" + strings.Join(parts, ",")
}

// the comparator's half of key lower-casing: turns the model's `raw=k:v,…` (pairs in order of
// appearance) into the canonical `map=…` using the real strings.ToLower and later-wins insertion
func canonRaw(tok string) string {
	body := strings.TrimPrefix(tok, "raw=")
	m := map[string]string{}
	if body != "-" && body != "" {
		for _, kv := range strings.Split(body, ",") {
			p := strings.SplitN(kv, ":", 2)
			if len(p) != 2 {
				return tok
			}
			k, e1 := hex.DecodeString(p[0])
			v, e2 := hex.DecodeString(p[1])
			if e1 != nil || e2 != nil {
				return tok
			}
			m[strings.ToLower(string(k))] = string(v)
		}
	}
	return showMap(m)
}

func cmdCanon(args []string) int {
	in, _ := os.Open(args[0])
	out, _ := os.Create(args[1])
	defer in.Close()
	defer out.Close()
	sc := bufio.NewScanner(in)
	sc.Buffer(make([]byte, 1<<20), 1<<30)
	w := bufio.NewWriterSize(out, 1<<20)
	for sc.Scan() {
		line := sc.Text()
		if strings.Contains(line, "raw=") {
			toks := strings.Split(line, " ")
			for i, t := range toks {
				if strings.HasPrefix(t, "raw=") {
					toks[i] = canonRaw(t)
				}
			}
			line = strings.Join(toks, " ")
		}
		w.WriteString(line)
		w.WriteByte('\n')
	}
	w.Flush()
	return 0
}

// ---- generators ----

var strLens = []int{0, 1, 2, 3, 5, 16, 126, 127, 128, 129, 255, 256, 257, 1000, 16383, 16384, 32766, 32767}

type item struct {
	rep  bool
	b    byte
	n    int
	data []byte
}

func (it item) bytes() []byte {
	if it.rep {
		return bytes.Repeat([]byte{it.b}, it.n)
	}
	return it.data
}
func (it item) String() string {
	if it.rep {
		return fmt.Sprintf("r%dx%d", it.b, it.n)
	}
	return "h" + hex.EncodeToString(it.data)
}

func genItem(rg *rng, key bool, uniq int) item {
	switch rg.intn(10) {
	case 0, 1: // boundary length, repeated byte (keys made unique by the byte)
		n := rg.pick(strLens)
		if key && n == 0 && rg.intn(3) != 0 {
			n = 1
		}
		b := byte(rg.intn(256))
		if key {
			b = byte(uniq)
		}
		return item{rep: true, b: b, n: n}
	case 2: // over-long
		b := byte(rg.intn(256))
		if key {
			b = byte(uniq)
		}
		return item{rep: true, b: b, n: 32768 + rg.intn(3)}
	case 3: // arbitrary bytes incl. invalid UTF-8
		d := rg.bytes(1 + rg.intn(12))
		if key {
			d = append(d, byte('0'+uniq%10), byte('a'+uniq/10%26))
		}
		return item{data: d}
	case 4: // mixed-case ASCII / unicode
		pool := []string{"Key", "X-API-Key", "ÄÖü", "İ", "Content-Type", "AUTH", "ǅ", "a", "Z"}
		d := []byte(pool[rg.intn(len(pool))])
		if key {
			d = append(d, byte('0'+uniq%10), byte('A'+uniq/10%26))
		}
		return item{data: d}
	default:
		n := rg.intn(20)
		if key {
			n++
		}
		d := make([]byte, n)
		for i := range d {
			d[i] = "abcdefghijklmnopqrstuvwxyzABCXYZ-_09"[rg.intn(36)]
		}
		if key {
			d = append(d, byte('0'+uniq%10), byte('a'+uniq/10%26))
		}
		return item{data: d}
	}
}

func encStr(s []byte) []byte {
	n := len(s)
	if n <= 127 {
		return append([]byte{byte(n)}, s...)
	}
	return append([]byte{byte(n>>8) | 0x80, byte(n)}, s...)
}

func decodeRes(data []byte) (string, map[string]string) {
	var m map[string]string
	res := guard(func() string {
		md := &protocol.Metadata{}
		if err := md.UnmarshalValues(data); err != nil {
			return "err"
		}
		m = md.Values
		return "ok " + showMap(md.Values)
	})
	return res, m
}

func genC09(e *emitter, tier string, seed uint64) map[string]interface{} {
	rg := &rng{seed ^ 0x09}
	thorough := tier == "thorough"

	// 1. marshalString on every length (thorough) / boundary set + random (quick)
	lens := map[int]bool{}
	for _, n := range strLens {
		lens[n] = true
	}
	for _, n := range []int{32768, 32769, 40000, 65535, 65536, 70000} {
		lens[n] = true
	}
	if thorough {
		for n := 0; n <= 32768; n++ {
			lens[n] = true
		}
	} else {
		for i := 0; i < 500; i++ {
			lens[rg.intn(32769)] = true
		}
	}
	ls := []int{}
	for n := range lens {
		ls = append(ls, n)
	}
	sort.Ints(ls)
	for _, n := range ls {
		b := byte(rg.intn(256))
		out, tooLong := protocol.VerifMarshalString(string(bytes.Repeat([]byte{b}, n)))
		res := "toolong"
		if !tooLong {
			res = "ok " + showBytes(out)
		}
		idx := e.op(fmt.Sprintf("md.str rep=%d n=%d", b, n), res, "marshalString", true)
		if tooLong != (n > 32767) {
			e.fail(idx, "strlen_toolong_iff", fmt.Sprintf("len=%d tooLong=%v", n, tooLong))
		}
		if !tooLong {
			l, bits, err := protocol.VerifUnmarshalStringLength(out)
			wantBits, pre := uint8(0), 1
			if n > 127 {
				wantBits, pre = 128, 2
			}
			if err != nil || l != n || bits != wantBits || len(out) != n+pre {
				e.fail(idx, "strlen_roundtrip", fmt.Sprintf("len=%d decoded l=%d bits=%d err=%v outlen=%d", n, l, bits, err, len(out)))
			}
		}
	}

	// 2. unmarshalStringLength on all 2^16 two-byte prefixes, all one-byte inputs, empty
	strlen := func(data []byte, class string) {
		var l int
		var bits uint8
		var err error
		res := guard(func() string {
			l, bits, err = protocol.VerifUnmarshalStringLength(data)
			if err != nil {
				return "err"
			}
			return fmt.Sprintf("ok %d %d", l, bits)
		})
		idx := e.op("md.strlen hex=hex:"+hex.EncodeToString(data), res, class, true)
		if res == "panic" {
			e.fail(idx, "strlen_total", "panic")
		}
		if len(data) >= 2 && data[0] >= 128 {
			v := int(data[0]&0x7f)<<8 | int(data[1])
			if (v <= 127) != (res == "err") {
				e.fail(idx, "strlen_canonical", fmt.Sprintf("two-byte prefix value %d: %s", v, res))
			}
			if res != "err" && (l != v || bits != 128) {
				e.fail(idx, "strlen_value", fmt.Sprintf("two-byte prefix value %d: %s", v, res))
			}
		}
		if len(data) >= 1 && data[0] < 128 && res != fmt.Sprintf("ok %d 0", data[0]) {
			e.fail(idx, "strlen_value", fmt.Sprintf("one-byte prefix %d: %s", data[0], res))
		}
	}
	strlen(nil, "strlen-empty")
	for a := 0; a < 256; a++ {
		strlen([]byte{byte(a)}, "strlen-1byte")
	}
	for a := 0; a < 256; a++ {
		for b := 0; b < 256; b++ {
			strlen([]byte{byte(a), byte(b)}, "strlen-2byte")
		}
	}

	// 3. UnmarshalValues
	decode := func(data []byte, class string) (int, string, map[string]string) {
		res, m := decodeRes(data)
		idx := e.op("md.decode hex=hex:"+hex.EncodeToString(data), res, class, len(data) > 0)
		if res == "panic" {
			e.fail(idx, "decode_total", "UnmarshalValues panicked")
		}
		return idx, res, m
	}
	decode(nil, "decode-empty")
	// 3a. canonical encodings of generated maps, every truncation point of small ones
	nMaps := 150
	if thorough {
		nMaps = 1500
	}
	for i := 0; i < nMaps; i++ {
		np := rg.intn(6)
		var block []byte
		want := map[string]string{}
		bounds := map[int]bool{0: true}
		ok := true
		for j := 0; j < np; j++ {
			k, v := genItem(rg, true, j).bytes(), genItem(rg, false, j).bytes()
			if len(k) > 32767 || len(v) > 32767 {
				continue
			}
			if len(block)+len(k)+len(v)+4 > 70000 {
				continue
			}
			block = append(block, encStr(k)...)
			block = append(block, encStr(v)...)
			want[strings.ToLower(string(k))] = string(v)
			bounds[len(block)] = true
		}
		idx, res, m := decode(block, "decode-canonical")
		if len(block) == 1 {
			ok = false // a 1-byte block is rejected by the len<2 guard (e.g. key "" + val "" cannot happen: 2 bytes)
		}
		if ok && (res == "err" || res == "panic") {
			e.fail(idx, "decode_complete", "canonical block rejected: "+res)
		} else if ok && showMap(m) != showMap(want) {
			e.fail(idx, "roundtrip", fmt.Sprintf("decoded %s want %s", showMap(m), showMap(want)))
		}
		// truncations: every strict prefix not on a pair boundary must be rejected
		if len(block) <= 600 || (thorough && len(block) <= 3000) {
			for cut := 1; cut < len(block); cut++ {
				i2, r2, _ := decode(block[:cut], "decode-truncated")
				if !bounds[cut] && r2 != "err" {
					e.fail(i2, "decode_rejects_truncated", fmt.Sprintf("prefix of %d/%d bytes accepted: %s", cut, len(block), r2))
				}
			}
		} else {
			for _, cut := range []int{1, 2, 3, len(block) / 2, len(block) - 2, len(block) - 1} {
				if cut > 0 && cut < len(block) {
					i2, r2, _ := decode(block[:cut], "decode-truncated")
					if !bounds[cut] && r2 != "err" {
						e.fail(i2, "decode_rejects_truncated", fmt.Sprintf("prefix of %d/%d bytes accepted: %s", cut, len(block), r2))
					}
				}
			}
		}
	}
	// 3b. every two-byte prefix class followed by enough / not enough payload
	step := 257
	if thorough {
		step = 1
	}
	for v := 0; v < 65536; v += step {
		a, b := byte(v>>8), byte(v)
		var sl int
		if a < 128 {
			sl = int(a)
		} else {
			sl = int(a&0x7f)<<8 | int(b)
		}
		pre := 1
		if a >= 128 {
			pre = 2
		}
		// key with this prefix, exactly enough payload, then value "" -> accepted iff canonical
		blk := []byte{a}
		if pre == 2 {
			blk = append(blk, b)
		}
		blk = append(blk, bytes.Repeat([]byte{'k'}, sl)...)
		if len(blk) < pre+sl {
			continue
		}
		full := append(append([]byte{}, blk...), 0)
		idx, res, _ := decode(full, "decode-prefix-enough")
		canonical := a < 128 || sl > 127
		if canonical != strings.HasPrefix(res, "ok") {
			e.fail(idx, "decode_canonical", fmt.Sprintf("prefix %02x%02x (len %d): %s", a, b, sl, res))
		}
		if sl > 0 {
			idx, res, _ = decode(blk[:len(blk)-1], "decode-prefix-short")
			if res != "err" {
				e.fail(idx, "decode_rejects_truncated", fmt.Sprintf("prefix %02x%02x with %d of %d payload bytes: %s", a, b, sl-1, sl, res))
			}
		}
		// dangling key (no value)
		idx, res, _ = decode(blk, "decode-dangling-key")
		if len(blk) >= 1 && res != "err" {
			e.fail(idx, "decode_rejects_truncated", "dangling key accepted: "+res)
		}
	}
	// 3c. malformed: random bytes and mutated canonical blocks
	nMal := 3000
	if thorough {
		nMal = 40000
	}
	for i := 0; i < nMal; i++ {
		var data []byte
		if i%2 == 0 {
			data = rg.bytes(rg.intn(40))
		} else {
			np := 1 + rg.intn(3)
			for j := 0; j < np; j++ {
				data = append(data, encStr(rg.bytes(rg.intn(6)))...)
				data = append(data, encStr(rg.bytes(rg.intn(200)))...)
			}
			for m := 0; m <= rg.intn(3); m++ {
				if len(data) > 0 {
					data[rg.intn(len(data))] = byte(rg.intn(256))
				}
			}
			if rg.intn(4) == 0 {
				data = data[:rg.intn(len(data)+1)]
			}
		}
		decode(data, "decode-malformed")
	}

	// 4. MarshalValues on generated maps x budgets; determinism; budget; whole pairs
	nEnc := 250
	if thorough {
		nEnc = 3000
	}
	var prevBlock, prevCopy []byte
	for i := 0; i < nEnc; i++ {
		np := rg.intn(9)
		if rg.intn(10) == 0 {
			np = 10 + rg.intn(31)
		}
		type kv struct{ k, v item }
		var pairs []kv
		m := map[string]string{}
		sizes := []int{}
		caseFamily := rg.intn(6) == 0 // keys that differ only in letter case (a map filled directly, not through Set): the block must still be a function of the map
		var stem []byte
		if caseFamily {
			stem = []byte("KeY-" + string(rune('a'+rg.intn(26))) + string(rune('A'+rg.intn(26))))
			if np < 2 {
				np = 2 + rg.intn(3)
			}
		}
		for j := 0; j < np; j++ {
			p := kv{genItem(rg, true, j), genItem(rg, false, j)}
			if rg.intn(25) == 0 {
				p.k = item{data: []byte{}} // empty key
			}
			if caseFamily && j < 4 {
				k := append([]byte{}, stem...)
				for x := range k {
					if (j>>uint(x%2))&1 == 1 && x < 3 {
						if k[x] >= 'a' && k[x] <= 'z' {
							k[x] -= 32
						} else if k[x] >= 'A' && k[x] <= 'Z' {
							k[x] += 32
						}
					}
				}
				p.k = item{data: k}
			}
			ks := string(p.k.bytes())
			if _, dup := m[ks]; dup {
				continue
			}
			m[ks] = string(p.v.bytes())
			pairs = append(pairs, p)
		}
		// cumulative sizes of the valid pairs in sorted order -> budgets around every cut
		ks := make([]string, 0, len(m))
		for k := range m {
			ks = append(ks, k)
		}
		sort.Strings(ks)
		cum := 0
		for _, k := range ks {
			if k == "" || len(k) > 32767 || len(m[k]) > 32767 {
				continue
			}
			cum += len(encStr([]byte(k))) + len(encStr([]byte(m[k])))
			sizes = append(sizes, cum)
		}
		budgets := []int{65535, 0}
		for _, s := range sizes {
			budgets = append(budgets, s-1, s, s+1)
		}
		budgets = append(budgets, rg.intn(65536), rg.intn(300), -1)
		if len(budgets) > 14 && !thorough {
			budgets = append(budgets[:8], budgets[len(budgets)-6:]...)
		}
		items := make([]string, len(pairs))
		for j, p := range pairs {
			items[j] = p.k.String() + ":" + p.v.String()
		}
		ps := strings.Join(items, ",")
		if ps == "" {
			ps = "-"
		}
		for _, max := range budgets {
			md := &protocol.Metadata{Values: m}
			out := md.MarshalValues(max)
			idx := e.op(fmt.Sprintf("md.encode.map max=%d pairs=%s", max, ps), showBytes(out), "encode-map", len(pairs) > 0)
			// a block returned earlier is the caller's: encoding another map must not change it
			if prevBlock != nil && !bytes.Equal(prevBlock, prevCopy) {
				e.fail(idx, "deterministic", fmt.Sprintf("a block of %d bytes returned by an earlier MarshalValues changed when the next map was encoded (it shares memory with a reused buffer)", len(prevCopy)))
				prevBlock = nil
			} else if len(out) > 0 {
				prevBlock, prevCopy = out, append([]byte{}, out...)
			}
			// determinism: 8 encodings of the same map, and of a re-inserted copy, are byte-identical
			for rep := 0; rep < 8; rep++ {
				m2 := make(map[string]string, len(m))
				for j := range pairs {
					p := pairs[(j+rep*3)%len(pairs)]
					m2[string(p.k.bytes())] = string(p.v.bytes())
				}
				o2 := (&protocol.Metadata{Values: m2}).MarshalValues(max)
				if !bytes.Equal(o2, out) {
					e.fail(idx, "deterministic", fmt.Sprintf("two encodings of one map differ (budget %d, %d pairs): %s vs %s", max, len(pairs), showBytes(out), showBytes(o2)))
					break
				}
			}
			if max >= 0 && len(out) > max {
				e.fail(idx, "budget", fmt.Sprintf("block of %d bytes exceeds budget %d", len(out), max))
			}
			// whole pairs: the block decodes, every decoded pair is an input pair, sizes add up
			res, dm := decodeRes(out)
			if len(out) > 0 && !strings.HasPrefix(res, "ok") {
				e.fail(idx, "whole_pairs", "block does not decode: "+res)
			} else if len(out) > 0 {
				lowered := map[string][]string{}
				collide := false
				for k, v := range m {
					lk := strings.ToLower(k)
					if _, ok := lowered[lk]; ok {
						collide = true
					}
					lowered[lk] = append(lowered[lk], v)
				}
				total := 0
				for k, v := range dm {
					found := false
					for _, cand := range lowered[k] {
						if cand == v {
							found = true
						}
					}
					if !found {
						e.fail(idx, "whole_pairs", fmt.Sprintf("decoded pair %x is not a pair of the input", k))
					}
					if !collide {
						// size of the original (un-lowered) key equals the lowered one only for ASCII; recompute from input
						for ok2, ov := range m {
							if strings.ToLower(ok2) == k && ov == v {
								total += len(encStr([]byte(ok2))) + len(encStr([]byte(ov)))
								break
							}
						}
					}
				}
				if !collide && total != len(out) {
					e.fail(idx, "whole_pairs", fmt.Sprintf("block length %d is not the sum of its whole pairs (%d)", len(out), total))
				}
				// everything valid fits -> full round trip
				allValid := true
				for k, v := range m {
					if k == "" || len(k) > 32767 || len(v) > 32767 {
						allValid = false
					}
				}
				if allValid && !collide && cum <= max {
					want := map[string]string{}
					for k, v := range m {
						want[strings.ToLower(k)] = v
					}
					if showMap(dm) != showMap(want) {
						e.fail(idx, "roundtrip", "decode(encode(map)) differs from the lower-cased map")
					}
				}
			}
			// entries that must be omitted entirely
			if len(out) > 0 && dm != nil {
				if _, ok := dm[""]; ok {
					e.fail(idx, "whole_pairs", "empty key present in the block")
				}
			}
		}
	}

	// 5. Set guards
	for _, kl := range []int{0, 1, 127, 128, 32766, 32767, 32768, 40000} {
		for _, vl := range []int{0, 1, 127, 128, 32767, 32768, 65536} {
			md := &protocol.Metadata{Values: map[string]string{}}
			k, v := strings.Repeat("a", kl), strings.Repeat("b", vl)
			err := md.Set(k, v)
			res := "ok"
			if err != nil {
				res = "err"
			}
			idx := e.op(fmt.Sprintf("md.set klen=%d vlen=%d", kl, vl), res, "set", true)
			if (err == nil) != (kl <= 32767 && vl <= 32767) {
				e.fail(idx, "set_guard", fmt.Sprintf("Set with key %d / value %d bytes: %s", kl, vl, res))
			}
			if err == nil && md.Get(strings.ToUpper(k)) != v {
				e.fail(idx, "set_get", "Get after Set does not return the value")
			}
			if err != nil && len(md.Values) != 0 {
				e.fail(idx, "set_guard", "refused Set modified the map")
			}
			// the same through every entry point that stores a pair: Packet.SetMetadata and Packet.SetMetadataPairs
			for ei, entry := range []string{"SetMetadata", "SetMetadataPairs"} {
				pk := protocol.Packet{Metadata: &protocol.Metadata{Values: map[string]string{"keep": "old"}}}
				if ei == 0 {
					pk.SetMetadata(k, v)
					pk.SetMetadata("keep", v)
				} else {
					pk.SetMetadataPairs(protocol.KVPair{Key: k, Val: v}, protocol.KVPair{Key: "keep", Val: v})
				}
				legal := kl <= 32767 && vl <= 32767
				got, present := pk.Metadata.Values[strings.ToLower(k)]
				stored := present && got == v
				if !legal && present {
					e.fail(idx, "set_guard", fmt.Sprintf("Packet.%s stored a pair with key %d / value %d bytes that Metadata.Set refuses", entry, kl, vl))
				}
				if legal && !stored {
					e.fail(idx, "set_get", fmt.Sprintf("Packet.%s did not store a legal pair (key %d / value %d bytes)", entry, kl, vl))
				}
				if vl > 32767 && pk.Metadata.Values["keep"] != "old" {
					e.fail(idx, "set_guard", fmt.Sprintf("Packet.%s replaced a valid pair by an over-long value (%d bytes)", entry, vl))
				}
			}
		}
	}
	// 6. ONE Metadata value over a history: decoded from a block (upper-case and duplicate keys included) or built with Set, then edited the
	// way applications edit an exported map — index assignment, delete, add, the map replaced, Set — and encoded after every step: the block
	// is a function of the CURRENT map and the budget, whatever the value encoded or decoded before (no remembered block, no cached sizes)
	nHist := 60
	if thorough {
		nHist = 600
	}
	for i := 0; i < nHist; i++ {
		md := &protocol.Metadata{Values: map[string]string{}}
		start := "set"
		if i%2 == 0 {
			start = "decoded"
			var blk []byte
			for j, n := 0, 1+rg.intn(5); j < n; j++ {
				k := []byte(fmt.Sprintf("%s-%d", []string{"Key", "key", "KEY", "authorization", "X-Hop"}[rg.intn(5)], rg.intn(3)))
				blk = append(blk, encStr(k)...)
				blk = append(blk, encStr(rg.bytes(rg.pick([]int{0, 1, 5, 130})))...)
			}
			if err := md.UnmarshalValues(blk); err != nil {
				continue
			}
		} else {
			for j, n := 0, rg.intn(5); j < n; j++ {
				_ = md.Set(fmt.Sprintf("k%d", rg.intn(6)), string(rg.bytes(rg.pick([]int{0, 2, 9}))))
			}
		}
		_ = md.MarshalValues(65535) // an encoding before the edits (what a cache would remember)
		steps := []string{}
		for st := 0; st < 6; st++ {
			keys := make([]string, 0, len(md.Values))
			for k := range md.Values {
				keys = append(keys, k)
			}
			sort.Strings(keys)
			if md.Values == nil {
				md.Values = map[string]string{}
			}
			switch op := rg.intn(6); {
			case op == 0 && len(keys) > 0: // overwrite in place, same length
				k := keys[rg.intn(len(keys))]
				md.Values[k] = string(bytes.Repeat([]byte{byte('a' + st)}, len(md.Values[k])))
				steps = append(steps, "overwrite-same-length")
			case op == 1 && len(keys) > 0: // overwrite in place, other length
				md.Values[keys[rg.intn(len(keys))]] = string(rg.bytes(1 + rg.intn(40)))
				steps = append(steps, "overwrite")
			case op == 2 && len(keys) > 0: // delete one, add one (the number of pairs stays)
				delete(md.Values, keys[rg.intn(len(keys))])
				md.Values[fmt.Sprintf("new-%d", st)] = "n"
				steps = append(steps, "delete+add")
			case op == 3:
				md.Values[fmt.Sprintf("hop-%d", st)] = string(rg.bytes(rg.intn(6)))
				steps = append(steps, "add")
			case op == 4: // the map replaced by a copy with one more pair
				nm := map[string]string{fmt.Sprintf("r%d", st): "replaced"}
				for k, v := range md.Values {
					nm[k] = v
				}
				md.Values = nm
				steps = append(steps, "replace-map")
			default:
				_ = md.Set(fmt.Sprintf("S%d", rg.intn(4)), string(rg.bytes(rg.intn(12))))
				steps = append(steps, "Set")
			}
			for _, max := range []int{65535, 40, len(md.MarshalValues(65535))} {
				got := md.MarshalValues(max)
				cp := make(map[string]string, len(md.Values))
				for k, v := range md.Values {
					cp[k] = v
				}
				want := (&protocol.Metadata{Values: cp}).MarshalValues(max)
				if !bytes.Equal(got, want) {
					idx := e.op(fmt.Sprintf("gz.note md-history start=%s steps=%s max=%d", start, strings.Join(steps, "+"), max), "ok", "history", true)
					e.fail(idx, "deterministic", fmt.Sprintf("a Metadata value (%s, then %s) encodes its current map (%s) with budget %d as %s; a fresh value holding the same map gives %s", start, strings.Join(steps, ", "), showMap(md.Values), max, showBytes(got), showBytes(want)))
					st = 99
					break
				}
			}
		}
	}
	e.op("gz.note md-histories", "ok", "history", true)
	// 7. the budget a v2 frame really gets: blocks of exactly 65535, 65536 and 65537 bytes through the real Pack and back. The length field of the
	// frame has 16 bits; the budget Pack hands to the encoder must fit it, so that a block that does not fit loses whole pairs — never its length
	for _, total := range []int{65534, 65535, 65536, 65537} {
		for _, npairs := range []int{2, 16} {
			// npairs pairs, one-byte keys, values >= 128 bytes: a pair takes 2 + 2 + len(v) bytes
			per := (total - 4*npairs) / npairs
			vals := map[string]string{}
			rest := total - 4*npairs
			for j := 0; j < npairs; j++ {
				n := per
				if j == npairs-1 {
					n = rest
				}
				rest -= n
				vals[string(rune('a'+j))] = string(bytes.Repeat([]byte{byte('A' + j)}, n))
			}
			ctx := newCtx(2, protocol.CodecProtobuf)
			pkv, err := protocol.NewPush(ctx, 77, []byte("body"))
			if err != nil {
				continue
			}
			pkv.Metadata.Values = vals
			want := map[string]string{}
			{
				m := &protocol.Metadata{}
				_ = m.UnmarshalValues((&protocol.Metadata{Values: vals}).MarshalValues(65535))
				want = m.Values
			}
			frame, perr := proto(2).Pack(ctx, &pkv)
			idx := e.op(fmt.Sprintf("gz.note v2-budget total=%d pairs=%d", total, npairs), "ok", "v2-budget", true)
			if perr != nil {
				e.fail(idx, "budget", fmt.Sprintf("v2 Pack of a packet whose metadata encodes to %d bytes failed: %v", total, perr))
				continue
			}
			dec, derr := proto(2).UnpackBytes(newCtx(2, protocol.CodecProtobuf), frame)
			if derr != nil || dec == nil || !bytes.Equal(dec.Body, []byte("body")) || showMap(dec.Metadata.Values) != showMap(want) {
				got := "-"
				if dec != nil {
					got = fmt.Sprintf("%d pairs, body %q", len(dec.Metadata.Values), dec.Body)
				}
				e.fail(idx, "budget", fmt.Sprintf("a v2 packet whose %d metadata pairs encode to %d bytes: the frame decodes to %s (err=%v); the pairs that fit 65535 bytes are %d and the body is \"body\"", npairs, total, got, derr, len(want)))
			}
		}
	}
	// 8. the block on its way through the STREAMING decoder of a connection: metadata blocks of 250 / 300 / 4000 bytes (the second and third
	// need both bytes of metadata_len) in frames that start 0..16 bytes before the physical end of the ring buffer — the map that comes out is
	// the map that went in, wherever the header's fields fall
	for _, vl := range []int{250, 300, 4000} {
		vals := map[string]string{"k": string(bytes.Repeat([]byte{'v'}, vl)), "second": "x"}
		pkv, err := protocol.NewPush(newCtx(2, protocol.CodecProtobuf), 77, []byte("body"))
		if err != nil {
			continue
		}
		pkv.Metadata.Values = vals
		frame, perr := proto(2).Pack(newCtx(2, protocol.CodecProtobuf), &pkv)
		if perr != nil {
			continue
		}
		c := len(frame) + 2
		for back := 0; back <= 16; back++ {
			res := guard(func() string {
				rb := ringbuffer.New(c)
				pre := c - back
				_, _ = rb.Write(make([]byte, pre))
				_, _ = rb.Read(make([]byte, pre)) // moves the read and write offsets to `pre` (Retrieve would rewind an emptied ring)
				_, _ = rb.Write(frame)
				pk, done, err := proto(2).Unpack(newCtx(2, protocol.CodecProtobuf), rb)
				if err != nil || !done || pk == nil {
					return fmt.Sprintf("done=%v err=%v", done, err)
				}
				if showMap(pk.Metadata.Values) != showMap(vals) || !bytes.Equal(pk.Body, []byte("body")) {
					return fmt.Sprintf("decoded %d pairs, body %q", len(pk.Metadata.Values), pk.Body)
				}
				return "ok"
			})
			idx := e.op(fmt.Sprintf("gz.note md-stream vl=%d back=%d", vl, back), "ok", "stream-wrap", true)
			if res != "ok" {
				e.fail(idx, "roundtrip", fmt.Sprintf("a v2 frame whose metadata block has a %d-byte value, starting %d bytes before the end of the ring buffer, through the streaming decoder: %s (want the 2 pairs and the body that were packed)", vl, back, res))
			}
		}
	}
	return map[string]interface{}{"exhaustive_subdomains": "all 2^16 two-byte length prefixes; thorough: every string length 0..32768"}
}
