package main

// Scripted peers (TCP and WebSocket) for the client scenarios. Frames are parsed and built with the
// independent layout code of frames.go (specEncode / bodySection), not with the repository's codec.

import (
	"encoding/binary"
	"fmt"
	"net"
	"net/http"
	"os"
	"strings"
	"sync"
	"sync/atomic"
	"syscall"
	"time"

	"github.com/gorilla/websocket"
)

type frameIn struct {
	Conn   int
	Typ    int
	Verify int
	Gzip   int
	Cmd    int
	Rid    uint32
	To     uint16
	St     uint8
	Md     []byte
	Body   []byte
	Raw    []byte
	At     time.Time
	WsKind string // "", "ping", "pong", "close" for WebSocket control frames
}

type peerConn struct {
	p      *Peer
	N      int
	c      net.Conn
	ws     *websocket.Conn
	wmu    sync.Mutex
	mu     sync.Mutex
	raw    []byte // every byte received (TCP)
	frames []frameIn
	ended  int32
	hs     []byte
	stall  int32
}

type Peer struct {
	T           *T
	transport   string
	version     int
	addr        string
	ln          net.Listener
	srv         *http.Server
	mu          sync.Mutex
	conns       []*peerConn
	dials       int32
	open        int32
	refuse      int32
	onFrame     func(pc *peerConn, f frameIn)
	onConn      func(pc *peerConn)
	onAccept    func(pc *peerConn) // TCP: right after accept, before the handshake bytes are read
	slowUpgrade func(n int)        // WebSocket: called before the HTTP upgrade of dial n (may block: a slow dial)
	holdFd      int                // while refusing: a bound, non-listening socket that keeps the port (no other process can take it)
}

func newPeer(t *T, transport string, version int) *Peer {
	p := &Peer{T: t, transport: transport, version: version}
	ln, err := net.Listen("tcp", "127.0.0.1:0")
	if err != nil {
		panic(err)
	}
	p.addr = ln.Addr().String()
	p.listen(ln)
	return p
}

func (p *Peer) URL() string {
	if p.transport == "ws" {
		return "ws://" + p.addr + "/"
	}
	return "tcp://" + p.addr
}

func (p *Peer) listen(ln net.Listener) {
	p.ln = ln
	if p.transport == "ws" {
		up := websocket.Upgrader{CheckOrigin: func(*http.Request) bool { return true }}
		mux := http.NewServeMux()
		mux.HandleFunc("/", func(w http.ResponseWriter, r *http.Request) {
			n := int(atomic.AddInt32(&p.dials, 1))
			if p.slowUpgrade != nil {
				p.T.ev("peer.upgrade_pending", "dial", n)
				p.slowUpgrade(n)
			}
			ws, err := up.Upgrade(w, r, nil)
			if err != nil {
				return
			}
			pc := &peerConn{p: p, N: n, ws: ws, hs: []byte(r.URL.RawQuery)}
			p.accept(pc)
			p.serveWS(pc)
		})
		p.srv = &http.Server{Handler: mux}
		go p.srv.Serve(ln)
		return
	}
	go func() {
		for {
			c, err := ln.Accept()
			if err != nil {
				return
			}
			n := int(atomic.AddInt32(&p.dials, 1))
			pc := &peerConn{p: p, N: n, c: c}
			p.accept(pc)
			if p.onAccept != nil {
				p.onAccept(pc)
			}
			go p.serveTCP(pc)
		}
	}()
}

// Refuse(true): stop listening so that dials fail; Refuse(false): listen again on the same address
func (p *Peer) Refuse(on bool) {
	if on {
		atomic.StoreInt32(&p.refuse, 1)
		if p.srv != nil {
			p.srv.Close()
		}
		p.ln.Close()
		p.holdPort()
		return
	}
	atomic.StoreInt32(&p.refuse, 0)
	if p.holdFd > 0 {
		syscall.Close(p.holdFd)
		p.holdFd = 0
	}
	for i := 0; i < 50; i++ {
		ln, err := net.Listen("tcp", p.addr)
		if err == nil {
			p.listen(ln)
			return
		}
		time.Sleep(10 * time.Millisecond)
	}
	panic("cannot listen again on " + p.addr)
}

// holdPort binds (without listening) a socket to the peer's address: connects are refused, the port stays ours
func (p *Peer) holdPort() {
	addr, err := net.ResolveTCPAddr("tcp", p.addr)
	if err != nil {
		return
	}
	for i := 0; i < 50; i++ {
		fd, err := syscall.Socket(syscall.AF_INET, syscall.SOCK_STREAM, 0)
		if err != nil {
			return
		}
		syscall.SetsockoptInt(fd, syscall.SOL_SOCKET, syscall.SO_REUSEADDR, 1)
		sa := &syscall.SockaddrInet4{Port: addr.Port}
		copy(sa.Addr[:], addr.IP.To4())
		if err := syscall.Bind(fd, sa); err == nil {
			p.holdFd = fd
			return
		}
		syscall.Close(fd)
		time.Sleep(2 * time.Millisecond)
	}
}

func (p *Peer) accept(pc *peerConn) {
	atomic.AddInt32(&p.open, 1)
	p.mu.Lock()
	p.conns = append(p.conns, pc)
	p.mu.Unlock()
	p.T.ev("peer.conn", "conn", pc.N)
}

func (p *Peer) Conns() []*peerConn {
	p.mu.Lock()
	defer p.mu.Unlock()
	return append([]*peerConn{}, p.conns...)
}

// FirstConn waits for the first accepted connection (the accept goroutine may lag behind the client's Dial)
func (p *Peer) FirstConn() *peerConn {
	for i := 0; i < 400; i++ {
		if c := p.Conns(); len(c) > 0 {
			return c[0]
		}
		time.Sleep(5 * time.Millisecond)
	}
	panic("peer: no connection was accepted")
}

// DropAll drops every accepted connection (waiting for the first one to be registered: accept may lag behind Dial)
func (p *Peer) DropAll() {
	p.FirstConn()
	for _, pc := range p.Conns() {
		pc.Drop()
	}
}

func (p *Peer) Dials() int { return int(atomic.LoadInt32(&p.dials)) }
func (p *Peer) Open() int  { return int(atomic.LoadInt32(&p.open)) }

func (p *Peer) Shutdown() {
	if p.holdFd > 0 {
		syscall.Close(p.holdFd)
		p.holdFd = 0
	}
	if p.srv != nil {
		p.srv.Close()
	}
	p.ln.Close()
	for _, pc := range p.Conns() {
		pc.Drop()
	}
}

func (pc *peerConn) end() {
	if atomic.CompareAndSwapInt32(&pc.ended, 0, 1) {
		atomic.AddInt32(&pc.p.open, -1)
		pc.p.T.ev("peer.conn_end", "conn", pc.N)
	}
}

func (pc *peerConn) Ended() bool { return atomic.LoadInt32(&pc.ended) == 1 }

// Drop closes the connection abruptly
func (pc *peerConn) Drop() {
	if pc.ws != nil {
		pc.ws.UnderlyingConn().Close()
	} else {
		pc.c.Close()
	}
}

func (pc *peerConn) Frames() []frameIn {
	pc.mu.Lock()
	defer pc.mu.Unlock()
	return append([]frameIn{}, pc.frames...)
}
func (pc *peerConn) Raw() []byte {
	pc.mu.Lock()
	defer pc.mu.Unlock()
	return append([]byte{}, pc.raw...)
}

// parse the frames at the head of buf with the layout; returns the frames and the number of bytes consumed
func splitFrames(version int, buf []byte, conn int) ([]frameIn, int, bool) {
	out := []frameIn{}
	pos := 0
	for pos < len(buf) {
		b := buf[pos:]
		t := int(b[0] & 0xf)
		if t < 1 || t > 3 {
			return out, pos, false
		}
		off, n, ok := bodySection(version, b)
		if !ok {
			break
		}
		tl := 0
		if b[0]>>4&1 == 1 {
			tl = 24
		}
		if len(b) < off+n+tl {
			break
		}
		f := frameIn{Conn: conn, Typ: t, Verify: int(b[0] >> 4 & 1), Gzip: int(b[0] >> 5 & 1), Cmd: int(b[1])}
		i := 2
		if t != 3 {
			f.Rid = binary.BigEndian.Uint32(b[i:])
			i += 4
		}
		if t == 1 {
			f.To = binary.BigEndian.Uint16(b[i:])
			i += 2
		}
		if t == 2 {
			f.St = b[i]
			i++
		}
		if version == 2 {
			ml := int(binary.BigEndian.Uint16(b[i:]))
			i += 2
			f.Md = append([]byte{}, b[i+3:i+3+ml]...)
		}
		f.Body = append([]byte{}, b[off:off+n]...)
		f.Raw = append([]byte{}, b[:off+n+tl]...)
		out = append(out, f)
		pos += off + n + tl
	}
	return out, pos, true
}

func (p *Peer) deliver(pc *peerConn, f frameIn) {
	f.At = time.Now()
	pc.mu.Lock()
	pc.frames = append(pc.frames, f)
	pc.mu.Unlock()
	p.T.ev("peer.frame", "conn", pc.N, "type", f.Typ, "cmd", f.Cmd, "rid", f.Rid, "len", len(f.Body), "ws", f.WsKind)
	if p.onFrame != nil {
		p.onFrame(pc, f)
	}
}

func (p *Peer) serveTCP(pc *peerConn) {
	defer pc.end()
	defer pc.c.Close()
	hs := make([]byte, 2)
	got := 0
	for got < 2 {
		k, err := pc.c.Read(hs[got:])
		if err != nil {
			return
		}
		got += k
	}
	pc.hs = hs
	pc.mu.Lock()
	pc.raw = append(pc.raw, hs...)
	pc.mu.Unlock()
	p.T.ev("peer.handshake", "conn", pc.N, "b0", int(hs[0]), "b1", int(hs[1]))
	if p.onConn != nil {
		p.onConn(pc)
	}
	buf := make([]byte, 1<<16)
	var pending []byte
	for {
		for atomic.LoadInt32(&pc.stall) == 1 {
			time.Sleep(5 * time.Millisecond)
		}
		k, err := pc.c.Read(buf)
		if err != nil {
			return
		}
		pc.mu.Lock()
		pc.raw = append(pc.raw, buf[:k]...)
		pc.mu.Unlock()
		pending = append(pending, buf[:k]...)
		fs, used, ok := splitFrames(p.version, pending, pc.N)
		pending = pending[used:]
		for _, f := range fs {
			p.deliver(pc, f)
		}
		if !ok {
			p.T.ev("peer.garbage", "conn", pc.N)
			return
		}
	}
}

func (p *Peer) serveWS(pc *peerConn) {
	defer pc.end()
	defer pc.ws.Close()
	p.T.ev("peer.handshake", "conn", pc.N, "query", string(pc.hs))
	pc.ws.SetPingHandler(func(d string) error {
		p.deliver(pc, frameIn{Conn: pc.N, WsKind: "ping", Typ: 1, Cmd: 1, Body: []byte(d)})
		return nil
	})
	pc.ws.SetPongHandler(func(d string) error {
		p.deliver(pc, frameIn{Conn: pc.N, WsKind: "pong", Typ: 2, Cmd: 1, Body: []byte(d)})
		return nil
	})
	pc.ws.SetCloseHandler(func(code int, text string) error {
		p.deliver(pc, frameIn{Conn: pc.N, WsKind: "close", Typ: 3, Cmd: 0, Body: []byte(fmt.Sprintf("%d:%s", code, text))})
		return nil
	})
	if p.onConn != nil {
		p.onConn(pc)
	}
	for {
		for atomic.LoadInt32(&pc.stall) == 1 {
			time.Sleep(5 * time.Millisecond)
		}
		mt, data, err := pc.ws.ReadMessage()
		if err != nil {
			return
		}
		if mt != websocket.BinaryMessage && mt != websocket.TextMessage {
			continue
		}
		pc.mu.Lock()
		pc.raw = append(pc.raw, data...)
		pc.mu.Unlock()
		fs, used, ok := splitFrames(p.version, data, pc.N)
		if !ok || used != len(data) || len(fs) != 1 {
			p.T.ev("peer.ws_message_not_one_frame", "conn", pc.N, "frames", len(fs), "len", len(data))
		}
		if mt != websocket.BinaryMessage {
			// the protocol's frames are binary data whatever the body codec: a text message must be valid UTF-8 for a conforming peer
			p.T.ev("peer.ws_frame_in_text_message", "conn", pc.N, "len", len(data))
		}
		for _, f := range fs {
			f.WsKind = "binary"
			p.deliver(pc, f)
		}
	}
}

// Send writes one frame (TCP: bytes; WebSocket: one binary message)
func (pc *peerConn) Send(f specFrame) error {
	return pc.SendRaw(specEncode(pc.p.version, f))
}

func (pc *peerConn) SendRaw(b []byte) error {
	pc.wmu.Lock()
	defer pc.wmu.Unlock()
	if pc.ws != nil {
		return pc.ws.WriteMessage(websocket.BinaryMessage, b)
	}
	_, err := pc.c.Write(b)
	return err
}

// SendChunks writes a byte stream in the given segmentation, waiting `gap` between segments (TCP only)
func (pc *peerConn) SendChunks(b []byte, sizes []int, gap time.Duration) {
	pc.wmu.Lock()
	defer pc.wmu.Unlock()
	for _, n := range sizes {
		if n > len(b) {
			n = len(b)
		}
		pc.c.Write(b[:n])
		b = b[n:]
		if gap > 0 {
			time.Sleep(gap)
		}
	}
	if len(b) > 0 {
		pc.c.Write(b)
	}
}

func (pc *peerConn) WsControl(kind int, data []byte) error {
	pc.wmu.Lock()
	defer pc.wmu.Unlock()
	return pc.ws.WriteControl(kind, data, time.Now().Add(time.Second))
}

func (pc *peerConn) Stall(on bool) {
	v := int32(0)
	if on {
		v = 1
	}
	atomic.StoreInt32(&pc.stall, v)
}

// common replies
func respFrame(f frameIn, st uint8, body []byte) specFrame {
	return specFrame{typ: 2, cmd: f.Cmd, rid: f.Rid, st: st, body: body}
}
func pushFrame(cmd int, body []byte) specFrame { return specFrame{typ: 3, cmd: cmd, body: body} }

// kernelState reports the kernel's TCP state of the peer-side socket of this connection ("01" established, "08" close-wait, …; "" when
// the socket is gone). It lets a scenario see that the client released its socket although the scripted peer is not reading.
// clientKernelState: the state of the CLIENT's end of this connection in the kernel's table (both ends are on this host): "01" while the
// client process still holds the socket open, "04"/"05"/"06"/… or "" once it closed it — also when the FIN cannot reach a peer whose
// receive window is full
func (pc *peerConn) clientKernelState() string { return pc.kernelStateOf(true) }

func (pc *peerConn) kernelState() string { return pc.kernelStateOf(false) }

func (pc *peerConn) kernelStateOf(clientSide bool) string {
	var la, ra net.Addr
	if pc.ws != nil {
		la, ra = pc.ws.UnderlyingConn().LocalAddr(), pc.ws.UnderlyingConn().RemoteAddr()
	} else if pc.c != nil {
		la, ra = pc.c.LocalAddr(), pc.c.RemoteAddr()
	}
	l, ok1 := la.(*net.TCPAddr)
	r, ok2 := ra.(*net.TCPAddr)
	if !ok1 || !ok2 {
		return "?"
	}
	hex := func(a *net.TCPAddr) string {
		ip := a.IP.To4()
		if ip == nil {
			return ""
		}
		return fmt.Sprintf("%02X%02X%02X%02X:%04X", ip[3], ip[2], ip[1], ip[0], a.Port)
	}
	data, err := os.ReadFile("/proc/net/tcp")
	if err != nil {
		return "?"
	}
	if clientSide {
		l, r = r, l
	}
	for _, line := range strings.Split(string(data), "\n") {
		f := strings.Fields(line)
		if len(f) > 3 && f[1] == hex(l) && f[2] == hex(r) {
			return f[3]
		}
	}
	return ""
}
