#!/bin/sh
# seeded_sweep.sh [seed-id…]: for every recorded seeded change, apply it to /repo, run the quick check of the property it breaks,
# restore /repo, and report whether the check raised a violation (and whether it had a concrete failing input).
# Never leaves /repo modified (try_mutation.sh restores it on every exit path).
cd /verif
ids="$@"; [ -z "$ids" ] && ids=$(ls seeded)
miss=0
for s in $ids; do
  prop=$(python3 -c "import json;print(json.load(open('/verif/seeded/$s/meta.json'))['breaks_property'])")
  out=$(./tools/try_mutation.sh /verif/seeded/$s/patch.diff $prop 2>&1 | grep "^\[$prop rc=" | head -1 | cut -c1-200)
  case "$out" in
    *"rc=1"*"no-failing-input-found"*) echo "$s $prop CAUGHT (proof/tie broken, no failing input)";;
    *"rc=1"*) echo "$s $prop CAUGHT with failing input";;
    *) echo "$s $prop MISSED: $out"; miss=$((miss+1));;
  esac
done
echo "missed=$miss"
