#!/usr/bin/env python3
"""record_seed.py <seed-id> <agent-dir> <MUTn> <demo pkg dir> <property> "<needs>" "<caught by: Cxx key; Cyy key>" "<ran>" """
import sys, os, shutil, json
sid, src, m, pkg, prop, needs, caught, ran = sys.argv[1:9]
d = f"/verif/seeded/{sid}"
os.makedirs(d, exist_ok=True)
shutil.copy(f"{src}/{m}.diff", f"{d}/patch.diff")
shutil.copy(f"{src}/{m}_demo_test.go", f"{d}/demo_test.go")
if os.path.exists(f"{src}/{m}.md"):
    shutil.copy(f"{src}/{m}.md", f"{d}/description.md")
json.dump({"id": sid, "breaks_property": prop, "needs_to_manifest": needs,
           "demo": {"file": "demo_test.go", "place_in": f"go/{pkg}/", "run": f"go test -vet=off -count=1 -run Test{m} ./{pkg}/"},
           "confirmed": "applied in a scratch worktree: go build ./... ok, unchanged suite passes (5 packages ok), demo FAILS with the change and PASSES without it (tools/confirm_mutation.sh)",
           "checks_that_catch_it": caught, "what_was_run": ran}, open(f"{d}/meta.json", "w"), indent=1)
print("recorded", d)
