#!/bin/sh
# wave_eval_isolated.sh <wave-suffix, e.g. w7> [extra "Cxx:Cyy" pairs …]: every /tmp/mut/<Cxx>-<suffix>/MUTn.diff against the quick check of its own
# property, on a PRIVATE copy of the repository (vp run --with-repo -- tools/wave_eval_isolated.sh w7). /repo itself is never touched.
cd "$(dirname "$0")/.." || exit 2
R=${OAP_REPO:-$VP_RUN_REPO}
[ -d "$R/go" ] || { echo "no repository copy at '$R'"; exit 2; }
export OAP_REPO=$R
sed -i "s#=> /repo/go#=> $R/go#" harness/go.mod
[ -x bin/harness ] && [ -x lean/.lake/build/bin/oapdriver ] || ./setup.sh >/dev/null 2>&1
suf=$1
for d in /tmp/mut/*-$suf; do
  id=$(basename $d | sed "s/-$suf//")
  for m in MUT1 MUT2 MUT3; do
    p=$d/$m.diff
    [ -f $p ] || continue
    if ! (cd $R && git apply --check $p 2>/dev/null); then echo "== $id $m DOES-NOT-APPLY"; continue; fi
    (cd $R && git apply $p)
    s=$(date +%s)
    out=$(VERIF_SEED=1 ./check $id --tier quick 2>&1)
    (cd $R && git apply -R $p)
    echo "== $id $m ($(( $(date +%s)-s ))s)"
    echo "$out" | grep -E "^(OK|VIOLATION)" | head -2 | cut -c1-220
    echo "$out" | grep -E "^  " | head -2 | cut -c1-330
    mkdir -p work/wave-replays; for f in replays/$id-*.json; do [ -f "$f" ] && mv "$f" work/wave-replays/$id-$m-$(basename $f); done
  done
done
echo wave-eval-done
