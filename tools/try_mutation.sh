#!/bin/sh
# try_mutation.sh <patch.diff> <prop> [<prop>...]
# Applies a seeded change to /repo, runs the quick checks of the given properties, prints their verdict lines,
# and ALWAYS restores /repo (git checkout -- .) afterwards. Replays written during the run are moved to
# /verif/work/mutation-replays/ so that /verif/replays stays clean.
patch="$1"; shift
cd /repo || exit 2
if ! git apply --check "$patch" 2>/dev/null; then echo "patch does not apply: $patch"; exit 2; fi
git apply "$patch"
trap 'git -C /repo checkout -- . ; ' EXIT INT TERM
mkdir -p /verif/work/mutation-replays
cd /verif
for p in "$@"; do
  out=$(VERIF_SEED=${VERIF_SEED:-1} ./check "$p" --tier ${TIER:-quick} 2>&1)
  rc=$?
  echo "$out" | grep -E "^(OK|VIOLATION|KNOWN-FINDING)" | head -3 | sed "s/^/[$p rc=$rc] /"
  echo "$out" | grep -E "^  " | head -2 | cut -c1-300
  for f in /verif/replays/$p-*.json; do [ -f "$f" ] && mv "$f" /verif/work/mutation-replays/; done
done
