#!/bin/sh
# seeded_sweep_isolated.sh [seed-id…]: the seeded sweep on a PRIVATE copy of the repository, for background runs from a snapshot of /verif
# (vp run --with-repo -- tools/seeded_sweep_isolated.sh): /repo itself is never touched, so the checks in /verif can go on meanwhile.
# Needs OAP_REPO (default: $VP_RUN_REPO) = a copy of /repo's HEAD; run from the root of a /verif snapshot. Results are not evidence.
cd "$(dirname "$0")/.." || exit 2
R=${OAP_REPO:-$VP_RUN_REPO}
[ -d "$R/go" ] || { echo "no repository copy at '$R'"; exit 2; }
export OAP_REPO=$R
sed -i "s#=> /repo/go#=> $R/go#" harness/go.mod
[ -x bin/harness ] && [ -x lean/.lake/build/bin/oapdriver ] || ./setup.sh >/dev/null 2>&1
ids="$@"; [ -z "$ids" ] && ids=$(ls seeded)
miss=0
for s in $ids; do
  prop=$(python3 -c "import json;print(json.load(open('seeded/$s/meta.json'))['breaks_property'])")
  if ! (cd $R && git apply --check "$OLDPWD/seeded/$s/patch.diff" 2>/dev/null); then echo "$s $prop DOES-NOT-APPLY (recorded on an earlier tree)"; continue; fi
  (cd $R && git apply "$OLDPWD/seeded/$s/patch.diff")
  out=$(VERIF_SEED=1 ./check $prop --tier quick 2>&1 | grep -E "^(OK|VIOLATION)" | head -1 | cut -c1-200)
  (cd $R && git apply -R "$OLDPWD/seeded/$s/patch.diff")
  rm -f replays/$prop-*.json
  case "$out" in
    VIOLATION*no-failing-input-found*) echo "$s $prop CAUGHT (proof/tie broken, no failing input)";;
    VIOLATION*) echo "$s $prop CAUGHT with failing input";;
    *) echo "$s $prop MISSED: $out"; miss=$((miss+1));;
  esac
done
echo "missed=$miss"
