#!/bin/sh
# stress.sh <rounds> [parallel]: runs every quick check <rounds> times on the current tree (optionally <parallel> checks at once, which
# emulates a slower machine) and prints every run that did not end with OK. Used to look for flaky verdicts; never part of a check.
cd /verif
rounds=${1:-3}; par=${2:-1}
all="C01 C02 C03 C04 C05 C06 C07 C08 C09 C10 C11 C12 C13 C14 C15 C16 C17 C18 C19 C20"
mkdir -p work/stress
for r in $(seq 1 $rounds); do
  echo "$all" | tr ' ' '\n' | xargs -P $par -I{} sh -c 'VERIF_SEED='$r' ./check {} --tier quick > work/stress/{}.'$r'.out 2>&1; tail -1 work/stress/{}.'$r'.out | grep -q "^OK" || { echo "round '$r' {}:"; grep -E "^(VIOLATION|KNOWN|  )" work/stress/{}.'$r'.out | head -4 | cut -c1-400; mkdir -p work/stress/replays; cp replays/{}-* work/stress/replays/ 2>/dev/null; }'
done
echo "stress done rounds=$rounds par=$par"
