#!/bin/sh
# wave_eval.sh <agent-dir> <prop> [extra props…]: for every MUTn in the agent's directory: confirm it (build, unedited suite, demo fails
# with / passes without the change, in a scratch worktree) and run the quick checks of <prop> (and the extra props) against it.
dir="$1"; prop="$2"; shift 2
for d in "$dir"/MUT?.diff; do
  m=$(basename "$d" .diff)
  demo="$dir/${m}_demo_test.go"
  [ -f "$demo" ] || { echo "== $m: no demo"; continue; }
  pk=$(grep -m1 '^package ' "$demo" | awk '{print $2}')
  case "$pk" in
    client|client_test) pkg=client;;
    v1|v1_test) pkg=v1;;
    v2|v2_test) pkg=v2;;
    protocol|protocol_test) pkg=.;;
    *) pkg=$(grep -l "^package ${pk%_test}\$" /repo/go/*/*.go 2>/dev/null | head -1 | xargs -r dirname | xargs -r basename); [ -z "$pkg" ] && pkg=.;;
  esac
  flags=""
  grep -qi "\-race" "$dir/$m.md" 2>/dev/null && flags="-race"
  grep -q "go:build verif\|+build verif" "$demo" 2>/dev/null && flags="$flags -tags verif"
  echo "== $m (demo package $pk -> go/$pkg $flags)"
  /verif/tools/confirm_mutation.sh "$dir" "$m" "$pkg" $flags 2>&1 | tail -1 | cut -c1-300
  /verif/tools/try_mutation.sh "$d" "$prop" "$@" 2>&1 | cut -c1-330
done
