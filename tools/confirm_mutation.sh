#!/bin/sh
# confirm_mutation.sh <agent-dir> <MUTn> <package dir relative to go/, e.g. v2 or .> [extra go test flags]
# Confirms in a scratch worktree: (a) builds + existing suite passes with the change, (b) demo fails with it, (c) demo passes without it.
src="$1"; m="$2"; pkg="$3"; shift 3
export GOFLAGS=-mod=mod GOPROXY=off GOSUMDB=off GOTOOLCHAIN=local
w=/tmp/confirm-$$
git -C /repo worktree add -q --detach $w HEAD || exit 2
trap 'git -C /repo worktree remove --force '$w' >/dev/null 2>&1' EXIT INT TERM
cd $w
git apply "$src/$m.diff" || { echo "RESULT apply-failed"; exit 1; }
(cd go && go build ./... ) || { echo "RESULT build-failed"; exit 1; }
a=$(cd go && go test -vet=off -count=1 ./... 2>&1 | grep -c "^ok")
fa=$(cd go && go test -vet=off -count=1 ./... 2>&1 | grep -c "^FAIL\|^---  FAIL\|^--- FAIL")
cp "$src/${m}_demo_test.go" go/$pkg/
b=$(cd go && timeout 900 go test -vet=off -count=1 -timeout 800s -run "Test$m" "$@" ./$pkg/ 2>&1 | tail -1)
git checkout -q -- .
c=$(cd go && timeout 900 go test -vet=off -count=1 -timeout 800s -run "Test$m" "$@" ./$pkg/ 2>&1 | tail -1)
echo "RESULT suite_ok_pkgs=$a suite_fail_lines=$fa | with-change: $b | without: $c"
