/-
The published frame layout, written independently of the code: arithmetic (div/mod), no shifts,
no masks. From the layout quoted in property C02:
  byte 0 = type:4 (low nibble) | verify:1 | gzip:1 | reserve:2, cmd:8,
  request_id:32 BE (request/response), timeout:16 BE (request) | status:8 (response),
  [v2: metadata_len:16 BE], body_len:24 BE, [v2: metadata block], body,
  nonce:64 BE + signature:128 when verify is set.
-/
import OAP.Base
import OAP.Model.Frame
namespace OAP.Spec

/-- `k` big-endian bytes of `n` -/
def be (n : Nat) : Nat → Bytes
  | 0 => []
  | k + 1 => UInt8.ofNat (n / 256 ^ k % 256) :: be n k

/-- big-endian value of a byte string -/
def val (bs : Bytes) : Nat := bs.foldl (fun acc b => acc * 256 + b.toNat) 0

structure Frame where
  type : Nat        -- 0..15
  verify : Nat      -- 0..1
  gzip : Nat        -- 0..1
  reserve : Nat     -- 0..3
  cmd : Nat
  rid : Nat := 0
  timeout : Nat := 0
  status : Nat := 0
  md : Bytes := []  -- v2 metadata block (raw bytes)
  body : Bytes := []  -- body as on the wire (compressed when gzip = 1)
  nonce : Nat := 0
  sig : Bytes := []
  deriving Repr, DecidableEq

def encode (v : Ver) (f : Frame) : Bytes :=
  [UInt8.ofNat (f.type + 16 * f.verify + 32 * f.gzip + 64 * f.reserve), UInt8.ofNat f.cmd]
  ++ (if f.type = 1 then be f.rid 4 ++ be f.timeout 2 else if f.type = 2 then be f.rid 4 ++ be f.status 1 else [])
  ++ (match v with | .v1 => [] | .v2 => be f.md.length 2)
  ++ be f.body.length 3
  ++ (match v with | .v1 => [] | .v2 => f.md)
  ++ f.body
  ++ (if f.verify = 1 then be f.nonce 8 ++ f.sig else [])

/-- independent spec-derived decoder of one frame at the head of a byte stream:
`none` = not (yet) a complete valid frame; type nibble must be 1, 2 or 3 -/
def decode (v : Ver) (bs : Bytes) : Option (Frame × Bytes) :=
  match bs with
  | [] => none
  | b0 :: _ =>
    let n := b0.toNat
    let type := n % 16
    let verify := n / 16 % 2
    let gzip := n / 32 % 2
    let reserve := n / 64
    if type ≠ 1 ∧ type ≠ 2 ∧ type ≠ 3 then none else
    let fixed := (if type = 1 then 8 else if type = 2 then 7 else 2)   -- bytes before [metadata_len] body_len
    let mlw := (match v with | .v1 => 0 | .v2 => 2)
    let hl := fixed + mlw + 3
    if bs.length < hl then none else
    let cmd := (bs.drop 1).take 1
    let rid := if type = 3 then 0 else val ((bs.drop 2).take 4)
    let timeout := if type = 1 then val ((bs.drop 6).take 2) else 0
    let status := if type = 2 then val ((bs.drop 6).take 1) else 0
    let ml := val ((bs.drop fixed).take mlw)
    let bl := val ((bs.drop (fixed + mlw)).take 3)
    let tl := if verify = 1 then 24 else 0
    if bs.length < hl + ml + bl + tl then none else
    some ({ type, verify, gzip, reserve, cmd := val cmd, rid, timeout, status,
            md := (bs.drop hl).take ml, body := (bs.drop (hl + ml)).take bl,
            nonce := if verify = 1 then val ((bs.drop (hl + ml + bl)).take 8) else 0,
            sig := if verify = 1 then (bs.drop (hl + ml + bl + 8)).take 16 else [] },
          bs.drop (hl + ml + bl + tl))

end OAP.Spec
