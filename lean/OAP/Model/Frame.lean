/-
Model of the frame codec: go/v1/header.go, go/v1/v1.go, go/v2/v2_header.go, go/v2/v2.go
(Header.Pack / Header.UnpackBytes, headerFromMetadata, Header.Metadata, protocolVx.Pack /
UnpackBytes) and the glue of go/gzip/gzip.go around compress/gzip, which is a parameter
(`GzOracle`). One definition serves both versions (`Ver`); header lengths, masks and the
bit-level expressions come from the extractor (`OAP.Gen`). Slices and indexing use the
checked operations of `OAP.Base`, so "never panics" is a theorem, not a modelling artefact.
-/
import OAP.Base
import OAP.Gen.Facts
import OAP.Model.Metadata
namespace OAP

inductive Ver where | v1 | v2
  deriving DecidableEq, Repr

/-- `protocol.PacketType` (a string): the three known values, anything else is `other` -/
inductive PType where | request | response | push | other
  deriving DecidableEq, Repr

/-- compress/gzip as an oracle. `read bs`: `none` — header rejected; `some (p, true)` — the whole
stream was read, checksum and size valid, content `p`; `some (p, false)` — an error after `p`. -/
structure GzOracle where
  compress : Bytes → Res Bytes
  read : Bytes → Option (Bytes × Bool)

/-- the assumption on compress/gzip under which the round-trip theorems are stated -/
def GzOracle.Sound (gz : GzOracle) : Prop := ∀ x, ∃ c, gz.compress x = .ok c ∧ gz.read c = some (x, true)

/-- `gzip.Decompress` (repaired): read to the gzip reader's own EOF; success only for a complete,
checksum-valid stream, and then its full content -/
def Gzip.decompress (gz : GzOracle) (bs : Bytes) : Res Bytes :=
  match gz.read bs with
  | some (p, true) => .ok p
  | _ => .err "gzip"

/-- ISIZE: little-endian uint32 in the last four bytes (`DecompressedSize`), −1 if shorter -/
def Gzip.isize (bs : Bytes) : Option Nat :=
  if bs.length < 4 then none else
  match bs.drop (bs.length - 4) with
  | [a, b, c, d] => some (a.toNat + 256 * b.toNat + 65536 * c.toNat + 16777216 * d.toNat)
  | _ => none

def Gzip.maxExpansion : Nat := 1032
def Gzip.minRead : Nat := 512

/-- ghost: the capacity `Decompress` asks `make` for — ISIZE only as a hint, capped by what the input can expand to -/
def Gzip.allocDecompress (bs : Bytes) : Nat :=
  let cap := bs.length * Gzip.maxExpansion
  (match Gzip.isize bs with
   | some n => if n > cap then cap else n
   | none => cap) + Gzip.minRead

/-- `protocol.Metadata` + `Packet.Body` -/
structure Packet where
  type : PType := .other
  cmd : UInt32 := 0
  rid : UInt32 := 0
  timeout : UInt16 := 0
  status : UInt8 := 0
  verify : Bool := false
  gzip : Bool := false
  nonce : UInt64 := 0
  signature : Bytes := []
  values : List Metadata.Pair := []
  codec : UInt8 := 0
  body : Bytes := []
  deriving DecidableEq, Repr

/-- `v1.Header` / `v2.Header` (v2 embeds v1's and adds MetadataLength) -/
structure Header where
  requestId : UInt32 := 0
  bodyLength : UInt32 := 0
  timeout : UInt16 := 0
  type : UInt8 := 0
  verify : UInt8 := 0
  gzip : UInt8 := 0
  reserve : UInt8 := 0
  cmdCode : UInt8 := 0
  statusCode : UInt8 := 0
  beginUnpack : Bool := false
  isUnpacked : Bool := false
  metadataLength : UInt16 := 0
  deriving DecidableEq, Repr

namespace Frame

def tReq : UInt8 := UInt8.ofNat Gen.v1_RequestPacket
def tResp : UInt8 := UInt8.ofNat Gen.v1_ResponsePacket
def tPush : UInt8 := UInt8.ofNat Gen.v1_PushPacket

def reqLen : Ver → Nat | .v1 => Gen.v1_RequestHeaderLen | .v2 => Gen.v2_RequestHeaderLen
def respLen : Ver → Nat | .v1 => Gen.v1_ResponseHeaderLen | .v2 => Gen.v2_ResponseHeaderLen
def pushLen : Ver → Nat | .v1 => Gen.v1_PushHeaderLen | .v2 => Gen.v2_PushHeaderLen
def trailerLen : Nat := Gen.v1_NonceLength + Gen.v1_SignatureLength

/-- `Header.IsUnknownPacket` -/
def isUnknown (t : UInt8) : Bool := !(t == tReq || t == tResp || t == tPush)

/-- `Header.length()`: push length for anything that is not request/response -/
def hdrLen (v : Ver) (t : UInt8) : Nat :=
  if t == tReq then reqLen v else if t == tResp then respLen v else pushLen v

def packB0 : Ver → UInt8 → UInt8 → UInt8 → UInt8 → UInt8
  | .v1 => Gen.v1PackB0 | .v2 => Gen.v2PackB0
def packLen : Ver → UInt32 → Bytes
  | .v1 => fun bl => [Gen.v1PackLen0 bl, Gen.v1PackLen1 bl, Gen.v1PackLen2 bl]
  | .v2 => fun bl => [Gen.v2PackLen0 bl, Gen.v2PackLen1 bl, Gen.v2PackLen2 bl]
def cmdByte : Ver → UInt32 → UInt8 | .v1 => Gen.v1CmdByte | .v2 => Gen.v2CmdByte
def gzipCond : Ver → Int → Int → Bool | .v1 => Gen.v1GzipCond | .v2 => Gen.v2GzipCond
def ubType : Ver → UInt8 → UInt8 | .v1 => Gen.v1UbType | .v2 => Gen.v2UbType
def ubVerify : Ver → UInt8 → UInt8 | .v1 => Gen.v1UbVerify | .v2 => Gen.v2UbVerify
def ubGzip : Ver → UInt8 → UInt8 | .v1 => Gen.v1UbGzip | .v2 => Gen.v2UbGzip
def ubReserve : Ver → UInt8 → UInt8 | .v1 => Gen.v1UbReserve | .v2 => Gen.v2UbReserve
def ubBodyLen : Ver → UInt8 → UInt8 → UInt8 → UInt32 | .v1 => Gen.v1UbBodyLen | .v2 => Gen.v2UbBodyLen
def usType : Ver → UInt8 → UInt8 | .v1 => Gen.v1UsType | .v2 => Gen.v2UsType
def usVerify : Ver → UInt8 → UInt8 | .v1 => Gen.v1UsVerify | .v2 => Gen.v2UsVerify
def usGzip : Ver → UInt8 → UInt8 | .v1 => Gen.v1UsGzip | .v2 => Gen.v2UsGzip
def usReserve : Ver → UInt8 → UInt8 | .v1 => Gen.v1UsReserve | .v2 => Gen.v2UsReserve
def usBodyLen : Ver → UInt8 → UInt8 → UInt8 → UInt32 | .v1 => Gen.v1UsBodyLen | .v2 => Gen.v2UsBodyLen

/-- `func (h Header) Pack() ([]byte, error)` -/
def Header.pack (v : Ver) (h : Header) : Res Bytes :=
  if isUnknown h.type then .err "invalid packet type"
  else if h.bodyLength.toNat > Gen.v1_MaxBodyLength then .err "body length hit limit"
  else
    let b0 := packB0 v h.type h.verify h.gzip h.reserve
    let mid : Bytes :=
      if h.type == tReq || h.type == tResp then
        be32 h.requestId ++ (if h.type == tReq then be16 h.timeout else []) ++ (if h.type == tResp then [h.statusCode] else [])
      else []
    let ml : Bytes := match v with | .v1 => [] | .v2 => be16 h.metadataLength
    .ok ([b0, h.cmdCode] ++ mid ++ ml ++ packLen v h.bodyLength)

/-- `headerFromMetadata(md)`: a fresh pooled header filled from the packet's metadata -/
def headerFromMetadata (v : Ver) (p : Packet) : Header :=
  { gzip := if p.gzip then 1 else 0
    verify := if p.verify then 1 else 0
    type := match p.type with | .request => tReq | .response => tResp | .push => tPush | .other => 0
    requestId := p.rid
    cmdCode := cmdByte v p.cmd
    timeout := p.timeout
    statusCode := p.status }

/-- the signature as `copy(data[off+8:], signature)` leaves it in a 16-byte zeroed window -/
def sigWindow (sig : Bytes) : Bytes := sig.take Gen.v1_SignatureLength ++ List.replicate (Gen.v1_SignatureLength - sig.length) 0

/-- `protocolVx.Pack(ctx, packet, GzipSize(thr))`: returns the frame and the packet as mutated
(Body overwritten by the compressed bytes, Gzip flag set) -/
def pack (v : Ver) (gz : GzOracle) (p : Packet) (thr : Int) : Res (Bytes × Packet) := do
  let p1 ← (if gzipCond v thr p.body.length then
      match gz.compress p.body with
      | .ok c => Res.ok { p with body := c, gzip := true }
      | .err e => .err e
      | .panic w => .panic w
    else .ok { p with gzip := false })     -- the flag describes THIS frame's body: a stale flag (relayed packet) is cleared
  let bl := p1.body.length
  if bl > Gen.v1_MaxBodyLength then .err "body length hit limit"
  else
    let h0 := headerFromMetadata v p1
    let md : Bytes := match v with | .v1 => [] | .v2 => Metadata.marshalMap p1.values (Gen.v2_MaxMetadataLength : Nat)
    let h := { h0 with bodyLength := UInt32.ofNat bl, metadataLength := UInt16.ofNat md.length }
    let hd ← Header.pack v h
    let trailer : Bytes := if p1.verify then be64 p1.nonce ++ sigWindow p1.signature else []
    .ok (hd ++ md ++ p1.body ++ trailer, p1)

/-- `Header.Metadata(ctx)` -/
def Header.toPacket (h : Header) (codec : UInt8) : Packet :=
  { type := if h.type == tReq then .request else if h.type == tResp then .response else if h.type == tPush then .push else .other
    codec := codec
    timeout := h.timeout
    cmd := h.cmdCode.toUInt32
    rid := h.requestId
    status := h.statusCode
    verify := h.verify == 1
    gzip := h.gzip == 1 }

/-- `func (h *Header) UnpackBytes(ctx, frame) (body []byte, err error)` on a fresh header -/
def Header.unpackBytes (v : Ver) (frame : Bytes) : Res (Header × Bytes) :=
  if frame.length = 0 then .err "invalid frame" else do
  let b ← Bytes.idx frame 0
  let h : Header := { type := ubType v b, verify := ubVerify v b, gzip := ubGzip v b, reserve := ubReserve v b }
  if isUnknown h.type then .err "invalid packet type"
  else
    let remainLen := hdrLen v h.type - 1
    if frame.length < remainLen + 1 then .err "invalid frame" else do
    let cmd ← Bytes.idx frame 1
    let h := { h with cmdCode := cmd }
    let idx := 2
    let (h, idx) ← (if h.type == tReq || h.type == tResp then do
        let r ← Bytes.slice frame idx (idx + 4)
        match r with
        | [a, b, c, d] => Res.ok ({ h with requestId := rd32 a b c d }, idx + 4)
        | _ => .panic "slice length"
      else .ok (h, idx))
    let (h, idx) ← (if h.type == tReq then do
        let r ← Bytes.slice frame idx (idx + 2)
        match r with
        | [a, b] => Res.ok ({ h with timeout := rd16 a b }, idx + 2)
        | _ => .panic "slice length"
      else .ok (h, idx))
    let (h, idx) ← (if h.type == tResp then do
        let s ← Bytes.idx frame idx
        Res.ok ({ h with statusCode := s }, idx + 1)
      else .ok (h, idx))
    let (h, idx) ← (match v with
      | .v1 => Res.ok (h, idx)
      | .v2 => do
        let r ← Bytes.slice frame idx (idx + 2)
        match r with
        | [a, b] => Res.ok ({ h with metadataLength := rd16 a b }, idx + 2)
        | _ => .panic "slice length")
    let fb ← Bytes.idx frame idx
    let sb ← Bytes.idx frame (idx + 1)
    let tb ← Bytes.idx frame (idx + 2)
    let h := { h with bodyLength := ubBodyLen v fb sb tb }
    let rest ← Bytes.sliceFrom frame (idx + 3)
    pure (h, rest)

/-- `protocolVx.UnpackBytes(ctx, bs)` (repaired: a fresh pooled header, the context's parked one untouched) -/
def unpackBytes (v : Ver) (gz : GzOracle) (codec : UInt8) (bs : Bytes) : Res Packet := do
  let (h, data) ← Header.unpackBytes v bs
  let ml := match v with | .v1 => 0 | .v2 => h.metadataLength.toNat
  let bl := h.bodyLength.toNat
  if data.length < bl + ml then .err "invalid frame" else do
  let md ← Bytes.slice data 0 ml
  let body ← Bytes.slice data ml (bl + ml)
  let p := { Header.toPacket h codec with body := body }
  let p ← (match v with
    | .v1 => Res.ok p
    | .v2 => match Metadata.rawPairs md with
      | .ok ps => Res.ok { p with values := ps }
      | .err e => .err e
      | .panic w => .panic w)
  let p ← (if h.verify == 1 then
      let idx := bl + ml
      if data.length < idx + trailerLen then Res.err "invalid frame" else do
      let n ← Bytes.slice data idx (idx + Gen.v1_NonceLength)
      let s ← Bytes.sliceFrom data (idx + Gen.v1_NonceLength)
      match n with
      | [a, b, c, d, e, f, g, i] => Res.ok { p with nonce := rd64 a b c d e f g i, signature := s }
      | _ => .panic "slice length"
    else .ok p)
  if h.gzip == 1 then
    match Gzip.decompress gz p.body with
    | .ok b => .ok { p with body := b }
    | .err e => .err e
    | .panic w => .panic w
  else .ok p

end Frame
end OAP
