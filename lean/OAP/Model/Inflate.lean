/-
A native gzip reader: RFC 1952 container, RFC 1951 inflate, CRC-32 — executable, total, core Lean only.
It makes the abstract `GzOracle` of `OAP.Model.Frame` concrete (`OAP.Proofs.Inflate.nativeGz`).

Every function is structurally recursive; loops whose progress depends on the data (block loop, symbol loop,
member loop) take an explicit fuel computed from the input length (`8 * length + 1` bits: every iteration
consumes at least one bit: `inflateCore_fuel`, `gunzipMore_fuel` in `OAP.Proofs.Inflate` show that the fuel is never
the reason for a failure).  Plain total definitions only.

Where RFC 1951/1952 leave latitude the reader follows Go's `compress/flate` and `compress/gzip` (go 1.23):
* a Huffman code must be complete (Kraft sum exactly 1); the only exceptions are the empty code (accepted when
  built, fails when used) and the code with a single symbol of length 1 (`huffmanDecoder.init`) — for all three
  alphabets (code lengths, literal/length, distance);
* HLIT > 286 − 257 and HDIST > 30 − 1 are rejected when read; literal/length symbols 286/287 and distance
  symbols 30/31 (reachable through the fixed code only) are rejected when met;
* repeat code 16 with no previous length and a repeat running past HLIT+HDIST lengths are rejected; repeats
  may cross from the literal/length lengths into the distance lengths;
* a missing end-of-block code is not checked (the block then can never end, the stream is rejected as truncated);
* a distance beyond the output produced so far is rejected (no preset dictionary);
* gzip header: magic 1f 8b, CM = 8; the reserved FLG bits 5–7 are IGNORED; MTIME/XFL/OS ignored; FEXTRA, FNAME,
  FCOMMENT skipped (a name/comment of more than 511 bytes before its NUL is rejected: `readString`'s 512-byte buffer);
  FHCRC is verified (low 16 bits of the CRC-32 of all header bytes before it);
* trailer: CRC-32 and ISIZE (size mod 2^32) are both checked;
* `gunzip` = the library's `Decompress`: a `gzip.Reader` in its DEFAULT multistream mode read to EOF — after a
  valid member the input must either end (success) or continue with another complete valid member, whose content
  is appended (so trailing garbage, even a single byte, is an error).  `gunzipFirst` is the `Multistream(false)`
  variant that stops after the first member and does not look at what follows.
-/
import OAP.Base
namespace OAP.Inflate
open OAP

/-! ### CRC-32 (IEEE, reflected polynomial 0xEDB88320) -/

def crcStep (c : UInt32) : UInt32 :=
  if c &&& 1 = 1 then (c >>> 1) ^^^ 0xEDB88320 else c >>> 1

def crcByte (c : UInt32) (b : UInt8) : UInt32 :=
  crcStep (crcStep (crcStep (crcStep (crcStep (crcStep (crcStep (crcStep (c ^^^ b.toUInt32))))))))

/-- `crc32.Update` without the pre/post inversion -/
def crcUpdate (c : UInt32) (bs : Bytes) : UInt32 := bs.foldl crcByte c

def crc32 (bs : Bytes) : UInt32 := crcUpdate 0xFFFFFFFF bs ^^^ 0xFFFFFFFF

/-- the same over an array (the inflater's output buffer) -/
def crc32A (a : Array UInt8) : UInt32 := a.foldl crcByte 0xFFFFFFFF ^^^ 0xFFFFFFFF

/-! ### Little-endian fields -/

def le16 (n : Nat) : Bytes := [(n % 256).toUInt8, (n / 256 % 256).toUInt8]
def le32 (x : UInt32) : Bytes :=
  [x.toUInt8, (x >>> (8 : UInt32)).toUInt8, (x >>> (16 : UInt32)).toUInt8, (x >>> (24 : UInt32)).toUInt8]
def rd16le (a b : UInt8) : Nat := a.toNat + 256 * b.toNat
def rd32le (a b c d : UInt8) : UInt32 := rd32 d c b a

/-! ### Bit reader: least significant bit of each byte first -/

structure BitReader where
  /-- unread bytes; the head is the byte being read when `bit > 0` -/
  data : Bytes
  /-- number of bits of the head byte already consumed (0 … 7) -/
  bit : Nat

namespace BitReader

/-- number of unread bits -/
def remBits (br : BitReader) : Nat := 8 * br.data.length - br.bit

def readBit (br : BitReader) : Option (Nat × BitReader) :=
  match br.data with
  | [] => none
  | b :: rest =>
    let v := (b.toNat >>> br.bit) % 2
    if br.bit ≥ 7 then some (v, ⟨rest, 0⟩) else some (v, ⟨b :: rest, br.bit + 1⟩)

/-- `n` bits as a number, first bit read = least significant -/
def readBits : Nat → BitReader → Option (Nat × BitReader)
  | 0, br => some (0, br)
  | n + 1, br =>
    match br.readBit with
    | none => none
    | some (b, br) =>
      match readBits n br with
      | none => none
      | some (v, br) => some (b + 2 * v, br)

/-- drop the rest of a half-read byte: the bytes that follow -/
def align (br : BitReader) : Bytes := if br.bit = 0 then br.data else br.data.drop 1

end BitReader

/-! ### Canonical Huffman codes (RFC 1951 §3.2.2) -/

structure Huff where
  /-- `counts[l]` = number of symbols with code length `l` (index 0 unused), 16 entries -/
  counts : Array Nat
  /-- the symbols ordered by (code length, symbol value) -/
  symbols : Array Nat

def countLens (lens : List Nat) : Array Nat :=
  lens.foldl (fun c l => if l = 0 then c else c.modify l (· + 1)) (Array.replicate 16 0)

def sortedSymbols (lens : List Nat) : Array Nat :=
  ((List.range 15).flatMap (fun l => (lens.zipIdx.filter (fun p => p.1 = l + 1)).map (·.2))).toArray

/-- Kraft sum scaled by 2^15 -/
def kraft (counts : Array Nat) : Nat :=
  (List.range 15).foldl (fun k l => k + counts.getD (l + 1) 0 * 2 ^ (14 - l)) 0

/-- Go's `huffmanDecoder.init`: complete codes, the empty code, and the single code of length 1 -/
def Huff.ofLengths (lens : List Nat) : Option Huff :=
  let counts := countLens lens
  let total := counts.foldl (· + ·) 0
  let k := kraft counts
  if total = 0 ∨ k = 32768 ∨ (total = 1 ∧ counts.getD 1 0 = 1) then
    some ⟨counts, sortedSymbols lens⟩
  else none

/-- bit-by-bit decoding of a canonical code: `code` is the code read so far (shifted), `first` the first code of
length `len`, `index` the position of its symbol in `symbols` -/
def decodeAux (h : Huff) : Nat → Nat → Nat → Nat → Nat → BitReader → Option (Nat × BitReader)
  | 0, _, _, _, _, _ => none
  | fuel + 1, len, code, first, index, br =>
    match br.readBit with
    | none => none
    | some (b, br) =>
      let code := code + b
      let count := h.counts.getD len 0
      if code < first + count then some (h.symbols.getD (index + (code - first)) 0, br)
      else decodeAux h fuel (len + 1) (2 * code) (2 * (first + count)) (index + count) br

/-- one symbol (at most 15 bits); `none` on truncated input or a bit sequence that is not a code -/
def decodeSym (h : Huff) (br : BitReader) : Option (Nat × BitReader) := decodeAux h 15 1 0 0 0 br

/-! ### Fixed codes (RFC 1951 §3.2.6) -/

def fixedLitLens : List Nat :=
  List.replicate 144 8 ++ List.replicate 112 9 ++ List.replicate 24 7 ++ List.replicate 8 8

/-- the fixed code is complete, so `ofLengths` succeeds; the `getD` default is never used -/
def fixedLit : Huff := (Huff.ofLengths fixedLitLens).getD ⟨#[], #[]⟩
/-- five-bit distance codes, most significant bit first = the complete code with 32 symbols of length 5 -/
def fixedDist : Huff := (Huff.ofLengths (List.replicate 32 5)).getD ⟨#[], #[]⟩

/-! ### Lengths and distances (RFC 1951 §3.2.5) -/

def lenBase : Array Nat :=
  #[3, 4, 5, 6, 7, 8, 9, 10, 11, 13, 15, 17, 19, 23, 27, 31, 35, 43, 51, 59, 67, 83, 99, 115, 131, 163, 195, 227, 258]
def lenExtra : Array Nat :=
  #[0, 0, 0, 0, 0, 0, 0, 0, 1, 1, 1, 1, 2, 2, 2, 2, 3, 3, 3, 3, 4, 4, 4, 4, 5, 5, 5, 5, 0]

/-- a literal/length symbol > 256 followed by its extra bits, a distance symbol, its extra bits -/
def readLenDist (dist : Huff) (sym : Nat) (br : BitReader) : Option (Nat × Nat × BitReader) :=
  if sym > 285 then none else
  match br.readBits (lenExtra.getD (sym - 257) 0) with
  | none => none
  | some (e, br) =>
    let len := lenBase.getD (sym - 257) 0 + e
    match decodeSym dist br with
    | none => none
    | some (ds, br) =>
      if ds < 4 then some (len, ds + 1, br)
      else if ds ≥ 30 then none
      else
        let nb := (ds - 2) / 2
        match br.readBits nb with
        | none => none
        | some (x, br) => some (len, 2 ^ (nb + 1) + 1 + ((ds % 2) * 2 ^ nb + x), br)

/-- copy `len` bytes from `dist` bytes back, one at a time (ranges may overlap) -/
def copyMatch : Nat → Nat → Array UInt8 → Array UInt8
  | 0, _, out => out
  | n + 1, dist, out => copyMatch n dist (out.push (out.getD (out.size - dist) 0))

/-- the symbols of one compressed block up to and including end-of-block. Result: the output so far and the reader
after the block, or `none` for a malformed/truncated block -/
def huffBlock (lit dist : Huff) : Nat → BitReader → Array UInt8 → Array UInt8 × Option BitReader
  | 0, _, out => (out, none)
  | fuel + 1, br, out =>
    match decodeSym lit br with
    | none => (out, none)
    | some (sym, br) =>
      if sym < 256 then huffBlock lit dist fuel br (out.push sym.toUInt8)
      else if sym = 256 then (out, some br)
      else
        match readLenDist dist sym br with
        | none => (out, none)
        | some (len, d, br) =>
          if d > out.size then (out, none)
          else huffBlock lit dist fuel br (copyMatch len d out)

/-! ### Dynamic codes (RFC 1951 §3.2.7) -/

def codeOrder : List Nat := [16, 17, 18, 0, 8, 7, 9, 6, 10, 5, 11, 4, 12, 3, 13, 2, 14, 1, 15]

/-- `n` fields of `w` bits -/
def readFields (w : Nat) : Nat → BitReader → Option (List Nat × BitReader)
  | 0, br => some ([], br)
  | n + 1, br =>
    match br.readBits w with
    | none => none
    | some (v, br) =>
      match readFields w n br with
      | none => none
      | some (vs, br) => some (v :: vs, br)

def pushN (a : Array Nat) (v : Nat) : Nat → Array Nat
  | 0 => a
  | n + 1 => pushN (a.push v) v n

/-- the `n` code lengths of the literal/length and distance alphabets, coded with the code-length code -/
def readCodeLengths (clh : Huff) (n : Nat) : Nat → BitReader → Array Nat → Option (Array Nat × BitReader)
  | 0, _, _ => none
  | fuel + 1, br, acc =>
    if acc.size ≥ n then some (acc, br) else
    match decodeSym clh br with
    | none => none
    | some (x, br) =>
      if x < 16 then readCodeLengths clh n fuel br (acc.push x)
      else if x = 16 then
        if acc.size = 0 then none else
        match br.readBits 2 with
        | none => none
        | some (r, br) =>
          if acc.size + (3 + r) > n then none
          else readCodeLengths clh n fuel br (pushN acc (acc.getD (acc.size - 1) 0) (3 + r))
      else if x = 17 then
        match br.readBits 3 with
        | none => none
        | some (r, br) =>
          if acc.size + (3 + r) > n then none
          else readCodeLengths clh n fuel br (pushN acc 0 (3 + r))
      else
        match br.readBits 7 with
        | none => none
        | some (r, br) =>
          if acc.size + (11 + r) > n then none
          else readCodeLengths clh n fuel br (pushN acc 0 (11 + r))

def readDynamic (br : BitReader) : Option (Huff × Huff × BitReader) :=
  match br.readBits 5 with
  | none => none
  | some (hlit, br) =>
  match br.readBits 5 with
  | none => none
  | some (hdist, br) =>
  match br.readBits 4 with
  | none => none
  | some (hclen, br) =>
    let nlit := hlit + 257
    let ndist := hdist + 1
    if nlit > 286 ∨ ndist > 30 then none else
    match readFields 3 (hclen + 4) br with
    | none => none
    | some (cl, br) =>
      let clLens : Array Nat := (codeOrder.zip cl).foldl (fun a p => a.setIfInBounds p.1 p.2) (Array.replicate 19 0)
      match Huff.ofLengths clLens.toList with
      | none => none
      | some clh =>
        match readCodeLengths clh (nlit + ndist) (nlit + ndist + 1) br #[] with
        | none => none
        | some (lens, br) =>
          match Huff.ofLengths (lens.toList.take nlit), Huff.ofLengths (lens.toList.drop nlit) with
          | some lit, some dist => some (lit, dist, br)
          | _, _ => none

/-! ### Stored blocks and the block loop -/

/-- a stored block at a byte boundary: LEN, NLEN (one's complement), LEN bytes. On truncated data the bytes that
are there are still delivered (as Go's `copyData` does) before the error -/
def storedBlock (bs : Bytes) (out : Array UInt8) : Array UInt8 × Option Bytes :=
  match bs with
  | l0 :: l1 :: n0 :: n1 :: rest =>
    let len := rd16le l0 l1
    if len + rd16le n0 n1 ≠ 65535 then (out, none)
    else
      let chunk := rest.take len
      if chunk.length < len then (out ++ chunk, none)
      else (out ++ chunk, some (rest.drop len))
  | _ => (out, none)

/-- one block after its 3-bit header (`typ` = BTYPE) -/
def block (symFuel : Nat) (typ : Nat) (br : BitReader) (out : Array UInt8) : Array UInt8 × Option BitReader :=
  if typ = 0 then
    match storedBlock br.align out with
    | (out, some rest) => (out, some ⟨rest, 0⟩)
    | (out, none) => (out, none)
  else if typ = 1 then huffBlock fixedLit fixedDist symFuel br out
  else if typ = 2 then
    match readDynamic br with
    | none => (out, none)
    | some (lit, dist, br) => huffBlock lit dist symFuel br out
  else (out, none)

/-- blocks until BFINAL. Result: everything output (also when the stream turns out malformed) and, for a well-formed
stream, the bytes after the final block (from the next byte boundary) -/
def inflateLoop (symFuel : Nat) : Nat → BitReader → Array UInt8 → Array UInt8 × Option Bytes
  | 0, _, out => (out, none)
  | fuel + 1, br, out =>
    match br.readBits 3 with
    | none => (out, none)
    | some (hdr, br) =>
      match block symFuel (hdr / 2) br out with
      | (out, none) => (out, none)
      | (out, some br) =>
        if hdr % 2 = 1 then (out, some br.align) else inflateLoop symFuel fuel br out

/-- fuel for a stream of `n` bytes: one more than its number of bits -/
def fuelFor (n : Nat) : Nat := 8 * n + 1

def inflateCore (bs : Bytes) : Array UInt8 × Option Bytes :=
  inflateLoop (fuelFor bs.length) (fuelFor bs.length) ⟨bs, 0⟩ #[]

/-- raw deflate stream: (output, unread bytes after the final block), `none` on any malformed or truncated stream -/
def inflate (bs : Bytes) : Option (Bytes × Bytes) :=
  match inflateCore bs with
  | (out, some rest) => some (out.toList, rest)
  | (_, none) => none

/-! ### gzip container (RFC 1952) -/

/-- a NUL-terminated string of at most `n` bytes including the NUL: the bytes after it -/
def skipCString : Nat → Bytes → Option Bytes
  | 0, _ => none
  | _, [] => none
  | n + 1, b :: rest => if b = 0 then some rest else skipCString n rest

def flagSet (flg : UInt8) (bit : Nat) : Bool := (flg.toNat >>> bit) % 2 = 1

def skipExtra (flg : UInt8) (bs : Bytes) : Option Bytes :=
  if flagSet flg 2 then
    match bs with
    | x0 :: x1 :: rest =>
      let n := rd16le x0 x1
      if (rest.take n).length < n then none else some (rest.drop n)
    | _ => none
  else some bs

def skipString (flg : UInt8) (bit : Nat) (bs : Bytes) : Option Bytes :=
  if flagSet flg bit then skipCString 512 bs else some bs

/-- FHCRC: `all` is the whole member, `bs` its unread suffix; the two bytes must be the low half of the CRC-32 of
everything before them -/
def checkHcrc (flg : UInt8) (all bs : Bytes) : Option Bytes :=
  if flagSet flg 1 then
    match bs with
    | c0 :: c1 :: rest =>
      if (crc32 (all.take (all.length - bs.length))).toNat % 65536 = rd16le c0 c1 then some rest else none
    | _ => none
  else some bs

/-- the member header: the bytes that follow it (the deflate stream), `none` when Go's `readHeader` fails -/
def gzHeader (bs : Bytes) : Option Bytes :=
  match bs with
  | id1 :: id2 :: cm :: flg :: _ :: _ :: _ :: _ :: _ :: _ :: r0 =>
    if id1 ≠ 0x1f ∨ id2 ≠ 0x8b ∨ cm ≠ 8 then none else
    match skipExtra flg r0 with
    | none => none
    | some r1 =>
      match skipString flg 3 r1 with
      | none => none
      | some r2 =>
        match skipString flg 4 r2 with
        | none => none
        | some r3 => checkHcrc flg bs r3
  | _ => none

inductive MemberRes where
  /-- `readHeader` failed -/
  | hdrErr
  /-- the header was accepted, the body or the trailer was not; `out` is what had been output -/
  | bodyErr (out : Array UInt8)
  /-- a complete valid member and the bytes after its trailer -/
  | ok (out : Array UInt8) (rest : Bytes)

/-- CRC-32 and ISIZE after the deflate stream -/
def checkTrailer (out : Array UInt8) (bs : Bytes) : MemberRes :=
  match bs with
  | c0 :: c1 :: c2 :: c3 :: s0 :: s1 :: s2 :: s3 :: rest =>
    if rd32le c0 c1 c2 c3 = crc32A out ∧ rd32le s0 s1 s2 s3 = UInt32.ofNat out.size then .ok out rest
    else .bodyErr out
  | _ => .bodyErr out

def gzMember (bs : Bytes) : MemberRes :=
  match gzHeader bs with
  | none => .hdrErr
  | some body =>
    match inflateCore body with
    | (out, none) => .bodyErr out
    | (out, some rest) => checkTrailer out rest

/-- one member: (content, bytes after the trailer) -/
def gunzipMember (bs : Bytes) : Option (Bytes × Bytes) :=
  match gzMember bs with
  | .ok out rest => some (out.toList, rest)
  | _ => none

/-- a reader with `Multistream(false)` read to EOF: only the first member is looked at -/
def gunzipFirst (bs : Bytes) : Option (Bytes × Bool) :=
  match gzMember bs with
  | .hdrErr => none
  | .bodyErr out => some (out.toList, false)
  | .ok out _ => some (out.toList, true)

/-- the members after the first one (multistream mode): `acc` is the content so far, `bs` the non-empty unread input -/
def gunzipMore : Nat → Bytes → Array UInt8 → Array UInt8 × Bool
  | 0, _, acc => (acc, false)
  | fuel + 1, bs, acc =>
    match gzMember bs with
    | .hdrErr => (acc, false)
    | .bodyErr out => (acc ++ out, false)
    | .ok out rest => if rest.isEmpty then (acc ++ out, true) else gunzipMore fuel rest (acc ++ out)

/-- `gzip.NewReader` + read to EOF in the default (multistream) mode — what the library's `Decompress` does:
`none` = `NewReader` rejects the first header; `some (p, false)` = an error after `p` was produced;
`some (p, true)` = EOF reached right after a valid member, `p` the concatenated contents -/
def gunzip (bs : Bytes) : Option (Bytes × Bool) :=
  match gzMember bs with
  | .hdrErr => none
  | .bodyErr out => some (out.toList, false)
  | .ok out rest =>
    if rest.isEmpty then some (out.toList, true)
    else
      let r := gunzipMore bs.length rest out
      some (r.1.toList, r.2)

/-! ### A compressor: stored blocks only -/

/-- one stored block; `x.length ≤ 65535` -/
def storedBlockEnc (final : Bool) (x : Bytes) : Bytes :=
  (if final then 1 else 0) :: (le16 x.length ++ le16 (65535 - x.length) ++ x)

/-- stored blocks of 65535 bytes, the last one (possibly empty or shorter) final; `n` bounds the number of
non-final blocks -/
def storedBlocks : Nat → Bytes → Bytes
  | 0, x => storedBlockEnc true x
  | n + 1, x =>
    if x.length ≤ 65535 then storedBlockEnc true x
    else storedBlockEnc false (x.take 65535) ++ storedBlocks n (x.drop 65535)

/-- a raw deflate stream for `x` -/
def storedDeflate (x : Bytes) : Bytes := storedBlocks (x.length / 65535) x

def gzHeaderBytes : Bytes := [0x1f, 0x8b, 0x08, 0x00, 0x00, 0x00, 0x00, 0x00, 0x00, 0xff]

/-- a gzip stream for `x`: plain header, stored blocks, CRC-32, ISIZE -/
def storedGzip (x : Bytes) : Bytes :=
  gzHeaderBytes ++ storedDeflate x ++ le32 (crc32 x) ++ le32 (UInt32.ofNat x.length)

end OAP.Inflate
