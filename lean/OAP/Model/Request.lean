/-
Model of the request-id generator (go/context.go GetRequestIDGen: one atomic add-and-fetch on a
uint32) and of the packet constructors of go/packet.go with their options
(WithVerify | WithRequestId | WithStatusCode; NewRequest/MustNewRequest append the fresh id LAST).
-/
import OAP.Base
import OAP.Gen.Facts
namespace OAP.Request

/-- one connection context's generator: the counter and (ghost) the ids issued so far, oldest first -/
structure IdGen where
  counter : UInt32 := 0
  issued : List UInt32 := []
  deriving Repr, DecidableEq

/-- one atomic `NextReqId()` = `atomic.AddUint32(&id, 1)`, by whichever goroutine is scheduled -/
def IdGen.next (g : IdGen) : UInt32 × IdGen :=
  let id := g.counter + 1
  (id, { counter := id, issued := g.issued ++ [id] })

/-- a schedule: the list of goroutines taking one atomic step each, in the order the steps are linearised -/
def run : IdGen → List Nat → IdGen
  | g, [] => g
  | g, _ :: ts => run g.next.2 ts

inductive Opt where
  | withVerify (nonce : UInt64) (sig : Bytes)
  | withRequestId (id : UInt32)
  | withStatusCode (c : UInt8)
  deriving DecidableEq, Repr

/-- the fields of `protocol.Metadata` the options touch -/
structure Md where
  rid : UInt32 := 0
  status : UInt8 := 0
  verify : Bool := false
  nonce : UInt64 := 0
  sig : Bytes := []
  deriving DecidableEq, Repr

def applyOpt (m : Md) : Opt → Md
  | .withVerify n s => { m with verify := true, nonce := n, sig := s }
  | .withRequestId id => { m with rid := id }
  | .withStatusCode c => { m with status := c }

/-- `NewPacket`: options applied in order -/
def newPacket (opts : List Opt) : Md := opts.foldl applyOpt {}
/-- `NewRequest` / `MustNewRequest`: `opts = append(opts, WithRequestId(ctx.NextReqId()))` -/
def newRequest (g : IdGen) (opts : List Opt) : Md × IdGen :=
  let (id, g') := g.next
  (newPacket (opts ++ [.withRequestId id]), g')
/-- `NewResponse` / `MustNewResponse`: `opts = append(opts, WithStatusCode(code))` -/
def newResponse (code : UInt8) (opts : List Opt) : Md := newPacket (opts ++ [.withStatusCode code])
/-- `NewPush` / `MustNewPush` -/
def newPush (opts : List Opt) : Md := newPacket opts

end OAP.Request
