/-
Model of the streaming (resumable) decoders: Header.Unpack (go/v1/header.go, go/v2/v2_header.go)
and protocolVx.Unpack (go/v1/v1.go, go/v2/v2.go) over the concrete ring buffer model, including
the header parked in the connection context between calls (`pend`) and the four hand-written
cases of the split 3-byte body length.
-/
import OAP.Model.Frame
import OAP.Model.Ring
namespace OAP
namespace Frame

/-- outcome of one `Unpack` call -/
inductive SRes where
  | more                      -- (nil, false, nil): need more data
  | pkt (p : Packet)          -- (packet, true, nil)
  | err (e : String)          -- (…, false, err)
  | panic (w : String)
  deriving Repr, DecidableEq

/-- everything one call leaves behind: result, the header parked in the context, the ring -/
structure SOut where
  res : SRes
  pend : Option Header
  rb : Ring

/-- outcome of `Header.Unpack(ctx, buffer)`: `(done, err)` plus the mutated header and ring -/
structure HOut where
  done : Bool
  err : Option String := none
  panic : Option String := none
  h : Header
  rb : Ring

/-- the three body-length bytes out of `Peek(3)`'s two slices: `switch len(f)` -/
def len3 (f e : Bytes) : Res (UInt8 × UInt8 × UInt8) :=
  match f.length with
  | 0 => do let a ← Bytes.idx e 0; let b ← Bytes.idx e 1; let c ← Bytes.idx e 2; pure (a, b, c)
  | 1 => do let a ← Bytes.idx f 0; let b ← Bytes.idx e 0; let c ← Bytes.idx e 1; pure (a, b, c)
  | 2 => do let a ← Bytes.idx f 0; let b ← Bytes.idx f 1; let c ← Bytes.idx e 0; pure (a, b, c)
  | _ => do let a ← Bytes.idx f 0; let b ← Bytes.idx f 1; let c ← Bytes.idx f 2; pure (a, b, c)

/-- the part of `Header.Unpack` after the "waiting data" check: all remaining header bytes are buffered -/
def Header.unpackRest (v : Ver) (h : Header) (rb : Ring) : HOut :=
  let h := { h with isUnpacked := true }
  let fail (w : String) (h : Header) (rb : Ring) : HOut := { done := true, panic := some w, h := h, rb := rb }
  match rb.peekUint8 with
  | .err e => fail e h rb | .panic w => fail w h rb
  | .ok cmd =>
  let h := { h with cmdCode := cmd }
  let rb := rb.retrieve 1
  let step1 : Res (Header × Ring) :=
    if h.type == tReq || h.type == tResp then
      match rb.peekUint32 with
      | .ok x => .ok ({ h with requestId := x }, rb.retrieve 4)
      | .err e => .panic e | .panic w => .panic w
    else .ok (h, rb)
  match step1 with
  | .err e => fail e h rb | .panic w => fail w h rb
  | .ok (h, rb) =>
  let step2 : Res (Header × Ring) :=
    if h.type == tReq then
      match rb.peekUint16 with
      | .ok x => .ok ({ h with timeout := x }, rb.retrieve 2)
      | .err e => .panic e | .panic w => .panic w
    else .ok (h, rb)
  match step2 with
  | .err e => fail e h rb | .panic w => fail w h rb
  | .ok (h, rb) =>
  let step3 : Res (Header × Ring) :=
    if h.type == tResp then
      match rb.peekUint8 with
      | .ok x => .ok ({ h with statusCode := x }, rb.retrieve 1)
      | .err e => .panic e | .panic w => .panic w
    else .ok (h, rb)
  match step3 with
  | .err e => fail e h rb | .panic w => fail w h rb
  | .ok (h, rb) =>
  let step4 : Res (Header × Ring) :=
    match v with
    | .v1 => .ok (h, rb)
    | .v2 =>
      match rb.peekUint16 with
      | .ok x => .ok ({ h with metadataLength := x }, rb.retrieve 2)
      | .err e => .panic e | .panic w => .panic w
  match step4 with
  | .err e => fail e h rb | .panic w => fail w h rb
  | .ok (h, rb) =>
  let fe := rb.peek 3
  let rb := rb.retrieve 3
  match len3 fe.1 fe.2 with
  | .err e => fail e h rb | .panic w => fail w h rb
  | .ok (fb, sb, tb) =>
    { done := true, h := { h with bodyLength := usBodyLen v fb sb tb }, rb := rb }

/-- `func (h *Header) Unpack(ctx, buffer) (done bool, err error)` -/
def Header.unpackRing (v : Ver) (h : Header) (rb : Ring) : HOut :=
  if rb.length = 0 then { done := false, h := h, rb := rb }
  else if h.isUnpacked then { done := true, h := h, rb := rb }
  else
    let first : Res (Header × Ring) :=
      if !h.beginUnpack then
        match rb.peekUint8 with
        | .ok b => .ok ({ h with beginUnpack := true, type := usType v b, verify := usVerify v b,
                                   gzip := usGzip v b, reserve := usReserve v b }, rb.retrieve 1)
        | .err e => .panic e | .panic w => .panic w
      else .ok (h, rb)
    match first with
    | .err e => { done := false, panic := some e, h := h, rb := rb }
    | .panic w => { done := false, panic := some w, h := h, rb := rb }
    | .ok (h, rb) =>
      if isUnknown h.type then { done := false, err := some "invalid packet type", h := h, rb := rb }
      else
        let remainLen := hdrLen v h.type - 1
        if rb.length < remainLen then { done := false, h := h, rb := rb }
        else Header.unpackRest v h rb

/-- the part of `protocolVx.Unpack` after the header is complete -/
def unpackBody (v : Ver) (gz : GzOracle) (codec : UInt8) (h : Header) (rb : Ring) : SOut :=
  let ml := match v with | .v1 => 0 | .v2 => h.metadataLength.toNat
  let bl := h.bodyLength.toNat
  let len := bl + ml + (if h.verify == 1 then trailerLen else 0)
  if rb.length < len then { res := .more, pend := some h, rb := rb }
  else
    -- read metadata (v2), then body
    match (match v with | .v1 => Res.ok ([], rb) | .v2 => rb.read ml) with
    | .err e => { res := .err e, pend := none, rb := rb }
    | .panic w => { res := .panic w, pend := none, rb := rb }
    | .ok (md, rb) =>
    match rb.read bl with
    | .err e => { res := .err e, pend := none, rb := rb }
    | .panic w => { res := .panic w, pend := none, rb := rb }
    | .ok (body, rb) =>
    let p := { Header.toPacket h codec with body := body }
    match (match v with
      | .v1 => Res.ok p
      | .v2 => match Metadata.rawPairs md with
        | .ok ps => Res.ok { p with values := ps }
        | .err e => .err e | .panic w => .panic w) with
    | .err e => { res := .err e, pend := none, rb := rb }
    | .panic w => { res := .panic w, pend := none, rb := rb }
    | .ok p =>
    let tr : Res (Packet × Ring) :=
      if h.verify == 1 then
        match rb.peekUint64 with
        | .err e => .panic e | .panic w => .panic w
        | .ok nonce =>
          let rb := rb.retrieve Gen.v1_NonceLength
          match rb.read Gen.v1_SignatureLength with
          | .ok (s, rb) => .ok ({ p with nonce := nonce, signature := s }, rb)
          | .err e => .err e | .panic w => .panic w
      else .ok (p, rb)
    match tr with
    | .err e => { res := .err e, pend := none, rb := rb }
    | .panic w => { res := .panic w, pend := none, rb := rb }
    | .ok (p, rb) =>
      if h.gzip == 1 then
        match Gzip.decompress gz p.body with
        | .ok b => { res := .pkt { p with body := b }, pend := none, rb := rb }
        | .err e => { res := .err e, pend := none, rb := rb }
        | .panic w => { res := .panic w, pend := none, rb := rb }
      else { res := .pkt p, pend := none, rb := rb }

/-- `protocolVx.Unpack(ctx, buf)`: `pend` is the header parked in the context (`ctx.GetHeader()`) -/
def unpackRing (v : Ver) (gz : GzOracle) (codec : UInt8) (pend : Option Header) (rb : Ring) : SOut :=
  let h := pend.getD {}
  if !h.isUnpacked then
    let o := Header.unpackRing v h rb
    match o.panic, o.err with
    | some w, _ => { res := .panic w, pend := none, rb := o.rb }
    | none, some e => { res := .err e, pend := none, rb := o.rb }
    | none, none =>
      if !o.done then { res := .more, pend := some o.h, rb := o.rb }
      else unpackBody v gz codec o.h o.rb
  else unpackBody v gz codec h rb

end Frame
end OAP
