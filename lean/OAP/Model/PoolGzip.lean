/-
Pool view, the gzip instances: the two `sync.Pool`s of go/gzip/gzip.go (`poolCompressor`, `poolDecompressor`)
as instances of the generic interleaving model `OAP.Pool`, with compress/gzip behind the oracle `GzOracle` of
`OAP.Model.Frame`.

Go statement → model step                                                          (pinned by `C10.pool_source`)

  Compress(in)
    buf := &bytes.Buffer{}                         (thread-private; its content is folded into the object's state
                                                    until `finish` hands it to the caller as the result)
    defaultCompressor.Compress(buf):
      z := c.poolCompressor.Get().(*writer)        get    hit: a pooled writer, with whatever its last stream left in it;
                                                          miss: `New` = the closure installed by `init` / `SetLevel`:
                                                          `return &writer{Writer: gzip.NewWriter(…), …}` — a NEW writer
                                                          per call: the model's fresh identity `next`
      z.Writer.Reset(w)                            reset  (`ResetErases`: trusted of compress/gzip)
    z.Write(in)                                    use in   (an error here returns without Close: finish, put = FALSE —
                                                            the writer is dropped; bytes.Buffer writes do not fail)
    z.Close():  return z.Writer.Close()            finish (the stream is completed: result = `gz.compress` of what was
                defer z.pool.Put(z)                        written) and put = true, on EVERY path (deferred)
    out = buf.Bytes()                              (the result, already taken)

  Decompress(in)
    defaultCompressor.Decompress(bytes.NewReader(in)):
      z, inPool := c.poolDecompressor.Get().(*reader)   get   (this pool has no `New`: a miss returns nil)
      if !inPool { newZ, err := gzip.NewReader(r) …     miss: `gzip.NewReader` = `new(Reader)` + `Reset(r)`: get(miss) + reset;
                   if err != nil { return nil, err }          header invalid → the call returns the error: finish, put = FALSE
      if err := z.Reset(r); err != nil {                reset on a recycled reader; header invalid →
          c.poolDecompressor.Put(z); return nil, err }        finish, put = TRUE (the reader goes back)
    buf.ReadFrom(or) → (z *reader).Read(p), repeatedly  use n (one `Read` with room for n+1 bytes)
      n, err = z.Reader.Read(p)
      if err == io.EOF { z.pool.Put(z) }                the Read that reports EOF: finish, put = TRUE
      (any other error: ReadFrom returns it)            finish, put = FALSE — the reader is DROPPED, never pooled again

Both values of `put` occur, and which one depends on more than the object's state (a failed Reset puts a recycled
reader back and drops a new one), so the generic model leaves `put` to the schedule: the theorems hold for every choice.
`goPut` below is the choice the Go code makes; `followsGo_demo` is a run that follows it.

One `Put` per `Get`: `writer.Close` and the EOF branch of `reader.Read` put on EVERY invocation, so a caller that
closed twice, or read again after io.EOF, would put the object twice (`Pool.double_put_breaks` shows what follows).
Neither object escapes this package: `Compress` calls `Close` once, and `Decompress` reads through
`bytes.Buffer.ReadFrom`, which returns at the first io.EOF (both pinned by `C10.pool_source`).
-/
import OAP.Model.Pool
import OAP.Model.Frame
namespace OAP.PoolGzip
open OAP OAP.Pool

/-! ### the compressor pool -/

/-- the pooled `*writer`. State: the bytes written into it since its last `Reset` (for an object lying in the pool:
the input of the call that used it last — stale). `Reset(w)`: a new, empty stream. `Write(p)`: append. `Close`: the
finished stream, compress/gzip's output for everything written (the oracle). -/
def WB (gz : GzOracle) : Beh Bytes Unit Bytes (Res Bytes) :=
  { new := [], reset := fun _ _ => [], useStep := fun s p => s ++ p, result := fun s => gz.compress s }

theorem WB_erases (gz : GzOracle) : (WB gz).ResetErases := fun _ _ _ => rfl

theorem foldl_append_flatten (us : List Bytes) : ∀ acc : Bytes, us.foldl (fun s p => s ++ p) acc = acc ++ us.flatten := by
  induction us with
  | nil => intro acc; simp
  | cons u us ih => intro acc; simp [ih]

/-- alone on a fresh writer: `Reset; Write p₁; …; Write pₖ; Close` yields the compression of p₁ ++ … ++ pₖ -/
theorem WB_seq (gz : GzOracle) (ps : List Bytes) : (WB gz).seqResult () ps = gz.compress ps.flatten := by
  simp [Beh.seqResult, Beh.seqState, WB, foldl_append_flatten]

/-- `gzip.Compress(x)` as a call of the model: Reset, one Write, Close -/
theorem WB_seq_one (gz : GzOracle) (x : Bytes) : (WB gz).seqResult () [x] = gz.compress x := by
  simp [WB_seq]

/-- `compress_concurrent_eq_seq`: N goroutines calling `gzip.Compress` over the shared `poolCompressor` — any
interleaving of their Get / Reset / Write / Close+Put steps, `Get` hitting or missing, the pool dropping writers, from
ANY initial pool of writers with arbitrary stale content: every call `Compress(x)` that has returned has returned
`gz.compress x`, exactly what the sequential model (`Frame.pack`: `gz.compress p.body`) uses. More generally, a
writer that was written in pieces returns the compression of their concatenation. -/
theorem compress_concurrent_eq_seq (gz : GzOracle) (pool : List Nat) (obj : Nat → Bytes) (next : Nat)
    (h0 : InitOk pool next) (acts : List (Act Unit Bytes)) (s : St Bytes Unit Bytes (Res Bytes))
    (h : run (WB gz) (init pool obj next) acts = some s) :
    (∀ t x out, s.pc t = .fin () [x] out → out = gz.compress x) ∧
    (∀ t ps out, s.pc t = .fin () ps out → out = gz.compress ps.flatten) ∧
    (∀ t u o, t ≠ u → (s.pc t).holds = some o → (s.pc u).holds ≠ some o) := by
  refine ⟨?_, ?_, (no_shared_object (WB gz) (WB_erases gz) pool obj next h0 acts s h).1⟩
  · intro t x out hf
    rw [pool_exclusive (WB gz) (WB_erases gz) pool obj next h0 acts s h t () [x] out hf, WB_seq_one]
  · intro t ps out hf
    rw [pool_exclusive (WB gz) (WB_erases gz) pool obj next h0 acts s h t () ps out hf, WB_seq]

/-! ### the decompressor pool -/

inductive RStatus where
  | resetErr      -- `Reset` / `NewReader` rejected the gzip header
  | reading
  | eof           -- the stream ended, checksum and size verified: `Read` returned io.EOF
  | failed        -- the stream ended in an error (truncated, corrupt, checksum mismatch)
  deriving DecidableEq, Repr

/-- the pooled `*reader` together with what the caller has read from it so far: the compressed source it was `Reset`
on, the bytes delivered since, its status. (For an object lying in the pool all three are stale.) -/
structure RState where
  src : Bytes
  got : Bytes
  status : RStatus
  deriving DecidableEq, Repr

/-- `z.Reset(r)` / `gzip.NewReader(r)`: new source, nothing delivered; it fails iff the oracle has no stream for
the source (`gz.read src = none`: no valid gzip header) -/
def rReset (gz : GzOracle) (_ : RState) (src : Bytes) : RState :=
  { src := src, got := [], status := if (gz.read src).isSome then .reading else .resetErr }

/-- one `Read(p)` with `len(p) = n + 1`. The oracle says what the stream holds: `gz.read src = some (out, ok)` — the
content `out`, then a clean end (`ok`) or an error. While content is left the next (at most n + 1) bytes are delivered;
after that the end is reported: io.EOF or the error. A reader that has finished keeps its status. -/
def rRead (gz : GzOracle) (s : RState) (n : Nat) : RState :=
  match s.status with
  | .reading =>
      match gz.read s.src with
      | some (out, ok) =>
          if s.got.length < out.length then { s with got := out.take (s.got.length + n + 1) }
          else { s with status := if ok then .eof else .failed }
      | none => { s with status := .failed }
  | _ => s

/-- what `gzip.Decompress` returns: the bytes read if the reader reported io.EOF, otherwise an error -/
def rResult (s : RState) : Res Bytes :=
  match s.status with
  | .eof => .ok s.got
  | _ => .err "gzip"

def RB (gz : GzOracle) : Beh RState Bytes Nat (Res Bytes) :=
  { new := { src := [], got := [], status := .resetErr }, reset := rReset gz, useStep := rRead gz, result := rResult }

theorem RB_erases (gz : GzOracle) : (RB gz).ResetErases := fun _ _ _ => rfl

/-- what the Go code does with the reader at the end of the call (`fromPool`: `Get` hit) -/
def goPut (fromPool : Bool) (s : RState) : Bool :=
  match s.status with
  | .eof => true                 -- `if err == io.EOF { z.pool.Put(z) }`
  | .resetErr => fromPool        -- `c.poolDecompressor.Put(z); return nil, err` — a NEW reader that fails is just garbage
  | _ => false                   -- an error from Read: dropped

/-- the reader relates to the oracle's stream for `src` -/
structure RWf (gz : GzOracle) (src : Bytes) (s : RState) : Prop where
  src_eq : s.src = src
  resetErr : s.status = .resetErr → gz.read src = none
  reading : s.status = .reading → ∃ out ok k, gz.read src = some (out, ok) ∧ s.got = out.take k
  eof : s.status = .eof → gz.read src = some (s.got, true)
  failed : s.status = .failed → ∃ out, gz.read src = some (out, false)

theorem rwf_reset (gz : GzOracle) (s0 : RState) (src : Bytes) : RWf gz src (rReset gz s0 src) := by
  cases hr : gz.read src with
  | none => constructor <;> simp [rReset, hr]
  | some p =>
    obtain ⟨out, ok⟩ := p
    constructor <;> simp [rReset, hr]

theorem rwf_read (gz : GzOracle) (src : Bytes) (s : RState) (n : Nat) (h : RWf gz src s) : RWf gz src (rRead gz s n) := by
  obtain ⟨h1, h2, h3, h4, h5⟩ := h
  cases hst : s.status with
  | reading =>
    obtain ⟨out, ok, k, hr, hg⟩ := h3 hst
    by_cases hlen : s.got.length < out.length
    · have e : rRead gz s n = { s with got := out.take (s.got.length + n + 1) } := by
        simp [rRead, hst, h1, hr, hlen]
      rw [e]
      exact ⟨h1, by simp [hst], fun _ => ⟨out, ok, _, hr, rfl⟩, by simp [hst], by simp [hst]⟩
    · have hfull : s.got = out := by
        rw [hg] at hlen ⊢
        simp only [List.length_take, Nat.not_lt] at hlen
        exact List.take_of_length_le (by omega)
      have e : rRead gz s n = { s with status := if ok then .eof else .failed } := by
        simp [rRead, hst, h1, hr, hlen]
      rw [e]
      cases ok
      · exact ⟨h1, by simp, by simp, by simp, fun _ => ⟨out, hr⟩⟩
      · exact ⟨h1, by simp, by simp, fun _ => by simp [hfull, hr], by simp⟩
  | resetErr =>
    have e : rRead gz s n = s := by simp [rRead, hst]
    rw [e]; exact ⟨h1, h2, h3, h4, h5⟩
  | eof =>
    have e : rRead gz s n = s := by simp [rRead, hst]
    rw [e]; exact ⟨h1, h2, h3, h4, h5⟩
  | failed =>
    have e : rRead gz s n = s := by simp [rRead, hst]
    rw [e]; exact ⟨h1, h2, h3, h4, h5⟩

theorem rwf_seq (gz : GzOracle) (src : Bytes) (ns : List Nat) : RWf gz src ((RB gz).seqState src ns) := by
  have : ∀ (ns : List Nat) (s : RState), RWf gz src s → RWf gz src (ns.foldl (rRead gz) s) := by
    intro ns
    induction ns with
    | nil => intro s h; exact h
    | cons n ns ih => intro s h; exact ih _ (rwf_read gz src s n h)
  exact this ns _ (rwf_reset gz (RB gz).new src)

/-- the call has run to its end: `ReadFrom` loops until `Read` returns io.EOF or an error (or `Reset` failed and
there was nothing to read) -/
def Done (gz : GzOracle) (src : Bytes) (ns : List Nat) : Prop := ((RB gz).seqState src ns).status ≠ .reading

instance (gz : GzOracle) (src : Bytes) (ns : List Nat) : Decidable (Done gz src ns) := by unfold Done; infer_instance

/-- alone on a fresh reader, a call that has run to its end returns `Gzip.decompress` — the function the sequential
frame model uses — however the reads were chunked -/
theorem RB_seq (gz : GzOracle) (src : Bytes) (ns : List Nat) (hd : Done gz src ns) :
    (RB gz).seqResult src ns = Gzip.decompress gz src := by
  have w := rwf_seq gz src ns
  unfold Done at hd
  simp only [Beh.seqResult, RB, rResult] at *
  generalize (Beh.seqState _ src ns) = s at *
  cases hst : s.status with
  | reading => exact absurd hst hd
  | resetErr => simp [Gzip.decompress, w.resetErr hst]
  | eof => simp [Gzip.decompress, w.eof hst]
  | failed => obtain ⟨out, ho⟩ := w.failed hst; simp [Gzip.decompress, ho]

/-- every source can be read to its end (so `Done` is satisfiable for every input): `out.length + 1` reads of any sizes
suffice; here: one read per byte and one for the end -/
theorem done_exists (gz : GzOracle) (src : Bytes) : ∃ ns, Done gz src ns := by
  cases hr : gz.read src with
  | none => exact ⟨[], by simp [Done, Beh.seqState, RB, rReset, hr]⟩
  | some p =>
    obtain ⟨out, ok⟩ := p
    have key : ∀ (m : Nat) (s : RState), s.src = src → s.status = .reading → s.got.length + m = out.length →
        s.got = out.take s.got.length →
        ((List.replicate (m + 1) 0).foldl (rRead gz) s).status ≠ .reading := by
      intro m
      induction m with
      | zero =>
        intro s h1 h2 h3 _
        simp only [Nat.zero_add, List.replicate_one, List.foldl_cons, List.foldl_nil]
        have : ¬ s.got.length < out.length := by omega
        cases ok <;> simp [rRead, h1, h2, hr, this]
      | succ m ih =>
        intro s h1 h2 h3 h4
        rw [List.replicate_succ, List.foldl_cons]
        have hlt : s.got.length < out.length := by omega
        have e : rRead gz s 0 = { s with got := out.take (s.got.length + 0 + 1) } := by
          simp [rRead, h1, h2, hr, hlt]
        rw [e]
        apply ih
        · exact h1
        · exact h2
        · simp only [List.length_take]; omega
        · simp only [List.length_take]
          congr 1; omega
    refine ⟨List.replicate (out.length + 1) 0, ?_⟩
    exact key out.length (rReset gz (RB gz).new src) rfl (by simp [rReset, hr]) (by simp [rReset]) (by simp [rReset])

/-- `decompress_concurrent_eq_seq`: N goroutines calling `gzip.Decompress` over the shared `poolDecompressor` — any
interleaving of their Get / Reset / Read / Put-or-drop steps, readers put back (EOF, failed Reset of a recycled reader)
or dropped (stream error, failed NewReader, the collector), from ANY initial pool of readers with arbitrary stale
sources, offsets and statuses: every call that has returned has returned its sequential result, and a call that has run
to its end (`Done`: what `ReadFrom` does) has returned `Gzip.decompress gz src`, whatever the sizes of its reads. -/
theorem decompress_concurrent_eq_seq (gz : GzOracle) (pool : List Nat) (obj : Nat → RState) (next : Nat)
    (h0 : InitOk pool next) (acts : List (Act Bytes Nat)) (s : St RState Bytes Nat (Res Bytes))
    (h : run (RB gz) (init pool obj next) acts = some s) :
    (∀ t src ns out, s.pc t = .fin src ns out → out = (RB gz).seqResult src ns) ∧
    (∀ t src ns out, s.pc t = .fin src ns out → Done gz src ns → out = Gzip.decompress gz src) ∧
    (∀ t u o, t ≠ u → (s.pc t).holds = some o → (s.pc u).holds ≠ some o) := by
  refine ⟨?_, ?_, (no_shared_object (RB gz) (RB_erases gz) pool obj next h0 acts s h).1⟩
  · intro t src ns out hf
    exact pool_exclusive (RB gz) (RB_erases gz) pool obj next h0 acts s h t src ns out hf
  · intro t src ns out hf hd
    rw [pool_exclusive (RB gz) (RB_erases gz) pool obj next h0 acts s h t src ns out hf, RB_seq gz src ns hd]

/-- both pools at once: a `Compress(x)` finished in ANY interleaving over the writer pool, its output fed to a
`Decompress` that ran to its end in ANY interleaving over the reader pool, gives `x` back (oracle soundness assumed) -/
theorem roundtrip_concurrent (gz : GzOracle) (hs : gz.Sound)
    (pool : List Nat) (obj : Nat → Bytes) (next : Nat) (h0 : InitOk pool next)
    (acts : List (Act Unit Bytes)) (s : St Bytes Unit Bytes (Res Bytes))
    (h : run (WB gz) (init pool obj next) acts = some s)
    (pool' : List Nat) (obj' : Nat → RState) (next' : Nat) (h0' : InitOk pool' next')
    (acts' : List (Act Bytes Nat)) (s' : St RState Bytes Nat (Res Bytes))
    (h' : run (RB gz) (init pool' obj' next') acts' = some s')
    (t t' : Nat) (x c : Bytes) (ns : List Nat) (out : Res Bytes)
    (hf : s.pc t = .fin () [x] (.ok c)) (hf' : s'.pc t' = .fin c ns out) (hd : Done gz c ns) : out = .ok x := by
  have e1 := (compress_concurrent_eq_seq gz pool obj next h0 acts s h).1 t x _ hf
  have e2 := (decompress_concurrent_eq_seq gz pool' obj' next' h0' acts' s' h').2.1 t' c ns out hf' hd
  obtain ⟨c', hc1, hc2⟩ := hs x
  rw [hc1] at e1; cases e1
  rw [e2]; simp [Gzip.decompress, hc2]

/-! ### non-vacuity -/

/-- a toy gzip: a stream is the magic byte 0x1f, the content, and the end marker 0xff; a missing marker is a truncated
stream; anything not starting with the magic byte has no valid header -/
def toyGz : GzOracle :=
  { compress := fun x => .ok (0x1f :: x ++ [0xff]),
    read := fun c => match c with
      | 0x1f :: rest => if rest.getLast? = some 0xff then some (rest.dropLast, true) else some (rest, false)
      | _ => none }

/-- writer pool: two stale writers; thread 0 recycles one, thread 1 gets a new one, thread 2 recycles the other, all
three interleaved; thread 2 writes in two pieces -/
example : (run (WB toyGz) (init [0, 1] (fun o => if o = 0 then [9, 9] else [8]) 2)
      [.get 0 () (some 1), .get 1 () none, .get 2 () (some 0), .reset 1, .reset 0, .use 0 [1, 2], .reset 2, .use 2 [5],
       .use 1 [3], .finish 0 true, .use 2 [6], .finish 1 true, .finish 2 true]).map (fun s => (s.pc 0, s.pc 1, s.pc 2)) =
    some (.fin () [[1, 2]] (.ok [0x1f, 1, 2, 0xff]), .fin () [[3]] (.ok [0x1f, 3, 0xff]),
          .fin () [[5], [6]] (.ok [0x1f, 5, 6, 0xff])) := by decide

/-- reader pool, the Go put policy followed (`goPut`): one stale reader in the pool. Thread 0 recycles it for a good
stream and reads it in three reads (2 bytes, 1 byte, EOF) → put back. Thread 1 misses (new reader) on a truncated
stream → error, DROPPED. Thread 2 then recycles the reader thread 0 put back, for a source with no header → Reset
fails, reader put back. Thread 3 misses on a source with no header → `NewReader` fails, nothing pooled. -/
def followsGoActs : List (Act Bytes Nat) :=
  [.get 0 [0x1f, 1, 2, 3, 0xff] (some 0), .get 1 [0x1f, 7, 7] none, .reset 0, .reset 1, .use 0 1, .use 1 9, .use 0 0,
   .use 1 0, .use 0 0, .finish 1 false, .finish 0 true, .get 2 [0x00, 5] (some 0), .get 3 [0x00] none, .reset 2,
   .reset 3, .finish 2 true, .finish 3 false]

def followsGoInit : St RState Bytes Nat (Res Bytes) :=
  init [0] (fun _ => { src := [0x1f, 4, 4, 0xff], got := [4], status := .reading }) 1

theorem followsGo_demo :
    (run (RB toyGz) followsGoInit followsGoActs).map (fun s => (s.pc 0, s.pc 1, s.pool)) =
      some (.fin [0x1f, 1, 2, 3, 0xff] [1, 0, 0] (.ok [1, 2, 3]), .fin [0x1f, 7, 7] [9, 0] (.err "gzip"), [0]) ∧
    (run (RB toyGz) followsGoInit followsGoActs).map (fun s => (s.pc 2, s.pc 3, s.next)) =
      some (.fin [0x00, 5] [] (.err "gzip"), .fin [0x00] [] (.err "gzip"), 3) ∧
    -- the `put` flags of the four `finish` steps are the ones `goPut` prescribes
    goPut true ((RB toyGz).seqState [0x1f, 1, 2, 3, 0xff] [1, 0, 0]) = true ∧
    goPut false ((RB toyGz).seqState [0x1f, 7, 7] [9, 0]) = false ∧
    goPut true ((RB toyGz).seqState [0x00, 5] []) = true ∧ goPut false ((RB toyGz).seqState [0x00] []) = false ∧
    -- and all four calls have run to their end
    Done toyGz [0x1f, 1, 2, 3, 0xff] [1, 0, 0] ∧ Done toyGz [0x1f, 7, 7] [9, 0] ∧ Done toyGz [0x00, 5] [] ∧
    Done toyGz [0x00] [] := by
  refine ⟨by decide, by decide, by decide, by decide, by decide, by decide, by decide, by decide, by decide, by decide⟩

example : Gzip.decompress toyGz [0x1f, 1, 2, 3, 0xff] = .ok [1, 2, 3] ∧ Gzip.decompress toyGz [0x1f, 7, 7] = .err "gzip" ∧
    Gzip.decompress toyGz [0x00, 5] = .err "gzip" := by decide

/-- a call that stops reading early has NOT run to its end (`Done` is a real hypothesis) -/
example : ¬ Done toyGz [0x1f, 1, 2, 3, 0xff] [1] := by decide

end OAP.PoolGzip
