/-
Model of go/protocol.go (Handshake.Pack / Unpack, GetProtocol / Register) and
go/context.go (Context.Handshake). The bit-level expressions are the ones the
extractor regenerated from the Go source (`OAP.Gen`).
-/
import OAP.Base
import OAP.Gen.Facts
namespace OAP

structure Handshake where
  version : UInt8
  codec : UInt8
  platform : UInt8
  reserve : UInt8
  deriving Repr, DecidableEq

namespace Handshake

/-- `func (h Handshake) Pack() []byte` -/
def pack (h : Handshake) : Bytes :=
  [Gen.hsPackB0 h.version h.codec, Gen.hsPackB1 h.platform h.reserve]

/-- `func (h *Handshake) Unpack(data []byte) error`: `len(data) != 2` is an error; then
`data[0]`, `data[1]` are in range. -/
def unpack (data : Bytes) : Res Handshake :=
  match data with
  | [b0, b1] => .ok { version := Gen.hsVersion b0, codec := Gen.hsCodec b0,
                      platform := Gen.hsPlatform b1, reserve := Gen.hsReserve b1 }
  | _ => .err "invalid handshake frame length"

/-- the 4-bit domain the property speaks of -/
def WF (h : Handshake) : Prop :=
  h.version < 16 ∧ h.codec < 16 ∧ h.platform < 16 ∧ h.reserve < 16

instance (h : Handshake) : Decidable h.WF := by unfold WF; infer_instance

end Handshake

/-- the protocol registry `manager map[uint8]Protocol` as a predicate on versions -/
abbrev Registry := UInt8 → Bool

/-- the registry once go/v1 and go/v2 are imported: the versions of the `protocol.Register`
calls the extractor found -/
def defaultRegistry : Registry := fun v => Gen.registeredVersions.contains v.toNat

/-- `GetProtocol(v)`: `manager[v]`, nil ⇒ ErrInvalidProtocolVersion -/
def getProtocol (reg : Registry) (v : UInt8) : Res Unit :=
  if reg v then .ok () else .err "invalid protocol version"

/-- the part of `protocol.Context` the handshake touches -/
structure HsCtx where
  version : UInt8 := 0
  codec : UInt8 := 0
  platform : UInt8 := 0
  handshaked : Bool := false
  deriving Repr, DecidableEq

/-- `func (c *Context) Handshake(h *Handshake) error` -/
def HsCtx.handshake (reg : Registry) (c : HsCtx) (h : Handshake) : Res HsCtx :=
  match getProtocol reg h.version with
  | .ok () => .ok { c with version := h.version, codec := h.codec, handshaked := true, platform := h.platform }
  | .err e => .err e
  | .panic w => .panic w

end OAP
