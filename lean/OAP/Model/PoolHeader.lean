/-
Pool view, the header instance: the `headerPool` of go/v1/header.go and go/v2/v2_header.go (`defaultHeaderPool`, one
per version) as an instance of the generic interleaving model `OAP.Pool`.

Go statement → model step

  h := defaultHeaderPool.Get()         get + reset   `v := p.Pool.Get()` (hit: a header with whatever its last user left
                                                     in it; miss: `New` = `return &Header{}`, a NEW zero header per call)
                                                     followed by the field resets `h.Type = 0 … h.IsUnpacked = false`:
                                                     `World.poolGet`, a fold over the REGENERATED list of reset
                                                     statements (`Gen.v1HeaderResets` / `Gen.v2HeaderResets`)
  h.X = …, h.UnpackBytes, h.Unpack     use f         any update `f : Header → Header` of the header the caller holds
  Pack:        defer Put(h)            finish, put   (after `headerFromMetadata`)
  UnpackBytes: defer Put(header)       finish, put   on every return path
  Unpack (streaming):                                `headerFromContext`: Get only if no header is parked in ctx
      done || err != nil               finish, put   `ctx.SetHeader(nil); defaultHeaderPool.Put(header)`
      frame incomplete                 park          the header STAYS in the connection's Context (`ctx.SetHeader(h)`);
      next Unpack on the connection    resume        `h = ctx.GetHeader().(*Header)`: the same object, no Get, no reset

A "thread" of this instance is the decoding (or encoding) of ONE frame; for the streaming decoder it spans as many
`Unpack` calls on the connection as the frame needs chunks, with the header parked in between — other connections,
and one-shot calls on the same connection (`UnpackBytes` takes its own header), go on meanwhile.

`ResetErases` is not an assumption here: it is PROVED from the regenerated reset lists (`reset_erases`, the content of
`C11.every_field_reset` / `C11.get_fresh`).
-/
import OAP.Model.Pool
import OAP.Model.World
namespace OAP.PoolHeader
open OAP OAP.Pool OAP.World OAP.Frame

/-- `headerPool.Get`'s field resets on a recycled header with ARBITRARY stale content give the zero header, in both
versions. (A v1 header has no MetadataLength field: it is represented with that field 0, as in `World.take`.) -/
theorem poolGet_zero (v : Ver) (stale : Header) :
    poolGet v (match v with | .v1 => { stale with metadataLength := 0 } | .v2 => stale) = zero := by
  cases stale
  cases v
  · simp [poolGet, resetsOf, Gen.v1HeaderResets, List.foldl, resetField, zero]
  · simp [poolGet, resetsOf, Gen.v2HeaderResets, List.foldl, resetField, zero]

/-- the pooled `*Header` of version `v`. `reset` = the field resets of `headerPool.Get`; a `use` applies an arbitrary
update to the header the caller holds (`headerFromMetadata`'s assignments, `Header.UnpackBytes`, `Header.Unpack`, the
`BeginUnpack` / `IsUnpacked` flags); the "result" is the header itself — everything a codec call returns is a function
of it and of the caller's own arguments. -/
def HB (v : Ver) : Beh Header Unit (Header → Header) Header :=
  { new := zero,
    reset := fun stale _ => poolGet v (match v with | .v1 => { stale with metadataLength := 0 } | .v2 => stale),
    useStep := fun h f => f h,
    result := fun h => h }

/-- PROVED, not assumed: `headerPool.Get` erases every field -/
theorem reset_erases (v : Ver) : (HB v).ResetErases := by
  intro s s' _
  simp only [HB]
  rw [poolGet_zero v s, poolGet_zero v s']

theorem HB_reset (v : Ver) (stale : Header) : (HB v).reset stale () = zero := poolGet_zero v stale

/-- alone on a new header: the call's own updates applied to the ZERO header -/
theorem HB_seq (v : Ver) (fs : List (Header → Header)) : (HB v).seqState () fs = fs.foldl (fun h f => f h) zero := by
  simp only [Beh.seqState]
  rw [HB_reset]
  rfl

/-- `header_concurrent_isolated`: N goroutines encoding and decoding over the shared header pool of version `v` — any
interleaving of their Get+reset / field updates / Put steps, streaming decoders PARKING their header in their
connection between two calls and resuming, `Get` hitting or missing, the pool dropping headers, from ANY initial pool
of headers with ARBITRARY stale content. In every reachable state:
 (1) a call that has just taken its header holds the ZERO header — the hypothesis under which `World.step` evaluates the
     pure `pack` / `unpackBytes` / `unpackRing` (`h0 = zero`);
 (2) the header a call works on, or has parked, contains exactly what the call's OWN updates made of the zero header;
 (3) so does the header a finished call ended with;
 (4) no two calls hold the same header, a held (also: a parked) header is not in the pool, and the pool holds no
     header twice. -/
theorem header_concurrent_isolated (v : Ver) (pool : List Nat) (obj : Nat → Header) (next : Nat)
    (h0 : InitOk pool next) (acts : List (Act Unit (Header → Header))) (s : St Header Unit (Header → Header) Header)
    (h : run (HB v) (init pool obj next) acts = some s) :
    (∀ t o, s.pc t = .run o () [] → s.obj o = zero) ∧
    (∀ t o fs, s.pc t = .run o () fs ∨ s.pc t = .parked o () fs → s.obj o = fs.foldl (fun h f => f h) zero) ∧
    (∀ t fs out, s.pc t = .fin () fs out → out = fs.foldl (fun h f => f h) zero) ∧
    (∀ t u o, t ≠ u → (s.pc t).holds = some o → (s.pc u).holds ≠ some o) ∧
    (∀ t o, (s.pc t).holds = some o → o ∉ s.pool) ∧ s.pool.Nodup := by
  have hs := fun t o fs hp => held_state (HB v) (reset_erases v) pool obj next h0 acts s h t o () fs hp
  have hn := no_shared_object (HB v) (reset_erases v) pool obj next h0 acts s h
  refine ⟨?_, ?_, ?_, hn.1, hn.2.1, hn.2.2⟩
  · intro t o hp
    rw [hs t o [] (.inl hp), HB_seq]; rfl
  · intro t o fs hp
    rw [hs t o fs hp, HB_seq]
  · intro t fs out hf
    rw [pool_exclusive (HB v) (reset_erases v) pool obj next h0 acts s h t () fs out hf, Beh.seqResult, HB_seq]; rfl

/-- the link to the sequential world model (`OAP.World.step`, C11 `step_isolated`): there the result of an operation is
computed as `if h0 = zero then ⟨pure function⟩ else panic "pool returned a dirty header"` from the header `h0` the pool
hands out. In the concurrent model that header is `s.obj o` for a call that has just taken it, and the guard is true in
every reachable state of every interleaving: each of the three kinds of operation evaluates to its isolated result. -/
theorem op_on_pooled_header (gz : GzOracle) (v : Ver) (pool : List Nat) (obj : Nat → Header) (next : Nat)
    (h0 : InitOk pool next) (acts : List (Act Unit (Header → Header))) (s : St Header Unit (Header → Header) Header)
    (h : run (HB v) (init pool obj next) acts = some s) (t o : Nat) (hp : s.pc t = .run o () []) :
    (∀ p thr, (if s.obj o = zero then Frame.pack v gz p thr else .panic "pool returned a dirty header") = Frame.pack v gz p thr) ∧
    (∀ codec bs, (if s.obj o = zero then Frame.unpackBytes v gz codec bs else .panic "pool returned a dirty header") =
      Frame.unpackBytes v gz codec bs) ∧
    (∀ codec pend rb, (if s.obj o = zero then unpackRing v gz codec pend rb
        else ({ res := .panic "pool returned a dirty header", pend := none, rb := rb } : SOut)) = unpackRing v gz codec pend rb) := by
  have hz := (header_concurrent_isolated v pool obj next h0 acts s h).1 t o hp
  simp [hz]

/-! ### non-vacuity -/

/-- a dirty response header, as a decoder leaves it in the pool -/
def dirty : Header := { requestId := 99, statusCode := 5, type := 2, bodyLength := 7, isUnpacked := true, metadataLength := 3 }

def setType (x : UInt8) : Header → Header := fun h => { h with type := x }
def setRid (x : UInt32) : Header → Header := fun h => { h with requestId := x }
def setUnpacked : Header → Header := fun h => { h with isUnpacked := true }

/-- pool = two dirty headers. Thread 0 (a streaming decode) recycles header 0, fills its type, PARKS it (frame
incomplete); meanwhile thread 1 (a Pack) recycles header 1, thread 2 (a one-shot decode) misses and gets the new header 2,
both work and finish; thread 0 resumes, completes and finishes; thread 3 then recycles the header thread 1 put back. -/
def demoActs : List (Act Unit (Header → Header)) :=
  [.get 0 () (some 0), .reset 0, .use 0 (setType 3), .park 0,
   .get 1 () (some 1), .get 2 () none, .reset 2, .reset 1, .use 1 (setRid 7), .use 2 (setType 2), .finish 1 true,
   .use 2 (setRid 8), .finish 2 true,
   .resume 0, .use 0 setUnpacked, .get 3 () (some 1), .reset 3, .finish 0 true, .finish 3 true]

def demoInit : St Header Unit (Header → Header) Header := init [0, 1] (fun _ => dirty) 2

/-- the results: each call ends with the zero header plus its OWN updates; nothing of `dirty`, nothing of the others
(thread 3 reuses the header in which thread 1 left request id 7: it sees request id 0). Both versions. -/
example : ∀ v : Ver,
    (run (HB v) demoInit demoActs).map (fun s => ((s.pc 0).out?, (s.pc 1).out?, (s.pc 2).out?)) =
      some (some { type := 3, isUnpacked := true }, some { requestId := 7 }, some { type := 2, requestId := 8 }) ∧
    (run (HB v) demoInit demoActs).map (fun s => ((s.pc 3).out?, s.pool, s.next)) =
      some (some {}, [1, 0, 2], 3) := by
  intro v; cases v <;> decide
/-- while thread 0's header is parked, it is held by thread 0 and not in the pool; threads 1 and 2 hold other headers -/
example : ∀ v : Ver,
    (run (HB v) demoInit (demoActs.take 6)).map (fun s => ((s.pc 0).holds, (s.pc 1).holds, (s.pc 2).holds)) =
      some (some 0, some 1, some 2) ∧
    (run (HB v) demoInit (demoActs.take 6)).map (fun s => s.pool) = some [] := by
  intro v; cases v <;> decide
/-- a parked header cannot be taken by anybody else -/
example : ∀ v : Ver, (run (HB v) demoInit [.get 0 () (some 0), .reset 0, .park 0, .get 1 () (some 0)]).isNone = true := by
  intro v; cases v <;> decide

end OAP.PoolHeader
