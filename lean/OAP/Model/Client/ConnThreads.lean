/-
C16 / C14, view ConnThreads: the goroutines of ONE connection (reader R, writer W, dispatcher D), the callers of its
`Close` and its environment (peer, senders).  Proved: after `Close` every one of R, W, D terminates in every schedule
and never blocks for ever; `Close` is idempotent and never blocks for ever either.

Go code mirrored (go/client/tcp_conn.go; ws_conn.go has the same structure — the differences are listed below).

  reading (R)                                   writing (W, tcp)                          OnPacket → dispatcher (D)
    for {                                         for {                                     onPacketOnce.Do(go func() {   dStart
      if conn.closed() { return }      rTop         if conn.closed() { return }   wTop        for { select {
      n, err := conn.conn.Read(buf)    (inRead)     select {                      (sel)         case <-conn.closeCh:       dSelClose
      if err != nil {                  rReadErr     case <-conn.closeCh: return   wSelClose       for { select {           (drain)
        conn.Close(err); return }      rClose…      case b := <-conn.writeCh:     wSelRecv          case p := <-packetCh:  dDrain (take)
      … readPacket:                    rReadData      conn.conn.Write(b)          (inWrite)           fn(p, nil); continue dHandled
        for each frame: addPacket(p)   rAdd           err → conn.Close; return    wWriteErr, wClose…  default: }           dDrain (empty)
        decode error → conn.Close      rDecoded       n < len(b) → keep the rest  wWriteOk true       break }
    }                                               case <-t.C:                   wSelTick        fn(nil, errConnClosed)   dFinal
                                                      left-over bytes → Write     (inWrite)       return
  addPacket: select { case packetCh <- p:           } }                                         case p := <-conn.packetCh: dSelRecv
             default: drop + warn }                                                               fn(p, nil) } } })        dHandled

  Close(err):  if conn.closed() { return }                  rCloseTest / wCloseTest / xCloseTest i
               conn.closeOnce.Do(func() {                   rCloseOnce / wCloseOnce / xCloseOnce i   (waits while another caller is inside)
                 close(conn.closeCh)                        body  (.sig)
                 _ = conn.conn.Close()                      body  (.sock)
                 conn.DispatchClose(err) })                 body  (.cb: the callbacks return), body (.rel: Do returns, Close returns)
  Write → write: if conn.closed() { return errConnClosed }  send stale   (stale = the closed() test was made before the close)
                 select { case writeCh <- data: default: return "write queue full" }
  writeCh and packetCh are never closed.

ws_conn.go: W is `for { select { case <-closeCh: return; case b = <-writeCh: }; if conn.closed() { return };
WriteMessage(b); err → Close; return }` (`cfg.ws = true`: the loop starts at `sel`, `wSelRecv` goes to `chk`, no ticker);
R is `NextReader` (blocks like `Read`; the ping/pong/close handlers run inside it and call `addPacket`), `ReadAll`,
`readPacket` of one message: covered by `rReadData n bad` with any n.

BLOCKING is the absence of an enabled step:
  * R in `inRead` steps only if the peer has sent a chunk, the peer has closed, or the socket was closed locally;
  * W in `inWrite` steps only if the peer is not stalled, the peer has closed (error), or the socket was closed locally;
  * W in `sel` / D in `sel` step only if one of the select cases is ready (Go picks ANY ready case: one action per case);
  * a `closeOnce.Do` caller steps only if the Once is free or done (sync.Once: later callers wait until f has returned).
Trusted (DESIGN 12): a local `conn.conn.Close()` makes a blocked or later `Read`/`Write` return an error; the user
handler `fn` and the close callbacks return (`dHandled`, `dFinal`, `body` at `.cb` are always enabled); sync.Once semantics.  (That the ticker
of the tcp writer keeps ticking is used only in the remark on the tcp writer under `noCloseCase`.)

`Variant` switches ONE guard off, to show that the theorems are not vacuous (the seeded bugs are expressible and do
strand a goroutine): `blockingAdd` (addPacket waits for room), `keepSocket` (Close does not close the socket),
`noCloseCase` (the writer's select has no closeCh case), `dNoCloseCase` (the dispatcher's select has no closeCh case —
the state of the code before the fix recorded in DESIGN for C16).  All theorems about the code are for `Variant.code`.

Proved for every interleaving (`run cfg (init cfg) acts = some s →`, every queue size, both transports):
  close_once                  closeCh closed ≤ 1×, socket closed ≤ 1×, callbacks ≤ 1×, final report ≤ 1×, D started ≤ 1×,
                              whoever calls Close and however many at once; order signal → socket → callbacks
  no_block_after_close        after Close each of R, W, D that has not exited has an enabled own step, whatever the peer
                              and the queues (or waits at the Once of its own nested Close for a body that never waits)
  exits_after_close(_parts)   after Close: budget `mu`, never stuck before the end, every maximal schedule ends all-exited
  mu_le, can_always_finish, close_completes, close_leads_to_exit
  exited_stays_exited, no_delivery_after_final, final_report_iff_exited
  sender_never_blocks, fresh_sender_refused
  close_call_can_step, close_after_signal_returns, body_enabled      a Close call never blocks for ever
  blocking_addPacket_strands_reader, close_without_socket_strands_reader, writer_without_close_case_strands,
  dispatcher_without_close_case_strands                               each guard is necessary (on the variants)
Not in this view: the ticker of the tcp writer as a resource (it is never stopped in the source); the WebSocket control
frames written by the caller (`WriteControl`, 3 s deadline); what the handlers and callbacks do (views Quartet, Recovery).
-/
import OAP.Base
namespace OAP.ConnThreads
open OAP

def upd {α} (f : Nat → α) (k : Nat) (v : α) : Nat → α := fun x => if x = k then v else f x
@[simp] theorem upd_same {α} (f : Nat → α) k v : upd f k v k = v := by simp [upd]
@[simp] theorem upd_other {α} (f : Nat → α) k v x (h : x ≠ k) : upd f k v x = f x := by simp [upd, h]

inductive Variant | code | blockingAdd | keepSocket | noCloseCase | dNoCloseCase
deriving DecidableEq, Repr

/-- `ReadQueueSize`, `WriteQueueSize`, transport -/
structure Cfg where
  pcap : Nat
  wcap : Nat
  ws : Bool

/-- who runs the body of `closeOnce.Do` -/
inductive Who | r | w | x (i : Nat)
deriving DecidableEq, Repr

/-- next operation of the body of `closeOnce.Do` -/
inductive BPc | sig | sock | cb | rel
deriving DecidableEq, Repr

inductive Once | free | held (who : Who) (next : BPc) | done
deriving DecidableEq, Repr

/-- inside a call of `conn.Close` -/
inductive CPc
  | test     -- about to test `conn.closed()`
  | once     -- about to enter `closeOnce.Do`
  | body     -- inside the body (its progress is `Once.held _ next`)
deriving DecidableEq, Repr

inductive RPc
  | top                            -- loop head: about to test `conn.closed()`
  | inRead                         -- inside `conn.conn.Read` / `NextReader`
  | decode (k : Nat) (bad : Bool)  -- `readPacket`: k frames still to hand to `addPacket`, then a decode error iff `bad`
  | close (c : CPc)                -- inside `conn.Close(err)`; returns afterwards
  | exited
deriving DecidableEq, Repr

inductive WPc
  | top                            -- tcp loop head: about to test `conn.closed()`
  | sel                            -- at the select
  | chk                            -- ws: a frame in hand, about to test `conn.closed()`
  | inWrite                        -- inside `conn.conn.Write` / `WriteMessage`
  | close (c : CPc)
  | exited
deriving DecidableEq, Repr

inductive DPc
  | notStarted                     -- `OnPacket` has not been called
  | sel                            -- outer select
  | handling                       -- in `fn(p, nil)` from the outer select
  | drain                          -- inner select of the drain loop
  | drainHandling                  -- in `fn(p, nil)` from the drain loop
  | final                          -- about to call `fn(nil, errConnClosed)`
  | exited
deriving DecidableEq, Repr

/-- any other goroutine that may call `conn.Close` (user, recovery replacing the conn, dial after a failed handshake
write, a handler) — any number of them, any number of times each -/
inductive XPc | idle | close (c : CPc)
deriving DecidableEq, Repr

structure St where
  r : RPc
  w : WPc
  d : DPc
  ext : Nat → XPc
  once : Once               -- conn.closeOnce
  closeSig : Bool           -- closeCh is closed
  sockClosed : Bool         -- conn.conn.Close() has been called
  pq : Nat                  -- len(packetCh)
  wq : Nat                  -- len(writeCh)
  wpend : Bool              -- tcp writer: left-over bytes of a partial write
  avail : Nat               -- chunks sent by the peer, not yet read
  peerClosed : Bool         -- the peer has closed / reset
  stalled : Bool            -- the peer does not read: a socket write does not return
  -- ghost counters
  sigCloses : Nat           -- executions of close(closeCh)   (a second one would panic)
  sockCloses : Nat          -- executions of conn.conn.Close()
  closeCallbacks : Nat      -- executions of DispatchClose
  finalReports : Nat        -- fn(nil, errConnClosed)
  dStarts : Nat             -- dispatcher goroutines started
  enq : Nat                 -- packets that entered packetCh
  delivered : Nat           -- fn(p, nil) invocations
  dropped : Nat             -- "drop packet for channel full"
  accepted : Nat            -- frames that entered writeCh
  rejected : Nat            -- Write returned "write queue full"
  refused : Nat             -- Write returned errConnClosed
  closeReturns : Nat        -- external Close calls that have returned

inductive Act
  -- reader
  | rTop | rReadData (n : Nat) (bad : Bool) | rReadErr | rAdd | rDecoded | rCloseTest | rCloseOnce
  -- writer
  | wTop | wSelClose | wSelRecv | wSelTick | wChk | wWriteOk (short : Bool) | wWriteErr | wCloseTest | wCloseOnce
  -- dispatcher
  | dStart | dSelClose | dSelRecv | dHandled | dDrain | dFinal
  -- the body of closeOnce.Do, run by whoever holds the Once
  | body
  -- other callers of conn.Close
  | xCall (i : Nat) | xCloseTest (i : Nat) | xCloseOnce (i : Nat)
  -- senders (Write → write), one atomic step
  | send (stale : Bool)
  -- peer
  | peerSend | peerClose | peerStall | peerResume
deriving DecidableEq, Repr

/-- the loop head of the writer -/
def wLoop (cfg : Cfg) : WPc := if cfg.ws then .sel else .top

def stepV (v : Variant) (cfg : Cfg) (s : St) : Act → Option St
  /- reader ------------------------------------------------------------------------------------------------------ -/
  | .rTop =>
      match s.r with
      | .top => if s.closeSig then some { s with r := .exited } else some { s with r := .inRead }
      | _ => none
  | .rReadData n bad =>     -- Read returned a chunk: n whole frames in it (n = 0: `continue` / an incomplete frame)
      match s.r with
      | .inRead => if s.sockClosed then none else
                   if 0 < s.avail then some { s with r := .decode n bad, avail := s.avail - 1 } else none
      | _ => none
  | .rReadErr =>            -- Read returned an error: local close, or EOF / reset by the peer
      match s.r with
      | .inRead => if s.sockClosed || s.peerClosed then some { s with r := .close .test } else none
      | _ => none
  | .rAdd =>                -- addPacket
      match s.r with
      | .decode (k+1) bad =>
          if s.pq < cfg.pcap then some { s with r := .decode k bad, pq := s.pq + 1, enq := s.enq + 1 }
          else if v = .blockingAdd then none
          else some { s with r := .decode k bad, dropped := s.dropped + 1 }
      | _ => none
  | .rDecoded =>            -- readPacket returns
      match s.r with
      | .decode 0 bad => if bad then some { s with r := .close .test } else some { s with r := .top }
      | _ => none
  | .rCloseTest =>
      match s.r with
      | .close .test => if s.closeSig then some { s with r := .exited } else some { s with r := .close .once }
      | _ => none
  | .rCloseOnce =>
      match s.r with
      | .close .once =>
          match s.once with
          | .free => some { s with r := .close .body, once := .held .r .sig }
          | .done => some { s with r := .exited }
          | .held _ _ => none
      | _ => none
  /- writer ------------------------------------------------------------------------------------------------------ -/
  | .wTop =>
      match s.w with
      | .top => if s.closeSig then some { s with w := .exited } else some { s with w := .sel }
      | _ => none
  | .wSelClose =>
      match s.w with
      | .sel => if s.closeSig then (if v = .noCloseCase then none else some { s with w := .exited }) else none
      | _ => none
  | .wSelRecv =>
      match s.w with
      | .sel => if 0 < s.wq then some { s with w := if cfg.ws then .chk else .inWrite, wq := s.wq - 1 } else none
      | _ => none
  | .wSelTick =>            -- tcp only: flush the left-over bytes, if any
      match s.w with
      | .sel => if cfg.ws then none else some { s with w := if s.wpend then .inWrite else .top }
      | _ => none
  | .wChk =>
      match s.w with
      | .chk => if s.closeSig then some { s with w := .exited } else some { s with w := .inWrite }
      | _ => none
  | .wWriteOk short =>    -- the socket write returned without error (tcp: possibly short)
      match s.w with
      | .inWrite => if s.sockClosed || s.stalled then none
                    else some { s with w := wLoop cfg, wpend := short && !cfg.ws }
      | _ => none
  | .wWriteErr =>
      match s.w with
      | .inWrite => if s.sockClosed || s.peerClosed then some { s with w := .close .test } else none
      | _ => none
  | .wCloseTest =>
      match s.w with
      | .close .test => if s.closeSig then some { s with w := .exited } else some { s with w := .close .once }
      | _ => none
  | .wCloseOnce =>
      match s.w with
      | .close .once =>
          match s.once with
          | .free => some { s with w := .close .body, once := .held .w .sig }
          | .done => some { s with w := .exited }
          | .held _ _ => none
      | _ => none
  /- dispatcher (a second OnPacket call does nothing: not an action) ---------------------------------------------- -/
  | .dStart =>
      match s.d with
      | .notStarted => some { s with d := .sel, dStarts := s.dStarts + 1 }
      | _ => none
  | .dSelClose =>
      match s.d with
      | .sel => if s.closeSig then (if v = .dNoCloseCase then none else some { s with d := .drain }) else none
      | _ => none
  | .dSelRecv =>
      match s.d with
      | .sel => if 0 < s.pq then some { s with d := .handling, pq := s.pq - 1, delivered := s.delivered + 1 } else none
      | _ => none
  | .dHandled =>            -- the handler returns
      match s.d with
      | .handling => some { s with d := .sel }
      | .drainHandling => some { s with d := .drain }
      | _ => none
  | .dDrain =>
      match s.d with
      | .drain => if 0 < s.pq then some { s with d := .drainHandling, pq := s.pq - 1, delivered := s.delivered + 1 }
                  else some { s with d := .final }
      | _ => none
  | .dFinal =>              -- fn(nil, errConnClosed) and return
      match s.d with
      | .final => some { s with d := .exited, finalReports := s.finalReports + 1 }
      | _ => none
  /- the body of closeOnce.Do ------------------------------------------------------------------------------------ -/
  | .body =>
      match s.once with
      | .held who .sig => some { s with once := .held who .sock, closeSig := true, sigCloses := s.sigCloses + 1 }
      | .held who .sock =>
          if v = .keepSocket then some { s with once := .held who .cb }
          else some { s with once := .held who .cb, sockClosed := true, sockCloses := s.sockCloses + 1 }
      | .held who .cb => some { s with once := .held who .rel, closeCallbacks := s.closeCallbacks + 1 }
      | .held .r .rel => some { s with once := .done, r := .exited }
      | .held .w .rel => some { s with once := .done, w := .exited }
      | .held (.x i) .rel => some { s with once := .done, ext := upd s.ext i .idle, closeReturns := s.closeReturns + 1 }
      | _ => none
  /- other callers of Close -------------------------------------------------------------------------------------- -/
  | .xCall i =>
      match s.ext i with
      | .idle => some { s with ext := upd s.ext i (.close .test) }
      | _ => none
  | .xCloseTest i =>
      match s.ext i with
      | .close .test =>
          if s.closeSig then some { s with ext := upd s.ext i .idle, closeReturns := s.closeReturns + 1 }
          else some { s with ext := upd s.ext i (.close .once) }
      | _ => none
  | .xCloseOnce i =>
      match s.ext i with
      | .close .once =>
          match s.once with
          | .free => some { s with ext := upd s.ext i (.close .body), once := .held (.x i) .sig }
          | .done => some { s with ext := upd s.ext i .idle, closeReturns := s.closeReturns + 1 }
          | .held _ _ => none
      | _ => none
  /- senders ----------------------------------------------------------------------------------------------------- -/
  | .send stale =>
      if s.closeSig && !stale then some { s with refused := s.refused + 1 }
      else if s.wq < cfg.wcap then some { s with wq := s.wq + 1, accepted := s.accepted + 1 }
      else some { s with rejected := s.rejected + 1 }
  /- peer -------------------------------------------------------------------------------------------------------- -/
  | .peerSend => some { s with avail := s.avail + 1 }
  | .peerClose => some { s with peerClosed := true }
  | .peerStall => some { s with stalled := true }
  | .peerResume => some { s with stalled := false }

def init (cfg : Cfg) : St :=
  { r := .top, w := wLoop cfg, d := .notStarted, ext := fun _ => .idle, once := .free, closeSig := false,
    sockClosed := false, pq := 0, wq := 0, wpend := false, avail := 0, peerClosed := false, stalled := false,
    sigCloses := 0, sockCloses := 0, closeCallbacks := 0, finalReports := 0, dStarts := 0, enq := 0, delivered := 0,
    dropped := 0, accepted := 0, rejected := 0, refused := 0, closeReturns := 0 }

def runV (v : Variant) (cfg : Cfg) : St → List Act → Option St
  | s, [] => some s
  | s, a :: as => (stepV v cfg s a).bind (fun s' => runV v cfg s' as)

/-- the code as it is -/
abbrev step (cfg : Cfg) (s : St) (a : Act) : Option St := stepV .code cfg s a
abbrev run (cfg : Cfg) (s : St) (acts : List Act) : Option St := runV .code cfg s acts

theorem runV_cons_some {v : Variant} {cfg : Cfg} {s s' : St} {a : Act} {as : List Act}
    (h : runV v cfg s (a :: as) = some s') : ∃ s1, stepV v cfg s a = some s1 ∧ runV v cfg s1 as = some s' := by
  simp only [runV] at h
  cases hst : stepV v cfg s a with
  | none => simp [hst] at h
  | some s1 => exact ⟨s1, rfl, by simpa [hst] using h⟩

theorem runV_append {v : Variant} {cfg : Cfg} (as bs : List Act) : ∀ (s s' : St),
    runV v cfg s (as ++ bs) = some s' ↔ ∃ s1, runV v cfg s as = some s1 ∧ runV v cfg s1 bs = some s' := by
  induction as with
  | nil => intro s s'; simp [runV]
  | cons a as ih =>
    intro s s'
    simp only [List.cons_append, runV]
    cases hst : stepV v cfg s a with
    | none => simp
    | some s1 => simpa using ih s1 s'

/-! ### classification of the actions -/

def isR : Act → Bool
  | .rTop | .rReadData _ _ | .rReadErr | .rAdd | .rDecoded | .rCloseTest | .rCloseOnce => true
  | _ => false
def isW : Act → Bool
  | .wTop | .wSelClose | .wSelRecv | .wSelTick | .wChk | .wWriteOk _ | .wWriteErr | .wCloseTest | .wCloseOnce => true
  | _ => false
def isD : Act → Bool
  | .dStart | .dSelClose | .dSelRecv | .dHandled | .dDrain | .dFinal => true
  | _ => false
def isPeer : Act → Bool
  | .peerSend | .peerClose | .peerStall | .peerResume => true
  | _ => false
/-- a step of R, W, D or of the goroutine inside the body of `closeOnce.Do` -/
def isThread (a : Act) : Bool := isR a || isW a || isD a || a == .body

def threadSteps (acts : List Act) : Nat := (acts.filter isThread).length

@[simp] theorem threadSteps_nil : threadSteps [] = 0 := rfl
theorem threadSteps_cons (a : Act) (as : List Act) :
    threadSteps (a :: as) = (if isThread a then 1 else 0) + threadSteps as := by
  simp only [threadSteps, List.filter_cons]; split <;> simp <;> omega

def allExited (s : St) : Prop := s.r = .exited ∧ s.w = .exited ∧ s.d = .exited

instance (s : St) : Decidable (allExited s) := by unfold allExited; infer_instance

/-! ### invariant

The flags and the ghost counters are functions of the Once (free → held sig → held sock → held cb → held rel → done):
that is "everything in Close happens once, in this order, whoever calls".  A thread is at `close .body` iff it holds the
Once.  The queues respect their capacities; every packet that entered packetCh is queued or was handed to the handler. -/

def sigDone : Once → Bool
  | .free => false | .held _ .sig => false | _ => true
def sockDone : Once → Bool
  | .free => false | .held _ .sig => false | .held _ .sock => false | _ => true
def cbDone : Once → Bool
  | .held _ .rel => true | .done => true | _ => false
def holder : Once → Option Who
  | .held who _ => some who | _ => none

structure WInv (cfg : Cfg) (s : St) : Prop where
  sig : s.closeSig = sigDone s.once
  sock : s.sockClosed = sockDone s.once
  nSig : s.sigCloses = if sigDone s.once then 1 else 0
  nSock : s.sockCloses = if sockDone s.once then 1 else 0
  nCb : s.closeCallbacks = if cbDone s.once then 1 else 0
  rBody : s.r = .close .body ↔ holder s.once = some .r
  wBody : s.w = .close .body ↔ holder s.once = some .w
  xBody : ∀ i, s.ext i = .close .body ↔ holder s.once = some (.x i)
  fin : s.finalReports = if s.d = .exited then 1 else 0
  dst : s.dStarts = if s.d = .notStarted then 0 else 1
  pqCap : s.pq ≤ cfg.pcap
  wqCap : s.wq ≤ cfg.wcap
  acct : s.enq = s.pq + s.delivered

theorem inv_init (cfg : Cfg) : WInv cfg (init cfg) := by
  constructor <;> simp [init, sigDone, sockDone, cbDone, holder, wLoop]
  split <;> simp

theorem inv_step (cfg : Cfg) (s s' : St) (a : Act) (h : WInv cfg s) (hs : step cfg s a = some s') : WInv cfg s' := by
  obtain ⟨h1, h2, h3, h4, h5, h6, h7, h8, h9, h10, h11, h12, h13⟩ := h
  cases a <;> simp only [step, stepV] at hs <;> (repeat' split at hs) <;>
    (try (simp at hs; done)) <;> (try (simp only [Option.some.injEq] at hs; subst hs)) <;>
    (constructor <;> first | assumption | (simp only [upd] <;> intros <;> grind [sigDone, sockDone, cbDone, holder, wLoop]))

theorem inv_run (cfg : Cfg) (acts : List Act) : ∀ s s', WInv cfg s → run cfg s acts = some s' → WInv cfg s' := by
  induction acts with
  | nil => intro s s' h hr; simp [run, runV] at hr; subst hr; exact h
  | cons a as ih =>
    intro s s' h hr
    obtain ⟨s1, h1, h2⟩ := runV_cons_some hr
    exact ih s1 s' (inv_step cfg s s1 a h h1) h2

theorem inv_reach (cfg : Cfg) (acts : List Act) (s : St) (h : run cfg (init cfg) acts = some s) : WInv cfg s :=
  inv_run cfg acts _ s (inv_init cfg) h

/-! ### Close is idempotent -/

/-- CLOSE ONCE: in every run, whoever calls `Close` — R on a read error, W on a write error, any number of other
goroutines, any number of times, all at once — `close(closeCh)` is executed at most once (a second one would panic),
the socket is closed at most once, `DispatchClose` (the close callbacks) runs at most once, D reports the final error at
most once and is started at most once; the flags are exactly "executed once"; the order is signal, socket, callbacks; a
completed Close (Once done) has done all three. -/
theorem close_once (cfg : Cfg) (acts : List Act) (s : St) (h : run cfg (init cfg) acts = some s) :
    s.sigCloses ≤ 1 ∧ s.sockCloses ≤ 1 ∧ s.closeCallbacks ≤ 1 ∧ s.finalReports ≤ 1 ∧ s.dStarts ≤ 1 ∧
    (s.closeSig = true ↔ s.sigCloses = 1) ∧ (s.sockClosed = true ↔ s.sockCloses = 1) ∧
    (s.sockClosed = true → s.closeSig = true) ∧ (s.closeCallbacks = 1 → s.sockClosed = true) ∧
    (s.once = .done → s.sigCloses = 1 ∧ s.sockCloses = 1 ∧ s.closeCallbacks = 1) := by
  obtain ⟨h1, h2, h3, h4, h5, -, -, -, h9, h10, -, -, -⟩ := inv_reach cfg acts s h
  have hf : s.finalReports ≤ 1 := by rw [h9]; split <;> omega
  have hd : s.dStarts ≤ 1 := by rw [h10]; split <;> omega
  cases ho : s.once with
  | free => simp_all [sigDone, sockDone, cbDone]
  | done => simp_all [sigDone, sockDone, cbDone]
  | held who b => cases b <;> simp_all [sigDone, sockDone, cbDone]

/-- the goroutine inside the body of `closeOnce.Do` never waits: its next operation is enabled whenever the Once is held -/
theorem body_enabled (cfg : Cfg) (s : St) : (step cfg s .body).isSome = true ↔ holder s.once ≠ none := by
  cases ho : s.once with
  | free => simp [step, stepV, ho, holder]
  | done => simp [step, stepV, ho, holder]
  | held who b => cases b <;> cases who <;> simp [step, stepV, ho, holder]

/-! ### nothing blocks after Close -/

/-- R in `Read` after the socket was closed locally: the read returns an error — whatever the peer does -/
theorem reader_in_read_unblocked (cfg : Cfg) (s : St) (hp : s.r = .inRead) (hk : s.sockClosed = true) :
    (step cfg s .rReadErr).isSome = true := by simp [step, stepV, hp, hk]

/-- `addPacket` never blocks, whatever the queue length: enqueue, or drop with a warning -/
theorem add_never_blocks (cfg : Cfg) (s : St) (k : Nat) (b : Bool) (hp : s.r = .decode (k+1) b) :
    (step cfg s .rAdd).isSome = true := by
  simp only [step, stepV, hp]; split <;> simp

/-- W in `Write` after the socket was closed locally: the write returns an error — even if the peer is stalled -/
theorem writer_in_write_unblocked (cfg : Cfg) (s : St) (hp : s.w = .inWrite) (hk : s.sockClosed = true) :
    (step cfg s .wWriteErr).isSome = true := by simp [step, stepV, hp, hk]

/-- W at its select after the close signal: the closeCh case is ready — even if writeCh is empty -/
theorem writer_at_select_unblocked (cfg : Cfg) (s : St) (hp : s.w = .sel) (hc : s.closeSig = true) :
    (step cfg s .wSelClose).isSome = true := by simp [step, stepV, hp, hc]

/-- D at its select after the close signal: the closeCh case is ready — even if packetCh is empty -/
theorem dispatcher_at_select_unblocked (cfg : Cfg) (s : St) (hp : s.d = .sel) (hc : s.closeSig = true) :
    (step cfg s .dSelClose).isSome = true := by simp [step, stepV, hp, hc]

theorem r_can_step (cfg : Cfg) (s : St) (h : WInv cfg s) (hk : s.sockClosed = true) (hr : s.r ≠ .exited) :
    (∃ a, isR a = true ∧ (step cfg s a).isSome = true) ∨
    ((s.r = .close .once ∨ s.r = .close .body) ∧ (step cfg s .body).isSome = true) := by
  cases hp : s.r with
  | top => left; refine ⟨.rTop, rfl, ?_⟩; simp only [step, stepV, hp]; split <;> simp
  | inRead => left; exact ⟨.rReadErr, rfl, reader_in_read_unblocked cfg s hp hk⟩
  | decode k b =>
    left
    cases k with
    | zero => refine ⟨.rDecoded, rfl, ?_⟩; simp only [step, stepV, hp]; split <;> simp
    | succ k => exact ⟨.rAdd, rfl, add_never_blocks cfg s k b hp⟩
  | close c =>
    cases c with
    | test => left; refine ⟨.rCloseTest, rfl, ?_⟩; simp only [step, stepV, hp]; split <;> simp
    | once =>
      cases ho : s.once with
      | free => left; refine ⟨.rCloseOnce, rfl, ?_⟩; simp [step, stepV, hp, ho]
      | done => left; refine ⟨.rCloseOnce, rfl, ?_⟩; simp [step, stepV, hp, ho]
      | held who b => right; exact ⟨.inl rfl, (body_enabled cfg s).mpr (by simp [ho, holder])⟩
    | body => right; exact ⟨.inr rfl, (body_enabled cfg s).mpr (by simp [h.rBody.mp hp])⟩
  | exited => exact absurd hp hr

theorem w_can_step (cfg : Cfg) (s : St) (h : WInv cfg s) (hc : s.closeSig = true) (hk : s.sockClosed = true)
    (hw : s.w ≠ .exited) :
    (∃ a, isW a = true ∧ (step cfg s a).isSome = true) ∨
    ((s.w = .close .once ∨ s.w = .close .body) ∧ (step cfg s .body).isSome = true) := by
  cases hp : s.w with
  | top => left; refine ⟨.wTop, rfl, ?_⟩; simp only [step, stepV, hp]; split <;> simp
  | sel => left; exact ⟨.wSelClose, rfl, writer_at_select_unblocked cfg s hp hc⟩
  | chk => left; refine ⟨.wChk, rfl, ?_⟩; simp only [step, stepV, hp]; split <;> simp
  | inWrite => left; exact ⟨.wWriteErr, rfl, writer_in_write_unblocked cfg s hp hk⟩
  | close c =>
    cases c with
    | test => left; refine ⟨.wCloseTest, rfl, ?_⟩; simp only [step, stepV, hp]; split <;> simp
    | once =>
      cases ho : s.once with
      | free => left; refine ⟨.wCloseOnce, rfl, ?_⟩; simp [step, stepV, hp, ho]
      | done => left; refine ⟨.wCloseOnce, rfl, ?_⟩; simp [step, stepV, hp, ho]
      | held who b => right; exact ⟨.inl rfl, (body_enabled cfg s).mpr (by simp [ho, holder])⟩
    | body => right; exact ⟨.inr rfl, (body_enabled cfg s).mpr (by simp [h.wBody.mp hp])⟩
  | exited => exact absurd hp hw

theorem d_can_step (cfg : Cfg) (s : St) (hc : s.closeSig = true) (hd : s.d ≠ .exited) :
    ∃ a, isD a = true ∧ (step cfg s a).isSome = true := by
  cases hp : s.d with
  | notStarted => exact ⟨.dStart, rfl, by simp [step, stepV, hp]⟩
  | sel => exact ⟨.dSelClose, rfl, dispatcher_at_select_unblocked cfg s hp hc⟩
  | handling => exact ⟨.dHandled, rfl, by simp [step, stepV, hp]⟩
  | drain => refine ⟨.dDrain, rfl, ?_⟩; simp only [step, stepV, hp]; split <;> simp
  | drainHandling => exact ⟨.dHandled, rfl, by simp [step, stepV, hp]⟩
  | final => exact ⟨.dFinal, rfl, by simp [step, stepV, hp]⟩
  | exited => exact absurd hp hd

/-- PROGRESS: in every reachable state after Close (`closeSig ∧ sockClosed`) each of R, W, D that has not exited has
an enabled step of its own — whatever the peer does (silent, stalled, gone) and whatever the queue lengths; the
witnesses are the five lemmas above and the always-enabled steps (`closed()` tests, `addPacket`, handler returns).
The only wait left is sync.Once: a reader / writer that called `Close` just before somebody else won the Once waits
at `closeOnce.Do` (`close .once`) until that body is done — and the body's next step is enabled (`body_enabled`; at
most two are left, `mu_le`); at `close .body` the `body` step is the thread's own. -/
theorem no_block_after_close (cfg : Cfg) (acts : List Act) (s : St) (h : run cfg (init cfg) acts = some s)
    (hc : s.closeSig = true) (hk : s.sockClosed = true) :
    (s.r ≠ .exited → (∃ a, isR a = true ∧ (step cfg s a).isSome = true) ∨
        ((s.r = .close .once ∨ s.r = .close .body) ∧ (step cfg s .body).isSome = true)) ∧
    (s.w ≠ .exited → (∃ a, isW a = true ∧ (step cfg s a).isSome = true) ∨
        ((s.w = .close .once ∨ s.w = .close .body) ∧ (step cfg s .body).isSome = true)) ∧
    (s.d ≠ .exited → ∃ a, isD a = true ∧ (step cfg s a).isSome = true) :=
  have i := inv_reach cfg acts s h
  ⟨r_can_step cfg s i hk, w_can_step cfg s i hc hk, d_can_step cfg s hc⟩

/-- in one line: after Close, as long as one of R, W, D has not exited some thread step is enabled -/
theorem some_thread_step (cfg : Cfg) (s : St) (h : WInv cfg s) (hc : s.closeSig = true) (hk : s.sockClosed = true)
    (hne : ¬ allExited s) : ∃ a, isThread a = true ∧ (step cfg s a).isSome = true := by
  by_cases hr : s.r = .exited
  · by_cases hw : s.w = .exited
    · have hd : s.d ≠ .exited := fun hd => hne ⟨hr, hw, hd⟩
      obtain ⟨a, ha, he⟩ := d_can_step cfg s hc hd
      exact ⟨a, by simp [isThread, ha], he⟩
    · rcases w_can_step cfg s h hc hk hw with ⟨a, ha, he⟩ | ⟨_, he⟩
      · exact ⟨a, by simp [isThread, ha], he⟩
      · exact ⟨.body, rfl, he⟩
  · rcases r_can_step cfg s h hk hr with ⟨a, ha, he⟩ | ⟨_, he⟩
    · exact ⟨a, by simp [isThread, ha], he⟩
    · exact ⟨.body, rfl, he⟩


/-! ### termination: the measure

`mu s` = steps R still makes + steps W still makes + operations left in the Close body + steps D still makes (two per
packet that is queued or that R is still going to queue, + its way out).  After Close every step of R, W, D or the body
takes at least 1 off, and nothing else (peer, senders, further Close callers) adds to it: senders cannot add work for W
(it never looks at writeCh's length again: at most one more dequeue), the peer's data is no longer read. -/

/-- steps R still makes after Close, from its program counter -/
def muR : RPc → Nat
  | .top => 1 | .inRead => 2 | .decode k _ => k + 2 | .close _ => 1 | .exited => 0
def muW : WPc → Nat
  | .top => 1 | .sel => 4 | .chk => 3 | .inWrite => 2 | .close _ => 1 | .exited => 0
/-- frames the reader still has to hand to addPacket -/
def pendR : RPc → Nat
  | .decode k _ => k | _ => 0
/-- D: two steps per packet still to deliver (take it, handler returns) + the way to the exit -/
def muDpc (p : Nat) : DPc → Nat
  | .notStarted => 2 * p + 4 | .sel => 2 * p + 3 | .handling => 2 * p + 4 | .drain => 2 * p + 2
  | .drainHandling => 2 * p + 3 | .final => 1 | .exited => 0
def muD (s : St) : Nat := muDpc (s.pq + pendR s.r) s.d
/-- operations left in the body of closeOnce.Do -/
def muH : Once → Nat
  | .held _ .sig => 4 | .held _ .sock => 3 | .held _ .cb => 2 | .held _ .rel => 1 | _ => 0

section
variable (k : Nat) (b : Bool) (c : CPc) (p : Nat) (who : Who)
@[simp] theorem muR_top : muR .top = 1 := rfl
@[simp] theorem muR_inRead : muR .inRead = 2 := rfl
@[simp] theorem muR_decode : muR (.decode k b) = k + 2 := rfl
@[simp] theorem muR_close : muR (.close c) = 1 := rfl
@[simp] theorem muR_exited : muR .exited = 0 := rfl
@[simp] theorem muW_top : muW .top = 1 := rfl
@[simp] theorem muW_sel : muW .sel = 4 := rfl
@[simp] theorem muW_chk : muW .chk = 3 := rfl
@[simp] theorem muW_inWrite : muW .inWrite = 2 := rfl
@[simp] theorem muW_close : muW (.close c) = 1 := rfl
@[simp] theorem muW_exited : muW .exited = 0 := rfl
@[simp] theorem pendR_top : pendR .top = 0 := rfl
@[simp] theorem pendR_inRead : pendR .inRead = 0 := rfl
@[simp] theorem pendR_decode : pendR (.decode k b) = k := rfl
@[simp] theorem pendR_close : pendR (.close c) = 0 := rfl
@[simp] theorem pendR_exited : pendR .exited = 0 := rfl
@[simp] theorem muDpc_notStarted : muDpc p .notStarted = 2 * p + 4 := rfl
@[simp] theorem muDpc_sel : muDpc p .sel = 2 * p + 3 := rfl
@[simp] theorem muDpc_handling : muDpc p .handling = 2 * p + 4 := rfl
@[simp] theorem muDpc_drain : muDpc p .drain = 2 * p + 2 := rfl
@[simp] theorem muDpc_drainHandling : muDpc p .drainHandling = 2 * p + 3 := rfl
@[simp] theorem muDpc_final : muDpc p .final = 1 := rfl
@[simp] theorem muDpc_exited : muDpc p .exited = 0 := rfl
@[simp] theorem muH_free : muH .free = 0 := rfl
@[simp] theorem muH_done : muH .done = 0 := rfl
@[simp] theorem muH_sig : muH (.held who .sig) = 4 := rfl
@[simp] theorem muH_sock : muH (.held who .sock) = 3 := rfl
@[simp] theorem muH_cb : muH (.held who .cb) = 2 := rfl
@[simp] theorem muH_rel : muH (.held who .rel) = 1 := rfl
end

theorem muDpc_mono (p q : Nat) (d : DPc) (h : p ≤ q) : muDpc p d ≤ muDpc q d := by
  cases d <;> simp <;> omega

/-- R, W and the Close body -/
def muRW (s : St) : Nat := muR s.r + muW s.w + muH s.once
def mu (s : St) : Nat := muRW s + muD s

def isRW (a : Act) : Bool := isR a || isW a || a == .body
def rwSteps (acts : List Act) : Nat := (acts.filter isRW).length
def dSteps (acts : List Act) : Nat := (acts.filter isD).length

theorem rwSteps_cons (a : Act) (as : List Act) : rwSteps (a :: as) = (if isRW a then 1 else 0) + rwSteps as := by
  simp only [rwSteps, List.filter_cons]; split <;> simp <;> omega
theorem dSteps_cons (a : Act) (as : List Act) : dSteps (a :: as) = (if isD a then 1 else 0) + dSteps as := by
  simp only [dSteps, List.filter_cons]; split <;> simp <;> omega

theorem thread_split (a : Act) :
    (if isThread a then 1 else 0) = (if isRW a then 1 else 0) + (if isD a then 1 else 0) := by
  cases a <;> simp [isThread, isRW, isR, isW, isD]

theorem threadSteps_split (acts : List Act) : threadSteps acts = rwSteps acts + dSteps acts := by
  induction acts with
  | nil => rfl
  | cons a as ih => rw [threadSteps_cons, rwSteps_cons, dSteps_cons, thread_split, ih]; omega

/-- after Close (`closeSig ∧ sockClosed`, both stable) every step of R, W or the Close body takes 1 off `muRW` and
leaves `muD` alone or lowers it, every step of D takes 1 off `muD` and leaves `muRW` alone, and no other action (peer,
senders, other Close callers) raises either -/
theorem mu_step (cfg : Cfg) (s s' : St) (a : Act) (hi : s.closeSig = sigDone s.once)
    (hc : s.closeSig = true) (hk : s.sockClosed = true) (hs : step cfg s a = some s') :
    s'.closeSig = true ∧ s'.sockClosed = true ∧
    muRW s' + (if isRW a then 1 else 0) ≤ muRW s ∧ muD s' + (if isD a then 1 else 0) ≤ muD s := by
  cases a <;> simp only [step, stepV] at hs <;> (repeat' split at hs) <;>
    (try (simp at hs; done)) <;> (try (simp only [Option.some.injEq] at hs; subst hs)) <;>
    (refine ⟨by simp_all, by simp_all, ?_, ?_⟩) <;>
    simp_all [muRW, muD, isRW, isR, isW, isD, sigDone] <;>
    (try omega) <;> (try (split <;> simp <;> omega)) <;> (try (apply muDpc_mono; omega))

theorem mu_run (cfg : Cfg) (acts : List Act) : ∀ s s', WInv cfg s → s.closeSig = true → s.sockClosed = true →
    run cfg s acts = some s' →
    s'.closeSig = true ∧ s'.sockClosed = true ∧
    muRW s' + rwSteps acts ≤ muRW s ∧ muD s' + dSteps acts ≤ muD s := by
  induction acts with
  | nil => intro s s' _ hc hk hr; simp [run, runV] at hr; subst hr; exact ⟨hc, hk, by simp [rwSteps], by simp [dSteps]⟩
  | cons a as ih =>
    intro s s' hi hc hk hr
    obtain ⟨s1, h1, h2⟩ := runV_cons_some hr
    obtain ⟨c1, k1, m1, d1⟩ := mu_step cfg s s1 a hi.sig hc hk h1
    obtain ⟨c2, k2, m2, d2⟩ := ih s1 s' (inv_step cfg s s1 a hi h1) c1 k1 h2
    rw [rwSteps_cons, dSteps_cons]
    exact ⟨c2, k2, by omega, by omega⟩

theorem muR_zero (p : RPc) : muR p = 0 ↔ p = .exited := by cases p <;> simp [muR]
theorem muW_zero (p : WPc) : muW p = 0 ↔ p = .exited := by cases p <;> simp [muW]
theorem muD_zero (s : St) : muD s = 0 ↔ s.d = .exited := by
  unfold muD; cases s.d <;> simp [muDpc]

theorem mu_zero (s : St) (h : mu s = 0) : allExited s := by
  unfold mu muRW at h
  exact ⟨(muR_zero _).mp (by omega), (muW_zero _).mp (by omega), (muD_zero _).mp (by omega)⟩

/-- TERMINATION, bounded: from any reachable state `s` after Close, along EVERY schedule `acts` (any interleaving with
peer actions, senders and further Close callers) ending in `s'`:
(1) budget: `mu s' + (steps of R, W, D and the Close body in acts) ≤ mu s` — so no schedule contains more than `mu s` of
    their steps (no infinite run), and `mu s ≤ 2·ReadQueueSize + 3·(frames R is still decoding) + 12` (`mu_le`);
(2) never stuck before the end: unless R, W and D have all exited in `s'`, one of their steps (or the body's) is enabled;
(3) so a schedule that cannot be extended by a thread step — and any schedule that has used up the budget — ends with
    R, W and D all exited.
This is termination under every scheduler that does not starve an enabled goroutine for ever. -/
theorem exits_after_close (cfg : Cfg) (acts0 acts : List Act) (s s' : St) (h0 : run cfg (init cfg) acts0 = some s)
    (hc : s.closeSig = true) (hk : s.sockClosed = true) (h : run cfg s acts = some s') :
    mu s' + threadSteps acts ≤ mu s ∧
    (¬ allExited s' → ∃ a, isThread a = true ∧ (step cfg s' a).isSome = true) ∧
    ((∀ a, isThread a = true → step cfg s' a = none) → allExited s') ∧
    (mu s ≤ threadSteps acts → allExited s') := by
  have hi := inv_reach cfg acts0 s h0
  obtain ⟨c', k', m, d⟩ := mu_run cfg acts s s' hi hc hk h
  have hi' := inv_run cfg acts s s' hi h
  have hs := threadSteps_split acts
  have stuck := some_thread_step cfg s' hi' c' k'
  refine ⟨by unfold mu; omega, stuck, fun hn => ?_, fun hle => mu_zero s' (by unfold mu at *; omega)⟩
  by_cases he : allExited s'
  · exact he
  · obtain ⟨a, ha, hen⟩ := stuck he
    rw [hn a ha] at hen; cases hen

/-- the same for R and W alone (their steps and the Close body's; also when `OnPacket` is never called) and for D
alone: budget, never stuck, exit -/
theorem exits_after_close_parts (cfg : Cfg) (acts0 acts : List Act) (s s' : St)
    (h0 : run cfg (init cfg) acts0 = some s) (hc : s.closeSig = true) (hk : s.sockClosed = true)
    (h : run cfg s acts = some s') :
    (muRW s' + rwSteps acts ≤ muRW s ∧
      (¬ (s'.r = .exited ∧ s'.w = .exited) → ∃ a, isRW a = true ∧ (step cfg s' a).isSome = true) ∧
      (muRW s ≤ rwSteps acts → s'.r = .exited ∧ s'.w = .exited)) ∧
    (muD s' + dSteps acts ≤ muD s ∧
      (s'.d ≠ .exited → ∃ a, isD a = true ∧ (step cfg s' a).isSome = true) ∧
      (muD s ≤ dSteps acts → s'.d = .exited)) := by
  have hi := inv_reach cfg acts0 s h0
  obtain ⟨c', k', m, d⟩ := mu_run cfg acts s s' hi hc hk h
  have hi' := inv_run cfg acts s s' hi h
  refine ⟨⟨m, fun hn => ?_, fun hle => ?_⟩, d, d_can_step cfg s' c', fun hle => (muD_zero _).mp (by omega)⟩
  · by_cases hr : s'.r = .exited
    · have hw : s'.w ≠ .exited := fun hw => hn ⟨hr, hw⟩
      rcases w_can_step cfg s' hi' c' k' hw with ⟨a, ha, he⟩ | ⟨_, he⟩
      · exact ⟨a, by simp [isRW, ha], he⟩
      · exact ⟨.body, rfl, he⟩
    · rcases r_can_step cfg s' hi' k' hr with ⟨a, ha, he⟩ | ⟨_, he⟩
      · exact ⟨a, by simp [isRW, ha], he⟩
      · exact ⟨.body, rfl, he⟩
  · have : muRW s' = 0 := by omega
    unfold muRW at this
    exact ⟨(muR_zero _).mp (by omega), (muW_zero _).mp (by omega)⟩

/-- the measure is bounded by the queue capacity and the frames of the chunk R is still decoding -/
theorem mu_le (cfg : Cfg) (s : St) (h : WInv cfg s) (hk : s.sockClosed = true) :
    mu s ≤ 2 * cfg.pcap + 3 * pendR s.r + 12 := by
  have h1 : muR s.r ≤ pendR s.r + 2 := by cases s.r <;> simp [muR, pendR]
  have h2 : muW s.w ≤ 4 := by cases s.w <;> simp [muW]
  have h3 : muD s ≤ 2 * (s.pq + pendR s.r) + 4 := by unfold muD; cases s.d <;> simp [muDpc]
  have h4 : muH s.once ≤ 2 := by
    have := h.sock; rw [hk] at this
    cases ho : s.once with
    | free => simp [muH]
    | done => simp [muH]
    | held who b => rw [ho] at this; cases b <;> simp [sockDone] at this <;> simp
  have := h.pqCap
  unfold mu muRW; omega

/-- there IS a schedule to the end from every state after Close (no dead end; by `exits_after_close` every schedule with
enough thread steps gets there) -/
theorem can_always_finish (cfg : Cfg) : ∀ (n : Nat) (s : St), mu s ≤ n → WInv cfg s → s.closeSig = true →
    s.sockClosed = true → ∃ acts s', run cfg s acts = some s' ∧ allExited s' := by
  intro n
  induction n with
  | zero => intro s hn _ _ _; exact ⟨[], s, rfl, mu_zero s (by omega)⟩
  | succ n ih =>
    intro s hn hi hc hk
    by_cases he : allExited s
    · exact ⟨[], s, rfl, he⟩
    · obtain ⟨a, ha, hen⟩ := some_thread_step cfg s hi hc hk he
      obtain ⟨s1, h1⟩ := Option.isSome_iff_exists.mp hen
      obtain ⟨c1, k1, m1, d1⟩ := mu_step cfg s s1 a hi.sig hc hk h1
      have hcost := thread_split a
      simp only [ha, ↓reduceIte] at hcost
      obtain ⟨acts, s', hr, hx⟩ := ih s1 (by unfold mu at *; omega) (inv_step cfg s s1 a hi h1) c1 k1
      exact ⟨a :: acts, s', by simp [run, runV, h1]; exact hr, hx⟩

/-! ### safety corollaries -/

/-- an exited goroutine stays exited; once D has exited nothing is delivered and nothing is reported any more -/
theorem exited_step (cfg : Cfg) (s s' : St) (a : Act) (hs : step cfg s a = some s') :
    (s.r = .exited → s'.r = .exited) ∧ (s.w = .exited → s'.w = .exited) ∧
    (s.d = .exited → s'.d = .exited ∧ s'.delivered = s.delivered ∧ s'.finalReports = s.finalReports) := by
  cases a <;> simp only [step, stepV] at hs <;> (repeat' split at hs) <;>
    (try (simp at hs; done)) <;> (try (simp only [Option.some.injEq] at hs; subst hs)) <;> simp_all

/-- nothing restarts: an exited R / W / D stays exited in every continuation (no goroutine of a closed connection comes
back; a connection is never re-opened) -/
theorem exited_stays_exited (cfg : Cfg) (acts : List Act) : ∀ (s s' : St), run cfg s acts = some s' →
    (s.r = .exited → s'.r = .exited) ∧ (s.w = .exited → s'.w = .exited) ∧ (s.d = .exited → s'.d = .exited) ∧
    (allExited s → allExited s') := by
  induction acts with
  | nil => intro s s' hr; simp [run, runV] at hr; subst hr; exact ⟨id, id, id, id⟩
  | cons a as ih =>
    intro s s' hr
    obtain ⟨s1, h1, h2⟩ := runV_cons_some hr
    obtain ⟨r1, w1, d1⟩ := exited_step cfg s s1 a h1
    obtain ⟨r2, w2, d2, _⟩ := ih s1 s' h2
    refine ⟨fun h => r2 (r1 h), fun h => w2 (w1 h), fun h => d2 (d1 h).1, fun h => ?_⟩
    exact ⟨r2 (r1 h.1), w2 (w1 h.2.1), d2 (d1 h.2.2).1⟩

/-- after D has delivered the final error (`fn(nil, errConnClosed)`, its last act) no continuation delivers or
reports anything (the list-level statement, with the drained packets, is `DispatchClose.no_delivery_after_finish`) -/
theorem no_delivery_after_final (cfg : Cfg) (acts : List Act) : ∀ (s s' : St), s.d = .exited →
    run cfg s acts = some s' → s'.d = .exited ∧ s'.delivered = s.delivered ∧ s'.finalReports = s.finalReports := by
  induction acts with
  | nil => intro s s' hd hr; simp [run, runV] at hr; subst hr; exact ⟨hd, rfl, rfl⟩
  | cons a as ih =>
    intro s s' hd hr
    obtain ⟨s1, h1, h2⟩ := runV_cons_some hr
    obtain ⟨d1, e1, f1⟩ := (exited_step cfg s s1 a h1).2.2 hd
    obtain ⟨d2, e2, f2⟩ := ih s1 s' d1 h2
    exact ⟨d2, e2.trans e1, f2.trans f1⟩

/-- the final report is D's last act: reported ⇔ exited, in every reachable state -/
theorem final_report_iff_exited (cfg : Cfg) (acts : List Act) (s : St) (h : run cfg (init cfg) acts = some s) :
    s.finalReports = 1 ↔ s.d = .exited := by
  have := (inv_reach cfg acts s h).fin
  rw [this]; split <;> simp_all

/-! ### senders -/

/-- `Write` returns in one step in every state — enqueued, "write queue full", or errConnClosed; exactly one of the
three counters moves and the queue never exceeds its capacity -/
theorem sender_never_blocks (cfg : Cfg) (s : St) (stale : Bool) :
    ∃ s', step cfg s (.send stale) = some s' ∧
      ((s'.wq = s.wq + 1 ∧ s.wq < cfg.wcap ∧ s'.accepted = s.accepted + 1 ∧ s'.rejected = s.rejected ∧ s'.refused = s.refused) ∨
       (s'.wq = s.wq ∧ cfg.wcap ≤ s.wq ∧ s'.accepted = s.accepted ∧ s'.rejected = s.rejected + 1 ∧ s'.refused = s.refused) ∨
       (s'.wq = s.wq ∧ s.closeSig = true ∧ s'.accepted = s.accepted ∧ s'.rejected = s.rejected ∧ s'.refused = s.refused + 1)) ∧
      s'.r = s.r ∧ s'.w = s.w ∧ s'.d = s.d := by
  simp only [step, stepV]
  split
  · rename_i h; simp at h; exact ⟨_, rfl, by simp [h.1], rfl, rfl, rfl⟩
  · split
    · rename_i h; exact ⟨_, rfl, by simp [h], rfl, rfl, rfl⟩
    · rename_i h; exact ⟨_, rfl, by simp; omega, rfl, rfl, rfl⟩

/-- a sender that tests `closed()` after the close signal is refused and leaves the queue alone -/
theorem fresh_sender_refused (cfg : Cfg) (s : St) (hc : s.closeSig = true) :
    step cfg s (.send false) = some { s with refused := s.refused + 1 } := by
  simp [step, stepV, hc]

/-! ### Close calls -/

/-- a Close call made after the close signal returns at once, without touching the Once — also from inside the close
callbacks or a handler (the signal is set before the callbacks run: `WInv.sig`) -/
theorem close_after_signal_returns (cfg : Cfg) (s : St) (i : Nat) (hp : s.ext i = .close .test) (hc : s.closeSig = true) :
    step cfg s (.xCloseTest i) = some { s with ext := upd s.ext i .idle, closeReturns := s.closeReturns + 1 } := by
  simp [step, stepV, hp, hc]

/-- a Close call never blocks for ever: in every reachable state a caller inside Close has an enabled step of its
own, or waits at the Once for the goroutine inside the body — whose next step is enabled (`body_enabled`) -/
theorem close_call_can_step (cfg : Cfg) (acts : List Act) (s : St) (h : run cfg (init cfg) acts = some s) (i : Nat)
    (hx : s.ext i ≠ .idle) :
    (step cfg s (.xCloseTest i)).isSome = true ∨ (step cfg s (.xCloseOnce i)).isSome = true ∨
    ((s.ext i = .close .once ∨ s.ext i = .close .body) ∧ (step cfg s .body).isSome = true) := by
  have inv := inv_reach cfg acts s h
  cases hp : s.ext i with
  | idle => exact absurd hp hx
  | close c =>
    cases c with
    | test => left; simp only [step, stepV, hp]; split <;> simp
    | once =>
      cases ho : s.once with
      | free => right; left; simp [step, stepV, hp, ho]
      | done => right; left; simp [step, stepV, hp, ho]
      | held who b => right; right; exact ⟨.inl rfl, (body_enabled cfg s).mpr (by simp [ho, holder])⟩
    | body => right; right; exact ⟨.inr rfl, (body_enabled cfg s).mpr (by simp [(inv.xBody i).mp hp])⟩

/-- the body of `closeOnce.Do` runs to its end without waiting for anybody: from any state in which the Once is held,
at most four `body` steps — all enabled — leave the Once done, the signal set and the socket closed -/
theorem close_completes (cfg : Cfg) (s : St) (hi : WInv cfg s) (hh : holder s.once ≠ none) :
    ∃ n s', n ≤ 4 ∧ run cfg s (List.replicate n .body) = some s' ∧ s'.once = .done ∧ s'.closeSig = true ∧
      s'.sockClosed = true := by
  have h1 := hi.sig
  have h2 := hi.sock
  cases ho : s.once with
  | free => simp [ho, holder] at hh
  | done => simp [ho, holder] at hh
  | held who b =>
    rw [ho] at h1 h2
    cases b with
    | sig =>
      cases who <;>
        exact ⟨4, _, by omega, by simp [List.replicate, run, runV, stepV, ho]; rfl, rfl, rfl, rfl⟩
    | sock =>
      cases who <;>
        exact ⟨3, _, by omega, by simp [List.replicate, run, runV, stepV, ho]; rfl, rfl, by simpa [sigDone] using h1, rfl⟩
    | cb =>
      cases who <;>
        exact ⟨2, _, by omega, by simp [List.replicate, run, runV, stepV, ho]; rfl, rfl, by simpa [sigDone] using h1,
          by simpa [sockDone] using h2⟩
    | rel =>
      cases who <;>
        exact ⟨1, _, by omega, by simp [List.replicate, run, runV, stepV, ho]; rfl, rfl, by simpa [sigDone] using h1,
          by simpa [sockDone] using h2⟩

/-- from the moment somebody has won the Once (is inside the body of `closeOnce.Do`, or through) there is a schedule
that ends with R, W and D exited: first the body (never blocked), then `can_always_finish` -/
theorem close_leads_to_exit (cfg : Cfg) (acts0 : List Act) (s : St) (h0 : run cfg (init cfg) acts0 = some s)
    (hh : s.once ≠ .free) : ∃ acts s', run cfg s acts = some s' ∧ allExited s' := by
  have hi := inv_reach cfg acts0 s h0
  cases ho : s.once with
  | free => exact absurd ho hh
  | done =>
    have hc : s.closeSig = true := by rw [hi.sig, ho]; rfl
    have hk : s.sockClosed = true := by rw [hi.sock, ho]; rfl
    exact can_always_finish cfg (mu s) s (Nat.le_refl _) hi hc hk
  | held who b =>
    obtain ⟨n, s1, _, hr1, _, hc, hk⟩ := close_completes cfg s hi (by simp [ho, holder])
    obtain ⟨acts, s', hr2, hx⟩ := can_always_finish cfg (mu s1) s1 (Nat.le_refl _) (inv_run cfg _ s s1 hi hr1) hc hk
    exact ⟨List.replicate n .body ++ acts, s', (runV_append _ _ s s').mpr ⟨s1, hr1, hr2⟩, hx⟩

/-! ### non-vacuity: concrete schedules of the code -/

/-- tcp, both queues of size 2 -/
def cfgT : Cfg := { pcap := 2, wcap := 2, ws := false }
def cfgW : Cfg := { pcap := 2, wcap := 2, ws := true }

/-- an external Close: call, closed() test, Once taken, the four operations of the body -/
def xClose (i : Nat) : List Act := [.xCall i, .xCloseTest i, .xCloseOnce i, .body, .body, .body, .body]

/-- traffic in both directions, then the reader waits in Read and the writer in a Write to a stalled peer -/
def demoTraffic : List Act :=
  [.dStart, .send false, .wTop, .wSelRecv, .wWriteOk false,         -- handshake written
   .peerSend, .rTop, .rReadData 2 false, .rAdd, .rAdd, .rDecoded,   -- a chunk with two frames
   .dSelRecv, .dHandled,                                            -- one delivered, one queued
   .rTop,                                                           -- R: in Read, nothing to read
   .peerStall, .send false, .wTop, .wSelRecv]                       -- W: in Write, the peer does not read

/-- before the Close both are blocked: no reader step and no writer step is enabled -/
example : (run cfgT (init cfgT) demoTraffic).map
    (fun s => (s.r, s.w, (step cfgT s .rReadErr).isSome, (step cfgT s (.rReadData 1 false)).isSome,
      (step cfgT s (.wWriteOk false)).isSome || (step cfgT s .wWriteErr).isSome)) =
    some (.inRead, .inWrite, false, false, false) := by decide

/-- an external caller closes: signal, socket; the Read and the Write return errors, R and W leave through their own
(nested, no-op) Close; the callbacks run; D drains the queued packet, reports the close and leaves -/
def demoClose : List Act :=
  demoTraffic ++ [.xCall 7, .xCloseTest 7, .xCloseOnce 7, .body, .body,
    .rReadErr, .wWriteErr, .rCloseTest, .wCloseTest, .body, .body,
    .dSelClose, .dDrain, .dHandled, .dDrain, .dFinal]

example : (run cfgT (init cfgT) demoClose).map (fun s => (s.r, s.w, s.d)) = some (.exited, .exited, .exited) := by
  decide
example : (run cfgT (init cfgT) demoClose).map (fun s => (s.once, s.closeSig, s.sockClosed)) =
    some (.done, true, true) := by decide
example : (run cfgT (init cfgT) demoClose).map (fun s => (s.sigCloses, s.sockCloses, s.closeCallbacks)) =
    some (1, 1, 1) := by decide
example : (run cfgT (init cfgT) demoClose).map (fun s => (s.finalReports, s.delivered, s.closeReturns)) =
    some (1, 2, 1) := by decide

/-- the reader (EOF), the writer (write error) and a third goroutine call Close at once, all past the `closed()`
test before anybody closes: R wins the Once, the two others WAIT at the Once (no step) until the body is done, then
return; everything is done once -/
def demoRace : List Act :=
  [.rTop, .peerClose, .rReadErr, .send false, .wTop, .wSelRecv, .wWriteErr, .xCall 0,
   .rCloseTest, .wCloseTest, .xCloseTest 0, .rCloseOnce]

example : (run cfgT (init cfgT) demoRace).map
    (fun s => (s.once, (step cfgT s .wCloseOnce).isSome, (step cfgT s (.xCloseOnce 0)).isSome)) =
    some (.held .r .sig, false, false) := by decide
example : (run cfgT (init cfgT) (demoRace ++ [.body, .body, .body])).map
    (fun s => (s.once, (step cfgT s .wCloseOnce).isSome, (step cfgT s (.xCloseOnce 0)).isSome)) =
    some (.held .r .rel, false, false) := by decide
example : (run cfgT (init cfgT) (demoRace ++ [.body, .body, .body, .body, .wCloseOnce, .xCloseOnce 0])).map
    (fun s => (s.r, s.w, s.ext 0)) = some (.exited, .exited, .idle) := by decide
example : (run cfgT (init cfgT) (demoRace ++ [.body, .body, .body, .body, .wCloseOnce, .xCloseOnce 0])).map
    (fun s => (s.sigCloses, s.sockCloses, s.closeCallbacks)) = some (1, 1, 1) := by decide

/-- WebSocket writer: a frame taken from the queue just before the close is not written (closed() after the select) -/
example : (run cfgW (init cfgW) ([.dStart, .send false, .wSelRecv, .rTop] ++ xClose 3 ++
      [.wChk, .rReadErr, .rCloseTest, .dSelClose, .dDrain, .dFinal])).map (fun s => (s.r, s.w, s.d)) =
    some (.exited, .exited, .exited) := by decide

/-- OnPacket called after the connection is already closed (the peer hung up at once): D starts, finds nothing,
reports the close, leaves -/
example : (run cfgT (init cfgT) [.peerClose, .rTop, .rReadErr, .rCloseTest, .rCloseOnce, .body, .body, .body, .body,
      .wTop, .dStart, .dSelClose, .dDrain, .dFinal]).map (fun s => (s.r, s.w, s.d, s.finalReports)) =
    some (.exited, .exited, .exited, 1) := by decide

/-! ### negative results: each of the three guards is necessary -/

/-- predicate "R is stranded" for the variant whose `addPacket` blocks: a frame in hand, the queue full, the
dispatcher gone, the Close finished -/
def strandedA (cfg : Cfg) (s : St) : Bool :=
  s.d == .exited && s.once == .done && s.pq == cfg.pcap && (match s.r with | .decode (_+1) _ => true | _ => false)

theorem strandedA_no_step (cfg : Cfg) (s : St) (h : strandedA cfg s = true) (a : Act) (ha : isR a = true) :
    stepV .blockingAdd cfg s a = none := by
  simp only [strandedA, Bool.and_eq_true, beq_iff_eq] at h
  obtain ⟨⟨⟨hd, ho⟩, hq⟩, hr⟩ := h
  split at hr
  · rename_i k b hp
    cases a <;> simp [isR] at ha <;> simp [stepV, hp, hq]
  · cases hr

theorem strandedA_step (cfg : Cfg) (s s' : St) (a : Act) (h : strandedA cfg s = true)
    (hs : stepV .blockingAdd cfg s a = some s') : strandedA cfg s' = true ∧ s'.r = s.r := by
  by_cases ha : isR a = true
  · rw [strandedA_no_step cfg s h a ha] at hs; cases hs
  · simp only [strandedA, Bool.and_eq_true, beq_iff_eq] at h
    obtain ⟨⟨⟨hd, ho⟩, hq⟩, hr⟩ := h
    cases a <;> simp [isR] at ha <;> simp only [stepV] at hs <;> (repeat' split at hs) <;>
      (try (simp at hs; done)) <;> (try (simp only [Option.some.injEq] at hs; subst hs)) <;>
      simp_all [strandedA]

theorem strandedA_run (cfg : Cfg) (acts : List Act) : ∀ (s s' : St), strandedA cfg s = true →
    runV .blockingAdd cfg s acts = some s' → strandedA cfg s' = true ∧ s'.r = s.r := by
  induction acts with
  | nil => intro s s' h hr; simp [runV] at hr; subst hr; exact ⟨h, rfl⟩
  | cons a as ih =>
    intro s s' h hr
    obtain ⟨s1, h1, h2⟩ := runV_cons_some hr
    obtain ⟨a1, e1⟩ := strandedA_step cfg s s1 a h h1
    obtain ⟨a2, e2⟩ := ih s1 s' a1 h2
    exact ⟨a2, e2.trans e1⟩

/-- the schedule: a chunk with two frames is read; an external Close; D finds the queue empty, reports, leaves; R
hands over its first frame (the queue of size 1 is now full for ever) -/
def demoA : List Act :=
  [.dStart, .peerSend, .rTop, .rReadData 2 false] ++ xClose 0 ++ [.dSelClose, .dDrain, .dFinal, .rAdd]
def cfgA : Cfg := { pcap := 1, wcap := 2, ws := false }

/-- (a) if `addPacket` waited for room (`case conn.packetCh <- p` without `default`): after this schedule the
connection is closed (signal, socket, callbacks, final report: all done), the dispatcher has left — and the reader sits
in `addPacket` with NO enabled step, in this state and in every state of every continuation: it never exits.
(For the code the same schedule continues with `rAdd` = drop, `rDecoded`, `rTop` → exited.) -/
theorem blocking_addPacket_strands_reader :
    ∃ s, runV .blockingAdd cfgA (init cfgA) demoA = some s ∧
      s.closeSig = true ∧ s.sockClosed = true ∧ s.once = .done ∧ s.d = .exited ∧ s.r = .decode 1 false ∧
      ∀ acts s', runV .blockingAdd cfgA s acts = some s' →
        s'.r = .decode 1 false ∧ ∀ a, isR a = true → stepV .blockingAdd cfgA s' a = none := by
  have h : (runV .blockingAdd cfgA (init cfgA) demoA).map
      (fun s => (strandedA cfgA s, s.closeSig && s.sockClosed, s.r)) = some (true, true, .decode 1 false) := by decide
  cases hr : runV .blockingAdd cfgA (init cfgA) demoA with
  | none => simp [hr] at h
  | some s =>
    simp only [hr, Option.map_some, Option.some.injEq, Prod.mk.injEq, Bool.and_eq_true] at h
    obtain ⟨hs, ⟨hc, hk⟩, hp⟩ := h
    have hs' := hs
    simp only [strandedA, Bool.and_eq_true, beq_iff_eq] at hs'
    refine ⟨s, rfl, hc, hk, hs'.1.1.2, hs'.1.1.1, hp, fun acts s' hrun => ?_⟩
    obtain ⟨h1, h2⟩ := strandedA_run cfgA acts s s' hs hrun
    exact ⟨h2.trans hp, fun a ha => strandedA_no_step cfgA s' h1 a ha⟩

/-- the same schedule on the code: the second frame is dropped with a warning and the reader exits -/
example : (run cfgA (init cfgA) (demoA ++ [.rAdd, .rDecoded, .rTop])).map (fun s => (s.r, s.dropped, s.pq)) =
    some (.exited, 1, 1) := by decide

/-! (b) -/

def strandedB (s : St) : Bool :=
  s.r == .inRead && s.once == .done && !s.sockClosed && s.avail == 0 && !s.peerClosed

theorem strandedB_no_step (cfg : Cfg) (s : St) (h : strandedB s = true) (a : Act) (ha : isR a = true) :
    stepV .keepSocket cfg s a = none := by
  simp only [strandedB, Bool.and_eq_true, beq_iff_eq, Bool.not_eq_eq_eq_not, Bool.not_true] at h
  obtain ⟨⟨⟨⟨hp, ho⟩, hk⟩, hav⟩, hpc⟩ := h
  cases a <;> simp [isR] at ha <;> simp [stepV, hp, hk, hav, hpc]

theorem strandedB_step (cfg : Cfg) (s s' : St) (a : Act) (h : strandedB s = true) (hpeer : isPeer a = false)
    (hs : stepV .keepSocket cfg s a = some s') : strandedB s' = true := by
  by_cases ha : isR a = true
  · rw [strandedB_no_step cfg s h a ha] at hs; cases hs
  · simp only [strandedB, Bool.and_eq_true, beq_iff_eq, Bool.not_eq_eq_eq_not, Bool.not_true] at h
    obtain ⟨⟨⟨⟨hp, ho⟩, hk⟩, hav⟩, hpc⟩ := h
    cases a <;> simp [isR] at ha <;> simp [isPeer] at hpeer <;> simp only [stepV] at hs <;>
      (repeat' split at hs) <;>
      (try (simp at hs; done)) <;> (try (simp only [Option.some.injEq] at hs; subst hs)) <;>
      simp_all [strandedB]

theorem strandedB_run (cfg : Cfg) (acts : List Act) : ∀ (s s' : St), strandedB s = true →
    (∀ a ∈ acts, isPeer a = false) → runV .keepSocket cfg s acts = some s' → strandedB s' = true := by
  induction acts with
  | nil => intro s s' h _ hr; simp [runV] at hr; subst hr; exact h
  | cons a as ih =>
    intro s s' h hp hr
    obtain ⟨s1, h1, h2⟩ := runV_cons_some hr
    exact ih s1 s' (strandedB_step cfg s s1 a h (hp a (by simp)) h1) (fun b hb => hp b (by simp [hb])) h2

def demoB : List Act := [.rTop] ++ xClose 0

/-- (b) if `Close` did not close the socket: after a complete Close (Once done, signal set, callbacks run) the reader
sits in `Read` with NO enabled step, and stays so in every continuation in which the peer does nothing — its exit is
at the mercy of the peer.  (For the code `rReadErr` is enabled in the same situation: `reader_in_read_unblocked`.) -/
theorem close_without_socket_strands_reader :
    ∃ s, runV .keepSocket cfgT (init cfgT) demoB = some s ∧
      s.closeSig = true ∧ s.once = .done ∧ s.closeCallbacks = 1 ∧ s.r = .inRead ∧
      ∀ acts s', (∀ a ∈ acts, isPeer a = false) → runV .keepSocket cfgT s acts = some s' →
        s'.r = .inRead ∧ ∀ a, isR a = true → stepV .keepSocket cfgT s' a = none := by
  have h : (runV .keepSocket cfgT (init cfgT) demoB).map
      (fun s => (strandedB s, s.closeSig, s.closeCallbacks)) = some (true, true, 1) := by decide
  cases hr : runV .keepSocket cfgT (init cfgT) demoB with
  | none => simp [hr] at h
  | some s =>
    simp only [hr, Option.map_some, Option.some.injEq, Prod.mk.injEq] at h
    obtain ⟨hs, hc, hcb⟩ := h
    have key : ∀ s : St, strandedB s = true → s.r = .inRead ∧ s.once = .done := by
      intro s hs
      simp only [strandedB, Bool.and_eq_true, beq_iff_eq] at hs
      exact ⟨hs.1.1.1.1, hs.1.1.1.2⟩
    refine ⟨s, rfl, hc, (key s hs).2, hcb, (key s hs).1, fun acts s' hp hrun => ?_⟩
    have h1 := strandedB_run cfgT acts s s' hs hp hrun
    exact ⟨(key s' h1).1, fun a ha => strandedB_no_step cfgT s' h1 a ha⟩

/-! (c) -/

def strandedC (cfg : Cfg) (s : St) : Bool := cfg.ws && s.w == .sel && s.closeSig && s.wq == 0 && s.once == .done

theorem strandedC_no_step (cfg : Cfg) (s : St) (h : strandedC cfg s = true) (a : Act) (ha : isW a = true) :
    stepV .noCloseCase cfg s a = none := by
  simp only [strandedC, Bool.and_eq_true, beq_iff_eq] at h
  obtain ⟨⟨⟨⟨hws, hp⟩, hc⟩, hq⟩, ho⟩ := h
  cases a <;> simp [isW] at ha <;> simp [stepV, hp, hc, hq, hws]

theorem strandedC_step (cfg : Cfg) (s s' : St) (a : Act) (h : strandedC cfg s = true) (hst : a ≠ .send true)
    (hs : stepV .noCloseCase cfg s a = some s') : strandedC cfg s' = true := by
  by_cases ha : isW a = true
  · rw [strandedC_no_step cfg s h a ha] at hs; cases hs
  · simp only [strandedC, Bool.and_eq_true, beq_iff_eq] at h
    obtain ⟨⟨⟨⟨hws, hp⟩, hc⟩, hq⟩, ho⟩ := h
    cases a <;> simp [isW] at ha <;> simp only [stepV] at hs <;>
      (repeat' split at hs) <;>
      (try (simp at hs; done)) <;> (try (simp only [Option.some.injEq] at hs; subst hs)) <;>
      simp_all [strandedC]

theorem strandedC_run (cfg : Cfg) (acts : List Act) : ∀ (s s' : St), strandedC cfg s = true →
    (∀ a ∈ acts, a ≠ .send true) → runV .noCloseCase cfg s acts = some s' → strandedC cfg s' = true := by
  induction acts with
  | nil => intro s s' h _ hr; simp [runV] at hr; subst hr; exact h
  | cons a as ih =>
    intro s s' h hp hr
    obtain ⟨s1, h1, h2⟩ := runV_cons_some hr
    exact ih s1 s' (strandedC_step cfg s s1 a h (hp a (by simp)) h1) (fun b hb => hp b (by simp [hb])) h2

/-- (c) if the writer's select had no `case <-conn.closeCh` (ws_conn.go: `select { case b = <-conn.writeCh: }`): after
a complete Close the writer sits at its select on the empty writeCh with NO enabled step, and stays so in every
continuation that does not contain a sender which tested `closed()` before the close (all later senders are refused:
`fresh_sender_refused`) — nothing will ever wake it. -/
theorem writer_without_close_case_strands :
    ∃ s, runV .noCloseCase cfgW (init cfgW) (xClose 0) = some s ∧
      s.closeSig = true ∧ s.sockClosed = true ∧ s.once = .done ∧ s.w = .sel ∧
      ∀ acts s', (∀ a ∈ acts, a ≠ .send true) → runV .noCloseCase cfgW s acts = some s' →
        s'.w = .sel ∧ ∀ a, isW a = true → stepV .noCloseCase cfgW s' a = none := by
  have h : (runV .noCloseCase cfgW (init cfgW) (xClose 0)).map
      (fun s => (strandedC cfgW s, s.sockClosed, s.once)) = some (true, true, .done) := by decide
  cases hr : runV .noCloseCase cfgW (init cfgW) (xClose 0) with
  | none => simp [hr] at h
  | some s =>
    simp only [hr, Option.map_some, Option.some.injEq, Prod.mk.injEq] at h
    obtain ⟨hs, hk, ho⟩ := h
    have key : ∀ s : St, strandedC cfgW s = true → s.w = .sel ∧ s.closeSig = true := by
      intro s hs
      simp only [strandedC, Bool.and_eq_true, beq_iff_eq] at hs
      exact ⟨hs.1.1.1.2, hs.1.1.2⟩
    refine ⟨s, rfl, (key s hs).2, hk, ho, (key s hs).1, fun acts s' hp hrun => ?_⟩
    have h1 := strandedC_run cfgW acts s s' hs hp hrun
    exact ⟨(key s' h1).1, fun a ha => strandedC_no_step cfgW s' h1 a ha⟩

/-! (d) -/

def strandedD (s : St) : Bool :=
  s.d == .sel && s.pq == 0 && s.r == .exited && s.once == .done && s.finalReports == 0

def demoD : List Act := [.dStart, .rTop] ++ xClose 0 ++ [.rReadErr, .rCloseTest]

theorem strandedD_no_step (cfg : Cfg) (s : St) (h : strandedD s = true) (a : Act) (ha : isD a = true) :
    stepV .dNoCloseCase cfg s a = none := by
  simp only [strandedD, Bool.and_eq_true, beq_iff_eq] at h
  obtain ⟨⟨⟨⟨hp, hq⟩, hr⟩, ho⟩, hf⟩ := h
  cases a <;> simp [isD] at ha <;> simp [stepV, hp, hq]

theorem strandedD_step (cfg : Cfg) (s s' : St) (a : Act) (h : strandedD s = true)
    (hs : stepV .dNoCloseCase cfg s a = some s') : strandedD s' = true := by
  by_cases ha : isD a = true
  · rw [strandedD_no_step cfg s h a ha] at hs; cases hs
  · simp only [strandedD, Bool.and_eq_true, beq_iff_eq] at h
    obtain ⟨⟨⟨⟨hp, hq⟩, hr⟩, ho⟩, hf⟩ := h
    cases a <;> simp [isD] at ha <;> simp only [stepV] at hs <;>
      (repeat' split at hs) <;>
      (try (simp at hs; done)) <;> (try (simp only [Option.some.injEq] at hs; subst hs)) <;>
      simp_all [strandedD]

theorem strandedD_run (cfg : Cfg) (acts : List Act) : ∀ (s s' : St), strandedD s = true →
    runV .dNoCloseCase cfg s acts = some s' → strandedD s' = true := by
  induction acts with
  | nil => intro s s' h hr; simp [runV] at hr; subst hr; exact h
  | cons a as ih =>
    intro s s' h hr
    obtain ⟨s1, h1, h2⟩ := runV_cons_some hr
    exact ih s1 s' (strandedD_step cfg s s1 a h h1) h2

/-- (d) if the dispatcher's select had no `case <-conn.closeCh` (`for p := range / <-conn.packetCh` only — the code
before the fix recorded in DESIGN for C16): after a complete Close and the reader's exit the dispatcher sits at its
select on the empty packetCh with NO enabled step, in this state and in every state of every continuation; the final
error is never reported. -/
theorem dispatcher_without_close_case_strands :
    ∃ s, runV .dNoCloseCase cfgT (init cfgT) demoD = some s ∧
      s.closeSig = true ∧ s.sockClosed = true ∧ s.once = .done ∧ s.r = .exited ∧ s.d = .sel ∧
      ∀ acts s', runV .dNoCloseCase cfgT s acts = some s' →
        s'.d = .sel ∧ s'.finalReports = 0 ∧ ∀ a, isD a = true → stepV .dNoCloseCase cfgT s' a = none := by
  have h : (runV .dNoCloseCase cfgT (init cfgT) demoD).map
      (fun s => (strandedD s, s.closeSig && s.sockClosed, s.finalReports)) = some (true, true, 0) := by decide
  cases hr : runV .dNoCloseCase cfgT (init cfgT) demoD with
  | none => simp [hr] at h
  | some s =>
    simp only [hr, Option.map_some, Option.some.injEq, Prod.mk.injEq, Bool.and_eq_true] at h
    obtain ⟨hs, ⟨hc, hk⟩, hf⟩ := h
    have key : ∀ s : St, strandedD s = true → s.d = .sel ∧ s.r = .exited ∧ s.once = .done ∧ s.finalReports = 0 := by
      intro s hs
      simp only [strandedD, Bool.and_eq_true, beq_iff_eq] at hs
      exact ⟨hs.1.1.1.1, hs.1.1.2, hs.1.2, hs.2⟩
    refine ⟨s, rfl, hc, hk, (key s hs).2.2.1, (key s hs).2.1, (key s hs).1, fun acts s' hrun => ?_⟩
    have h1 := strandedD_run cfgT acts s s' hs hrun
    exact ⟨(key s' h1).1, (key s' h1).2.2.2, fun a ha => strandedD_no_step cfgT s' h1 a ha⟩

/-- the tcp writer would survive the same omission: its ticker brings it back to the `closed()` test at the loop head -/
example : (runV .noCloseCase cfgT (init cfgT) ([.wTop] ++ xClose 0 ++ [.wSelTick, .wTop])).map (fun s => s.w) =
    some .exited := by decide


end OAP.ConnThreads
