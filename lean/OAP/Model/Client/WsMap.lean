/-
View *WsMap* (go/client/ws_conn.go vs go/client/tcp_conn.go): how WebSocket control frames are mapped to and from
protocol packets, and the application-level events a peer script produces over either transport.
gorilla/websocket and the frame codec are parameters: `dec` decodes one complete frame (the one-shot decoder on
WebSocket, the streaming decoder on TCP — proved equal on whole frames in C01/C03), `hbId` extracts the heartbeat id
of a heartbeat body (protobuf), ids drawn locally for a surfaced peer ping are abstracted (`localId`).
-/
import OAP.Model.Frame
namespace OAP.WsMap
open OAP

inductive WsFrame where
  | binary (b : Bytes) | ping (d : Bytes) | pong (d : Bytes) | close (code : Nat) (reason : Bytes)
  deriving DecidableEq, Repr

def cmdClose : UInt32 := 0
def cmdHeartbeat : UInt32 := 1

/-- `wsConn.Write`: heartbeat request → ping frame carrying the body, close → close frame carrying the body,
anything else → one binary message with the packed frame -/
def wsOutbound (pack : Packet → Res Bytes) (p : Packet) : Res WsFrame :=
  if p.cmd = cmdHeartbeat ∧ p.type = .request then .ok (.ping p.body)
  else if p.cmd = cmdClose then .ok (.close 0 p.body)      -- the body IS the close frame's payload
  else (pack p).map .binary

/-- what the application layer (client.onPacket) is handed for one inbound event -/
inductive AppEvent where
  | packet (type : PType) (cmd : UInt32) (rid : Option UInt32) (status : UInt8) (body : Bytes)
      -- rid = none: drawn locally, not comparable across transports
  | closeByPeer (code : Nat) (reason : Bytes)
  | readError
  | autoReply (what : String) (body : Bytes)      -- the heartbeat answer written by the transport / the client
  deriving DecidableEq, Repr

/-- a peer script expressible on both transports -/
inductive Step where
  | frame (bytes : Bytes)                         -- a request / response / push frame
  | heartbeatReq (body : Bytes)                   -- peer heartbeat
  | heartbeatResp (id : UInt32) (body : Bytes)    -- peer's answer to the client's heartbeat `id`; body carries the id
  | close (code : Nat) (reason : Bytes)
  | garbage (bytes : Bytes)                       -- an undecodable frame
  | drop
  deriving DecidableEq, Repr

def ofPacket (p : Packet) : AppEvent := .packet p.type p.cmd (some p.rid) p.status p.body

/-- WebSocket: the events one step of the script produces (`reading` + the ping/pong/close handlers) -/
def wsStep (dec : Bytes → Res Packet) (hbId : Bytes → Option UInt32) : Step → List AppEvent
  | .frame b => match dec b with | .ok p => [ofPacket p] | _ => [.readError]   -- repaired: an undecodable message closes the connection
  | .heartbeatReq body => [.autoReply "heartbeat" body, .packet .request cmdHeartbeat none 0 body]
  | .heartbeatResp id body => [.packet .response cmdHeartbeat (match hbId body with | some i => some i | none => some 0) 0 body]
  | .close code reason => [.closeByPeer code reason, .readError]
  | .garbage b => match dec b with | .ok p => [ofPacket p] | _ => [.readError]
  | .drop => [.readError]

/-- TCP: the same script as frames on the byte stream (`reading` + client.handlePing) -/
def tcpStep (dec : Bytes → Res Packet) : Step → List AppEvent
  | .frame b => match dec b with | .ok p => [ofPacket p] | _ => [.readError]
  | .heartbeatReq body => [.autoReply "heartbeat" body, .packet .request cmdHeartbeat none 0 body]
      -- the client answers (handlePing) with a response echoing id and body; the request id is the peer's, abstracted like the local one
  | .heartbeatResp id body => [.packet .response cmdHeartbeat (some id) 0 body]
  | .close code reason => [.closeByPeer code reason, .readError]
  | .garbage b => match dec b with | .ok p => [ofPacket p] | _ => [.readError]
  | .drop => [.readError]

/-- a connection is served until its first read error -/
def untilError : List AppEvent → List AppEvent
  | [] => []
  | .readError :: _ => [.readError]
  | e :: es => e :: untilError es

def wsTrace (dec : Bytes → Res Packet) (hbId : Bytes → Option UInt32) (s : List Step) : List AppEvent :=
  untilError (s.flatMap (wsStep dec hbId))
def tcpTrace (dec : Bytes → Res Packet) (s : List Step) : List AppEvent :=
  untilError (s.flatMap (tcpStep dec))

end OAP.WsMap
