/-
T3 for the Recovery view: the hook log of a real run of the Go client, replayed through the Recovery LTS.

The log shows only SOME steps of each goroutine.  Every hook sits BETWEEN two statements of the Go code, i.e. between two
transitions A, B of the model thread the goroutine is mapped to; the replay therefore treats a hook as something the
transition A *leaves pending*: after A the thread cannot move (and nobody can receive from it) until the matching event
has been consumed from the log.  All other transitions are unobserved (τ).  Between two logged events ANY live thread may
take τ-steps (the closer's `close(closeCh)` must be able to happen before the retry goroutine's `closed()` test although
neither is logged), so the replay is the on-the-fly subset construction of the weak-trace problem:

    frontier₀ = {init m};   frontierₖ₊₁ = dedupe { consume(s', obsₖ) | s' ∈ τ-closure(frontierₖ) }

The log is a trace of the model iff the frontier never becomes empty.  The τ-closure is finite (every cycle of a thread
passes a hooked transition) and is kept small by four prunings, none of which can make a log conform that is not a trace
(they only remove interleavings; the first three remove none that matters):
  * a transition that leaves the hook `l` pending is only taken when `l` is the next logged event of that goroutine;
  * a goroutine's thread only moves while it is the running call of the goroutine (nested calls run to completion);
  * a critical section, once entered, runs to its end or to its next hook, and purely local steps follow their
    predecessor at once (`eagerPc`, Lipton reduction: acquire = right mover, release = left mover, protected = both mover);
  * a notifier whose goroutine has no further event in the log and that holds nothing (pc enter / fast / wantW) is frozen.
Bounds: closure ≤ `closureFuel` breadth-first levels and `closureCap` states, frontier ≤ `frontierCap` candidates
(measured on 960 real logs: largest closure 186, largest frontier 93).
Every candidate carries the list of model actions taken so far; on success the witness is re-run through `Recovery.run`
(`certify`), so that the theorems of Recovery.lean (stated for `run (init m) acts = some s`) apply to it literally,
whatever the search did.

Goroutine ↦ model thread (by goroutine id; one model thread per CALL, a goroutine owns a stack of calls)
  `reconnecting:enter(c)`   new notifier thread, action `n t c false` at `idle` (the model lets any notifier report any
                            connection directly; the `onConnClose` pre-test is not needed to explain the event).
                            If the goroutine is a retry goroutine it must be at `closeOld` (old.Close runs the callback)
                            and c must be the model's current connection (`old := c.conn`).
  `reconnecting:start`      pending after `unlock1 → spawn`
  `reconnecting:done`       pending after `unlock2 → done`
  `reconnect:attempt`       pending after `top → chkMax`; the first one of an unknown goroutine binds it to an unbound
                            occupied retry slot (all choices are kept)
  `reconnect:failall`       pending after `closeOld → dWantW`
  `client.dial:done(c)`     pending after `dDialing → dUnlockOk` (c = the fresh connection) / `→ dUnlockFail` (c = 0);
                            the first one, by a goroutine that never logged `reconnect:attempt`, is the initial Dial
                            (connection 1 of `init`)
  `client.Close:enter`      retry goroutine: pending after `chkMax → hmOnce`; anybody else: new closer thread at `start`
                            (a retry goroutine inside the after-reconnect callback, pc `cb`, may nest one)
  `client.Close:return`     pending after the transition into `ret` (closer) / `fin hitmax` (retry goroutine)
A goroutine's next event that does not belong to its top thread requires that thread to have RETURNED (pc `done` / `ret`,
nothing pending) by τ-steps.
-/
import OAP.Model.Client.Recovery
namespace OAP.RecoveryReplay
open OAP OAP.Recovery

/-- hook labels; connection ids are model ids (see `translate`) -/
inductive Label
  | enter (c : Nat) | start | done | attempt | failall | dialDone (c : Nat) | closeEnter | closeReturn
deriving DecidableEq, Repr

structure Obs where
  gid : Nat
  lab : Label
deriving DecidableEq, Repr

def Label.name : Label → String
  | .enter c => s!"reconnecting:enter({c})" | .start => "reconnecting:start" | .done => "reconnecting:done"
  | .attempt => "reconnect:attempt" | .failall => "reconnect:failall" | .dialDone c => s!"client.dial:done({c})"
  | .closeEnter => "client.Close:enter" | .closeReturn => "client.Close:return"

/-! ### connection ids: hook ids ↦ model ids -/

/-- The model numbers connections 1 (initial), 2, 3 … in the order of the successful dials.  `connTable` assigns the
    same numbers to the hook ids in the order of the logged `client.dial:done`; the replay then CHECKS at every such
    event that the model's `cur` is that number. -/
def connTable (obs : List Obs) : List (Nat × Nat) :=
  let rec go (obs : List Obs) (retry : List Nat) (next : Nat) (tab : List (Nat × Nat)) : List (Nat × Nat) :=
    match obs with
    | [] => tab
    | o :: os =>
      match o.lab with
      | .attempt => go os (o.gid :: retry) next tab
      | .dialDone x =>
        if x = 0 ∨ (tab.find? (·.1 == x)).isSome then go os retry next tab
        else if retry.contains o.gid then go os retry (next + 1) ((x, next) :: tab)
        else go os retry next ((x, 1) :: tab)
      | _ => go os retry next tab
  go obs [] 2 []

/-- unknown non-nil connections get ids the model never produces -/
def mapConn (tab : List (Nat × Nat)) (x : Nat) : Nat :=
  if x = 0 then 0 else match tab.find? (·.1 == x) with | some e => e.2 | none => 1000000 + x

def translate (obs : List Obs) : List Obs :=
  let tab := connTable obs
  obs.map fun o => match o.lab with
    | .enter x => { o with lab := .enter (mapConn tab x) }
    | .dialDone x => { o with lab := .dialDone (mapConn tab x) }
    | _ => o

/-! ### candidates -/

inductive Kind | notif | retry | closer
deriving DecidableEq, Repr

/-- a live model thread: which goroutine it belongs to (`none`: a retry goroutine that has not logged anything yet) and
    the hook its last transition left pending -/
structure Thr where
  kind : Kind
  idx : Nat
  gid : Option Nat
  pend : Option Label := none
deriving DecidableEq, Repr

structure Cand where
  s : St
  thrs : List Thr := []          -- newest first: the first thread of a goroutine is the top of its call stack
  nN : Nat := 0                  -- notifier indices handed out
  nC : Nat := 0                  -- closer indices handed out
  initDial : Bool := false       -- the initial `client.dial:done` has been seen
  dead : List Nat := []          -- retry goroutines that have exited (goroutine ids are never reused)
  hist : List Act := []          -- the model actions taken, newest first (the witness)

def once2 : Once → List Nat
  | .free => [0, 0] | .heldC t => [1, t] | .heldR t => [2, t] | .done => [3, 0]

def npc2 : NPc → List Nat
  | .idle => [0, 0] | .occ c => [1, c] | .enter c => [2, c] | .fast c => [3, c] | .wantW c => [4, c]
  | .locked c => [5, c] | .skipUnlock => [6, 0] | .setDo c => [7, c] | .setAt c => [8, c] | .unlock1 c => [9, c]
  | .spawn c => [10, c] | .waitRC c => [11, c] | .wantW2 c => [12, c] | .clrDo c => [13, c] | .clrAt c => [14, c]
  | .unlock2 c => [15, c] | .done => [16, 0]

def rpc1 : RPc → Nat
  | .none => 0 | .top => 1 | .chkMax => 2 | .oWantR => 3 | .oInR => 4 | .closeOld => 5 | .dWantW => 6 | .dCheck => 7
  | .dDialing => 8 | .dUnlockOk => 9 | .dUnlockFail => 10 | .auth => 11 | .sleep => 12 | .cbTest => 13 | .cb => 14
  | .hmOnce => 15 | .hmSignal => 16 | .hmWantR => 17 | .hmInR => 18 | .hmUnlockR => 19 | .hmCb => 20 | .hmFinish => 21
  | .fin .closed => 22 | .fin .success => 23 | .fin .hitmax => 24

def cpc1 : CPc → Nat
  | .start => 0 | .signal => 1 | .wantR => 2 | .inR => 3 | .unlockR => 4 | .cb => 5 | .finish => 6 | .ret => 7

def lab2 : Option Label → List Nat
  | none => [0, 0] | some (.enter c) => [1, c] | some .start => [2, 0] | some .done => [3, 0] | some .attempt => [4, 0]
  | some .failall => [5, 0] | some (.dialDone c) => [6, c] | some .closeEnter => [7, 0] | some .closeReturn => [8, 0]

def b2n (b : Bool) : Nat := if b then 1 else 0

/-- everything of a candidate that can influence the rest of the replay or the checks, as a list of numbers
    (two candidates with the same key are interchangeable; the witness is not part of it) -/
def Cand.key (c : Cand) : List Nat :=
  let s := c.s
  [b2n s.closedSig] ++ once2 s.closeOnce ++
  [s.onCloseCalls, s.readers, b2n s.writer, s.cur, s.nconn, b2n s.reconn, b2n s.recovering, s.count, s.maxR,
   s.lateAttempts, s.fastLockReqs, b2n s.anyReturned, s.dialsAfterReturn, s.afterCalls, s.afterUnguarded,
   s.afterClosedDial, s.afterAfterReturn, s.hitmaxExits, s.rdOnce, s.rdOld, c.nN, c.nC, b2n c.initDial] ++
  (List.range c.nN).flatMap (fun i => npc2 (s.notif i) ++
    [rpc1 (s.rc i), b2n (s.late i), b2n (s.fastTaken i), b2n (s.guardSaw i), b2n (s.sigAtDial i)]) ++
  (List.range c.nC).flatMap (fun i => [cpc1 (s.closer i)]) ++
  (List.range s.nconn).flatMap (fun i => [s.spawns i, s.spawnsOpen i]) ++
  c.thrs.flatMap (fun t => [match t.kind with | .notif => 0 | .retry => 1 | .closer => 2, t.idx,
    match t.gid with | none => 0 | some g => g + 1] ++ lab2 t.pend) ++
  [c.dead.length] ++ c.dead

def hashKey (k : List Nat) : UInt64 :=
  k.foldl (fun h n => (h ^^^ n.toUInt64) * 0x100000001b3) 0xcbf29ce484222325

/-- a function given by a table (the array is a value inside the closure: it is computed once) -/
@[noinline] def ofArr {α} (a : Array α) (d : α) : Nat → α := fun i => a.getD i d

@[noinline] def tabulate {α} (f : Nat → α) (n : Nat) : Array α := ((List.range n).map f).toArray

/-- re-tabulate the function-valued fields (the `upd` chains grow with every step) -/
def Cand.compact (c : Cand) : Cand :=
  let s := c.s
  let aNotif := tabulate s.notif c.nN
  let aRc := tabulate s.rc c.nN
  let aCloser := tabulate s.closer c.nC
  let aSpawns := tabulate s.spawns s.nconn
  let aSpawnsOpen := tabulate s.spawnsOpen s.nconn
  let aLate := tabulate s.late c.nN
  let aFast := tabulate s.fastTaken c.nN
  let aGuard := tabulate s.guardSaw c.nN
  let aSig := tabulate s.sigAtDial c.nN
  { c with s := { s with
      notif := ofArr aNotif .idle, rc := ofArr aRc .none, closer := ofArr aCloser .start,
      spawns := ofArr aSpawns 0, spawnsOpen := ofArr aSpawnsOpen 0,
      late := ofArr aLate false, fastTaken := ofArr aFast false,
      guardSaw := ofArr aGuard false, sigAtDial := ofArr aSig false } }

/-! ### unobserved steps -/

/-- what the rest of the log says about a goroutine: its next event, if any -/
abbrev Next := Nat → Option Label

def nextOf (rest : List Obs) : Next := fun g => (rest.find? (·.gid == g)).map (·.lab)

def topOf (c : Cand) (g : Nat) : Option Thr := c.thrs.find? (·.gid == some g)

def setThr (c : Cand) (th : Thr) (th' : Thr) : Cand :=
  { c with thrs := c.thrs.map (fun x => if x.kind == th.kind && x.idx == th.idx then th' else x) }

def dropThr (c : Cand) (k : Kind) (i : Nat) : Cand :=
  { c with thrs := c.thrs.filter (fun x => !(x.kind == k && x.idx == i)) }

/-- the call has returned (its thread stays on the goroutine's stack until the goroutine's next event pops it) -/
def finished (c : Cand) (th : Thr) : Bool :=
  th.pend.isNone && match th.kind with
    | .notif => c.s.notif th.idx == .done
    | .closer => c.s.closer th.idx == .ret
    | .retry => false

/-- the running call of a goroutine: its newest thread that has not returned -/
def runningOf (c : Cand) (g : Nat) : Option Thr := c.thrs.find? (fun t => t.gid == some g && !finished c t)

/-- may this thread take an unobserved step now? -/
def canStep (nx : Next) (c : Cand) (th : Thr) : Bool :=
  th.pend.isNone &&
  match th.gid with
  | none => true
  | some g =>
    (match runningOf c g with | some t => t.kind == th.kind && t.idx == th.idx | none => false) &&
    ((nx g).isSome ||
      !(th.kind == .notif && (match c.s.notif th.idx with | .enter _ | .fast _ | .wantW _ => true | _ => false)))

/-- a transition that leaves `l` pending is taken only if `l` is the goroutine's next logged event
    (no next event at all: the log was cut) -/
def pendOk (nx : Next) (th : Thr) (l : Option Label) : Bool :=
  match l, th.gid with
  | some l, some g => (match nx g with | some l' => l == l' | none => true)
  | _, _ => true

def notifPend : NPc → NPc → Option Label
  | .unlock1 _, .spawn _ => some .start
  | .unlock2 _, .done => some .done
  | _, _ => none

def retryPend (cur' : Nat) : RPc → RPc → Option Label
  | .top, .chkMax => some .attempt
  | .closeOld, .dWantW => some .failall
  | .dDialing, .dUnlockOk => some (.dialDone cur')
  | .dDialing, .dUnlockFail => some (.dialDone 0)
  | .chkMax, .hmOnce => some .closeEnter
  | _, .fin .hitmax => some .closeReturn
  | _, _ => none

def closerPend : CPc → CPc → Option Label
  | _, .ret => some .closeReturn
  | _, _ => none

/-- the environment choices that matter at a retry pc -/
def retryChoices : RPc → List (Bool × Bool)
  | .dDialing => [(true, false), (false, false)]
  | .auth => [(true, true), (true, false), (false, false)]
  | _ => [(false, false)]

/-- all successors of `c` by ONE unobserved step of thread `th` -/
def stepThr (nx : Next) (c : Cand) (th : Thr) : List Cand :=
  match th.kind with
  | .notif =>
    let p := c.s.notif th.idx
    -- the receive from the goroutine's channel needs the goroutine to have emitted everything it had to
    let gate := match p with
      | .waitRC _ => (match c.thrs.find? (fun x => x.kind == .retry && x.idx == th.idx) with
                      | some r => r.pend.isNone | none => false)
      | .idle | .done => false
      | _ => true
    if !gate then [] else
    match stepN c.s th.idx 0 false with
    | none => []
    | some s' =>
      let l := notifPend p (s'.notif th.idx)
      if !pendOk nx th l then [] else
      let c1 : Cand := setThr { c with s := s', hist := .n th.idx 0 false :: c.hist } th { th with pend := l }
      match p with
      | .spawn _ => [{ c1 with thrs := c1.thrs ++ [{ kind := .retry, idx := th.idx, gid := none }] }]
      | .waitRC _ =>
        let g := (c.thrs.find? (fun x => x.kind == .retry && x.idx == th.idx)).bind (·.gid)
        let c2 := dropThr c1 .retry th.idx
        [{ c2 with dead := match g with | some g => g :: c2.dead | none => c2.dead }]
      | _ => [c1]
  | .retry =>
    let p := c.s.rc th.idx
    (retryChoices p).filterMap fun (ok, resume) =>
      match stepR c.s th.idx ok resume with
      | none => none
      | some s' =>
        let l := retryPend s'.cur p (s'.rc th.idx)
        if !pendOk nx th l then none else
        some (setThr { c with s := s', hist := .r th.idx ok resume :: c.hist } th { th with pend := l })
  | .closer =>
    let p := c.s.closer th.idx
    match stepC c.s th.idx with
    | none => []
    | some s' =>
      let l := closerPend p (s'.closer th.idx)
      if !pendOk nx th l then [] else
      [setThr { c with s := s', hist := .c th.idx :: c.hist } th { th with pend := l }]

/-- Partial-order reduction (Lipton): a lock acquisition is a right mover, a release a left mover, an access to a
    variable protected by the held lock or to thread-local state a both mover.  So once a thread has taken a lock, the
    rest of its critical section (up to the next hook, which is a fixed point of the global order) can follow at once,
    and so can purely local steps: these pcs are EAGER - the thread is moved on before anybody else is considered.
    Not eager: every test of the close signal / `recovering` / the Once, every lock acquisition, the channel receive,
    and `closeOld` / `cb` (the goroutine may log a nested call while it is there). -/
def eagerPc (c : Cand) (th : Thr) : Bool :=
  match th.kind with
  | .notif => (match c.s.notif th.idx with
      | .locked _ | .skipUnlock | .setDo _ | .setAt _ | .unlock1 _ | .clrDo _ | .clrAt _ | .unlock2 _ => true
      | _ => false)
  | .retry => (match c.s.rc th.idx with
      | .chkMax | .oInR | .dCheck | .dDialing | .dUnlockOk | .dUnlockFail | .auth | .sleep
      | .hmInR | .hmUnlockR | .hmCb => true
      | _ => false)
  | .closer => (match c.s.closer th.idx with
      | .inR | .unlockR | .cb => true
      | _ => false)

/-- run every thread that stands at an eager pc until none does; a branch in which such a thread cannot go on
    (its next hook is not the goroutine's next logged event) is dropped -/
def settle (nx : Next) : Nat → Cand → List Cand
  | 0, c => [c]
  | fuel + 1, c =>
    match c.thrs.find? (fun th => canStep nx c th && eagerPc c th) with
    | none => [c]
    | some th => (stepThr nx c th).flatMap (settle nx fuel)

def expand (nx : Next) (c : Cand) : List Cand :=
  c.thrs.flatMap (fun th => if canStep nx c th then (stepThr nx c th).flatMap (settle nx 32) else [])

abbrev Keyed := UInt64 × List Nat

def keyed (c : Cand) : Keyed := let k := c.key; (hashKey k, k)

def seenIn (seen : List Keyed) (k : Keyed) : Bool := seen.any (fun x => x.1 == k.1 && x.2 == k.2)

/-- add the candidates not seen before (order preserved) -/
def addNew (seen : List Keyed) (acc : List Cand) : List Cand → List Keyed × List Cand
  | [] => (seen, acc.reverse)
  | c :: cs =>
    let k := keyed c
    if seenIn seen k then addNew seen acc cs else addNew (k :: seen) (c :: acc) cs

/-- τ-closure, breadth first (so that a state is first reached by a shortest sequence), at most `fuel` levels and
    `cap` states -/
def closure (nx : Next) (cap : Nat) : Nat → List Keyed → List Cand → List Cand → List Cand
  | 0, _, all, _ => all
  | fuel + 1, seen, all, level =>
    if level.isEmpty ∨ all.length ≥ cap then all else
    let (seen', fresh) := addNew seen [] (level.flatMap (expand nx))
    closure nx cap fuel seen' (all ++ fresh) fresh

/-! ### consuming one logged event -/

def clearPend (c : Cand) (th : Thr) : Cand := setThr c th { th with pend := none }

def pushNotif (c : Cand) (g x : Nat) : List Cand :=
  match stepN c.s c.nN x false with
  | some s' => [{ c with s := s', nN := c.nN + 1, hist := .n c.nN x false :: c.hist,
                         thrs := { kind := .notif, idx := c.nN, gid := some g } :: c.thrs }]
  | none => []

def pushCloser (c : Cand) (g : Nat) : List Cand :=
  [{ c with nC := c.nC + 1, thrs := { kind := .closer, idx := c.nC, gid := some g } :: c.thrs }]

/-- the candidates after the event, without taking any model step except the creation of a notifier -/
def consume : Nat → Cand → Obs → List Cand
  | 0, _, _ => []
  | fuel + 1, c, o =>
    match topOf c o.gid with
    | none =>
      if c.dead.contains o.gid then [] else
      match o.lab with
      | .enter x => pushNotif c o.gid x
      | .closeEnter => pushCloser c o.gid
      | .attempt =>
        (c.thrs.filter (fun t => t.kind == .retry && t.gid.isNone && t.pend == some .attempt)).map fun t =>
          setThr c t { t with gid := some o.gid, pend := none }
      | .dialDone x => if !c.initDial && x == 1 && c.s.cur == 1 then [{ c with initDial := true }] else []
      | _ => []
    | some th =>
      match th.kind with
      | .notif =>
        match o.lab with
        | .start | .done => if th.pend == some o.lab then [clearPend c th] else []
        | _ => if finished c th then consume fuel (dropThr c .notif th.idx) o else []
      | .closer =>
        match o.lab with
        | .closeReturn => if th.pend == some .closeReturn then [clearPend c th] else []
        | _ => if finished c th then consume fuel (dropThr c .closer th.idx) o else []
      | .retry =>
        match o.lab with
        | .attempt | .failall | .dialDone _ | .closeReturn => if th.pend == some o.lab then [clearPend c th] else []
        | .closeEnter =>
          if th.pend == some .closeEnter then [clearPend c th]
          else if th.pend.isNone && c.s.rc th.idx == .cb then pushCloser c o.gid else []
        -- `old.Close(…)` runs the close callback of the connection picked under the read lock: the current one
        | .enter x =>
          if th.pend.isNone && c.s.rc th.idx == .closeOld && x == c.s.cur && x != 0 then pushNotif c o.gid x else []
        | _ => []

/-! ### executable consequences of the invariant, checked on every candidate after every event -/

def invViolation (c : Cand) : Option String :=
  let s := c.s
  let live := (List.range c.nN).filter (fun i => s.rc i != .none)
  if live.length > 1 then some s!"single flight: retry slots {live} are occupied"
  else if !s.writer && s.recovering != s.reconn then some "flag_agrees: recovering ≠ doReconnectting with the lock free"
  else if s.writer && s.readers != 0 then some "rw_exclusion: writer and readers"
  else if s.onCloseCalls > 1 then some "on_close_at_most_once"
  else if s.dialsAfterReturn != 0 then some "no_dial_after_close_returned"
  else if s.lateAttempts != 0 then some "late goroutine attempted"
  else if s.fastLockReqs != 0 then some "fast_path_no_lock"
  else if s.afterUnguarded != 0 then some "after_cb_guarded"
  else if s.afterClosedDial != 0 then some "after_cb_not_after_closed_dial"
  else if (List.range s.nconn).any (fun i => s.spawnsOpen i > 1) then some "one_recovery_per_loss (b)"
  else if !s.closedSig && (List.range s.nconn).any (fun i => s.spawns i > 1) then some "one_recovery_per_loss (a)"
  else none

/-! ### the replay -/

def showThr (c : Cand) (th : Thr) : String :=
  let pc := match th.kind with
    | .notif => s!"notifier {th.idx} at {repr (c.s.notif th.idx)}"
    | .retry => s!"retry goroutine of notifier {th.idx} at {repr (c.s.rc th.idx)}"
    | .closer => s!"closer {th.idx} at {repr (c.s.closer th.idx)}"
  let g := match th.gid with | some g => s!"g{g}" | none => "g?"
  let p := match th.pend with | some l => s!" pending {l.name}" | none => ""
  s!"{g}={pc}{p}"

def showState (c : Cand) : String :=
  let s := c.s
  s!"closedSig={s.closedSig} once={repr s.closeOnce} writer={s.writer} readers={s.readers} cur={s.cur} " ++
  s!"doReconnectting={s.reconn} recovering={s.recovering} count={s.count} max={s.maxR} onClose={s.onCloseCalls} | " ++
  "; ".intercalate (c.thrs.map (showThr c))

inductive ReplayResult
  /-- every event matched; `acts` is a witness run (oldest first), `final` the state it leads to -/
  | ok (events : Nat) (maxFrontier : Nat) (maxClosure : Nat) (acts : List Act) (final : String)
  /-- event `k` (0-based) cannot be matched: the thread the event belongs to and a model state before it -/
  | diverges (k : Nat) (o : Obs) (thread : String) (state : String)
  /-- a candidate violates an executable consequence of the invariant (a bug of the replay, never of the code) -/
  | broken (k : Nat) (what : String)
  /-- the witness does not re-run (a bug of the replay) -/
  | uncertified (k : Nat)

def closureFuel : Nat := 64
def closureCap : Nat := 4096
def frontierCap : Nat := 1024

def replayFrom : List Cand → Nat → Nat → Nat → List Obs → ReplayResult
  | front, k, mf, mc, [] =>
    match front with
    | [] => .broken k "empty frontier"
    | c :: _ => .ok k mf mc c.hist.reverse (showState c)
  | front, k, mf, mc, o :: rest =>
    let nx := nextOf (o :: rest)
    let (seen, lvl0) := addNew [] [] (front.flatMap (settle nx 32))
    let cl := closure nx closureCap closureFuel seen lvl0 lvl0
    let (_, next) := addNew [] [] (cl.flatMap (fun c => consume 8 c o))
    match next with
    | [] =>
      let c := front.headD { s := init 0 }
      let th := match topOf c o.gid with | some t => showThr c t | none => s!"g{o.gid}=no live thread"
      .diverges k o th (showState c)
    | _ =>
      match next.findSome? invViolation with
      | some w => .broken k w
      | none =>
        let next := (next.take frontierCap).map Cand.compact
        replayFrom next (k + 1) (max mf next.length) (max mc cl.length) rest

/-- the witness re-run through the model's own `run` -/
def certify (m : Nat) (acts : List Act) : Option St := run (init m) acts

/-- replay a log (hook connection ids) against the model with MaxReconnect = m -/
def replay (m : Nat) (obs : List Obs) : ReplayResult :=
  match replayFrom [{ s := init m }] 0 1 1 (translate obs) with
  | .ok k mf mc acts fin => if (certify m acts).isSome then .ok k mf mc acts fin else .uncertified k
  | r => r

/-- whatever the search did: an `ok` answer comes with a run of the Recovery LTS, so every theorem of Recovery.lean
    about `run (init m) acts = some s` applies to the witness -/
theorem replay_ok_reachable (m : Nat) (obs : List Obs) (k mf mc : Nat) (acts : List Act) (fin : String)
    (h : replay m obs = .ok k mf mc acts fin) : ∃ s, run (init m) acts = some s := by
  unfold replay at h
  split at h
  · rename_i k' mf' mc' acts' fin' _
    split at h
    · rename_i hc
      cases h
      cases hr : certify m acts with
      | none => simp [hr] at hc
      | some s => exact ⟨s, hr⟩
    · cases h
  · rename_i hne
    exact absurd h (by
      intro h'
      exact hne k mf mc acts fin h')




/-! ### build-time regression checks (evaluated by the interpreter at build time, not by the kernel) -/

/-- c08/drop-then-ok (tcp, seed 1): two attempts, the second succeeds, then a user Close -/
def demoLog : List Obs :=
  [⟨7, .dialDone 1⟩, ⟨12, .enter 1⟩, ⟨10, .enter 1⟩, ⟨12, .start⟩, ⟨51, .attempt⟩, ⟨51, .failall⟩, ⟨51, .dialDone 2⟩,
   ⟨53, .enter 2⟩, ⟨55, .enter 2⟩, ⟨51, .attempt⟩, ⟨51, .failall⟩, ⟨51, .dialDone 3⟩, ⟨12, .done⟩,
   ⟨7, .closeEnter⟩, ⟨7, .closeReturn⟩, ⟨36, .enter 3⟩]

def isOk : ReplayResult → Bool | .ok .. => true | _ => false
def divergesAt : ReplayResult → Option Nat | .diverges k .. => some k | _ => none

#guard isOk (replay 0 demoLog)
#guard isOk (replay 2 demoLog)
-- with MaxReconnect = 1 the second attempt would have been the hit-max Close
#guard divergesAt (replay 1 demoLog) == some 10
-- `reconnecting:start` dropped: the retry goroutine has nobody who started it
#guard divergesAt (replay 0 (demoLog.eraseIdx 3)) == some 3
-- `reconnecting:done` before the goroutine's successful dial
#guard divergesAt (replay 0 ((demoLog.take 11) ++ [⟨12, .done⟩, ⟨51, .dialDone 3⟩] ++ demoLog.drop 13)) == some 11
-- a dial after Close returned (the goroutine is alive: it failed its second dial, Close came during the back-off)
def demoLate : List Obs :=
  [⟨7, .dialDone 1⟩, ⟨12, .enter 1⟩, ⟨12, .start⟩, ⟨51, .attempt⟩, ⟨51, .failall⟩, ⟨51, .dialDone 0⟩,
   ⟨7, .closeEnter⟩, ⟨7, .closeReturn⟩]
#guard isOk (replay 0 (demoLate ++ [⟨12, .done⟩]))
#guard isOk (replay 0 (demoLate ++ [⟨51, .attempt⟩, ⟨51, .failall⟩, ⟨12, .done⟩]))
#guard divergesAt (replay 0 (demoLate ++ [⟨51, .attempt⟩, ⟨51, .failall⟩, ⟨51, .dialDone 2⟩])) == some 10
-- two recoveries at once
#guard divergesAt (replay 0 [⟨7, .dialDone 1⟩, ⟨12, .enter 1⟩, ⟨10, .enter 1⟩, ⟨12, .start⟩, ⟨10, .start⟩]) == some 4

end OAP.RecoveryReplay
