/-
Recovery view: the CURRENT `reconnecting` / retry goroutine / `reconnect` / `dial` / `onConnClose` / `Close`
of go/client/client.go, statement by statement, as one labelled transition system.

Threads: any number of notifiers (each reports an arbitrary connection id, 0 = nil, either through
`onConnClose` or by calling `reconnecting` directly), one retry-goroutine slot per notifier (slot t is the
goroutine spawned by notifier t), any number of `Close` callers.  Shared state: the client RWMutex
(`writer` flag / `readers` count, no writer preference), `closeCh` (`closedSig`), `closeOnce`,
`doReconnectting` (`reconn`), the atomic `recovering`, `c.conn` (`cur`, 0 = nil, fresh ids from `nconn`),
`reconnectCount` / `MaxReconnect` (`count` / `maxR`).  Packets, request ids, waiters and bytes are owned by
other views; the requests made by auth / resume are one environment step (outcome ok/fail, resume path or not).

Go statement → model pc (the pc names the statement ABOUT to be executed)

  onConnClose(conn)
    select { case <-c.closeCh: return; default: }            NPc.occ c      closed → done, open → enter c
    c.reconnecting(conn)                                     (falls into enter c)
  reconnecting(conn)
    if c.closed() { return }                                 NPc.enter c    closed → done, open → fast c
    if atomic.LoadInt32(&c.recovering) == 1 { return }       NPc.fast c     1 → done (ghost fastTaken), 0 → wantW c
    c.Lock()                                                 NPc.wantW c    blocked while writer ∨ readers ≠ 0
    if c.doReconnectting || c.conn != conn {                 NPc.locked c   true → skipUnlock, false → setDo c
        c.Unlock(); return }                                 NPc.skipUnlock
    c.doReconnectting = true                                 NPc.setDo c
    atomic.StoreInt32(&c.recovering, 1)                      NPc.setAt c
    c.Unlock()                                               NPc.unlock1 c
    go func() { … }()                                        NPc.spawn c    slot t := RPc.top (ghosts spawns, spawnsOpen, late)
    <-waitCh                                                 NPc.waitRC c   enabled when slot t = fin _; slot := none
    c.Lock()                                                 NPc.wantW2 c
    c.doReconnectting = false                                NPc.clrDo c
    atomic.StoreInt32(&c.recovering, 0)                      NPc.clrAt c
    c.Unlock()                                               NPc.unlock2 c  → done
  retry goroutine
    for { if c.closed() { return }                           RPc.top        closed → fin .closed, open → chkMax
    err := c.reconnect()
      if MaxReconnect > 0 && reconnectCount >= MaxReconnect  RPc.chkMax     true → hmOnce (ErrHitMaxReconnect)
      reconnectCount++                                                      false → count+1, oWantR
      c.RLock()                                              RPc.oWantR     blocked while writer
      old := c.conn; c.RUnlock()                             RPc.oInR
      old.Close(…); fail all waiters                         RPc.closeOld   (no effect in this view)
      c.dial(ctx, dialer):
        c.Lock()                                             RPc.dWantW     blocked while writer ∨ readers ≠ 0
        if c.closed() { return errClientClosed }             RPc.dCheck     closed → dUnlockFail (c.conn untouched), open → dDialing
        c.conn, err = dialer(…)                              RPc.dDialing   env ok: cur := nconn (fresh) → dUnlockOk
                                                                            env fail: cur := 0 (nil)      → dUnlockFail
        c.Unlock() (deferred)                                RPc.dUnlockOk → auth,  RPc.dUnlockFail → sleep
      AuthInfo()==nil / auth() / reconnectDial()             RPc.auth       env ok → cbTest (resume path: count := 0), fail → sleep
    if err == nil { if afterReconnected != nil && !c.closed()  RPc.cbTest   ghost guardSaw := closedSig; closed → fin .success, open → cb
        c.afterReconnected()                                 RPc.cb         afterCalls+1 (and the ghost counters) → fin .success
      return }
    if err == ErrHitMaxReconnect { c.Close(err); return }    RPc.hmOnce …   the Close procedure inline, then fin .hitmax
    time.Sleep(1s) }                                         RPc.sleep      → top
    defer waitCh <- struct{}{}                               RPc.fin e      (blocked in the send until the notifier receives)
  Close(err)   (CPc for a Close caller, RPc.hm… for the retry goroutine's nested call)
    c.closeOnce.Do(func() {                                  start  / hmOnce     free → held, done → return, held → blocked
      close(c.closeCh)                                       signal / hmSignal
      c.RLock()                                              wantR  / hmWantR    blocked while writer
      if c.conn != nil { c.conn.Close(…) }                   inR    / hmInR      (no effect in this view)
      c.RUnlock()                                            unlockR/ hmUnlockR
      if c.onClose != nil { c.onClose(err) }                 cb     / hmCb       onCloseCalls+1
    })                                                       finish / hmFinish   Once := done; return (ghost anyReturned)

Abstractions (all towards MORE behaviour, none needed by a proof):
  * the lock has no writer preference (a pending `Lock` does not stop new `RLock`s);
  * the RLock that `Do` holds during the auth / resume request is not modelled (the request is one environment step);
  * the nested `reconnecting(old)` that `old.Close` / `c.conn.Close` may trigger through the close callback is one of the
    arbitrary notifiers (it returns at the closed test, the fast path or the guard without waiting for anybody);
  * notifier threads make one call each (there are infinitely many of them); the first `Dial` is not modelled
    (connection 1 is established initially); `stateMu` sections are single atomic steps.

Proved for every interleaving (`run (init m) acts = some s →`, every MaxReconnect m):
  1 single_flight                   at most one retry-goroutine slot is occupied
  2 one_recovery_per_loss_partial   (a) open ⇒ spawns c ≤ 1, (b) spawnsOpen c ≤ 1, (c) late goroutines never attempt
    one_recovery_per_loss_false     the unconditional `spawns c ≤ 1` is FALSE of the code (run demoD, by `decide`)
  3 flag_agrees, flag_agrees_locked recovering = doReconnectting unless a notifier is between its two stores
  4 fast_path_no_lock               a notifier that read recovering = 1 never takes the write lock
  5 no_dial_after_close_returned    no connection is installed after a Close call has returned
  6 on_close_at_most_once           user Close calls and the hit-max Close together run the callback at most once
  7 after_cb_guarded, after_cb_not_after_closed_dial   (and demoE: the callback CAN follow a returned Close)
  8 hitmax_closes                   a hit-max exit leaves the signal set and the callback run exactly once
    rw_exclusion                    sanity of the lock model: writer held ⇒ nobody inside a read-locked section
-/
import OAP.Base
namespace OAP.Recovery
open OAP

def upd {α} (f : Nat → α) (k : Nat) (v : α) : Nat → α := fun x => if x = k then v else f x

/-- how a retry goroutine left its loop -/
inductive Exit | closed | success | hitmax
deriving DecidableEq, Repr

inductive Once | free | heldC (t : Nat) | heldR (t : Nat) | done
deriving DecidableEq, Repr

/-- notifier: `onConnClose(c)` / `reconnecting(c)` -/
inductive NPc
  | idle
  | occ (c : Nat)        -- onConnClose: about to test the close signal
  | enter (c : Nat)      -- reconnecting: about to test closed()
  | fast (c : Nat)       -- about to load the atomic `recovering`
  | wantW (c : Nat)      -- about to Lock
  | locked (c : Nat)     -- holding the lock: test `doReconnectting || c.conn != conn`
  | skipUnlock           -- holding the lock: Unlock and return
  | setDo (c : Nat)      -- holding the lock: doReconnectting = true
  | setAt (c : Nat)      -- holding the lock: recovering = 1
  | unlock1 (c : Nat)    -- holding the lock: Unlock
  | spawn (c : Nat)      -- about to start the retry goroutine
  | waitRC (c : Nat)     -- <-waitCh
  | wantW2 (c : Nat)     -- about to Lock again
  | clrDo (c : Nat)      -- holding the lock: doReconnectting = false
  | clrAt (c : Nat)      -- holding the lock: recovering = 0
  | unlock2 (c : Nat)    -- holding the lock: Unlock
  | done
deriving DecidableEq, Repr

/-- retry goroutine (one slot per spawner) -/
inductive RPc
  | none
  | top | chkMax | oWantR | oInR | closeOld
  | dWantW | dCheck | dDialing | dUnlockOk | dUnlockFail
  | auth | sleep | cbTest | cb
  | hmOnce | hmSignal | hmWantR | hmInR | hmUnlockR | hmCb | hmFinish
  | fin (e : Exit)
deriving DecidableEq, Repr

/-- `Close` caller -/
inductive CPc
  | start | signal | wantR | inR | unlockR | cb | finish | ret
deriving DecidableEq, Repr

structure St where
  closedSig : Bool
  closeOnce : Once
  onCloseCalls : Nat
  readers : Nat
  writer : Bool
  cur : Nat                  -- c.conn (0 = nil)
  nconn : Nat                -- next fresh connection id
  reconn : Bool              -- doReconnectting
  recovering : Bool          -- atomic mirror
  count : Nat                -- reconnectCount
  maxR : Nat                 -- MaxReconnect (0 = unlimited)
  notif : Nat → NPc
  rc : Nat → RPc
  closer : Nat → CPc
  -- ghosts
  spawns : Nat → Nat         -- retry goroutines ever started for connection c
  spawnsOpen : Nat → Nat     -- … started while the close signal was still open
  late : Nat → Bool          -- slot t's goroutine was started with the close signal already set
  lateAttempts : Nat         -- reconnect() calls made by such goroutines
  fastTaken : Nat → Bool     -- notifier t returned through the atomic fast path
  fastLockReqs : Nat         -- write-lock acquisitions by notifiers that took the fast path
  anyReturned : Bool         -- some Close call has returned
  dialsAfterReturn : Nat     -- connections installed while some Close had returned
  guardSaw : Nat → Bool      -- what slot t's `closed()` guard before the callback returned
  sigAtDial : Nat → Bool     -- the close signal when slot t's last successful dial installed its connection
  afterCalls : Nat           -- after-reconnect callback invocations
  afterUnguarded : Nat       -- … whose guard had returned true
  afterClosedDial : Nat      -- … whose attempt's dial completed with the signal already set
  afterAfterReturn : Nat     -- … made after some Close had returned (CAN be positive, see the example)
  hitmaxExits : Nat          -- retry goroutines that left through the hit-max branch
  rdOnce : Nat               -- read holds of the lock by the Close procedure (inside the Once: 0 or 1)
  rdOld : Nat                -- read holds by `reconnect` picking the old connection (0 or 1)

inductive Act
  | n (t : Nat) (c : Nat) (occ : Bool)     -- notifier step (at idle: reports c, through onConnClose iff occ)
  | r (t : Nat) (ok resume : Bool)         -- retry goroutine of spawner t steps (ok = dial / auth outcome)
  | c (t : Nat)                            -- Close caller step

def stepN (s : St) (t c : Nat) (occ : Bool) : Option St :=
  match s.notif t with
  | .idle => if occ then some { s with notif := upd s.notif t (.occ c) }
             else some { s with notif := upd s.notif t (.enter c) }
  | .occ c => if s.closedSig then some { s with notif := upd s.notif t .done }
              else some { s with notif := upd s.notif t (.enter c) }
  | .enter c => if s.closedSig then some { s with notif := upd s.notif t .done }
                else some { s with notif := upd s.notif t (.fast c) }
  | .fast c => if s.recovering then some { s with notif := upd s.notif t .done, fastTaken := upd s.fastTaken t true }
               else some { s with notif := upd s.notif t (.wantW c) }
  | .wantW c => if s.writer ∨ s.readers ≠ 0 then none
                else some { s with writer := true, notif := upd s.notif t (.locked c),
                                   fastLockReqs := if s.fastTaken t then s.fastLockReqs + 1 else s.fastLockReqs }
  | .locked c => if s.reconn || s.cur != c then some { s with notif := upd s.notif t .skipUnlock }
                 else some { s with notif := upd s.notif t (.setDo c) }
  | .skipUnlock => some { s with writer := false, notif := upd s.notif t .done }
  | .setDo c => some { s with reconn := true, notif := upd s.notif t (.setAt c) }
  | .setAt c => some { s with recovering := true, notif := upd s.notif t (.unlock1 c) }
  | .unlock1 c => some { s with writer := false, notif := upd s.notif t (.spawn c) }
  | .spawn c => some { s with rc := upd s.rc t .top, notif := upd s.notif t (.waitRC c),
                              spawns := upd s.spawns c (s.spawns c + 1),
                              spawnsOpen := upd s.spawnsOpen c (if s.closedSig then s.spawnsOpen c else s.spawnsOpen c + 1),
                              late := upd s.late t s.closedSig }
  | .waitRC c =>
      match s.rc t with
      | .fin _ => some { s with rc := upd s.rc t .none, notif := upd s.notif t (.wantW2 c) }
      | _ => none
  | .wantW2 c => if s.writer ∨ s.readers ≠ 0 then none
                 else some { s with writer := true, notif := upd s.notif t (.clrDo c),
                                    fastLockReqs := if s.fastTaken t then s.fastLockReqs + 1 else s.fastLockReqs }
  | .clrDo c => some { s with reconn := false, notif := upd s.notif t (.clrAt c) }
  | .clrAt c => some { s with recovering := false, notif := upd s.notif t (.unlock2 c) }
  | .unlock2 _ => some { s with writer := false, notif := upd s.notif t .done }
  | .done => none

def stepR (s : St) (t : Nat) (ok resume : Bool) : Option St :=
  match s.rc t with
  | .none => none
  | .top => if s.closedSig then some { s with rc := upd s.rc t (.fin .closed) }
            else some { s with rc := upd s.rc t .chkMax,
                               lateAttempts := if s.late t then s.lateAttempts + 1 else s.lateAttempts }
  | .chkMax => if 0 < s.maxR ∧ s.maxR ≤ s.count then some { s with rc := upd s.rc t .hmOnce }
               else some { s with count := s.count + 1, rc := upd s.rc t .oWantR }
  | .oWantR => if s.writer then none else some { s with readers := s.readers + 1, rc := upd s.rc t .oInR, rdOld := s.rdOld + 1 }
  | .oInR => some { s with readers := s.readers - 1, rc := upd s.rc t .closeOld, rdOld := s.rdOld - 1 }
  | .closeOld => some { s with rc := upd s.rc t .dWantW }
  | .dWantW => if s.writer ∨ s.readers ≠ 0 then none else some { s with writer := true, rc := upd s.rc t .dCheck }
  | .dCheck => if s.closedSig then some { s with rc := upd s.rc t .dUnlockFail }
               else some { s with rc := upd s.rc t .dDialing }
  | .dDialing =>
      if ok then some { s with cur := s.nconn, nconn := s.nconn + 1, rc := upd s.rc t .dUnlockOk,
                               sigAtDial := upd s.sigAtDial t s.closedSig,
                               dialsAfterReturn := if s.anyReturned then s.dialsAfterReturn + 1 else s.dialsAfterReturn }
      else some { s with cur := 0, rc := upd s.rc t .dUnlockFail }
  | .dUnlockOk => some { s with writer := false, rc := upd s.rc t .auth }
  | .dUnlockFail => some { s with writer := false, rc := upd s.rc t .sleep }
  | .auth => if ok then some { s with count := if resume then 0 else s.count, rc := upd s.rc t .cbTest }
             else some { s with rc := upd s.rc t .sleep }
  | .sleep => some { s with rc := upd s.rc t .top }
  | .cbTest => if s.closedSig then some { s with rc := upd s.rc t (.fin .success), guardSaw := upd s.guardSaw t true }
               else some { s with rc := upd s.rc t .cb, guardSaw := upd s.guardSaw t false }
  | .cb => some { s with rc := upd s.rc t (.fin .success), afterCalls := s.afterCalls + 1,
                         afterUnguarded := if s.guardSaw t then s.afterUnguarded + 1 else s.afterUnguarded,
                         afterClosedDial := if s.sigAtDial t then s.afterClosedDial + 1 else s.afterClosedDial,
                         afterAfterReturn := if s.anyReturned then s.afterAfterReturn + 1 else s.afterAfterReturn }
  | .hmOnce =>
      match s.closeOnce with
      | .free => some { s with closeOnce := .heldR t, rc := upd s.rc t .hmSignal }
      | .done => some { s with rc := upd s.rc t (.fin .hitmax), anyReturned := true, hitmaxExits := s.hitmaxExits + 1 }
      | _ => none                                               -- blocks until the holder is done
  | .hmSignal => some { s with closedSig := true, rc := upd s.rc t .hmWantR }
  | .hmWantR => if s.writer then none else some { s with readers := s.readers + 1, rc := upd s.rc t .hmInR, rdOnce := s.rdOnce + 1 }
  | .hmInR => some { s with rc := upd s.rc t .hmUnlockR }
  | .hmUnlockR => some { s with readers := s.readers - 1, rc := upd s.rc t .hmCb, rdOnce := s.rdOnce - 1 }
  | .hmCb => some { s with onCloseCalls := s.onCloseCalls + 1, rc := upd s.rc t .hmFinish }
  | .hmFinish => some { s with closeOnce := .done, rc := upd s.rc t (.fin .hitmax), anyReturned := true,
                               hitmaxExits := s.hitmaxExits + 1 }
  | .fin _ => none

def stepC (s : St) (t : Nat) : Option St :=
  match s.closer t with
  | .start =>
      match s.closeOnce with
      | .free => some { s with closeOnce := .heldC t, closer := upd s.closer t .signal }
      | .done => some { s with closer := upd s.closer t .ret, anyReturned := true }
      | _ => none                                               -- blocks until the holder is done
  | .signal => some { s with closedSig := true, closer := upd s.closer t .wantR }
  | .wantR => if s.writer then none else some { s with readers := s.readers + 1, closer := upd s.closer t .inR, rdOnce := s.rdOnce + 1 }
  | .inR => some { s with closer := upd s.closer t .unlockR }
  | .unlockR => some { s with readers := s.readers - 1, closer := upd s.closer t .cb, rdOnce := s.rdOnce - 1 }
  | .cb => some { s with onCloseCalls := s.onCloseCalls + 1, closer := upd s.closer t .finish }
  | .finish => some { s with closeOnce := .done, closer := upd s.closer t .ret, anyReturned := true }
  | .ret => none

def step (s : St) : Act → Option St
  | .n t c occ => stepN s t c occ
  | .r t ok resume => stepR s t ok resume
  | .c t => stepC s t

/-- initial state: connection 1 is established, MaxReconnect = m -/
def init (m : Nat) : St :=
  { closedSig := false, closeOnce := .free, onCloseCalls := 0, readers := 0, writer := false,
    cur := 1, nconn := 2, reconn := false, recovering := false, count := 0, maxR := m,
    notif := fun _ => .idle, rc := fun _ => .none, closer := fun _ => .start,
    spawns := fun _ => 0, spawnsOpen := fun _ => 0, late := fun _ => false, lateAttempts := 0,
    fastTaken := fun _ => false, fastLockReqs := 0, anyReturned := false, dialsAfterReturn := 0,
    guardSaw := fun _ => false, sigAtDial := fun _ => false, afterCalls := 0, afterUnguarded := 0,
    afterClosedDial := 0, afterAfterReturn := 0, hitmaxExits := 0, rdOnce := 0, rdOld := 0 }

def run : St → List Act → Option St
  | s, [] => some s
  | s, a :: as => (step s a).bind (fun s' => run s' as)

/-! ### predicates on program counters -/

/-- the notifier won the guard and has not yet released the lock for the last time -/
def ownsAny : NPc → Prop
  | .setDo _ | .setAt _ | .unlock1 _ | .spawn _ | .waitRC _ | .wantW2 _ | .clrDo _ | .clrAt _ | .unlock2 _ => True
  | _ => False

/-- `doReconnectting` is true on behalf of this notifier -/
def ownsDo : NPc → Prop
  | .setAt _ | .unlock1 _ | .spawn _ | .waitRC _ | .wantW2 _ | .clrDo _ => True
  | _ => False

/-- `recovering` is 1 on behalf of this notifier -/
def ownsAt : NPc → Prop
  | .unlock1 _ | .spawn _ | .waitRC _ | .wantW2 _ | .clrDo _ | .clrAt _ => True
  | _ => False

def isWaitRC : NPc → Prop
  | .waitRC _ => True
  | _ => False

/-- after the goroutine has been received from -/
def isClr : NPc → Prop
  | .wantW2 _ | .clrDo _ | .clrAt _ | .unlock2 _ => True
  | _ => False

def nHoldsW : NPc → Prop
  | .locked _ | .skipUnlock | .setDo _ | .setAt _ | .unlock1 _ | .clrDo _ | .clrAt _ | .unlock2 _ => True
  | _ => False

/-- the two pcs at which exactly one of the two flags has been written -/
def nMid : NPc → Prop
  | .setAt _ | .clrAt _ => True
  | _ => False

def rHoldsW : RPc → Prop
  | .dCheck | .dDialing | .dUnlockOk | .dUnlockFail => True
  | _ => False

/-- the goroutine is inside the Once body of its nested Close -/
def rInBody : RPc → Prop
  | .hmSignal | .hmWantR | .hmInR | .hmUnlockR | .hmCb | .hmFinish => True
  | _ => False

/-- pcs that are only reachable with the close signal set -/
def rNeedsSig : RPc → Prop
  | .hmWantR | .hmInR | .hmUnlockR | .hmCb | .hmFinish => True
  | .fin e => e = .closed ∨ e = .hitmax
  | _ => False

/-- nested Close past its read-lock acquisition -/
def rPostR : RPc → Prop
  | .hmInR | .hmUnlockR | .hmCb | .hmFinish => True
  | .fin e => e = .hitmax
  | _ => False

/-- the goroutine's latest dial installed a connection and nothing failed since -/
def rInstalled : RPc → Prop
  | .dUnlockOk | .auth | .cbTest | .cb => True
  | .fin e => e = .success
  | _ => False

/-- same, still inside the attempt -/
def rAttemptOk : RPc → Prop
  | .dUnlockOk | .auth | .cbTest | .cb => True
  | _ => False

def rLive : RPc → Prop
  | .none => False
  | _ => True

def cInBody : CPc → Prop
  | .signal | .wantR | .inR | .unlockR | .cb | .finish => True
  | _ => False

/-- Close caller not past its read-lock acquisition -/
def cPreR : CPc → Prop
  | .start | .signal | .wantR => True
  | _ => False

/-! ### bridging lemmas -/

theorem do_any (p : NPc) (h : ownsDo p) : ownsAny p := by
  cases p <;> simp_all [ownsDo, ownsAny]
theorem at_any (p : NPc) (h : ownsAt p) : ownsAny p := by
  cases p <;> simp_all [ownsAt, ownsAny]
theorem wait_do (p : NPc) (h : isWaitRC p) : ownsDo p := by
  cases p <;> simp_all [isWaitRC, ownsDo]
theorem wait_at (p : NPc) (h : isWaitRC p) : ownsAt p := by
  cases p <;> simp_all [isWaitRC, ownsAt]
theorem wait_any (p : NPc) (h : isWaitRC p) : ownsAny p := by
  cases p <;> simp_all [isWaitRC, ownsAny]
theorem any_do_or_w (p : NPc) (h : ownsAny p) : ownsDo p ∨ nHoldsW p := by
  cases p <;> simp_all [ownsAny, ownsDo, nHoldsW]
theorem clr_any (p : NPc) (h : isClr p) : ownsAny p := by
  cases p <;> simp_all [isClr, ownsAny]
theorem clr_not_wait (p : NPc) (h : isClr p) : ¬ isWaitRC p := by
  cases p <;> simp_all [isClr, isWaitRC]
theorem postR_sig (p : RPc) (h : rPostR p) : rNeedsSig p := by
  cases p <;> simp_all [rPostR, rNeedsSig]
theorem fin_cases (e : Exit) : rNeedsSig (.fin e) ∨ rInstalled (.fin e) := by
  cases e <;> simp [rNeedsSig, rInstalled]
theorem inst_live (p : RPc) (h : rInstalled p) : p ≠ .none := by
  cases p <;> simp_all [rInstalled]
theorem attempt_inst (p : RPc) (h : rAttemptOk p) : rInstalled p := by
  cases p <;> simp_all [rInstalled, rAttemptOk]

/-! ### the invariant -/

structure RInv (s : St) : Prop where
  -- the two flags and their owner
  doSet : ∀ t, ownsDo (s.notif t) → s.reconn = true
  atSet : ∀ t, ownsAt (s.notif t) → s.recovering = true
  preDo : ∀ t c, s.notif t = .setDo c → s.reconn = false
  midSet : ∀ t c, s.notif t = .setAt c → s.reconn = true ∧ s.recovering = false
  midClr : ∀ t c, s.notif t = .clrAt c → s.reconn = false ∧ s.recovering = true
  agree : s.writer = false → s.recovering = s.reconn
  agreeN : ∀ t, nHoldsW (s.notif t) → nMid (s.notif t) ∨ s.recovering = s.reconn
  agreeR : ∀ t, rHoldsW (s.rc t) → s.recovering = s.reconn
  ownUniq : ∀ t u, ownsAny (s.notif t) → ownsAny (s.notif u) → t = u
  rcOwner : ∀ t, s.rc t ≠ .none → isWaitRC (s.notif t)
  -- write lock
  wN : ∀ t, nHoldsW (s.notif t) → s.writer = true
  wR : ∀ t, rHoldsW (s.rc t) → s.writer = true
  wUniqNN : ∀ t u, nHoldsW (s.notif t) → nHoldsW (s.notif u) → t = u
  wUniqRR : ∀ t u, rHoldsW (s.rc t) → rHoldsW (s.rc u) → t = u
  wUniqNR : ∀ t u, nHoldsW (s.notif t) → rHoldsW (s.rc u) → False
  wExcl : s.writer = true → s.readers = 0
  -- read holds: who they belong to
  rdSum : s.readers = s.rdOnce + s.rdOld
  rdFree : s.closeOnce = .free → s.rdOnce = 0
  rdDone : s.closeOnce = .done → s.rdOnce = 0
  rdHeldC : ∀ t, s.closeOnce = .heldC t → s.rdOnce = (if s.closer t = .inR ∨ s.closer t = .unlockR then 1 else 0)
  rdHeldR : ∀ t, s.closeOnce = .heldR t → s.rdOnce = (if s.rc t = .hmInR ∨ s.rc t = .hmUnlockR then 1 else 0)
  rdOldIdle : s.reconn = false → s.rdOld = 0
  rdOldOwner : ∀ t, ownsAny (s.notif t) → s.rdOld = (if s.rc t = .oInR then 1 else 0)
  -- close Once
  onceC : ∀ t, cInBody (s.closer t) ↔ s.closeOnce = .heldC t
  onceR : ∀ t, rInBody (s.rc t) ↔ s.closeOnce = .heldR t
  retDone : ∀ t, s.closer t = .ret → s.closeOnce = .done
  callsFree : s.closeOnce = .free → s.onCloseCalls = 0
  callsHeldC : ∀ t, s.closeOnce = .heldC t → s.onCloseCalls = (if s.closer t = .finish then 1 else 0)
  callsHeldR : ∀ t, s.closeOnce = .heldR t → s.onCloseCalls = (if s.rc t = .hmFinish then 1 else 0)
  callsDone : s.closeOnce = .done → s.onCloseCalls = 1
  retIff : s.anyReturned = true → s.closeOnce = .done
  hmDone : ∀ t, s.rc t = .fin .hitmax → s.closeOnce = .done
  hmExits : 0 < s.hitmaxExits → s.closeOnce = .done
  doneSig : s.closeOnce = .done → s.closedSig = true
  -- close signal
  sigC : s.closedSig = false → ∀ t, s.closer t = .start ∨ s.closer t = .signal
  sigR : ∀ t, rNeedsSig (s.rc t) → s.closedSig = true
  -- while a dial has seen the signal open, no Close is past its read-lock acquisition
  dialC : ∀ t, s.rc t = .dDialing → ∀ u, cPreR (s.closer u)
  dialR : ∀ t, s.rc t = .dDialing → ∀ u, ¬ rPostR (s.rc u)
  dialOnce : ∀ t, s.rc t = .dDialing → s.closeOnce ≠ .done
  ghostDial : s.dialsAfterReturn = 0
  -- connection ids and recoveries per connection
  fresh : s.cur < s.nconn
  preLt1 : ∀ t c, s.notif t = .setDo c → c < s.nconn
  preLt2 : ∀ t c, s.notif t = .setAt c → c < s.nconn
  preLt3 : ∀ t c, s.notif t = .unlock1 c → c < s.nconn
  preLt4 : ∀ t c, s.notif t = .spawn c → c < s.nconn
  spawnedLt : ∀ c, 0 < s.spawns c → c < s.nconn
  spawnOnce : s.closedSig = false → ∀ c, s.spawns c ≤ 1
  spawnsOpenLe : ∀ c, s.spawnsOpen c ≤ s.spawns c
  spawnsOpenOnce : ∀ c, s.spawnsOpen c ≤ 1
  idleFresh : s.closedSig = false → s.reconn = false → s.spawns s.cur = 0
  pend1 : ∀ t c, s.notif t = .setDo c → s.closedSig = false → s.spawns c = 0
  pend2 : ∀ t c, s.notif t = .setAt c → s.closedSig = false → s.spawns c = 0
  pend3 : ∀ t c, s.notif t = .unlock1 c → s.closedSig = false → s.spawns c = 0
  pend4 : ∀ t c, s.notif t = .spawn c → s.closedSig = false → s.spawns c = 0
  clrFresh : ∀ t, isClr (s.notif t) → s.closedSig = false → s.spawns s.cur = 0
  instFresh : ∀ t, rInstalled (s.rc t) → s.spawns s.cur = 0
  -- goroutines started after the signal never attempt
  lateSig : ∀ t, s.late t = true → s.closedSig = true
  ghostLate : s.lateAttempts = 0
  -- fast path
  fastDone : ∀ t, s.fastTaken t = true → s.notif t = .done
  ghostFast : s.fastLockReqs = 0
  -- after-reconnect callback
  guardOpen : ∀ t, s.rc t = .cb → s.guardSaw t = false
  dialSigCb : ∀ t, s.rc t = .cb → s.sigAtDial t = false
  dialSig : ∀ t, rAttemptOk (s.rc t) → s.sigAtDial t = true → s.closedSig = true
  ghostGuard : s.afterUnguarded = 0
  ghostClosedDial : s.afterClosedDial = 0

theorem inv_init (m : Nat) : RInv (init m) := by
  constructor <;> simp [init, ownsAny, ownsDo, ownsAt, isWaitRC, isClr, nHoldsW, rHoldsW,
    rInBody, rNeedsSig, rPostR, rInstalled, rAttemptOk, cInBody, cPreR, nMid]

/-- close one preservation goal: open the invariant, one goal per clause, normalise the updates, grind -/
macro "rgrind" : tactic => `(tactic|
  grind [ownsAny, ownsDo, ownsAt, isWaitRC, isClr, nHoldsW, nMid, rHoldsW, rInBody, rNeedsSig,
    rPostR, rInstalled, rAttemptOk, cInBody, cPreR,
    do_any, at_any, wait_do, wait_at, wait_any, any_do_or_w, clr_any,
    clr_not_wait, postR_sig, fin_cases, inst_live, attempt_inst])

macro "rclose" h:ident : tactic => `(tactic|
  (cases $h:ident; constructor <;> (try simp only [upd]) <;> (first | assumption | (intros; rgrind))))

/-! ### preservation, one lemma per action -/

-- the pc / branch hypotheses are consumed by `grind`, not named in the proofs
set_option linter.unusedVariables false

theorem pres_n_idle_occ (s : St) (t : Nat) (c : Nat) (hp : s.notif t = .idle) (h : RInv s) :
    RInv { s with notif := upd s.notif t (.occ c) } := by
  rclose h

theorem pres_n_idle_direct (s : St) (t : Nat) (c : Nat) (hp : s.notif t = .idle) (h : RInv s) :
    RInv { s with notif := upd s.notif t (.enter c) } := by
  rclose h

theorem pres_n_occ_closed (s : St) (t : Nat) (c : Nat) (hp : s.notif t = .occ c) (hc : s.closedSig = true) (h : RInv s) :
    RInv { s with notif := upd s.notif t .done } := by
  rclose h

theorem pres_n_occ_open (s : St) (t : Nat) (c : Nat) (hp : s.notif t = .occ c) (hc : ¬ s.closedSig = true) (h : RInv s) :
    RInv { s with notif := upd s.notif t (.enter c) } := by
  rclose h

theorem pres_n_enter_closed (s : St) (t : Nat) (c : Nat) (hp : s.notif t = .enter c) (hc : s.closedSig = true) (h : RInv s) :
    RInv { s with notif := upd s.notif t .done } := by
  rclose h

theorem pres_n_enter_open (s : St) (t : Nat) (c : Nat) (hp : s.notif t = .enter c) (hc : ¬ s.closedSig = true) (h : RInv s) :
    RInv { s with notif := upd s.notif t (.fast c) } := by
  rclose h

theorem pres_n_fast_hit (s : St) (t : Nat) (c : Nat) (hp : s.notif t = .fast c) (hc : s.recovering = true) (h : RInv s) :
    RInv { s with notif := upd s.notif t .done, fastTaken := upd s.fastTaken t true } := by
  rclose h

theorem pres_n_fast_miss (s : St) (t : Nat) (c : Nat) (hp : s.notif t = .fast c) (hc : ¬ s.recovering = true) (h : RInv s) :
    RInv { s with notif := upd s.notif t (.wantW c) } := by
  rclose h

theorem pres_n_wantW (s : St) (t : Nat) (c : Nat) (hp : s.notif t = .wantW c) (hw : ¬ (s.writer = true ∨ s.readers ≠ 0)) (h : RInv s) :
    RInv { s with writer := true, notif := upd s.notif t (.locked c), fastLockReqs := if s.fastTaken t then s.fastLockReqs + 1 else s.fastLockReqs } := by
  rclose h

theorem pres_n_locked_skip (s : St) (t : Nat) (c : Nat) (hp : s.notif t = .locked c) (hc : (s.reconn || s.cur != c) = true) (h : RInv s) :
    RInv { s with notif := upd s.notif t .skipUnlock } := by
  rclose h

theorem pres_n_locked_win (s : St) (t : Nat) (c : Nat) (hp : s.notif t = .locked c) (hc : ¬ (s.reconn || s.cur != c) = true) (h : RInv s) :
    RInv { s with notif := upd s.notif t (.setDo c) } := by
  rclose h

theorem pres_n_skipUnlock (s : St) (t : Nat) (hp : s.notif t = .skipUnlock) (h : RInv s) :
    RInv { s with writer := false, notif := upd s.notif t .done } := by
  rclose h

theorem pres_n_setDo (s : St) (t : Nat) (c : Nat) (hp : s.notif t = .setDo c) (h : RInv s) :
    RInv { s with reconn := true, notif := upd s.notif t (.setAt c) } := by
  rclose h

theorem pres_n_setAt (s : St) (t : Nat) (c : Nat) (hp : s.notif t = .setAt c) (h : RInv s) :
    RInv { s with recovering := true, notif := upd s.notif t (.unlock1 c) } := by
  rclose h

theorem pres_n_unlock1 (s : St) (t : Nat) (c : Nat) (hp : s.notif t = .unlock1 c) (h : RInv s) :
    RInv { s with writer := false, notif := upd s.notif t (.spawn c) } := by
  rclose h

set_option maxHeartbeats 1000000 in
theorem pres_n_spawn (s : St) (t : Nat) (c : Nat) (hp : s.notif t = .spawn c) (h : RInv s) :
    RInv { s with rc := upd s.rc t .top, notif := upd s.notif t (.waitRC c), spawns := upd s.spawns c (s.spawns c + 1), spawnsOpen := upd s.spawnsOpen c (if s.closedSig then s.spawnsOpen c else s.spawnsOpen c + 1), late := upd s.late t s.closedSig } := by
  rclose h

theorem pres_n_waitRC (s : St) (t : Nat) (c : Nat) (e : Exit) (hp : s.notif t = .waitRC c) (hf : s.rc t = .fin e) (h : RInv s) :
    RInv { s with rc := upd s.rc t .none, notif := upd s.notif t (.wantW2 c) } := by
  rclose h

theorem pres_n_wantW2 (s : St) (t : Nat) (c : Nat) (hp : s.notif t = .wantW2 c) (hw : ¬ (s.writer = true ∨ s.readers ≠ 0)) (h : RInv s) :
    RInv { s with writer := true, notif := upd s.notif t (.clrDo c), fastLockReqs := if s.fastTaken t then s.fastLockReqs + 1 else s.fastLockReqs } := by
  rclose h

theorem pres_n_clrDo (s : St) (t : Nat) (c : Nat) (hp : s.notif t = .clrDo c) (h : RInv s) :
    RInv { s with reconn := false, notif := upd s.notif t (.clrAt c) } := by
  rclose h

theorem pres_n_clrAt (s : St) (t : Nat) (c : Nat) (hp : s.notif t = .clrAt c) (h : RInv s) :
    RInv { s with recovering := false, notif := upd s.notif t (.unlock2 c) } := by
  rclose h

theorem pres_n_unlock2 (s : St) (t : Nat) (c : Nat) (hp : s.notif t = .unlock2 c) (h : RInv s) :
    RInv { s with writer := false, notif := upd s.notif t .done } := by
  rclose h

theorem pres_r_top_closed (s : St) (t : Nat) (hp : s.rc t = .top) (hc : s.closedSig = true) (h : RInv s) :
    RInv { s with rc := upd s.rc t (.fin .closed) } := by
  rclose h

theorem pres_r_top_open (s : St) (t : Nat) (hp : s.rc t = .top) (hc : ¬ s.closedSig = true) (h : RInv s) :
    RInv { s with rc := upd s.rc t .chkMax, lateAttempts := if s.late t then s.lateAttempts + 1 else s.lateAttempts } := by
  rclose h

theorem pres_r_chkMax_hit (s : St) (t : Nat) (hp : s.rc t = .chkMax) (h : RInv s) :
    RInv { s with rc := upd s.rc t .hmOnce } := by
  rclose h

theorem pres_r_chkMax_go (s : St) (t : Nat) (hp : s.rc t = .chkMax) (h : RInv s) :
    RInv { s with count := s.count + 1, rc := upd s.rc t .oWantR } := by
  rclose h

theorem pres_r_oWantR (s : St) (t : Nat) (hp : s.rc t = .oWantR) (hw : ¬ s.writer = true) (h : RInv s) :
    RInv { s with readers := s.readers + 1, rc := upd s.rc t .oInR, rdOld := s.rdOld + 1 } := by
  rclose h

theorem pres_r_oInR (s : St) (t : Nat) (hp : s.rc t = .oInR) (h : RInv s) :
    RInv { s with readers := s.readers - 1, rc := upd s.rc t .closeOld, rdOld := s.rdOld - 1 } := by
  rclose h

theorem pres_r_closeOld (s : St) (t : Nat) (hp : s.rc t = .closeOld) (h : RInv s) :
    RInv { s with rc := upd s.rc t .dWantW } := by
  rclose h

theorem pres_r_dWantW (s : St) (t : Nat) (hp : s.rc t = .dWantW) (hw : ¬ (s.writer = true ∨ s.readers ≠ 0)) (h : RInv s) :
    RInv { s with writer := true, rc := upd s.rc t .dCheck } := by
  rclose h

theorem pres_r_dCheck_closed (s : St) (t : Nat) (hp : s.rc t = .dCheck) (hc : s.closedSig = true) (h : RInv s) :
    RInv { s with rc := upd s.rc t .dUnlockFail } := by
  rclose h

theorem pres_r_dCheck_open (s : St) (t : Nat) (hp : s.rc t = .dCheck) (hc : ¬ s.closedSig = true) (h : RInv s) :
    RInv { s with rc := upd s.rc t .dDialing } := by
  rclose h

theorem pres_r_dial_ok (s : St) (t : Nat) (hp : s.rc t = .dDialing) (h : RInv s) :
    RInv { s with cur := s.nconn, nconn := s.nconn + 1, rc := upd s.rc t .dUnlockOk, sigAtDial := upd s.sigAtDial t s.closedSig, dialsAfterReturn := if s.anyReturned then s.dialsAfterReturn + 1 else s.dialsAfterReturn } := by
  rclose h

theorem pres_r_dial_fail (s : St) (t : Nat) (hp : s.rc t = .dDialing) (h : RInv s) :
    RInv { s with cur := 0, rc := upd s.rc t .dUnlockFail } := by
  rclose h

theorem pres_r_dUnlockOk (s : St) (t : Nat) (hp : s.rc t = .dUnlockOk) (h : RInv s) :
    RInv { s with writer := false, rc := upd s.rc t .auth } := by
  rclose h

theorem pres_r_dUnlockFail (s : St) (t : Nat) (hp : s.rc t = .dUnlockFail) (h : RInv s) :
    RInv { s with writer := false, rc := upd s.rc t .sleep } := by
  rclose h

theorem pres_r_auth_ok (s : St) (t : Nat) (resume : Bool) (hp : s.rc t = .auth) (h : RInv s) :
    RInv { s with count := if resume then 0 else s.count, rc := upd s.rc t .cbTest } := by
  rclose h

theorem pres_r_auth_fail (s : St) (t : Nat) (hp : s.rc t = .auth) (h : RInv s) :
    RInv { s with rc := upd s.rc t .sleep } := by
  rclose h

theorem pres_r_sleep (s : St) (t : Nat) (hp : s.rc t = .sleep) (h : RInv s) :
    RInv { s with rc := upd s.rc t .top } := by
  rclose h

theorem pres_r_cbTest_closed (s : St) (t : Nat) (hp : s.rc t = .cbTest) (hc : s.closedSig = true) (h : RInv s) :
    RInv { s with rc := upd s.rc t (.fin .success), guardSaw := upd s.guardSaw t true } := by
  rclose h

theorem pres_r_cbTest_open (s : St) (t : Nat) (hp : s.rc t = .cbTest) (hc : ¬ s.closedSig = true) (h : RInv s) :
    RInv { s with rc := upd s.rc t .cb, guardSaw := upd s.guardSaw t false } := by
  rclose h

theorem pres_r_cb (s : St) (t : Nat) (hp : s.rc t = .cb) (h : RInv s) :
    RInv { s with rc := upd s.rc t (.fin .success), afterCalls := s.afterCalls + 1, afterUnguarded := if s.guardSaw t then s.afterUnguarded + 1 else s.afterUnguarded, afterClosedDial := if s.sigAtDial t then s.afterClosedDial + 1 else s.afterClosedDial, afterAfterReturn := if s.anyReturned then s.afterAfterReturn + 1 else s.afterAfterReturn } := by
  rclose h

theorem pres_r_hmOnce_free (s : St) (t : Nat) (hp : s.rc t = .hmOnce) (ho : s.closeOnce = .free) (h : RInv s) :
    RInv { s with closeOnce := .heldR t, rc := upd s.rc t .hmSignal } := by
  rclose h

theorem pres_r_hmOnce_done (s : St) (t : Nat) (hp : s.rc t = .hmOnce) (ho : s.closeOnce = .done) (h : RInv s) :
    RInv { s with rc := upd s.rc t (.fin .hitmax), anyReturned := true, hitmaxExits := s.hitmaxExits + 1 } := by
  rclose h

theorem pres_r_hmSignal (s : St) (t : Nat) (hp : s.rc t = .hmSignal) (h : RInv s) :
    RInv { s with closedSig := true, rc := upd s.rc t .hmWantR } := by
  rclose h

theorem pres_r_hmWantR (s : St) (t : Nat) (hp : s.rc t = .hmWantR) (hw : ¬ s.writer = true) (h : RInv s) :
    RInv { s with readers := s.readers + 1, rc := upd s.rc t .hmInR, rdOnce := s.rdOnce + 1 } := by
  rclose h

theorem pres_r_hmInR (s : St) (t : Nat) (hp : s.rc t = .hmInR) (h : RInv s) :
    RInv { s with rc := upd s.rc t .hmUnlockR } := by
  rclose h

theorem pres_r_hmUnlockR (s : St) (t : Nat) (hp : s.rc t = .hmUnlockR) (h : RInv s) :
    RInv { s with readers := s.readers - 1, rc := upd s.rc t .hmCb, rdOnce := s.rdOnce - 1 } := by
  rclose h

theorem pres_r_hmCb (s : St) (t : Nat) (hp : s.rc t = .hmCb) (h : RInv s) :
    RInv { s with onCloseCalls := s.onCloseCalls + 1, rc := upd s.rc t .hmFinish } := by
  rclose h

theorem pres_r_hmFinish (s : St) (t : Nat) (hp : s.rc t = .hmFinish) (h : RInv s) :
    RInv { s with closeOnce := .done, rc := upd s.rc t (.fin .hitmax), anyReturned := true, hitmaxExits := s.hitmaxExits + 1 } := by
  rclose h

theorem pres_c_start_free (s : St) (t : Nat) (hp : s.closer t = .start) (ho : s.closeOnce = .free) (h : RInv s) :
    RInv { s with closeOnce := .heldC t, closer := upd s.closer t .signal } := by
  rclose h

theorem pres_c_start_done (s : St) (t : Nat) (hp : s.closer t = .start) (ho : s.closeOnce = .done) (h : RInv s) :
    RInv { s with closer := upd s.closer t .ret, anyReturned := true } := by
  rclose h

theorem pres_c_signal (s : St) (t : Nat) (hp : s.closer t = .signal) (h : RInv s) :
    RInv { s with closedSig := true, closer := upd s.closer t .wantR } := by
  rclose h

theorem pres_c_wantR (s : St) (t : Nat) (hp : s.closer t = .wantR) (hw : ¬ s.writer = true) (h : RInv s) :
    RInv { s with readers := s.readers + 1, closer := upd s.closer t .inR, rdOnce := s.rdOnce + 1 } := by
  rclose h

theorem pres_c_inR (s : St) (t : Nat) (hp : s.closer t = .inR) (h : RInv s) :
    RInv { s with closer := upd s.closer t .unlockR } := by
  rclose h

theorem pres_c_unlockR (s : St) (t : Nat) (hp : s.closer t = .unlockR) (h : RInv s) :
    RInv { s with readers := s.readers - 1, closer := upd s.closer t .cb, rdOnce := s.rdOnce - 1 } := by
  rclose h

theorem pres_c_cb (s : St) (t : Nat) (hp : s.closer t = .cb) (h : RInv s) :
    RInv { s with onCloseCalls := s.onCloseCalls + 1, closer := upd s.closer t .finish } := by
  rclose h

theorem pres_c_finish (s : St) (t : Nat) (hp : s.closer t = .finish) (h : RInv s) :
    RInv { s with closeOnce := .done, closer := upd s.closer t .ret, anyReturned := true } := by
  rclose h


set_option linter.unusedVariables true

/-! ### every step, every run -/

/-- finish a branch of the step function: the post-state is the one written in the lemma -/
macro "fin_step" hs:ident : tactic => `(tactic| (simp only [Option.some.injEq] at $hs:ident; subst $hs:ident))

theorem inv_stepN (s s' : St) (t c : Nat) (occ : Bool) (h : RInv s) (hs : stepN s t c occ = some s') : RInv s' := by
  unfold stepN at hs
  split at hs
  · rename_i hp; split at hs <;> fin_step hs
    · exact pres_n_idle_occ s t c hp h
    · exact pres_n_idle_direct s t c hp h
  · rename_i c' hp; split at hs <;> rename_i hc <;> fin_step hs
    · exact pres_n_occ_closed s t c' hp hc h
    · exact pres_n_occ_open s t c' hp hc h
  · rename_i c' hp; split at hs <;> rename_i hc <;> fin_step hs
    · exact pres_n_enter_closed s t c' hp hc h
    · exact pres_n_enter_open s t c' hp hc h
  · rename_i c' hp; split at hs <;> rename_i hc <;> fin_step hs
    · exact pres_n_fast_hit s t c' hp hc h
    · exact pres_n_fast_miss s t c' hp hc h
  · rename_i c' hp; split at hs
    · cases hs
    · rename_i hw; fin_step hs; exact pres_n_wantW s t c' hp hw h
  · rename_i c' hp; split at hs <;> rename_i hc <;> fin_step hs
    · exact pres_n_locked_skip s t c' hp hc h
    · exact pres_n_locked_win s t c' hp hc h
  · rename_i hp; fin_step hs; exact pres_n_skipUnlock s t hp h
  · rename_i c' hp; fin_step hs; exact pres_n_setDo s t c' hp h
  · rename_i c' hp; fin_step hs; exact pres_n_setAt s t c' hp h
  · rename_i c' hp; fin_step hs; exact pres_n_unlock1 s t c' hp h
  · rename_i c' hp; fin_step hs; exact pres_n_spawn s t c' hp h
  · rename_i c' hp; split at hs
    · rename_i e hf; fin_step hs; exact pres_n_waitRC s t c' e hp hf h
    · cases hs
  · rename_i c' hp; split at hs
    · cases hs
    · rename_i hw; fin_step hs; exact pres_n_wantW2 s t c' hp hw h
  · rename_i c' hp; fin_step hs; exact pres_n_clrDo s t c' hp h
  · rename_i c' hp; fin_step hs; exact pres_n_clrAt s t c' hp h
  · rename_i c' hp; fin_step hs; exact pres_n_unlock2 s t c' hp h
  · cases hs

theorem inv_stepR (s s' : St) (t : Nat) (ok resume : Bool) (h : RInv s) (hs : stepR s t ok resume = some s') : RInv s' := by
  unfold stepR at hs
  split at hs
  · cases hs
  · rename_i hp; split at hs <;> rename_i hc <;> fin_step hs
    · exact pres_r_top_closed s t hp hc h
    · exact pres_r_top_open s t hp hc h
  · rename_i hp; split at hs <;> fin_step hs
    · exact pres_r_chkMax_hit s t hp h
    · exact pres_r_chkMax_go s t hp h
  · rename_i hp; split at hs
    · cases hs
    · rename_i hw; fin_step hs; exact pres_r_oWantR s t hp hw h
  · rename_i hp; fin_step hs; exact pres_r_oInR s t hp h
  · rename_i hp; fin_step hs; exact pres_r_closeOld s t hp h
  · rename_i hp; split at hs
    · cases hs
    · rename_i hw; fin_step hs; exact pres_r_dWantW s t hp hw h
  · rename_i hp; split at hs <;> rename_i hc <;> fin_step hs
    · exact pres_r_dCheck_closed s t hp hc h
    · exact pres_r_dCheck_open s t hp hc h
  · rename_i hp; split at hs <;> fin_step hs
    · exact pres_r_dial_ok s t hp h
    · exact pres_r_dial_fail s t hp h
  · rename_i hp; fin_step hs; exact pres_r_dUnlockOk s t hp h
  · rename_i hp; fin_step hs; exact pres_r_dUnlockFail s t hp h
  · rename_i hp; split at hs <;> fin_step hs
    · exact pres_r_auth_ok s t resume hp h
    · exact pres_r_auth_fail s t hp h
  · rename_i hp; fin_step hs; exact pres_r_sleep s t hp h
  · rename_i hp; split at hs <;> rename_i hc <;> fin_step hs
    · exact pres_r_cbTest_closed s t hp hc h
    · exact pres_r_cbTest_open s t hp hc h
  · rename_i hp; fin_step hs; exact pres_r_cb s t hp h
  · rename_i hp; split at hs
    · rename_i ho; fin_step hs; exact pres_r_hmOnce_free s t hp ho h
    · rename_i ho; fin_step hs; exact pres_r_hmOnce_done s t hp ho h
    · cases hs
  · rename_i hp; fin_step hs; exact pres_r_hmSignal s t hp h
  · rename_i hp; split at hs
    · cases hs
    · rename_i hw; fin_step hs; exact pres_r_hmWantR s t hp hw h
  · rename_i hp; fin_step hs; exact pres_r_hmInR s t hp h
  · rename_i hp; fin_step hs; exact pres_r_hmUnlockR s t hp h
  · rename_i hp; fin_step hs; exact pres_r_hmCb s t hp h
  · rename_i hp; fin_step hs; exact pres_r_hmFinish s t hp h
  · cases hs

theorem inv_stepC (s s' : St) (t : Nat) (h : RInv s) (hs : stepC s t = some s') : RInv s' := by
  unfold stepC at hs
  split at hs
  · rename_i hp; split at hs
    · rename_i ho; fin_step hs; exact pres_c_start_free s t hp ho h
    · rename_i ho; fin_step hs; exact pres_c_start_done s t hp ho h
    · cases hs
  · rename_i hp; fin_step hs; exact pres_c_signal s t hp h
  · rename_i hp; split at hs
    · cases hs
    · rename_i hw; fin_step hs; exact pres_c_wantR s t hp hw h
  · rename_i hp; fin_step hs; exact pres_c_inR s t hp h
  · rename_i hp; fin_step hs; exact pres_c_unlockR s t hp h
  · rename_i hp; fin_step hs; exact pres_c_cb s t hp h
  · rename_i hp; fin_step hs; exact pres_c_finish s t hp h
  · cases hs

theorem inv_step (s s' : St) (a : Act) (h : RInv s) (hs : step s a = some s') : RInv s' := by
  cases a with
  | n t c occ => exact inv_stepN s s' t c occ h hs
  | r t ok resume => exact inv_stepR s s' t ok resume h hs
  | c t => exact inv_stepC s s' t h hs

theorem inv_run (acts : List Act) : ∀ s s', RInv s → run s acts = some s' → RInv s' := by
  induction acts with
  | nil => intro s s' h hr; simp [run] at hr; subst hr; exact h
  | cons a as ih =>
    intro s s' h hr
    simp only [run] at hr
    cases hst : step s a with
    | none => simp [hst] at hr
    | some s1 => simp [hst] at hr; exact ih s1 s' (inv_step s s1 a h hst) hr

theorem inv_reach (m : Nat) (acts : List Act) (s : St) (h : run (init m) acts = some s) : RInv s :=
  inv_run acts (init m) s (inv_init m) h

/-! ### the theorems, for every interleaving and every MaxReconnect -/

/-- 1. SINGLE FLIGHT: at most one retry-goroutine slot is occupied (running, or finished and not yet received from) -/
theorem single_flight (m : Nat) (acts : List Act) (s : St) (h : run (init m) acts = some s) (t u : Nat)
    (ht : rLive (s.rc t)) (hu : rLive (s.rc u)) : t = u := by
  have i := inv_reach m acts s h
  have a1 : s.rc t ≠ .none := by intro e; rw [e] at ht; exact ht
  have a2 : s.rc u ≠ .none := by intro e; rw [e] at hu; exact hu
  exact i.ownUniq t u (wait_any _ (i.rcOwner t a1)) (wait_any _ (i.rcOwner u a2))

/-- 2 (strongest true variant). ONE RECOVERY PER LOSS, as far as it holds of the code:
    (a) while the client is open, at most one retry goroutine has been started for a connection;
    (b) over the whole run, at most one was started for it before the close signal;
    (c) a goroutine started after the close signal never calls `reconnect()` (it leaves at its first `closed()` test). -/
theorem one_recovery_per_loss_partial (m : Nat) (acts : List Act) (s : St) (h : run (init m) acts = some s) (c : Nat) :
    (s.closedSig = false → s.spawns c ≤ 1) ∧ s.spawnsOpen c ≤ 1 ∧ s.lateAttempts = 0 := by
  have i := inv_reach m acts s h
  exact ⟨fun ho => i.spawnOnce ho c, i.spawnsOpenOnce c, i.ghostLate⟩

/-- 3. THE ATOMIC MIRROR: whenever nobody holds the write lock `recovering` equals `doReconnectting` … -/
theorem flag_agrees (m : Nat) (acts : List Act) (s : St) (h : run (init m) acts = some s) :
    s.writer = false → s.recovering = s.reconn :=
  (inv_reach m acts s h).agree

/-- … and the exact relation while it is held: the flags differ only while the lock holder is a notifier between its
    two stores, and then `doReconnectting` is the one already written -/
theorem flag_agrees_locked (m : Nat) (acts : List Act) (s : St) (h : run (init m) acts = some s) :
    (∀ t, nHoldsW (s.notif t) → nMid (s.notif t) ∨ s.recovering = s.reconn) ∧
    (∀ t, rHoldsW (s.rc t) → s.recovering = s.reconn) ∧
    (∀ t c, s.notif t = .setAt c → s.reconn = true ∧ s.recovering = false) ∧
    (∀ t c, s.notif t = .clrAt c → s.reconn = false ∧ s.recovering = true) := by
  have i := inv_reach m acts s h
  exact ⟨i.agreeN, i.agreeR, i.midSet, i.midClr⟩

/-- 4. FAST PATH: a notifier that read `recovering = 1` has returned and never acquired the write lock in that call -/
theorem fast_path_no_lock (m : Nat) (acts : List Act) (s : St) (h : run (init m) acts = some s) :
    s.fastLockReqs = 0 ∧ ∀ t, s.fastTaken t = true → s.notif t = .done := by
  have i := inv_reach m acts s h
  exact ⟨i.ghostFast, i.fastDone⟩

/-- 5. CLOSE IS FINAL: no dial installs a connection after some Close call (user's or the hit-max one) has returned -/
theorem no_dial_after_close_returned (m : Nat) (acts : List Act) (s : St) (h : run (init m) acts = some s) :
    s.dialsAfterReturn = 0 :=
  (inv_reach m acts s h).ghostDial

/-- 6. the close callback runs at most once, whatever the race between user Close calls and the hit-max Close -/
theorem on_close_at_most_once (m : Nat) (acts : List Act) (s : St) (h : run (init m) acts = some s) :
    s.onCloseCalls ≤ 1 := by
  have i := inv_reach m acts s h
  cases ho : s.closeOnce with
  | free => rw [i.callsFree ho]; omega
  | heldC t => rw [i.callsHeldC t ho]; split <;> omega
  | heldR t => rw [i.callsHeldR t ho]; split <;> omega
  | done => rw [i.callsDone ho]; omega

/-- 7. every after-reconnect callback was preceded, in the same goroutine and after its successful `reconnect()`,
    by a `closed()` test that returned false -/
theorem after_cb_guarded (m : Nat) (acts : List Act) (s : St) (h : run (init m) acts = some s) :
    s.afterUnguarded = 0 ∧ ∀ t, s.rc t = .cb → s.guardSaw t = false := by
  have i := inv_reach m acts s h
  exact ⟨i.ghostGuard, i.guardOpen⟩

/-- 7'. consequence: if the close signal was already set when the attempt's dial installed its connection,
    no callback runs for that attempt -/
theorem after_cb_not_after_closed_dial (m : Nat) (acts : List Act) (s : St) (h : run (init m) acts = some s) :
    s.afterClosedDial = 0 ∧ ∀ t, s.rc t = .cb → s.sigAtDial t = false := by
  have i := inv_reach m acts s h
  exact ⟨i.ghostClosedDial, i.dialSigCb⟩

/-- 8. a goroutine that has left through the hit-max branch leaves the close signal set and the close callback run
    exactly once (by itself, or by the Close caller it waited for) -/
theorem hitmax_closes (m : Nat) (acts : List Act) (s : St) (h : run (init m) acts = some s) :
    (∀ t, s.rc t = .fin .hitmax → s.closedSig = true ∧ s.onCloseCalls = 1) ∧
    (0 < s.hitmaxExits → s.closedSig = true ∧ s.onCloseCalls = 1) := by
  have i := inv_reach m acts s h
  exact ⟨fun t ht => ⟨i.doneSig (i.hmDone t ht), i.callsDone (i.hmDone t ht)⟩,
         fun hx => ⟨i.doneSig (i.hmExits hx), i.callsDone (i.hmExits hx)⟩⟩

/-- sanity of the lock model: while the write lock is held nobody is inside a read-locked section -/
theorem rw_exclusion (m : Nat) (acts : List Act) (s : St) (h : run (init m) acts = some s) (hw : s.writer = true) :
    (∀ t, s.closer t ≠ .inR ∧ s.closer t ≠ .unlockR) ∧
    (∀ t, s.rc t ≠ .oInR ∧ s.rc t ≠ .hmInR ∧ s.rc t ≠ .hmUnlockR) := by
  have i := inv_reach m acts s h
  have h0 := i.wExcl hw
  have h1 := i.rdSum
  refine ⟨fun t => ?_, fun t => ?_⟩
  · have a := i.onceC t
    have b := i.rdHeldC t
    grind [cInBody]
  · have a := i.onceR t
    have b := i.rdHeldR t
    have c := i.rcOwner t
    have d := i.rdOldOwner t
    grind [rInBody, wait_any]

/-! ### non-vacuity: concrete runs -/

def ns (t c k : Nat) : List Act := List.replicate k (.n t c false)
def rs (t : Nat) (ok resume : Bool) (k : Nat) : List Act := List.replicate k (.r t ok resume)
def cs (t k : Nat) : List Act := List.replicate k (.c t)

/-- notifier 7 reports connection 1 and starts the recovery; notifier 9 (through onConnClose) reads `recovering = 1`
    and returns; the first dial fails (conn = nil), the second installs connection 2, the resume succeeds, the callback
    runs; notifier 7 clears the flags; a late notifier 11 for connection 1 is turned away by the guard. -/
def demoA : List Act :=
  ns 7 1 9 ++                                    -- … → waitRC, goroutine started
  [.n 9 1 true] ++ ns 9 1 3 ++                   -- onConnClose: open; reconnecting: open; fast path → done
  rs 7 false false 10 ++                         -- attempt 1: dial fails, sleep, back to the top
  rs 7 true true 12 ++                           -- attempt 2: dial ok, resume ok, guard open, callback, finished
  ns 7 1 5 ++                                    -- receive, Lock, clear both flags, Unlock
  ns 11 1 6                                      -- stale report: Lock, guard `c.conn != conn`, Unlock

example : (run (init 0) demoA).map (fun s => (s.cur, s.spawns 1, s.afterCalls)) = some (2, 1, 1) := by decide
example : (run (init 0) demoA).map (fun s => (s.reconn, s.recovering, s.writer)) = some (false, false, false) := by decide
example : (run (init 0) demoA).map (fun s => (s.fastTaken 9, s.fastLockReqs, s.count)) = some (true, 0, 0) := by decide
example : (run (init 0) demoA).map (fun s => (s.notif 7, s.notif 9, s.notif 11)) = some (.done, .done, .done) := by decide
/-- single flight is not vacuous: in the middle of that run the slot of notifier 7 is occupied -/
example : (run (init 0) (ns 7 1 9 ++ [.n 9 1 true] ++ ns 9 1 3 ++ rs 7 false false 8)).map
    (fun s => (s.rc 7, s.rc 9, s.cur)) = some (.dUnlockFail, .none, 0) := by decide
/-- the flags differ between the two stores, under the write lock -/
example : (run (init 0) (ns 7 1 6)).map (fun s => (s.reconn, s.recovering, s.writer)) = some (true, false, true) := by decide

/-- Close races with a dial that has already seen the signal open: Close sets the signal and then BLOCKS on the
    read lock; the dial installs connection 2 (legitimately: no Close has returned), Close then closes it and
    returns; the goroutine's guard sees the signal: no callback. -/
def demoB1 : List Act := ns 7 1 9 ++ rs 7 true false 7 ++ cs 5 2      -- goroutine in dDialing, Close at wantR
def demoB : List Act :=
  demoB1 ++ rs 7 true false 2 ++                  -- dial ok: cur := 2; Unlock
  cs 5 5 ++                                       -- RLock, close conn 2, RUnlock, callback, return
  rs 7 true false 2 ++                            -- auth ok; guard closed → finished without callback
  ns 7 1 5

example : (run (init 0) demoB1).map (fun s => (s.rc 7, s.closer 5, s.closedSig)) = some (.dDialing, .wantR, true) := by decide
example : (run (init 0) (demoB1 ++ [.c 5])).isNone = true := by decide
example : (run (init 0) demoB).map (fun s => (s.cur, s.dialsAfterReturn, s.anyReturned)) = some (2, 0, true) := by decide
example : (run (init 0) demoB).map (fun s => (s.afterCalls, s.onCloseCalls, s.rc 7)) = some (0, 1, .none) := by decide
/-- this is the situation of `after_cb_not_after_closed_dial`: the signal was set when the dial installed its connection -/
example : (run (init 0) demoB).map (fun s => (s.sigAtDial 7, s.guardSaw 7, s.afterClosedDial)) = some (true, true, 0) := by decide

/-- Close returns while the goroutine is between closing the old connection and `dial`: `dial` takes the lock, sees the
    signal and fails WITHOUT dialling (c.conn stays 1); the loop leaves at its next `closed()` test. -/
def demoB2 : List Act :=
  ns 7 1 9 ++ rs 7 true false 5 ++ cs 5 7 ++ rs 7 true false 5 ++ ns 7 1 5
example : (run (init 0) demoB2).map (fun s => (s.cur, s.dialsAfterReturn, s.anyReturned)) = some (1, 0, true) := by decide
example : (run (init 0) (ns 7 1 9 ++ rs 7 true false 5 ++ cs 5 7 ++ rs 7 true false 5)).map
    (fun s => (s.rc 7, s.nconn, s.onCloseCalls)) = some (.fin .closed, 2, 1) := by decide

/-- hit-max (MaxReconnect = 1) racing a user Close: the user takes the Once first, the goroutine's nested Close blocks
    on it, then returns without running the callback a second time. -/
def demoC1 : List Act := ns 7 1 9 ++ rs 7 false false 10 ++ rs 7 false false 2 ++ cs 5 1   -- count = 1 ≥ 1: hmOnce; user holds the Once
def demoC : List Act := demoC1 ++ cs 5 6 ++ rs 7 false false 1 ++ ns 7 1 5
example : (run (init 1) demoC1).map (fun s => (s.rc 7, s.closeOnce, s.count)) = some (.hmOnce, .heldC 5, 1) := by decide
example : (run (init 1) (demoC1 ++ [.r 7 false false])).isNone = true := by decide
example : (run (init 1) demoC).map (fun s => (s.hitmaxExits, s.onCloseCalls, s.closedSig)) = some (1, 1, true) := by decide
example : (run (init 1) demoC).map (fun s => (s.notif 7, s.closer 5, s.reconn)) = some (.done, .ret, false) := by decide

/-- hit-max alone: the goroutine runs the whole Close procedure itself; a later user Close finds the Once done. -/
def demoC2 : List Act := ns 7 1 9 ++ rs 7 false false 10 ++ rs 7 false false 2 ++ rs 7 false false 7 ++ cs 5 1 ++ ns 7 1 5
example : (run (init 1) demoC2).map (fun s => (s.hitmaxExits, s.onCloseCalls, s.closedSig)) = some (1, 1, true) := by decide
example : (run (init 1) (ns 7 1 9 ++ rs 7 false false 10 ++ rs 7 false false 2 ++ rs 7 false false 7)).map
    (fun s => (s.rc 7, s.closeOnce, s.anyReturned)) = some (.fin .hitmax, .done, true) := by decide

/-- THE UNCONDITIONAL `one_recovery_per_loss` IS FALSE OF THE CODE.  Notifier 9 passes `closed()` and the atomic
    fast path before notifier 7 starts the recovery of connection 1; Close sets the signal; the goroutine leaves at
    its first `closed()` test WITHOUT replacing c.conn; notifier 7 clears the flags; notifier 9 now takes the lock and
    finds `doReconnectting = false ∧ c.conn == conn`: it starts a second retry goroutine for connection 1
    (which can only leave at its first `closed()` test: one_recovery_per_loss_partial (c)). -/
def demoD : List Act :=
  ns 9 1 3 ++                                     -- notifier 9: closed() open, recovering = 0 → about to Lock
  ns 7 1 9 ++                                     -- notifier 7 wins, starts goroutine 7
  cs 5 2 ++                                       -- Close: Once, signal
  rs 7 false false 1 ++                           -- goroutine 7: closed → finished
  ns 7 1 5 ++                                     -- notifier 7: receive, clear the flags
  ns 9 1 6 ++                                     -- notifier 9: Lock, guard passes, set flags, Unlock, start goroutine 9
  rs 9 false false 1 ++ ns 9 1 5                  -- goroutine 9: closed → finished; flags cleared

theorem demoD_spawns : (run (init 0) demoD).map (fun s => (s.spawns 1, s.spawnsOpen 1, s.lateAttempts)) = some (2, 1, 0) := by decide
example : (run (init 0) demoD).map (fun s => (s.notif 7, s.notif 9, s.cur)) = some (.done, .done, 1) := by decide

theorem one_recovery_per_loss_false :
    ¬ (∀ (m : Nat) (acts : List Act) (s : St), run (init m) acts = some s → ∀ c, s.spawns c ≤ 1) := by
  intro hall
  have hd := demoD_spawns
  cases hr : run (init 0) demoD with
  | none => simp [hr] at hd
  | some s =>
    have h1 := hall 0 demoD s hr 1
    simp [hr] at hd
    omega

/-- the guard is a test-then-act: the callback CAN run after a Close call has returned (Close runs entirely between
    the `closed()` test and the call) — so `after_cb_guarded` cannot be strengthened to "no callback once closed". -/
def demoE : List Act := ns 7 1 9 ++ rs 7 true false 11 ++ cs 5 7 ++ rs 7 true false 1
example : (run (init 0) demoE).map (fun s => (s.afterCalls, s.afterAfterReturn, s.afterUnguarded)) = some (1, 1, 0) := by decide
example : (run (init 0) demoE).map (fun s => (s.anyReturned, s.onCloseCalls, s.afterClosedDial)) = some (true, 1, 0) := by decide

end OAP.Recovery
